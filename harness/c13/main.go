// C13 — Placement rule updates are all-or-nothing and the key-range index is exact.
//
// Real placement.RuleManager over core.NewStorage(kvx(memory kv)). Random histories of every kind
// of update are applied to it and to an independent reference model (model.go); after every update
// all observables on a fixed probe set are compared (obs.go), a fresh RuleManager is initialised
// from a copy of the storage and must serve the same, and for every accepted update every single
// storage write is failed in turn on a replayed clone: the served observables must not change and
// the same update retried must converge (served == model == reloaded).
package main

import (
	"encoding/json"
	"fmt"
	"io/ioutil"
	"math/rand"
	"os"
	"runtime"
	"strings"
	"sync"
	"sync/atomic"
	"time"

	"github.com/pingcap/log"
	"github.com/tikv/pd/server/core"
	"github.com/tikv/pd/server/kv"
	"github.com/tikv/pd/server/schedule/placement"
	"go.uber.org/zap"
	"verif/harness/lib/ev"
	"verif/harness/lib/kvx"
)

var initLabels = []string{"zone", "host"}

// world is one real rule manager over its own instrumented storage.
type world struct {
	kv *kvx.KV
	m  *placement.RuleManager
}

func newWorld() (*world, error) {
	k := kvx.New(kv.NewMemoryKV())
	k.SetLogging(false)
	m := placement.NewRuleManager(core.NewStorage(k), nil)
	if err := m.Initialize(3, initLabels); err != nil {
		return nil, err
	}
	return &world{kv: k, m: m}, nil
}

// reload initialises a fresh RuleManager ("restarted PD") from a copy of the storage content.
// The copy keeps the served world's storage untouched even if Initialize repairs something.
func (w *world) reload() (m *placement.RuleManager, writes int64, k2 *kvx.KV, err error) {
	mem := kv.NewMemoryKV()
	for k, v := range w.kv.Dump() {
		mem.Save(k, v)
	}
	k2 = kvx.New(mem)
	k2.SetLogging(false)
	m = placement.NewRuleManager(core.NewStorage(k2), nil)
	err = m.Initialize(3, initLabels)
	return m, k2.Writes(), k2, err
}

// initialModel is what a PD that never had placement rules serves: one default rule (documented
// at RuleManager.Initialize).
func initialModel() *model {
	md := newModel()
	r := ruleSpec{Group: "pd", ID: "default", Role: "voter", Count: 3, Labels: initLabels}
	wellFormed(&r, "")
	r.cs = r.canon()
	md.rules[[2]string{"pd", "default"}] = r
	return md
}

type finding struct {
	Key    string                 `json:"key"`
	What   string                 `json:"what"`
	Detail map[string]interface{} `json:"detail,omitempty"`
	fault  bool
}

// safeApply calls the update; a panic inside pd is returned as text.
func safeApply(m *placement.RuleManager, op opSpec) (err error, notFound bool, panicked string) {
	defer func() {
		if p := recover(); p != nil {
			panicked = fmt.Sprint(p)
		}
	}()
	err, notFound = applyReal(m, op)
	return
}

func safeObserve(m *placement.RuleManager) (s *snap, panicked string) {
	defer func() {
		if p := recover(); p != nil {
			panicked = fmt.Sprint(p)
		}
	}()
	return observe(m), ""
}

type stepRec struct {
	Op      opSpec `json:"op"`
	Outcome string `json:"outcome"`
	Writes  int64  `json:"writes"`
}

// runner drives one history.
type runner struct {
	r       *ev.Run // nil: quiet (minimisation), nothing is counted
	g       *gen    // for the evidence-only "failed update, then a different update" probe
	w       *world
	md      *model
	hist    []opSpec // every update executed on w so far (rejected ones too)
	recs    []stepRec
	tainted bool // reload != served was already reported and has not healed
	dead    bool // model and served state cannot be related any more
	modes   []kvx.FaultMode
}

func newRunner(r *ev.Run, g *gen) (*runner, error) {
	w, err := newWorld()
	if err != nil {
		return nil, err
	}
	return &runner{r: r, g: g, w: w, md: initialModel(), modes: []kvx.FaultMode{kvx.FailBefore, kvx.LostAck}}, nil
}

func (x *runner) count(name string, n int64) {
	if x.r != nil {
		x.r.Count(name, n)
	}
}

func errText(err error) string {
	if err == nil {
		return ""
	}
	return err.Error()
}

// suffix marks the one situation that is specific to the get-modify-set client pattern: the rule
// object handed out by GetRule was changed and the update did not succeed, yet GetRule shows the change.
func suffix(op opSpec, d *diff) string {
	if op.Kind == kGetModifySet && d.Observable == "GetRule" {
		if op.Mod.Via != "" {
			return ":get-modify-set[" + op.Mod.Via + "]"
		}
		return ":get-modify-set"
	}
	if (op.Kind == kGetEditSetGroup || op.Kind == kGetEditSetBundle) && (d.Observable == "GetRule" || d.Observable == "GetRuleGroups" || d.Observable == "GetRuleGroup") {
		return ":get-edit-set[" + op.Mod.Via + "]"
	}
	return ""
}

// step executes one update with all checks. faults: enumerate write failures for it.
func (x *runner) step(op opSpec, faults bool) []finding {
	fs := x.stepInner(op, faults)
	if op.Mod != nil && op.Mod.Via != "" {
		// No caller inside pd edits an object returned by these getters and sets it again (only
		// GetRule has such a caller: server.SetReplicationConfig), so this is a history the program
		// cannot have: every way in which the aliasing shows is counted, not judged.
		var kept []finding
		for _, f := range fs {
			aliasing := false
			for _, p := range []string{"unsuccessful-update-changed:", "reload-differs-from-served:", "reload-fails:", "retry-does-not-converge:", "served-differs-from-model:", "second-restart-"} {
				aliasing = aliasing || strings.HasPrefix(f.Key, p)
			}
			if aliasing {
				x.count("getter_returns_served_object:"+op.Mod.Via, 1)
			} else {
				kept = append(kept, f)
			}
		}
		return kept
	}
	if op.Mod != nil && op.Mod.Again {
		// "SetRule(r), edit r, SetRule(r)": since Server.SetReplicationConfig rolls back with a fresh
		// object no caller inside pd edits an object after handing it to SetRule, so at this level
		// it is a history the program cannot have: counted. The caller itself is covered by the
		// server-level family (server.go).
		var kept []finding
		for _, f := range fs {
			aliasing := false
			for _, p := range []string{"unsuccessful-update-changed:", "reload-differs-from-served:", "reload-fails:", "retry-does-not-converge:", "served-differs-from-model:", "second-restart-"} {
				aliasing = aliasing || strings.HasPrefix(f.Key, p)
			}
			if aliasing {
				x.count("object_passed_to_SetRule_stays_served_object", 1)
			} else {
				kept = append(kept, f)
			}
		}
		return kept
	}
	return fs
}

func (x *runner) stepInner(op opSpec, faults bool) (fs []finding) {
	md2, wf, amb := x.md.apply(op)
	if amb {
		x.count("skipped_ambiguous_ops", 1)
		return nil
	}
	before, pn := safeObserve(x.w.m)
	if pn != "" {
		x.dead = true
		return []finding{{Key: "panic:observe", What: "panic in a read API: " + pn}}
	}
	x.w.kv.ResetFaults()
	err, notFound, pn := safeApply(x.w.m, op)
	writes := x.w.kv.Writes()
	x.hist = append(x.hist, op)
	rec := stepRec{Op: op, Writes: writes}
	defer func() { x.recs = append(x.recs, rec) }()
	if pn != "" {
		x.dead = true
		rec.Outcome = "panic"
		return []finding{{Key: "panic:" + op.Kind, What: "panic inside the update: " + pn}}
	}
	if notFound {
		rec.Outcome = "rule-not-found"
		x.count("get_modify_set_rule_not_found", 1)
		return nil
	}
	x.count("ops_"+op.Kind, 1)
	if x.r != nil {
		x.r.Eval(1)
		b, _ := json.Marshal(op)
		x.r.Distinct(x.md.stateKey() + string(b))
	}
	after, pn := safeObserve(x.w.m)
	if pn != "" {
		x.dead = true
		return []finding{{Key: "panic:observe", What: "panic in a read API after " + op.Kind + ": " + pn}}
	}
	if err != nil {
		rec.Outcome = "rejected: " + err.Error()
		x.count("rejected", 1)
		if wf {
			if p, _, a := md2.validity(); p == "" && !a {
				x.count("unexpected_rejections", 1) // one-directional statement: counted, not judged
			}
		} else {
			x.count("rejected_malformed", 1)
		}
		if d := diffSnaps(before, after); d != nil {
			fs = append(fs, finding{Key: "unsuccessful-update-changed:" + d.Observable + suffix(op, d),
				What:   fmt.Sprintf("%s was rejected (%v) but %s(%s) changed from %s to %s", op.Kind, err, d.Observable, d.Item, d.A, d.B),
				Detail: map[string]interface{}{"outcome": "rejected", "error": err.Error(), "diff": d}})
			if isGetEditSet(op) {
				x.dead = true // the served objects were changed behind the index: no model for that
			}
		} else {
			x.count("rejected_unchanged", 1)
		}
		if writes > 0 {
			fs = append(fs, finding{Key: "rejected-update-wrote-to-storage", What: fmt.Sprintf("%s was rejected (%v) after %d storage writes", op.Kind, err, writes)})
		}
		return fs
	}
	rec.Outcome = "accepted"
	x.count("accepted", 1)
	if !wf {
		x.count("accepted_malformed", 1) // not covered by the statement: not judged, history ends
		x.dead = true
		return fs
	}
	prob, at, vamb := md2.validity()
	switch {
	case vamb:
		x.count("validity_ambiguous", 1)
	case prob != "":
		fs = append(fs, finding{Key: "accepted-invalid:" + prob,
			What:   fmt.Sprintf("%s was accepted although afterwards the segment starting at key 0x%x (empty = start of the key space) has %s", op.Kind, at, prob),
			Detail: map[string]interface{}{"segment_start": fmt.Sprintf("%x", at), "rules_after": canonSpecs(md2.allRules())}})
	default:
		x.count("accepted_valid", 1)
	}
	x.md = md2
	d, skipped := diffModel(x.md, after)
	x.count("probes_skipped_override_tie", int64(skipped))
	x.count("probes_compared", int64(len(probeKeys)+2*len(probeRanges)-skipped))
	if d != nil {
		fs = append(fs, finding{Key: "served-differs-from-model:" + d.Observable,
			What:   fmt.Sprintf("after accepted %s: %s(%s) serves %s, the configured rules give %s", op.Kind, d.Observable, d.Item, d.A, d.B),
			Detail: map[string]interface{}{"diff": d, "rules": canonSpecs(x.md.allRules())}})
		x.dead = true
		return fs
	}
	// restarted PD
	rm, rwrites, k2, rerr := x.w.reload()
	x.count("reloads", 1)
	if rwrites > 0 {
		x.count("reload_wrote_to_storage", 1)
		// the restart changed the storage: the restart after that one must still load what is served
		if rerr == nil && !x.tainted {
			m3 := placement.NewRuleManager(core.NewStorage(k2), nil)
			if err3 := m3.Initialize(3, initLabels); err3 != nil {
				fs = append(fs, finding{Key: "second-restart-fails:" + opName(op), What: fmt.Sprintf("after accepted %s the first restart wrote %d times to the storage and the second restart cannot initialise: %v", op.Kind, rwrites, err3)})
			} else if d3 := diffSnaps(after, observe(m3)); d3 != nil {
				fs = append(fs, finding{Key: "second-restart-differs-from-served:" + opName(op),
					What: fmt.Sprintf("after accepted %s the first restart wrote %d times to the storage; after a second restart %s(%s) is %s, served is %s", op.Kind, rwrites, d3.Observable, d3.Item, d3.B, d3.A)})
			}
		}
	}
	if rerr != nil {
		if !x.tainted {
			fs = append(fs, finding{Key: "reload-fails:" + opName(op), What: fmt.Sprintf("after accepted %s a fresh RuleManager cannot initialise from the storage: %v", op.Kind, rerr)})
		}
		x.tainted = true
	} else if dd := diffSnaps(after, observe(rm)); dd != nil {
		if !x.tainted {
			fs = append(fs, finding{Key: "reload-differs-from-served:" + opName(op),
				What:   fmt.Sprintf("after accepted %s (%d storage writes): %s(%s) is served as %s but a fresh RuleManager on the same storage gives %s", op.Kind, writes, dd.Observable, dd.Item, dd.A, dd.B),
				Detail: map[string]interface{}{"diff": dd, "storage": x.w.kv.Dump()}})
		} else {
			x.count("reload_checks_after_earlier_divergence", 1)
		}
		x.tainted = true
	} else {
		x.tainted = false
		x.count("reload_equal", 1)
	}
	if faults && writes > 0 {
		for k := int64(1); k <= writes; k++ {
			for _, mode := range x.modes {
				fs = append(fs, x.faultRun(op, k, mode, before)...)
			}
		}
	}
	return fs
}

// clone replays the history (without its last n updates) on a fresh world.
func (x *runner) clone(drop int) (*world, error) {
	w, err := newWorld()
	if err != nil {
		return nil, err
	}
	for _, op := range x.hist[:len(x.hist)-drop] {
		if _, _, pn := safeApply(w.m, op); pn != "" {
			return nil, fmt.Errorf("panic during replay: %s", pn)
		}
	}
	return w, nil
}

func modeName(m kvx.FaultMode) string {
	if m == kvx.LostAck {
		return "lost-ack"
	}
	return "fail-before"
}

// faultRun re-runs the last update of the history on a clone with its k-th write failing, checks
// that nothing observable changed, then retries it unfaulted and checks convergence.
func (x *runner) faultRun(op opSpec, k int64, mode kvx.FaultMode, before *snap) (fs []finding) {
	c, err := x.clone(1)
	if err != nil {
		x.count("clone_failed", 1)
		return nil
	}
	cb := observe(c.m)
	if diffSnaps(before, cb) != nil {
		x.count("clone_mismatch", 1)
		return nil
	}
	c.kv.SetLogging(true)
	c.kv.ResetLog()
	c.kv.FailWrite(k, mode)
	ferr, _, pn := safeApply(c.m, op)
	injected := c.kv.Injected()
	kvlog := c.kv.Log()
	c.kv.ResetFaults()
	c.kv.SetLogging(false)
	if x.r != nil {
		x.r.Eval(1)
		b, _ := json.Marshal(op)
		x.r.Distinct(fmt.Sprintf("%s%s|%d|%d", x.md.stateKey(), b, k, mode))
	}
	if pn != "" {
		return []finding{{Key: "panic:" + op.Kind + ":write-failure", What: "panic inside the update after a storage failure: " + pn, fault: true}}
	}
	if injected == 0 {
		x.count("fault_not_reached", 1)
		return nil
	}
	x.count("faults_injected_"+modeName(mode), 1)
	det := func(extra map[string]interface{}) map[string]interface{} {
		m := map[string]interface{}{"failed_write": k, "mode": modeName(mode), "kv_log": kvlog}
		for a, b := range extra {
			m[a] = b
		}
		return m
	}
	if ferr == nil {
		return []finding{{Key: "storage-failure-not-reported", fault: true,
			What:   fmt.Sprintf("%s returned success although its storage write %d failed (%s)", op.Kind, k, modeName(mode)),
			Detail: det(nil)}}
	}
	ca := observe(c.m)
	if d := diffSnaps(cb, ca); d != nil {
		fs = append(fs, finding{Key: "unsuccessful-update-changed:" + d.Observable + suffix(op, d), fault: true,
			What:   fmt.Sprintf("%s failed at storage write %d (%s) but %s(%s) changed from %s to %s", op.Kind, k, modeName(mode), d.Observable, d.Item, d.A, d.B),
			Detail: det(map[string]interface{}{"outcome": "storage write failed", "error": ferr.Error(), "diff": d})})
	} else {
		x.count("failed_update_unchanged", 1)
	}
	if x.r != nil && x.g != nil && x.g.rng.Intn(8) == 0 {
		x.otherUpdateProbe(op, k, mode)
	}
	// retry the same update
	rerr, _, pn := safeApply(c.m, op)
	if pn != "" {
		return append(fs, finding{Key: "panic:" + op.Kind + ":retry", What: "panic inside the retried update: " + pn, fault: true})
	}
	if rerr != nil {
		return append(fs, finding{Key: "retry-does-not-converge:rejected", fault: true,
			What:   fmt.Sprintf("%s failed at storage write %d (%s); the same update retried without faults is rejected: %v", op.Kind, k, modeName(mode), rerr),
			Detail: det(nil)})
	}
	cr := observe(c.m)
	if d, _ := diffModel(x.md, cr); d != nil {
		return append(fs, finding{Key: "retry-does-not-converge:served:" + d.Observable, fault: true,
			What:   fmt.Sprintf("%s failed at storage write %d (%s) and was retried to success, but %s(%s) serves %s where the configured rules give %s", op.Kind, k, modeName(mode), d.Observable, d.Item, d.A, d.B),
			Detail: det(map[string]interface{}{"diff": d})})
	}
	if x.tainted {
		x.count("retry_reload_checks_skipped_after_earlier_divergence", 1)
		return fs
	}
	rm, _, _, lerr := c.reload()
	if lerr != nil {
		return append(fs, finding{Key: "retry-does-not-converge:reload-fails", fault: true,
			What:   fmt.Sprintf("%s failed at storage write %d (%s) and was retried to success, but a fresh RuleManager cannot initialise: %v", op.Kind, k, modeName(mode), lerr),
			Detail: det(nil)})
	}
	if d := diffSnaps(cr, observe(rm)); d != nil {
		return append(fs, finding{Key: "retry-does-not-converge:reloaded:" + d.Observable, fault: true,
			What:   fmt.Sprintf("%s failed at storage write %d (%s) and was retried to success; %s(%s) is served as %s but reloaded as %s", op.Kind, k, modeName(mode), d.Observable, d.Item, d.A, d.B),
			Detail: det(map[string]interface{}{"diff": d, "storage": c.kv.Dump()})})
	}
	x.count("retry_converged", 1)
	return fs
}

// otherUpdateProbe: failed update, then a *different* update, then restart. Reported in the
// evidence only (the statement promises convergence for a retry of the same update). Also looks at
// what a second Initialize does after a failed first one (D11) — evidence only.
func (x *runner) otherUpdateProbe(op opSpec, k int64, mode kvx.FaultMode) {
	c, err := x.clone(1)
	if err != nil {
		return
	}
	pre := x.md // the state the failed update left (by the statement: unchanged) — but x.md is already the post state
	_ = pre
	c.kv.FailWrite(k, mode)
	if ferr, _, pn := safeApply(c.m, op); ferr == nil || pn != "" {
		return
	}
	c.kv.ResetFaults()
	var other opSpec
	ok := false
	for try := 0; try < 20 && !ok; try++ {
		other = x.g.op(x.md)
		if isGetEditSet(other) {
			continue
		}
		if oerr, _, pn := safeApply(c.m, other); oerr == nil && pn == "" {
			ok = true
		}
	}
	if !ok {
		return
	}
	x.count("evidence_only_fail_then_other_update", 1)
	served := observe(c.m)
	rm, _, k2, rerr := c.reload()
	if rerr != nil {
		x.count("evidence_only_fail_then_other_update_reload_fails", 1)
		n1 := ruleKeys(k2)
		rm.Initialize(3, initLabels) // second attempt on the same object (D11)
		if n2 := ruleKeys(k2); n2 < n1 {
			x.count("evidence_only_second_initialize_deleted_stored_rules", int64(n1-n2))
		}
		return
	}
	if diffSnaps(served, observe(rm)) != nil {
		x.count("evidence_only_fail_then_other_update_reload_differs", 1)
	} else {
		x.count("evidence_only_fail_then_other_update_reload_equal", 1)
	}
}

func ruleKeys(k *kvx.KV) int {
	n := 0
	for key := range k.Dump() {
		if len(key) > 6 && key[:6] == "rules/" {
			n++
		}
	}
	return n
}

// ---- minimisation of witnesses ----

// reproduces runs cand on a fresh world and tells whether its last update yields the finding key.
func reproduces(cand []opSpec, key string, faults bool) bool {
	return reproduce(cand, key, faults) != nil
}

func reproduce(cand []opSpec, key string, faults bool) *finding {
	x, err := newRunner(nil, nil)
	if err != nil {
		return nil
	}
	for i, op := range cand {
		last := i == len(cand)-1
		fs := x.step(op, faults && last)
		if last {
			for i := range fs {
				if fs[i].Key == key {
					return &fs[i]
				}
			}
			return nil
		}
		if x.dead {
			return nil
		}
	}
	return nil
}

// shrinkOp proposes smaller variants of a multi-part update.
func bigOp(op opSpec) bool {
	big := len(op.Rules) + len(op.Batch)
	for _, b := range op.Bundles {
		big += len(b.Rules)
	}
	if op.Bundle != nil {
		big += len(op.Bundle.Rules)
	}
	return big > 40
}

func shrinkOp(op opSpec) []opSpec {
	var out []opSpec
	if bigOp(op) {
		return nil
	}
	switch op.Kind {
	case kSetRules:
		for i := range op.Rules {
			if len(op.Rules) > 1 {
				o := op
				o.Rules = append(append([]ruleSpec(nil), op.Rules[:i]...), op.Rules[i+1:]...)
				out = append(out, o)
			}
		}
	case kBatch:
		for i := range op.Batch {
			if len(op.Batch) > 1 {
				o := op
				o.Batch = append(append([]batchSpec(nil), op.Batch[:i]...), op.Batch[i+1:]...)
				out = append(out, o)
			}
		}
	case kSetAllGroupBundles:
		for i := range op.Bundles {
			if len(op.Bundles) > 1 {
				o := op
				o.Bundles = append(append([]bundleSpec(nil), op.Bundles[:i]...), op.Bundles[i+1:]...)
				out = append(out, o)
			}
			for j := range op.Bundles[i].Rules {
				o := op
				o.Bundles = append([]bundleSpec(nil), op.Bundles...)
				b := o.Bundles[i]
				b.Rules = append(append([]ruleSpec(nil), b.Rules[:j]...), b.Rules[j+1:]...)
				o.Bundles[i] = b
				out = append(out, o)
			}
		}
	case kSetGroupBundle:
		for j := range op.Bundle.Rules {
			o := op
			b := *op.Bundle
			b.Rules = append(append([]ruleSpec(nil), b.Rules[:j]...), b.Rules[j+1:]...)
			o.Bundle = &b
			out = append(out, o)
		}
	}
	return out
}

// minimize reduces a witness history; the number of candidate re-executions is bounded (per
// witness and per run) so that a tree on which everything fails does not spend the run here.
var minimizeBudgetRun = 1500

func minimize(h []opSpec, key string, faults bool) []opSpec {
	cur := append([]opSpec(nil), h...)
	for _, op := range h {
		if bigOp(op) {
			return cur // populated-world histories are kept as recorded
		}
	}
	budget := 200
	inner := reproduces
	reproduces := func(c []opSpec, key string, faults bool) bool {
		if budget <= 0 || minimizeBudgetRun <= 0 {
			return false
		}
		budget--
		minimizeBudgetRun--
		return inner(c, key, faults)
	}
	if !reproduces(cur, key, faults) {
		return cur // not reproducible in isolation (kept as recorded)
	}
	for changed := true; changed; {
		changed = false
		for len(cur) > 1 && reproduces(cur[:len(cur)-1], key, faults) {
			cur, changed = cur[:len(cur)-1], true // the same kind of finding already at an earlier update
		}
		for j := len(cur) - 2; j >= 0; j-- {
			cand := append(append([]opSpec(nil), cur[:j]...), cur[j+1:]...)
			if reproduces(cand, key, faults) {
				cur, changed = cand, true
			}
		}
		for j := range cur {
			for _, o := range shrinkOp(cur[j]) {
				cand := append([]opSpec(nil), cur...)
				cand[j] = o
				if reproduces(cand, key, faults) {
					cur, changed = cand, true
					break
				}
			}
		}
	}
	return cur
}

// ---- reporting ----

type reporter struct {
	r        *ev.Run
	reported map[string]bool
}

func (rp *reporter) report(phase string, hno int, x *runner, fs []finding) {
	for _, f := range fs {
		rp.r.Count("finding["+phase+"]:"+f.Key, 1)
		if rp.reported[f.Key] {
			rp.r.Violation(f.Key, f.What, nil)
			continue
		}
		rp.reported[f.Key] = true
		h := append([]opSpec(nil), x.hist...)
		min := minimize(h, f.Key, f.fault)
		first := f
		if mf := reproduce(min, f.Key, f.fault); mf != nil {
			f = *mf // describe the finding as it shows on the minimal history
		}
		wit := map[string]interface{}{
			"phase": phase, "history_no": hno, "finding": f, "first_seen_as": first.What,
			"minimal_history": min, "minimal_history_len": len(min),
			"recorded_history": x.recs, "initial_state": "fresh storage; Initialize(3, [zone host]) => rule pd/default voter*3 over the whole key space",
			"note": "the last update of minimal_history is the one the finding is about; replay: ./check C13 --replay <this file>",
		}
		rp.r.Violation(f.Key, f.What, wit)
	}
}

// ---- phases ----

// directed histories: canonical small witnesses of the kinds of findings this check is known to
// produce; run through exactly the same monitor as the random histories (so that a finding is
// reported under the same key at every seed, and a repaired tree shows as silent here too).
func directedHistories() [][]opSpec {
	whole := func(g, id, role string, n int) *ruleSpec {
		return &ruleSpec{Group: g, ID: id, Role: role, Count: n}
	}
	tail := &ruleSpec{Group: "a", ID: "r1", Role: "voter", Count: 3, StartHex: "20"}
	return [][]opSpec{
		{{Kind: kSetRule, Rule: tail}, {Kind: kDeleteRule, GroupID: "pd", RuleID: "default"}},
		{{Kind: kSetRule, Rule: whole("a", "l", "learner", 1)}, {Kind: kSetRuleGroup, Group: &groupSpec{ID: "a", Index: 2, Override: true}}},
		{{Kind: kSetRule, Rule: whole("a", "l", "learner", 1)}, {Kind: kSetRuleGroup, Group: &groupSpec{ID: "a", Index: 2}}},
		{{Kind: kGetModifySet, Mod: &modSpec{Group: "pd", ID: "default", Field: "count", Int: 5}}},
		{{Kind: kGetModifySet, Mod: &modSpec{Group: "pd", ID: "default", Field: "role", Str: "learner"}}},
		// server.SetReplicationConfig with a failing Persist: edit, SetRule, edit the same object back, SetRule
		{{Kind: kGetModifySet, Mod: &modSpec{Group: "pd", ID: "default", Field: "count", Int: 5, Again: true, Int2: 3}}},
		// get-edit-set through every other getter
		{{Kind: kGetModifySet, Mod: &modSpec{Group: "pd", ID: "default", Field: "count", Int: 5, Via: "GetAllRules"}}},
		{{Kind: kGetModifySet, Mod: &modSpec{Group: "pd", ID: "default", Field: "count", Int: 5, Via: "GetRulesByGroup"}}},
		{{Kind: kGetModifySet, Mod: &modSpec{Group: "pd", ID: "default", Field: "count", Int: 5, Via: "GetRulesByKey"}}},
		{{Kind: kGetModifySet, Mod: &modSpec{Group: "pd", ID: "default", Field: "count", Int: 5, Via: "GetRulesForApplyRegion"}}},
		{{Kind: kGetModifySet, Mod: &modSpec{Group: "pd", ID: "default", Field: "count", Int: 5, Via: "GetGroupBundle"}}},
		{{Kind: kGetModifySet, Mod: &modSpec{Group: "pd", ID: "default", Field: "count", Int: 5, Via: "GetAllGroupBundles"}}},
		{{Kind: kGetEditSetGroup, Mod: &modSpec{Group: "pd", Field: "index", Int: 3, Via: "GetRuleGroup"}}},
		{{Kind: kGetEditSetGroup, Mod: &modSpec{Group: "pd", Field: "index", Int: 3, Via: "GetRuleGroups"}}},
		{{Kind: kGetEditSetBundle, Mod: &modSpec{Group: "pd", Field: "count", Int: 5, Via: "GetGroupBundle"}}},
		{{Kind: kGetEditSetBundle, Mod: &modSpec{Group: "pd", Field: "count", Int: 5, Via: "GetAllGroupBundles"}}},
		{{Kind: kGetEditSetBundle, Mod: &modSpec{Group: "pd", Field: "index", Int: 2, Via: "GetGroupBundle"}}},
	}
}

func runDirected(r *ev.Run, rp *reporter) {
	for i, h := range directedHistories() {
		x, err := newRunner(r, nil)
		if err != nil {
			r.Inconclusive("Initialize on empty storage failed: %v", err)
			return
		}
		for _, op := range h {
			fs := x.step(op, true)
			rp.report("directed", i, x, fs)
			if x.dead {
				break
			}
		}
		r.Count("directed_histories", 1)
	}
}

func runRandom(r *ev.Run, rp *reporter, rng *rand.Rand) {
	hists := r.Pick(125, 600)
	opsPer := 25
	g := &gen{rng: rng}
	for h := 0; h < hists; h++ {
		x, err := newRunner(r, g)
		if err != nil {
			r.Inconclusive("Initialize on empty storage failed: %v", err)
			return
		}
		var heal *opSpec
		for i := 0; i < opsPer && !x.dead; i++ {
			op := g.op(x.md)
			if heal != nil {
				op, heal = *heal, nil
			}
			fs := x.step(op, true)
			rp.report("random", h, x, fs)
			if !x.tainted && !x.dead && len(fs) == 0 && rng.Intn(12) == 0 {
				// the history continues on a restarted PD: a new manager on the same storage
				// (what it serves was just checked to equal the old one)
				if x.restart() {
					r.Count("restarts_inside_histories", 1)
				}
			}
			if x.tainted && !x.dead && isGetEditSet(op) {
				// The storage is now behind what is served and stays so until that rule / group is
				// really rewritten. So that the rest of the history is not blind on the reload
				// clauses, the next update is an ordinary SetRule of the same rule with different
				// location labels (a real change, never relevant for validity) resp. a SetRuleGroup
				// with the neighbouring index, judged like any other update.
				key := [2]string{op.Mod.Group, op.Mod.ID}
				if op.Kind == kGetEditSetBundle && op.Mod.Field == "count" {
					if rs := x.md.rulesOfGroup(op.Mod.Group); len(rs) > 0 {
						key[1] = rs[0].ID
					}
				}
				if cur, ok := x.md.rules[key]; ok && (op.Kind == kGetModifySet || op.Mod.Field == "count") {
					cur.Labels = [][]string{{"zone"}, {"zone", "host"}}[len(cur.Labels)%2]
					cur.cs = ""
					heal = &opSpec{Kind: kSetRule, Rule: &cur}
					r.Count("resync_updates_after_get_edit_set", 1)
				} else if op.Kind != kGetModifySet {
					gs := x.md.group(op.Mod.Group)
					if gs.Index > 0 {
						gs.Index--
					} else {
						gs.Index++
					}
					heal = &opSpec{Kind: kSetRuleGroup, Group: &gs}
					r.Count("resync_updates_after_get_edit_set", 1)
				}
			}
		}
		if x.dead {
			r.Count("histories_ended_early", 1)
		}
		r.Count("histories", 1)
		if h < 2 {
			r.Sample(map[string]interface{}{"history": h, "steps": x.recs, "final_rules": canonSpecs(x.md.allRules())})
		}
	}
}

// concurrent readers against one writer: no oracle on the values read while updates are in flight
// (that is not in the statement); gives the race detector the chance to see a missing lock in the
// patch/commit path, and checks the final state against the model.
func runConcurrent(r *ev.Run, rp *reporter, rng *rand.Rand) {
	hists := r.Pick(12, 60)
	g := &gen{rng: rng}
	for h := 0; h < hists; h++ {
		x, err := newRunner(nil, nil)
		if err != nil {
			r.Inconclusive("Initialize on empty storage failed: %v", err)
			return
		}
		stop := make(chan struct{})
		var wg sync.WaitGroup
		var reads [3]int64
		var pmu sync.Mutex
		readerPanic := ""
		var total, alive int64 = 0, 3
		for i := 0; i < 3; i++ {
			wg.Add(1)
			go func(i int) {
				defer wg.Done()
				defer func() {
					atomic.AddInt64(&alive, -1)
					if p := recover(); p != nil {
						pmu.Lock()
						readerPanic = fmt.Sprint(p)
						pmu.Unlock()
					}
				}()
				for {
					select {
					case <-stop:
						return
					default:
					}
					observe(x.w.m)
					reads[i]++
					atomic.AddInt64(&total, 1)
				}
			}(i)
		}
		for i := 0; i < 30; i++ {
			op := g.op(x.md)
			if isGetEditSet(op) {
				continue // mutates a served object outside the lock by construction
			}
			md2, wf, amb := x.md.apply(op)
			if amb {
				continue
			}
			err, _, pn := safeApply(x.w.m, op)
			if pn != "" {
				r.Violation("panic:"+op.Kind+":concurrent", "panic inside an update while readers are active: "+pn, map[string]interface{}{"op": op})
				break
			}
			if err == nil {
				if !wf {
					x.dead = true
					break
				}
				x.md = md2
				// judged right after an accepted update (readers still running)
				if d, _ := diffModel(x.md, observe(x.w.m)); d != nil {
					r.Violation("served-differs-from-model:"+d.Observable+":concurrent", fmt.Sprintf("after accepted %s with concurrent readers %s(%s) serves %s, model %s", op.Kind, d.Observable, d.Item, d.A, d.B), map[string]interface{}{"op": op})
					x.dead = true
					break
				}
				r.Count("concurrent_accepted_checked", 1)
			}
			r.Count("concurrent_updates", 1)
			// let every reader complete at least one full pass between two updates
			for target := atomic.LoadInt64(&total) + 3; atomic.LoadInt64(&total) < target && atomic.LoadInt64(&alive) == 3; {
				runtime.Gosched()
			}
		}
		close(stop)
		wg.Wait()
		r.Count("concurrent_reads", reads[0]+reads[1]+reads[2])
		if readerPanic != "" {
			r.Violation("panic:observe:concurrent", "panic in a read API while updates are in flight: "+readerPanic, nil)
			continue
		}
		r.Count("concurrent_histories", 1)
	}
}

func runReplay(r *ev.Run, rp *reporter) {
	b, err := ioutil.ReadFile(r.Replay)
	if err != nil {
		r.Inconclusive("cannot read replay file: %v", err)
		return
	}
	var doc struct {
		Witness struct {
			Minimal []opSpec `json:"minimal_history"`
		} `json:"witness"`
	}
	if err := json.Unmarshal(b, &doc); err != nil || len(doc.Witness.Minimal) == 0 {
		r.Inconclusive("replay file has no minimal_history: %v", err)
		return
	}
	x, err := newRunner(r, nil)
	if err != nil {
		r.Inconclusive("Initialize failed: %v", err)
		return
	}
	for _, op := range doc.Witness.Minimal {
		fs := x.step(op, true)
		rp.report("replay", 0, x, fs)
		r.Distinct(fmt.Sprint(len(x.hist)))
		if x.dead {
			break
		}
	}
	r.Floor(1)
}

func main() {
	r := ev.New("C13", "fault_enumeration")
	if os.Getenv("VERIF_LOG") == "" {
		if lg, props, err := log.InitLogger(&log.Config{Level: "fatal", File: log.FileLogConfig{Filename: os.DevNull}}); err == nil {
			log.ReplaceGlobals(lg, props)
		} else {
			log.ReplaceGlobals(zap.NewNop(), nil)
		}
	}
	initProbes(r.Thorough()) // thorough: every pair of probe keys as a range
	r.Rule("random histories of 25 updates (SetRule, DeleteRule, SetRules, Batch add/del/del-by-prefix, SetRuleGroup, DeleteRuleGroup, SetGroupBundle, SetAllGroupBundles override t/f, DeleteGroupBundle plain/regexp, get-modify-set) over 4 groups x 6 rule ids, key ranges over a 10-point hex alphabet (nested, adjacent, unbounded, byte-prefix keys), rule index/override, group index/override, ~4% malformed rules; each update is judged on 24 probe keys and ~" + fmt.Sprint(len(probeRanges)) + " probe ranges, then re-run on a replayed clone once per storage write and fault mode (fail-before / lost-ack) with that write failing, then retried. distinct = configured state before x update (x failed write x mode). Two-writer phase: pairs of updates (biased to pairs that are each valid alone but invalid together, and to independent SetRules on different keys) run concurrently under the gate scheduler, every storage write parks, release orders enumerated depth-first for both start orders; judged by serial equivalence with the model (A;B or B;A) and reload, incl. the complete matrix of the 9 update entry points and a storage fault at each write of the race + retry; distinct = base state x pair x start order x released write sequence x fault. Further families: gated writer vs reader and writer vs Initialize of a second manager on the same storage (distinct = base x update x start order x release order), free-running writers+readers, a populated world (>1000 rules, prefix-related ids, page-size faults), a real server's SetReplicationConfig with faults on the config / rule write (distinct = old config x new config x fault)")
	r.Assume("reference model (model.go) written from the statement and the documented meaning of the fields/calls; override ties (equal index) and other undocumented corners are not judged (counted as skipped)")
	r.Assume("a restarted PD = a fresh RuleManager.Initialize on a copy of the storage content; storage = core.Storage over an instrumented in-memory kv.Base; only writes (Save/Remove) are failed")
	r.Assume("the order in which one update issues its storage writes is Go map order (savePatch), so which write is the k-th varies between runs; all k are enumerated")
	r.Assume("get-edit-set is judged for GetRule (its in-tree caller server.SetReplicationConfig edits the returned rule and sets it) and, at the server level, for SetReplicationConfig itself including its roll-back; objects from the other getters, and objects already handed to SetRule, are never edited by any caller inside pd, so aliasing seen through them is counted (getter_returns_served_object:<getter>, object_passed_to_SetRule_stays_served_object), not judged")
	r.Assume("one-directional clauses: model-valid updates that pd rejects, and accepted malformed rules, are counted, not judged; reload after 'failed update, then a different update' is evidence only")
	rng := rand.New(rand.NewSource(r.ShardSeed()))
	rp := &reporter{r: r, reported: map[string]bool{}}
	if r.Replay != "" {
		runReplay(r, rp)
		r.Finish()
	}
	phaseSec := map[string]string{}
	phase := func(name string, f func()) {
		t0 := time.Now()
		f()
		phaseSec[name] = fmt.Sprintf("%.1f", time.Since(t0).Seconds()) // diagnostics only
	}
	if r.Shard == 0 && os.Getenv("VERIF_C13_NO_DIRECTED") == "" {
		phase("directed", func() { runDirected(r, rp) })
	}
	if r.Shard%4 == 0 {
		phase("single-field", func() { runFields(r, rp) })
		phase("odd-ids", func() { runOddIDs(r, rp) })
		phase("key-type", func() { runKeyType(r, rp) })
		phase("lifecycle", func() { runLifecycle(r, rp) })
	}
	phase("random", func() { runRandom(r, rp, rng) })
	phase("readers-vs-writer", func() { runConcurrent(r, rp, rng) })
	phase("two-writers", func() { runTwoWriters(r, rng) })
	phase("three-writers", func() { runThreeWriters(r, rng) })
	phase("writer-vs-reader", func() { runWriterVsReader(r, rng) })
	phase("writer-vs-initialize", func() { runWriterVsInitialize(r, rng) })
	phase("free-writers", func() { runFreeWriters(r, rng) })
	if !r.Thorough() || r.Shard%4 == 0 {
		phase("scale", func() { runScale(r, rp, rng) })
	}
	if !r.Thorough() || r.Shard%4 == 1 {
		phase("server", func() { runServer(r, rng) })
	}
	r.Set("phase_seconds", fmt.Sprint(phaseSec))
	r.Set("probe_keys_per_observation", fmt.Sprint(len(probeKeys))) // strings: the driver sums numeric extras over shards
	r.Set("probe_ranges_per_observation", fmt.Sprint(len(probeRanges)))
	r.Floor(int64(r.Pick(3000, 12000)))
	r.Finish()
}
