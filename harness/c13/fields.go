package main

// Single-field family: for every field of a rule (index, override, start key, end key, role, count,
// each component of a label constraint, location labels, isolation level) and of a rule group
// (index, override) an update that differs from what is served in exactly that one field (another
// valid value), through every update entry point. Judged by the usual clauses right after the
// update (served = model on every getter, config-based and index-based; restart = served; write
// faults + retry), after an unrelated second update, and after the restart that follows it.

import (
	"fmt"

	"verif/harness/lib/ev"
)

type fieldVariant struct {
	name  string
	apply func(r *ruleSpec)
	mod   func(r *ruleSpec) *modSpec // the same change as a get-edit-set on GetRule's result (r = changed rule)
}

// ruleFieldVariants returns, for the rule r as it is served, one change per field.
func ruleFieldVariants(r *ruleSpec) []fieldVariant {
	other := func(cur string, a, b string) string {
		if cur == a {
			return b
		}
		return a
	}
	m := func(field string, fill func(n *ruleSpec, m *modSpec)) func(*ruleSpec) *modSpec {
		return func(n *ruleSpec) *modSpec {
			ms := &modSpec{Group: n.Group, ID: n.ID, Field: field}
			fill(n, ms)
			return ms
		}
	}
	cons := func(n *ruleSpec) []consSpec {
		if len(n.Cons) == 0 {
			return []consSpec{{Key: "engine", Op: "notIn", Values: []string{"tiflash"}}}
		}
		out := make([]consSpec, len(n.Cons))
		for i, c := range n.Cons {
			out[i] = consSpec{Key: c.Key, Op: c.Op, Values: append([]string(nil), c.Values...)}
		}
		return out
	}
	consMod := m("cons", func(n *ruleSpec, ms *modSpec) { ms.Cons = n.Cons })
	vs := []fieldVariant{
		{"index", func(n *ruleSpec) { n.Index = map[bool]int{true: 8, false: 7}[n.Index == 7] }, m("index", func(n *ruleSpec, ms *modSpec) { ms.Int = n.Index })},
		{"override", func(n *ruleSpec) { n.Override = !n.Override }, m("override", func(n *ruleSpec, ms *modSpec) { ms.Bool = n.Override })},
		{"role", func(n *ruleSpec) { n.Role = other(n.Role, "follower", "learner") }, m("role", func(n *ruleSpec, ms *modSpec) { ms.Str = n.Role })},
		{"count", func(n *ruleSpec) { n.Count = n.Count%4 + 1 }, m("count", func(n *ruleSpec, ms *modSpec) { ms.Int = n.Count })},
		{"label_constraint.key", func(n *ruleSpec) { c := cons(n); c[0].Key = other(c[0].Key, "disk", "engine"); n.Cons = c }, consMod},
		{"label_constraint.op", func(n *ruleSpec) { c := cons(n); c[0].Op = other(c[0].Op, "notIn", "in"); n.Cons = c }, consMod},
		{"label_constraint.values", func(n *ruleSpec) { c := cons(n); c[0].Values = append(c[0].Values, "ssd"); n.Cons = c }, consMod},
		{"label_constraints.count", func(n *ruleSpec) { n.Cons = append(cons(n), consSpec{Key: "zone", Op: "exists"}) }, consMod},
		{"location_labels", func(n *ruleSpec) {
			if len(n.Labels) == 0 {
				n.Labels = []string{"zone"}
			} else {
				n.Labels = append(append([]string(nil), n.Labels...), "slot") // keeps a set isolation level valid
			}
		}, m("labels", func(n *ruleSpec, ms *modSpec) { ms.Strs = n.Labels })},
	}
	// start / end: another valid key that keeps the range non-empty
	if r.StartHex != "10" && (r.EndHex == "" || r.EndHex > "10") {
		vs = append(vs, fieldVariant{"start_key", func(n *ruleSpec) { n.StartHex = "10" }, m("start", func(n *ruleSpec, ms *modSpec) { ms.Str = n.StartHex })})
	}
	if r.EndHex != "c0" && r.StartHex < "c0" {
		vs = append(vs, fieldVariant{"end_key", func(n *ruleSpec) { n.EndHex = "c0" }, m("end", func(n *ruleSpec, ms *modSpec) { ms.Str = n.EndHex })})
	}
	// isolation level: must be one of the location labels (or empty)
	if len(r.Labels) > 0 {
		vs = append(vs, fieldVariant{"isolation_level", func(n *ruleSpec) {
			if n.Iso == n.Labels[len(n.Labels)-1] {
				n.Iso = ""
				if len(n.Labels) > 1 {
					n.Iso = n.Labels[0]
				}
			} else {
				n.Iso = n.Labels[len(n.Labels)-1]
			}
		}, m("iso", func(n *ruleSpec, ms *modSpec) { ms.Str = n.Iso })})
	}
	return vs
}

func runFields(r *ev.Run, rp *reporter) {
	served := ruleSpec{Group: "a", ID: "r1", Index: 1, StartHex: "20", EndHex: "80", Role: "voter", Count: 2,
		Cons: []consSpec{{Key: "engine", Op: "in", Values: []string{"tiflash"}}}, Labels: []string{"zone", "host"}, Iso: "zone"}
	sibling := ruleSpec{Group: "a", ID: "r2", StartHex: "30", EndHex: "80", Role: "learner", Count: 1}
	grp := groupSpec{ID: "a", Index: 1}
	base := []opSpec{{Kind: kSetRule, Rule: &served}, {Kind: kSetRule, Rule: &sibling}, {Kind: kSetRuleGroup, Group: &grp}}
	unrelated := opSpec{Kind: kSetRule, Rule: &ruleSpec{Group: "b", ID: "x", StartHex: "a0", EndHex: "ff", Role: "learner", Count: 1}}
	bundleA := func(g groupSpec, r1 ruleSpec) bundleSpec {
		return bundleSpec{ID: "a", Index: g.Index, Override: g.Override, Rules: []ruleSpec{r1, sibling}}
	}
	pd := bundleSpec{ID: "pd", Rules: []ruleSpec{{Group: "pd", ID: "default", Role: "voter", Count: 3, Labels: initLabels}}}
	type ucase struct {
		name string
		op   opSpec
	}
	var cases []ucase
	for _, v := range ruleFieldVariants(&served) {
		n := served
		v.apply(&n)
		cases = append(cases,
			ucase{v.name + "/SetRule", opSpec{Kind: kSetRule, Rule: &n}},
			ucase{v.name + "/SetRules", opSpec{Kind: kSetRules, Rules: []ruleSpec{n}}},
			ucase{v.name + "/Batch", opSpec{Kind: kBatch, Batch: []batchSpec{{Action: "add", Rule: n}}}},
			ucase{v.name + "/SetGroupBundle", opSpec{Kind: kSetGroupBundle, Bundle: func() *bundleSpec { b := bundleA(grp, n); return &b }()}},
			ucase{v.name + "/SetAllGroupBundles", opSpec{Kind: kSetAllGroupBundles, Bundles: []bundleSpec{bundleA(grp, n)}}},
			ucase{v.name + "/SetAllGroupBundles(override)", opSpec{Kind: kSetAllGroupBundles, OverrideAll: true, Bundles: []bundleSpec{pd, bundleA(grp, n)}}},
			ucase{v.name + "/get-edit-set", opSpec{Kind: kGetModifySet, Mod: v.mod(&n)}})
	}
	// in-place edits at every depth of the rule that GetRule returned, followed by an accepted
	// SetRule, a refused SetRule, or nothing
	for _, f := range inPlaceFields {
		str := "x"
		if f == "in:cons[0].op" {
			str = "notIn"
		}
		for _, then := range []string{"", "reject", "none"} {
			cases = append(cases, ucase{f + "/get-edit-in-place/" + map[string]string{"": "SetRule", "reject": "refused-SetRule", "none": "no-SetRule"}[then],
				opSpec{Kind: kGetModifySet, Mod: &modSpec{Group: "a", ID: "r1", Field: f, Str: str, Then: then}}})
		}
	}
	for _, gv := range []struct {
		name string
		g    groupSpec
	}{{"group.index", groupSpec{ID: "a", Index: 4}}, {"group.override", groupSpec{ID: "a", Index: 1, Override: true}}} {
		g := gv.g
		cases = append(cases,
			ucase{gv.name + "/SetRuleGroup", opSpec{Kind: kSetRuleGroup, Group: &g}},
			ucase{gv.name + "/SetGroupBundle", opSpec{Kind: kSetGroupBundle, Bundle: func() *bundleSpec { b := bundleA(g, served); return &b }()}},
			ucase{gv.name + "/SetAllGroupBundles", opSpec{Kind: kSetAllGroupBundles, Bundles: []bundleSpec{bundleA(g, served)}}},
			ucase{gv.name + "/SetAllGroupBundles(override)", opSpec{Kind: kSetAllGroupBundles, OverrideAll: true, Bundles: []bundleSpec{pd, bundleA(g, served)}}})
	}
	for i, c := range cases {
		x, err := newRunner(r, nil)
		if err != nil {
			r.Inconclusive("Initialize on empty storage failed: %v", err)
			return
		}
		ok := true
		for _, op := range base {
			if fs := x.step(op, false); len(fs) > 0 || x.dead {
				rp.report("single-field", i, x, fs)
				ok = false
				break
			}
		}
		if !ok {
			continue
		}
		if _, acc := accepts(x.md, c.op); !acc && (c.op.Mod == nil || c.op.Mod.Then != "reject") {
			r.Count("single_field_case_not_acceptable", 1) // generator error: never expected
			continue
		}
		// the update itself (with write faults + retry), an unrelated update, and the restarts that
		// step() performs after each of them
		for k, op := range []opSpec{c.op, unrelated} {
			fs := x.step(op, k == 0)
			for j := range fs {
				fs[j].What = fmt.Sprintf("[single-field change %s%s] ", c.name, []string{"", ", after an unrelated second update"}[k]) + fs[j].What
			}
			rp.report("single-field", i, x, fs)
			if len(fs) > 0 || x.dead {
				break
			}
		}
		if n := len(x.recs); n < 2 || x.recs[n-2].Outcome != "accepted" {
			r.Count("single_field_update_not_accepted", 1) // one-directional: counted
		}
		r.Count("single_field_cases", 1)
		r.Distinct("field|" + c.name)
	}
}
