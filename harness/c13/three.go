package main

// Three writers: the first parks inside its storage write holding the manager lock, the two others
// queue on the lock and are released together. Explicit start orders, release orders depth-first;
// judged by serial equivalence over all six orders (existing clauses), validity and reload.

import (
	"encoding/json"
	"fmt"
	"math/rand"
	"time"

	"verif/harness/lib/ev"
	"verif/harness/lib/sched"
)

func permutations3() [][]int {
	return [][]int{{0, 1, 2}, {0, 2, 1}, {1, 0, 2}, {1, 2, 0}, {2, 0, 1}, {2, 1, 0}}
}

// judgeN: is there a serial order of the accepted updates (each valid at its place) whose final
// state is what is served?
func judgeN(md0 *model, ops []opSpec, acc []bool, served *snap) (key, what string, skipped bool) {
	problem, anyChain := "", false
	var firstDiff *diff
	for _, ord := range permutations3() {
		s, chain := md0, true
		for _, i := range ord {
			if !acc[i] {
				continue
			}
			n, wf, amb := s.apply(ops[i])
			if amb {
				return "", "", true
			}
			if !wf {
				chain, problem = false, "malformed"
				break
			}
			p, _, va := n.validity()
			if va {
				return "", "", true
			}
			if p != "" {
				chain = false
				if problem == "" {
					problem = p
				}
				break
			}
			s = n
		}
		if !chain {
			continue
		}
		anyChain = true
		d, _ := diffModel(s, served)
		if d == nil {
			return "", "", false
		}
		if firstDiff == nil {
			firstDiff = d
		}
	}
	if !anyChain {
		return "concurrent-updates-not-serializable:accepted-invalid:" + problem + ":three-writers", "three concurrent updates: in no serial order are all accepted ones valid (" + problem + ")", false
	}
	return "concurrent-updates-not-serializable:served:" + firstDiff.Observable + ":three-writers",
		fmt.Sprintf("after three concurrent updates no serial order of the accepted ones explains what is served: %s(%s) serves %s, a model order gives %s", firstDiff.Observable, firstDiff.Item, firstDiff.A, firstDiff.B), false
}

// directedTriples: a lock holder with several writes, and two updates of the SAME group that queue
// behind it (whole-group operations against each other and against single-rule updates).
func directedTriples() (base []opSpec, md0 *model, triples [][]opSpec) {
	md0 = initialModel()
	for _, op := range []opSpec{
		{Kind: kSetRule, Rule: &ruleSpec{Group: "a", ID: "r1", StartHex: "20", EndHex: "80", Role: "learner", Count: 1}},
		{Kind: kSetRule, Rule: &ruleSpec{Group: "a", ID: "r2", StartHex: "30", EndHex: "40", Role: "follower", Count: 1}},
		{Kind: kSetRuleGroup, Group: &groupSpec{ID: "a", Index: 1}},
	} {
		if n, ok := accepts(md0, op); ok {
			md0, base = n, append(base, op)
		}
	}
	holder := opSpec{Kind: kSetRules, Rules: []ruleSpec{{Group: "b", ID: "x", StartHex: "a0", EndHex: "c0", Role: "learner", Count: 1}, {Group: "b", ID: "r2", StartHex: "c0", EndHex: "ff", Role: "learner", Count: 2}}}
	newA := bundleSpec{ID: "a", Index: 3, Rules: []ruleSpec{{Group: "a", ID: "l", StartHex: "10", EndHex: "30", Role: "learner", Count: 2}}}
	groupOps := []opSpec{
		{Kind: kDeleteGroupBundle, GroupID: "a"},
		{Kind: kDeleteGroupBundle, GroupID: "^a$", Regex: true},
		{Kind: kSetGroupBundle, Bundle: &newA},
		{Kind: kSetAllGroupBundles, Bundles: []bundleSpec{newA}},
		{Kind: kBatch, Batch: []batchSpec{{Action: "del", Rule: ruleSpec{Group: "a", ID: "r"}, Prefix: true}}},
		{Kind: kSetRule, Rule: &ruleSpec{Group: "a", ID: "x", StartHex: "40", EndHex: "80", Role: "learner", Count: 1}},
		{Kind: kDeleteRule, GroupID: "a", RuleID: "r1"},
		{Kind: kDeleteRuleGroup, GroupID: "a"},
	}
	for i := range groupOps {
		for j := range groupOps {
			if i < j && i < 5 { // at least one whole-group operation
				triples = append(triples, []opSpec{holder, groupOps[i], groupOps[j]})
			}
		}
	}
	return
}

func runThreeWriters(r *ev.Run, rng *rand.Rand) {
	g := &gen{rng: rng}
	maxRuns := r.Pick(3, 20)
	dbase, dmd0, triples := directedTriples()
	random := r.Pick(10, 80)
	for c, cases := 0, random+len(triples); c < cases; c++ {
		var base []opSpec
		var md0 *model
		var ops []opSpec
		kind := "directed-same-group"
		if c < len(triples) {
			base, md0, ops = dbase, dmd0, triples[c]
		} else {
			base, md0 = twBase(g)
			// two of the three are a biased pair (conflicting / independent), the third is any update
			a, b, k, ok := twPair(g, md0)
			if !ok {
				continue
			}
			var third opSpec
			for try := 0; try < 30; try++ {
				third = g.op(md0)
				if _, wf, amb := md0.apply(third); !isGetEditSet(third) && wf && !amb {
					break
				}
			}
			if isGetEditSet(third) {
				continue
			}
			kind, ops = k, []opSpec{a, b, third}
		}
		starts := [][]int{{0, 1, 2}, {2, 0, 1}, {1, 2, 0}}[:r.Pick(2, 3)]
		if c < len(triples) {
			starts = [][]int{{0, 1, 2}, {0, 2, 1}} // the holder first, the two others queue in both orders
		}
		for _, start := range starts {
			ex := &sched.Explorer{}
			for ex.Runs < maxRuns {
				ch := ex.Next()
				if ch == nil {
					break
				}
				w, err := newWorld()
				if err != nil {
					r.Inconclusive("Initialize on empty storage failed: %v", err)
					return
				}
				for _, op := range base {
					safeApply(w.m, op)
				}
				sc := sched.New()
				sc.Settle = 12 * time.Millisecond
				sc.Stagger = true
				w.kv.Gate, w.kv.Done = sc.Gate, sc.Done
				errs := make([]error, 3)
				pns := make([]string, 3)
				var ws []func()
				for _, i := range start {
					i := i
					ws = append(ws, func() { errs[i], _, pns[i] = safeApply(w.m, ops[i]) })
				}
				sc.Run(ws, ch)
				w.kv.Gate, w.kv.Done = nil, nil
				ex.Advance(sc)
				if sc.Err != nil {
					r.Inconclusive("three-writer scheduler: %v", sc.Err)
					return
				}
				r.Eval(1)
				r.Count("three_writer_executions", 1)
				pj, _ := json.Marshal(ops)
				r.Distinct(fmt.Sprintf("3w|%s|%s|%v|%s", md0.stateKey(), pj, start, sc.TraceKey()))
				wit := map[string]interface{}{"phase": "three-writers", "pair_kind": kind, "base_history": base, "updates": ops, "start_order": start,
					"released_writes": sc.Trace, "outcomes": []string{errText(errs[0]), errText(errs[1]), errText(errs[2])}}
				if pns[0]+pns[1]+pns[2] != "" {
					r.Violation("panic:three-writers", "panic inside one of three concurrent updates: "+pns[0]+pns[1]+pns[2], wit)
					break
				}
				served, pn := safeObserve(w.m)
				if pn != "" {
					r.Violation("panic:observe:three-writers", "panic in a read API after three concurrent updates: "+pn, wit)
					break
				}
				acc := []bool{errs[0] == nil, errs[1] == nil, errs[2] == nil}
				key, what, skipped := judgeN(md0, ops, acc, served)
				if skipped {
					r.Count("three_writer_skipped_ambiguous", 1)
					continue
				}
				if key != "" {
					r.Violation(key, what, wit)
					continue
				}
				r.Count("three_writer_serializable", 1)
				if acc[0] || acc[1] || acc[2] {
					if rm, _, _, rerr := w.reload(); rerr != nil {
						r.Violation("concurrent-updates:reload-fails:three-writers", fmt.Sprintf("after three concurrent updates a fresh RuleManager cannot initialise: %v", rerr), wit)
					} else if d := diffSnaps(served, observe(rm)); d != nil {
						r.Violation("concurrent-updates:reload-differs-from-served:three-writers", fmt.Sprintf("after three concurrent updates %s(%s) is served as %s, reloaded as %s", d.Observable, d.Item, d.A, d.B), wit)
					}
				}
			}
		}
	}
}
