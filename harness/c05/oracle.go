package main

import (
	"encoding/json"
	"fmt"
	"io/ioutil"
	"net/http"
	"os"
	"regexp"
	"sort"
	"strconv"
	"strings"
	"time"

	"verif/harness/lib/tsochk"
)

// ---- offline oracles (written from the property statement) ----

// owned values of a granted response with b suffix bits, raw = logical>>b, s = logical & (2^b-1):
// { physical<<18 | (x<<b | s) : x in [raw-count+1, raw] }.

type granted struct {
	i        int // index into ops
	o        *op
	bits     uint
	sfx      int64
	rlo, rhi int64 // raw logical range
	lo, hi   uint64
}

type finding struct {
	// mech: the key names a defect mechanism recognised from the witness itself and is used as is;
	// otherwise the coarse class of the history is appended to the key
	mech      bool
	key, what string
	a, b      *op
	extra     map[string]interface{}
}

func floorDiv(a, b int64) int64 {
	q := a / b
	if (a%b != 0) && ((a < 0) != (b < 0)) {
		q--
	}
	return q
}

func ceilDiv(a, b int64) int64 { return -floorDiv(-a, b) }

// intersects reports whether two responses with the same physical part own a common value.
func intersects(a, b *granted) bool {
	if a.bits > b.bits {
		a, b = b, a
	}
	if a.bits == b.bits {
		return a.sfx == b.sfx && a.rlo <= b.rhi && b.rlo <= a.rhi
	}
	// a has fewer suffix bits. b's differentiated logical = y<<b.bits | b.sfx; seen with a's width it
	// is x<<a.bits | s with s = low a.bits bits and x = y<<d | (b.sfx>>a.bits), d = b.bits-a.bits.
	if b.sfx&((1<<a.bits)-1) != a.sfx {
		return false
	}
	d := b.bits - a.bits
	c := b.sfx >> a.bits
	step := int64(1) << d
	ymin := ceilDiv(a.rlo-c, step)
	ymax := floorDiv(a.rhi-c, step)
	if ymin < b.rlo {
		ymin = b.rlo
	}
	if ymax > b.rhi {
		ymax = b.rhi
	}
	return ymin <= ymax
}

func kindOf(dc string) string {
	if dc == globalDC {
		return "global"
	}
	return "local"
}

// judgeSuffixKeys applies the suffix clauses to the committed history of the local-tso-suffix
// keys: a dc keeps the suffix it was given, suffixes are > 0 and no two dcs share one.
func judgeSuffixKeys(sev []suffixEv) (fs []finding, sufOf map[string]map[int32]bool, firstOf map[string]int32) {
	add := func(f finding) { fs = append(fs, f) }
	sufOf = map[string]map[int32]bool{} // dc -> every value ever stored
	firstOf = map[string]int32{}
	for _, e := range sev {
		if e.Type != "PUT" {
			add(finding{key: "suffix-key-changed", what: fmt.Sprintf("the suffix key of %s was deleted after it had been given", e.DC), extra: map[string]interface{}{"event": e}})
			continue
		}
		v, ok := atoi32(e.Value)
		if !ok {
			add(finding{key: "suffix-not-positive", what: fmt.Sprintf("dc %s was given the suffix %q which is not a number", e.DC, e.Value), extra: map[string]interface{}{"event": e}})
			continue
		}
		if v <= 0 {
			add(finding{key: "suffix-not-positive", what: fmt.Sprintf("dc %s was given suffix %d", e.DC, v), extra: map[string]interface{}{"event": e}})
		}
		if sufOf[e.DC] == nil {
			sufOf[e.DC] = map[int32]bool{}
			firstOf[e.DC] = v
		} else if !sufOf[e.DC][v] {
			add(finding{key: "suffix-key-changed", what: fmt.Sprintf("dc %s had suffix %d and was later given %d", e.DC, firstOf[e.DC], v), extra: map[string]interface{}{"event": e}})
		}
		sufOf[e.DC][v] = true
	}
	owner := map[int32]string{}
	var dcNames []string
	for dc := range sufOf {
		dcNames = append(dcNames, dc)
	}
	sort.Strings(dcNames)
	for _, dc := range dcNames {
		for v := range sufOf[dc] {
			if other, ok := owner[v]; ok && other != dc {
				add(finding{key: "suffix-shared-by-two-dcs", what: fmt.Sprintf("dcs %s and %s were both given suffix %d", other, dc, v)})
			}
			owner[v] = dc
		}
	}
	return fs, sufOf, firstOf
}

// judgeSuffixOnly applies the suffix-key clauses alone (used when the cluster never came to serve).
func (c *cluster) judgeSuffixOnly() {
	if !c.settleWatch() {
		return
	}
	c.wmu.Lock()
	sev := append([]suffixEv(nil), c.suffix...)
	c.wmu.Unlock()
	fs, _, _ := judgeSuffixKeys(sev)
	done := map[string]bool{}
	for _, f := range fs {
		key := f.key + ":" + c.class()
		if done[key] {
			continue
		}
		done[key] = true
		c.r.Violation(key, f.what, map[string]interface{}{"topology": c.t, "suffix_key_history": sev, "cluster_events": c.notesCopy()})
	}
}

func (c *cluster) judge() {
	r := c.r
	c.mu.RLock()
	ops := c.ops
	notes := append([]string(nil), c.notes...)
	c.mu.RUnlock()
	c.wmu.Lock()
	sev := append([]suffixEv(nil), c.suffix...)
	dcl := append([]suffixEv(nil), c.dcloc...)
	c.wmu.Unlock()

	if dump := os.Getenv("VERIF_C05_DUMP"); dump != "" { // development aid: the whole recorded history
		b, _ := json.Marshal(map[string]interface{}{"ops": ops, "notes": notes, "suffix": sev})
		ioutil.WriteFile(dump+"."+c.t.Name+".json", b, 0o644)
	}
	var fs []finding
	add := func(f finding) { fs = append(fs, f) }

	// ---------- suffix keys: keep, distinct, positive ----------
	sfs, sufOf, firstOf := judgeSuffixKeys(sev)
	fs = append(fs, sfs...)
	r.Count("suffix_key_events", int64(len(sev)))
	r.Count("dc_location_key_events", int64(len(dcl)))

	// running maximum of the stored suffixes by observation tick
	type mx struct {
		tick int64
		max  int32
	}
	var maxAt []mx
	{
		evs := append([]suffixEv(nil), sev...)
		sort.Slice(evs, func(a, b int) bool { return evs[a].Tick < evs[b].Tick })
		var m int32
		for _, e := range evs {
			if v, ok := atoi32(e.Value); ok && e.Type == "PUT" && v > m {
				m = v
				maxAt = append(maxAt, mx{e.Tick, m})
			}
		}
	}
	maxStoredBefore := func(tick int64) int32 {
		k := sort.Search(len(maxAt), func(i int) bool { return maxAt[i].tick >= tick })
		if k == 0 {
			return 0
		}
		return maxAt[k-1].max
	}

	// first tick at which the suffix key of a dc was seen stored
	sufSeenAt := map[string]int64{}
	for _, e := range sev {
		if e.Type == "PUT" {
			if t, ok := sufSeenAt[e.DC]; !ok || e.Tick < t {
				sufSeenAt[e.DC] = e.Tick
			}
		}
	}
	// Mechanism B ("stale width on a member that is not the PD leader"): a local response served by
	// a member other than the PD leader whose width is too small for a suffix that was already stored
	// when the request began. Only the PD leader learns of a new suffix at once (it assigns it); the
	// other members learn it on their periodic dc-location check.
	const mechB = "stale-width-on-non-pd-leader-member"
	const mechC = "new-dc-allocator-starts-below-global"
	// the member that was PD leader when a suffix value was stored (it assigned it): taken from the
	// placement recorded by the last request that began before the watch delivered the key
	callOrder := make([]int, 0, len(ops))
	for i := range ops {
		callOrder = append(callOrder, i)
	}
	sort.Slice(callOrder, func(a, b int) bool { return ops[callOrder[a]].Call < ops[callOrder[b]].Call })
	assigner := map[int32]int{}
	for _, e := range sev {
		v, ok := atoi32(e.Value)
		if !ok || e.Type != "PUT" {
			continue
		}
		k := sort.Search(len(callOrder), func(i int) bool { return ops[callOrder[i]].Call >= e.Tick })
		if _, seen := assigner[v]; !seen {
			assigner[v] = -2
			if k > 0 {
				assigner[v] = ops[callOrder[k-1]].PDLeader
			}
		}
	}
	staleB := func(g *granted) bool {
		need := maxStoredBefore(g.o.Call)
		if int64(need) < int64(1)<<g.bits {
			return false
		}
		if g.o.DC != globalDC && g.o.Target != g.o.PDLeader {
			return true
		}
		// served by the current PD leader (a global response, or a local allocator it leads): stale
		// only if another member was PD leader when the larger suffix was assigned
		a, ok := assigner[need]
		return ok && a >= 0 && g.o.Target != a
	}

	// ---------- granted responses, field rules ----------
	var gs []*granted
	parts := map[string][]tsochk.Resp{}
	var aheadMax int64
	for i := range ops {
		o := &ops[i]
		r.Count("responses_"+kindOf(o.DC)+"_"+o.Mode, 1)
		if o.Err != "" {
			r.Count("errors_"+kindOf(o.DC), 1)
			continue
		}
		k := kindOf(o.DC)
		r.Count("granted_"+k, 1)
		r.Count(fmt.Sprintf("granted_count_%d", o.Count), 1)
		if o.WallMs > 0 && o.Physical-o.WallMs > aheadMax {
			aheadMax = o.Physical - o.WallMs
		}
		if o.Bits > 17 {
			add(finding{key: "tso-logical-overflow:" + k, what: fmt.Sprintf("suffix_bits %d leaves no room in the 18-bit logical part", o.Bits), a: o})
			continue
		}
		b := uint(o.Bits)
		sfx := o.Logical & ((1 << b) - 1)
		pk := fmt.Sprintf("%s/%d/%d", o.DC, b, sfx)
		parts[pk] = append(parts[pk], o.Resp)
		raw := o.Logical >> b
		g := &granted{i: i, o: o, bits: b, sfx: sfx, rlo: raw - int64(o.Count) + 1, rhi: raw}
		switch {
		case o.Physical <= 0:
			add(finding{key: "tso-physical-zero:" + k, what: "successful response with physical part <= 0", a: o})
		case o.Logical < 0 || o.Logical >= 1<<18:
			add(finding{key: "tso-logical-overflow:" + k, what: fmt.Sprintf("logical part %d does not fit 18 bits", o.Logical), a: o})
		case o.Count == 0:
			add(finding{key: "tso-count-zero-granted:" + k, what: "a request with count 0 was granted", a: o})
		case g.rlo < 0:
			add(finding{key: "tso-range-underflow:" + k, what: fmt.Sprintf("response with count %d, suffix_bits %d and logical %d would own negative logical values", o.Count, o.Bits, o.Logical), a: o})
		default:
			// only responses with sound fields own a well-defined value set
			g.lo, g.hi = o.Range()
			gs = append(gs, g)
		}
	}
	r.Count("allocator_partitions", int64(len(parts)))
	r.Set("diag_max_physical_ahead_of_wall_ms_"+c.t.Name, aheadMax)

	// ---------- suffix width and low bits of every response ----------
	for _, g := range gs {
		o := g.o
		need := maxStoredBefore(o.Call)
		if int64(need) >= int64(1)<<g.bits {
			f := finding{key: "suffix-bits-too-narrow:" + kindOf(o.DC), a: o,
				what:  fmt.Sprintf("a %s response reports suffix_bits=%d although suffix %d was already stored in etcd when the request began", o.DC, g.bits, need),
				extra: map[string]interface{}{"max_suffix_stored_at_call": need}}
			if staleB(g) {
				f.mech, f.key = true, "suffix-bits-too-narrow:"+mechB
				f.what += fmt.Sprintf(" (served by member m%d while the PD leader was m%d)", o.Target, o.PDLeader)
			}
			add(f)
			continue // one report per response
		}
		if o.DC == globalDC {
			if g.sfx != 0 {
				add(finding{key: "suffix-low-bits-mismatch:global", what: fmt.Sprintf("a global timestamp carries %d in its low %d bits, expected 0", g.sfx, g.bits), a: o})
			}
			continue
		}
		vals := sufOf[o.DC]
		if len(vals) == 0 {
			add(finding{key: "local-served-without-suffix", what: fmt.Sprintf("dc %s granted a timestamp but no suffix key of it exists in etcd", o.DC), a: o})
			continue
		}
		if !vals[int32(g.sfx)] || g.bits == 0 {
			add(finding{key: "suffix-low-bits-mismatch:local", a: o,
				what: fmt.Sprintf("a %s timestamp carries %d in its low %d bits, but the dc's stored suffix is %d", o.DC, g.sfx, g.bits, firstOf[o.DC])})
		}
	}

	// ---------- value-set disjointness over ALL allocators ----------
	overlapKey := func(a, b *granted) (string, bool) {
		if a.o.DC != b.o.DC {
			if a.bits != b.bits {
				if staleB(a) || staleB(b) {
					return "equal-timestamps-across-allocators:" + mechB, true
				}
				return "equal-timestamps-across-allocators:width-mismatch", false
			}
			return "equal-timestamps-across-allocators", false
		}
		if a.bits != b.bits {
			// one allocator, two suffix widths inside one millisecond: the width of a live allocator
			// was raised (a dc joined) while it kept handing out timestamps of that millisecond
			return "tso-ranges-overlap:suffix-width-raised-on-live-allocator", true
		}
		return "tso-ranges-overlap:" + kindOf(a.o.DC), false
	}
	reported := map[[2]int]bool{}
	report := func(a, b *granted, how string) {
		if a.i > b.i {
			a, b = b, a
		}
		if reported[[2]int{a.i, b.i}] {
			return
		}
		reported[[2]int{a.i, b.i}] = true
		k, mech := overlapKey(a, b)
		add(finding{mech: mech, key: k, a: a.o, b: b.o, what: fmt.Sprintf("responses of %s and %s own a common 64-bit timestamp (%s)", a.o.DC, b.o.DC, how)})
	}
	byPhys := map[int64][]*granted{}
	for _, g := range gs {
		byPhys[g.o.Physical] = append(byPhys[g.o.Physical], g)
	}
	var pairTests int64
	for _, grp := range byPhys {
		classes := map[[2]int64][]*granted{} // (bits, suffix)
		for _, g := range grp {
			k := [2]int64{int64(g.bits), g.sfx}
			classes[k] = append(classes[k], g)
		}
		for _, cl := range classes {
			sort.Slice(cl, func(a, b int) bool { return cl[a].rlo < cl[b].rlo })
			var top *granted
			for _, g := range cl {
				if top != nil && g.rlo <= top.rhi {
					report(top, g, "same suffix width and suffix, raw ranges intersect")
				}
				if top == nil || g.rhi > top.rhi {
					top = g
				}
			}
		}
		// different widths inside one physical millisecond
		var keys [][2]int64
		for k := range classes {
			keys = append(keys, k)
		}
		for x := 0; x < len(keys); x++ {
			for y := x + 1; y < len(keys); y++ {
				if keys[x][0] == keys[y][0] {
					continue
				}
				for _, a := range classes[keys[x]] {
					for _, b := range classes[keys[y]] {
						pairTests++
						if intersects(a, b) {
							report(a, b, "different suffix widths")
						}
					}
				}
			}
		}
	}
	r.Count("cross_width_pair_tests", pairTests)
	// independent explicit-set pass over the small responses
	{
		seen := map[uint64]*granted{}
		var n int64
		for _, g := range gs {
			if g.o.Count > 64 {
				continue
			}
			for x := g.rlo; x <= g.rhi; x++ {
				v := tsochk.Compose(g.o.Physical, x<<g.bits|g.sfx)
				n++
				if h, ok := seen[v]; ok {
					report(h, g, fmt.Sprintf("explicit value %d", v))
				} else {
					seen[v] = g
				}
			}
		}
		r.Count("explicit_values_compared", n)
	}

	// ---------- real-time rules: one sweep over the ticks ----------
	type tev struct {
		t    int64
		call bool
		g    *granted
	}
	evs := make([]tev, 0, 2*len(gs))
	for _, g := range gs {
		evs = append(evs, tev{g.o.Call, true, g}, tev{g.o.Ret, false, g})
	}
	sort.Slice(evs, func(a, b int) bool { return evs[a].t < evs[b].t })
	var maxLocal, maxGlobal *granted
	maxDC := map[string]*granted{}
	firstRet := map[string]int64{} // dc -> return tick of its first granted response
	floorCross := map[*granted]*granted{}
	floorSame := map[*granted]*granted{}
	var crossPairsLG, crossPairsGL, samePairs int64
	for _, e := range evs {
		g := e.g
		isG := g.o.DC == globalDC
		if e.call {
			if isG {
				floorCross[g] = maxLocal
			} else {
				floorCross[g] = maxGlobal
			}
			floorSame[g] = maxDC[g.o.DC]
			continue
		}
		if f := floorCross[g]; f != nil {
			// the suffix width only matters inside one physical millisecond
			widthCase := f.bits != g.bits && f.o.Physical == g.o.Physical
			if isG {
				crossPairsLG++
				if g.lo <= f.hi {
					fd := finding{key: "global-not-above-completed-local", a: f.o, b: g.o,
						what: fmt.Sprintf("a global timestamp (min %d) is not greater than a %s timestamp (max %d) whose request completed before the global request began", g.lo, f.o.DC, f.hi)}
					if widthCase {
						fd.key += ":width-mismatch"
						if staleB(f) || staleB(g) {
							fd.mech, fd.key = true, "global-not-above-completed-local:"+mechB
						}
					} else if f.o.Skew && g.o.Skew {
						fd.key += ":skewed-dcs" // local allocators ahead of the global one by different leads
					}
					add(fd)
				}
			} else {
				crossPairsGL++
				if g.lo <= f.hi {
					fd := finding{key: "local-not-above-returned-global", a: f.o, b: g.o,
						what: fmt.Sprintf("a %s timestamp (min %d) requested after a global timestamp (max %d) had been returned is not greater than it", g.o.DC, g.lo, f.hi)}
					fr, hasRet := firstRet[g.o.DC]
					switch {
					case widthCase && staleB(g):
						fd.mech, fd.key = true, "local-not-above-returned-global:"+mechB
						fd.what += fmt.Sprintf(" (the local response has suffix_bits=%d, served by member m%d while the PD leader was m%d; the global one has suffix_bits=%d)", g.bits, g.o.Target, g.o.PDLeader, f.bits)
					case widthCase:
						fd.key += ":width-mismatch"
					case !hasRet || fr > f.o.Ret:
						// the dc had not granted anything yet when the global timestamp was returned
						fd.key += ":dc-joined-later"
						// Mechanism C: the dc's suffix did not even exist when the global request began,
						// and when its allocator serves the PD leader leads no other local allocator - the
						// only source a new allocator's initial synchronisation (GetMaxLocalTSO) consults.
						others := 0
						for _, d := range g.o.PDLeads {
							if d != g.o.DC {
								others++
							}
						}
						if seen, ok := sufSeenAt[g.o.DC]; ok && seen > f.o.Call && others == 0 {
							fd.mech, fd.key = true, "local-not-above-returned-global:"+mechC
							fd.what += fmt.Sprintf(" (dc %s got its suffix after the global request began; PD leader m%d led no other local allocator when this request began)", g.o.DC, g.o.PDLeader)
						}
					}
					add(fd)
				}
			}
		}
		if f := floorSame[g]; f != nil {
			samePairs++
			if g.lo <= f.hi {
				key := "tso-not-increasing-in-real-time:" + kindOf(g.o.DC)
				if f.bits != g.bits || f.sfx != g.sfx {
					key += ":width-change"
				}
				add(finding{key: key, a: f.o, b: g.o,
					what: fmt.Sprintf("allocator %s granted min %d to a request that began after a request granted max %d had completed", g.o.DC, g.lo, f.hi)})
			}
		}
		if isG {
			if maxGlobal == nil || g.hi > maxGlobal.hi {
				maxGlobal = g
			}
		} else if maxLocal == nil || g.hi > maxLocal.hi {
			maxLocal = g
		}
		if m := maxDC[g.o.DC]; m == nil || g.hi > m.hi {
			maxDC[g.o.DC] = g
		}
		if _, ok := firstRet[g.o.DC]; !ok {
			firstRet[g.o.DC] = g.o.Ret
		}
	}
	r.Count("ordered_pairs_local_then_global_checked", crossPairsLG)
	r.Count("ordered_pairs_global_then_local_checked", crossPairsGL)
	r.Count("ordered_pairs_same_allocator_checked", samePairs)

	// ---------- lib/tsochk on every (dc, bits, suffix) partition (exact there) as a second opinion ----------
	have := map[string]bool{}
	for _, f := range fs {
		have[f.key] = true
	}
	var pks []string
	for pk := range parts {
		pks = append(pks, pk)
	}
	sort.Strings(pks)
	for _, pk := range pks {
		if p := tsochk.Check(parts[pk]); p != nil {
			key := p.Kind + ":" + kindOf(parts[pk][0].DC)
			if have[key] {
				continue
			}
			f := finding{key: key, what: p.What + " (allocator " + pk + ", found by lib/tsochk only)", extra: map[string]interface{}{"partition": pk}}
			if p.A != nil {
				f.a = &op{Resp: *p.A}
			}
			if p.B != nil {
				f.b = &op{Resp: *p.B}
			}
			add(f)
		}
	}

	// ---------- report ----------
	widths := map[string]bool{}
	for _, g := range gs {
		widths[fmt.Sprintf("%s:b%d:s%d", g.o.DC, g.bits, g.sfx)] = true
	}
	var ws []string
	for w := range widths {
		ws = append(ws, w)
	}
	sort.Strings(ws)
	r.Set("allocators_seen_"+c.t.Name, ws)

	perKey := map[string]int{}
	for _, f := range fs {
		perKey[f.key]++
	}
	done := map[string]bool{}
	for _, f := range fs {
		key := f.key
		if !f.mech {
			key += ":" + c.class()
		}
		if done[key] {
			continue
		}
		done[key] = true
		w := map[string]interface{}{"topology": c.t, "occurrences_of_this_kind": perKey[f.key], "cluster_events": notes,
			"suffix_key_history": sev, "dc_location_key_history": dcl, "allocators_seen": ws}
		if f.a != nil {
			w["a"] = f.a
		}
		if f.b != nil {
			w["b"] = f.b
		}
		for k, v := range f.extra {
			w[k] = v
		}
		if f.a != nil {
			w["context"] = contextOf(ops, f.a, f.b)
		}
		r.Violation(key, f.what, w)
	}
	if len(fs) == 0 {
		var smp []op
		seenDC := map[string]int{}
		for _, g := range gs {
			if seenDC[g.o.DC] < 2 && g.o.Round >= 0 {
				seenDC[g.o.DC]++
				smp = append(smp, *g.o)
			}
		}
		r.Sample(map[string]interface{}{"topology": c.t.Name, "suffix_keys": sev, "cluster_events": notes, "granted": smp})
	}
}

// contextOf returns the granted responses of the involved dcs around the two ops (by tick).
func contextOf(ops []op, a, b *op) []op {
	lo, hi := a.Call, a.Ret
	dcs := map[string]bool{a.DC: true, globalDC: true}
	if b != nil {
		dcs[b.DC] = true
		if b.Call < lo {
			lo = b.Call
		}
		if b.Ret > hi {
			hi = b.Ret
		}
	}
	var out []op
	for _, o := range ops {
		if o.Err == "" && dcs[o.DC] && o.Ret >= lo-40 && o.Call <= hi+40 {
			out = append(out, o)
		}
	}
	sort.Slice(out, func(x, y int) bool { return out[x].Call < out[y].Call })
	if len(out) > 60 {
		out = out[:60]
	}
	return out
}

// scrapeMetrics reads pd's own TSO event counters (process-wide registry) from a member's /metrics
// endpoint: they show which branches of the global protocol were reached (evidence only).
func (c *cluster) scrapeMetrics() {
	want := map[string]bool{"global_tso_sync": true, "global_tso_estimate": true, "global_tso_persist": true,
		"precheck_logical_overflow": true, "logical_overflow": true, "not_leader": true, "exceeded_max_retry": true,
		"err_reset_small_ts": true, "err_reset_small_counter": true, "reset_tso_ok": true}
	for _, m := range c.members() {
		if m == nil {
			continue
		}
		cl := &http.Client{Timeout: 10 * time.Second}
		resp, err := cl.Get(m.Cfg.ClientUrls + "/metrics")
		if err != nil {
			continue
		}
		body, err := ioutil.ReadAll(resp.Body)
		resp.Body.Close()
		if err != nil {
			continue
		}
		out := map[string]int64{}
		for _, line := range strings.Split(string(body), "\n") {
			if !strings.HasPrefix(line, "pd_tso_events{") {
				continue
			}
			mm := metricRe.FindStringSubmatch(line)
			if mm == nil {
				continue
			}
			labels := mm[1]
			var typ, dc string
			for _, kv := range labelRe.FindAllStringSubmatch(labels, -1) {
				if kv[1] == "type" {
					typ = kv[2]
				}
				if kv[1] == "dc" {
					dc = kv[2]
				}
			}
			v, err := strconv.ParseFloat(mm[2], 64)
			if err != nil || !want[typ] {
				continue
			}
			out["pd_tso_events_"+typ+"_"+kindOf(dc)] += int64(v)
		}
		// the registry is process-wide and cumulative: keep the latest reading
		for k, v := range out {
			c.r.Set(k, v)
		}
		return
	}
}

var (
	metricRe = regexp.MustCompile(`^pd_tso_events\{([^}]*)\} ([0-9.e+]+)`)
	labelRe  = regexp.MustCompile(`(\w+)="([^"]*)"`)
)
