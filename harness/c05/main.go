// C05 — Local and global timestamps are mutually consistent.
//
// A cluster of 3 real pd servers (lib/srv) with EnableLocalTSO and zone labels serves concurrent
// local requesters in every dc and global requesters, through AllocatorManager.HandleTSORequest on
// the member currently serving the dc and through real gRPC Tso streams (direct and forwarded).
// Every response is recorded with call/return ticks of one logical clock; the local-tso-suffix keys
// are followed by an etcd watch from revision 1. Everything is judged offline (oracle.go):
// per-allocator C01 rules, value-set disjointness across allocators, the two cross real-time
// rules, and the suffix clauses.
package main

import (
	"context"
	"fmt"
	"math/rand"
	"os"
	"sort"
	"strconv"
	"strings"
	"sync"
	"time"

	"github.com/pingcap/kvproto/pkg/pdpb"
	"github.com/tikv/pd/pkg/grpcutil"
	"github.com/tikv/pd/pkg/tsoutil"
	"github.com/tikv/pd/server/config"
	"github.com/tikv/pd/server/tso"
	"go.etcd.io/etcd/clientv3"
	"google.golang.org/grpc"
	"verif/harness/lib/ev"
	"verif/harness/lib/hist"
	"verif/harness/lib/srv"
	"verif/harness/lib/tsochk"
)

const globalDC = tso.GlobalDCLocation

// topo is one datacenter topology of a 3-member cluster.
type topo struct {
	Name     string
	Zones    []string // zone label of member i
	Late     []bool   // member i is started after the first phase (its dc may join later)
	Transfer bool     // local allocator leaders are moved during the rounds
	// Placement of the first dc's allocator relative to the PD leader before a late dc joins (both
	// are legal placements; PD itself does not prefer one): "remote" moves it away from the PD
	// leader, "colocated" moves it onto the PD leader, "" leaves it where the election put it.
	Before string
	// Ahead: before the late dc joins, the administrator moves the TSO forward by 8 s through
	// Handler.ResetTS (the supported reset-ts operation), so that the running allocators are ahead
	// of the wall clock - the situation clock differences between datacenters produce.
	Ahead bool
	// Skewed: after the concurrent rounds, sequential "skewed-dc" rounds in which every local
	// allocator is first pushed ahead by a different lead (dc clocks ahead of the PD leader's by
	// different offsets), then local / global / local timestamps are taken.
	Skewed bool
	// Events: during the concurrent rounds other entry points run against the traffic: PD leader
	// resignation, reset of a local allocator on its leader (what pd does when a window update
	// fails), the admin reset-ts (+2 s), and stop + restart of a member.
	Events bool
	// Populated: the cluster's etcd root holds a few thousand unrelated keys around the TSO keys.
	Populated bool
	// Window: the topology ends with the directed window histories (see windowHistories).
	Window bool
	// PDChangeAtJoin: the PD leader resigns while the late dc joins.
	PDChangeAtJoin bool
}

// class is the coarse kind of history the cluster produced; it is part of every violation key.
func (c *cluster) class() string {
	switch {
	case c.t.Late != nil:
		// what matters for a joining dc is whether the PD leader itself led a local allocator then
		if c.joinClass == "" {
			return "dc-joins-later/before-join"
		}
		return "dc-joins-later/" + c.joinClass
	case c.t.Transfer:
		return "allocator-moves"
	}
	return "static"
}

var topologies = map[string]topo{
	"3dc": {Name: "3dc", Zones: []string{"dc-1", "dc-2", "dc-3"}, Skewed: true, Events: true},
	// dc names that are prefixes of each other (the per-dc etcd paths are read by prefix)
	"3dc-prefix": {Name: "3dc-prefix", Zones: []string{"dc-1", "dc-10", "dc-100"}, Skewed: true, Events: true, Populated: true},
	"2dc":        {Name: "2dc", Zones: []string{"dc-1", "dc-1", "dc-2"}, Skewed: true, Events: true, Populated: true},
	"1dc":        {Name: "1dc", Zones: []string{"dc-1", "dc-1", "dc-1"}, Events: true, Window: true},
	"2dc-window": {Name: "2dc-window", Zones: []string{"dc-1", "dc-1", "dc-2"}, Window: true},
	"3dc-move":   {Name: "3dc-move", Zones: []string{"dc-1", "dc-2", "dc-3"}, Transfer: true},
	"2dc-move":   {Name: "2dc-move", Zones: []string{"dc-1", "dc-1", "dc-2"}, Transfer: true},
	"late-dc":    {Name: "late-dc", Zones: []string{"dc-1", "dc-1", "dc-2"}, Late: []bool{false, false, true}},
	"late-dc-remote": {Name: "late-dc-remote", Zones: []string{"dc-1", "dc-1", "dc-2"}, Late: []bool{false, false, true},
		Before: "remote", Ahead: true},
	"late-dc-colocated": {Name: "late-dc-colocated", Zones: []string{"dc-1", "dc-1", "dc-2"}, Late: []bool{false, false, true},
		Before: "colocated", Ahead: true},
	"late-3rd": {Name: "late-3rd", Zones: []string{"dc-1", "dc-2", "dc-3"}, Late: []bool{false, false, true}},
	"late-dc-pdchange": {Name: "late-dc-pdchange", Zones: []string{"dc-1", "dc-1", "dc-2"}, Late: []bool{false, false, true},
		PDChangeAtJoin: true},
	"late-3rd-pdchange": {Name: "late-3rd-pdchange", Zones: []string{"dc-1", "dc-2", "dc-3"}, Late: []bool{false, false, true},
		PDChangeAtJoin: true},
}

// op is one recorded request.
type op struct {
	tsochk.Resp
	Mode   string `json:"mode"`    // direct | grpc | forward
	Round  int    `json:"round"`   // -1 = probe
	Target int    `json:"target"`  // member the request was handed to (allocator side)
	WallMs int64  `json:"wall_ms"` // wall clock at return (diagnostics in witnesses only; no oracle reads it)
	// placement when the request began: the PD leader member and the dcs whose local allocator
	// that member led (used to name the mechanism of a violation, never to decide one)
	Skew     bool     `json:"skewed_round,omitempty"` // issued in a skewed-dc round (names the history in a key only)
	PDLeader int      `json:"pd_leader"`
	PDLeads  []string `json:"pd_leader_leads,omitempty"`
}

type suffixEv struct {
	Key   string `json:"key"`
	DC    string `json:"dc"`
	Type  string `json:"type"` // PUT | DELETE
	Value string `json:"value"`
	Rev   int64  `json:"rev"`
	Tick  int64  `json:"observed_at_tick"` // tick taken after the watch delivered the event
}

type cluster struct {
	r    *ev.Run
	t    topo
	cfgs []*config.Config

	mu    sync.RWMutex
	ms    []*srv.Member
	conns map[int]*grpc.ClientConn
	ops   []op
	notes []string

	wmu      sync.Mutex
	suffix   []suffixEv
	dcloc    []suffixEv
	wcancel  context.CancelFunc
	wdone    chan struct{}
	prefix   string
	dcPrefix string

	t0      time.Time
	cli     *clientv3.Client // the harness's own etcd client (all members as endpoints)
	stopped map[int]bool     // members the harness has stopped (or is stopping)

	joinClass string // "pd-leader-leads-no-allocator" | "pd-leader-leads-an-allocator", fixed when the late member starts
}

func (c *cluster) note(format string, a ...interface{}) {
	// the wall-clock offset is for reading witnesses only
	s := fmt.Sprintf("t%d +%.1fs ", hist.Now(), time.Since(c.t0).Seconds()) + fmt.Sprintf(format, a...)
	c.mu.Lock()
	c.notes = append(c.notes, s)
	c.mu.Unlock()
}

func (c *cluster) members() []*srv.Member {
	c.mu.RLock()
	defer c.mu.RUnlock()
	return append([]*srv.Member(nil), c.ms...)
}

func (c *cluster) record(o op) {
	c.mu.Lock()
	c.ops = append(c.ops, o)
	c.mu.Unlock()
}

// dcs returns the distinct zones of the members selected by pick.
func (c *cluster) dcs(includeLate bool) []string {
	seen := map[string]bool{}
	var out []string
	for i, z := range c.t.Zones {
		if !includeLate && c.t.Late != nil && c.t.Late[i] {
			continue
		}
		if !seen[z] {
			seen[z] = true
			out = append(out, z)
		}
	}
	sort.Strings(out)
	return out
}

// serving returns the member that currently claims to serve dc (PD leader for "global").
func (c *cluster) serving(dc string) (int, *srv.Member) {
	for i, m := range c.members() {
		if m == nil || m.Srv.IsClosed() {
			continue
		}
		if dc == globalDC {
			if m.Srv.GetMember().IsLeader() {
				return i, m
			}
			continue
		}
		a, err := m.Srv.GetTSOAllocatorManager().GetAllocator(dc)
		if err != nil {
			continue
		}
		if la, ok := a.(*tso.LocalTSOAllocator); ok && la.IsAllocatorLeader() {
			return i, m
		}
	}
	return -1, nil
}

// pdPlacement returns the PD leader member and the dcs whose local allocator it leads right now.
func (c *cluster) pdPlacement() (int, []string) {
	gi, gm := c.serving(globalDC)
	if gm == nil {
		return -1, nil
	}
	var leads []string
	for _, dc := range c.dcs(true) {
		a, err := gm.Srv.GetTSOAllocatorManager().GetAllocator(dc)
		if err != nil {
			continue
		}
		if la, ok := a.(*tso.LocalTSOAllocator); ok && la.IsAllocatorLeader() {
			leads = append(leads, dc)
		}
	}
	return gi, leads
}

func (c *cluster) placement() string {
	var parts []string
	for _, dc := range append([]string{globalDC}, c.dcs(true)...) {
		i, _ := c.serving(dc)
		parts = append(parts, fmt.Sprintf("%s@m%d", dc, i))
	}
	return strings.Join(parts, " ")
}

func (c *cluster) conn(i int) *grpc.ClientConn {
	c.mu.Lock()
	defer c.mu.Unlock()
	if cc := c.conns[i]; cc != nil {
		return cc
	}
	addr := strings.TrimPrefix(c.cfgs[i].ClientUrls, "http://")
	cc, err := grpc.Dial(addr, grpc.WithInsecure())
	if err != nil {
		return nil
	}
	c.conns[i] = cc
	return cc
}

// ---- start / stop ----

func startCluster(r *ev.Run, t topo) *cluster {
	var c *cluster
	var lastErr error
	for attempt := 0; attempt < 3; attempt++ {
		cfgs := srv.NewConfigs(3, func(i int, cfg *config.Config) {
			cfg.EnableLocalTSO = true
			if cfg.Labels == nil {
				cfg.Labels = map[string]string{}
			}
			cfg.Labels[config.ZoneLabel] = t.Zones[i]
			cfg.LeaderLease = 8 // the machine is shared: keep the PD leadership stable under load
		})
		c = &cluster{r: r, t: t, cfgs: cfgs, ms: make([]*srv.Member, 3), conns: map[int]*grpc.ClientConn{}, stopped: map[int]bool{}, t0: time.Now()}
		var first []*config.Config
		var idx []int
		for i := range cfgs {
			if t.Late == nil || !t.Late[i] {
				first = append(first, cfgs[i])
				idx = append(idx, i)
			}
		}
		ms, err := srv.StartCluster(first)
		if err != nil {
			lastErr = err
			time.Sleep(time.Second)
			continue
		}
		for k, m := range ms {
			c.ms[idx[k]] = m
		}
		lastErr = nil
		break
	}
	if lastErr != nil {
		skipped(r, "topology_skipped_setup_timeout", t.Name, "cluster start: %v", lastErr)
		return nil
	}
	if srv.WaitLeader(c.members(), 120*time.Second) == nil {
		skipped(r, "topology_skipped_setup_timeout", t.Name, "no PD leader within 120 s")
		c.close()
		return nil
	}
	c.startWatch()
	return c
}

func (c *cluster) startLate() bool {
	for i := range c.cfgs {
		if c.t.Late != nil && c.t.Late[i] {
			m, err := srv.Start(c.cfgs[i])
			if err != nil {
				skipped(c.r, "topology_cut_short", c.t.Name, "late member start: %v", err)
				return false
			}
			c.mu.Lock()
			c.ms[i] = m
			c.mu.Unlock()
			c.note("member m%d (zone %s) started late", i, c.t.Zones[i])
			// The new member learns the dc-locations from its own dc-location check. The one it spawns
			// at start-up returns at once when it has not seen the PD leader yet, and the next one is
			// due a minute later; like the repository's tests, run the new member's check explicitly
			// (only the new member's: what the old members know is left alone).
			go func(m *srv.Member) {
				for k := 0; k < 8; k++ {
					time.Sleep(500 * time.Millisecond)
					if m.Srv.IsClosed() {
						return
					}
					m.Srv.GetTSOAllocatorManager().ClusterDCLocationChecker()
				}
			}(m)
		}
	}
	return true
}

func (c *cluster) close() {
	if c.wcancel != nil {
		c.wcancel()
		<-c.wdone
	}
	if c.cli != nil {
		c.cli.Close()
	}
	c.mu.Lock()
	for _, cc := range c.conns {
		cc.Close()
	}
	c.conns = map[int]*grpc.ClientConn{}
	ms := append([]*srv.Member(nil), c.ms...)
	c.mu.Unlock()
	var wg sync.WaitGroup
	for _, m := range ms {
		if m != nil {
			wg.Add(1)
			go func(m *srv.Member) { defer wg.Done(); m.Close() }(m)
		}
	}
	wg.Wait()
}

// startWatch follows the suffix keys and the dc-location keys from revision 1 with an ordinary
// etcd client of one member (ground truth of what is durably stored, in revision order).
func (c *cluster) startWatch() {
	var m0 *srv.Member
	for _, m := range c.members() {
		if m != nil {
			m0 = m
			break
		}
	}
	am := m0.Srv.GetTSOAllocatorManager()
	c.prefix = am.GetLocalTSOSuffixPathPrefix() + "/"
	c.dcPrefix = m0.Srv.GetMember().GetDCLocationPathPrefix()
	ctx, cancel := context.WithCancel(context.Background())
	c.wcancel = cancel
	c.wdone = make(chan struct{})
	var eps []string
	for _, cfg := range c.cfgs {
		eps = append(eps, cfg.ClientUrls)
	}
	cli, err := clientv3.New(clientv3.Config{Endpoints: eps, DialTimeout: 10 * time.Second})
	if err != nil {
		cli = m0.Srv.GetClient()
	} else {
		c.cli = cli
	}
	ch1 := cli.Watch(ctx, c.prefix, clientv3.WithPrefix(), clientv3.WithRev(1))
	ch2 := cli.Watch(ctx, c.dcPrefix, clientv3.WithPrefix(), clientv3.WithRev(1))
	go func() {
		defer close(c.wdone)
		for ch1 != nil || ch2 != nil {
			select {
			case wr, ok := <-ch1:
				if !ok {
					ch1 = nil
					continue
				}
				c.absorb(wr, true)
			case wr, ok := <-ch2:
				if !ok {
					ch2 = nil
					continue
				}
				c.absorb(wr, false)
			}
		}
	}()
}

func (c *cluster) absorb(wr clientv3.WatchResponse, isSuffix bool) {
	t := hist.Tick()
	c.wmu.Lock()
	defer c.wmu.Unlock()
	for _, e := range wr.Events {
		k := string(e.Kv.Key)
		se := suffixEv{Key: k, Type: e.Type.String(), Value: string(e.Kv.Value), Rev: e.Kv.ModRevision, Tick: t}
		if isSuffix {
			se.DC = strings.TrimPrefix(k, c.prefix)
			c.suffix = append(c.suffix, se)
		} else {
			se.DC = string(e.Kv.Value)
			c.dcloc = append(c.dcloc, se)
		}
	}
}

// settleWatch waits until the watch has delivered everything committed so far.
func (c *cluster) settleWatch() bool {
	_, m := c.serving(globalDC)
	if m == nil {
		for _, x := range c.members() {
			if x != nil {
				m = x
			}
		}
	}
	cli := c.cli
	if cli == nil {
		cli = m.Srv.GetClient()
	}
	ctx, cancel := context.WithTimeout(context.Background(), 20*time.Second)
	resp, err := cli.Get(ctx, c.prefix, clientv3.WithPrefix())
	cancel()
	if err != nil {
		return false
	}
	deadline := time.Now().Add(30 * time.Second)
	for {
		c.wmu.Lock()
		seen := map[int64]bool{}
		for _, e := range c.suffix {
			seen[e.Rev] = true
		}
		c.wmu.Unlock()
		all := true
		for _, kv := range resp.Kvs {
			if !seen[kv.ModRevision] {
				all = false
			}
		}
		if all {
			return true
		}
		if time.Now().After(deadline) {
			return false
		}
		time.Sleep(50 * time.Millisecond)
	}
}

// ---- requests ----

type requester struct {
	c       *cluster
	id      int
	skew    bool
	streams map[string]pdpb.PD_TsoClient
	cancels []context.CancelFunc
}

func (q *requester) close() {
	for _, s := range q.streams {
		s.CloseSend()
	}
	for _, f := range q.cancels {
		f()
	}
}

const (
	modeDirect  = "direct"
	modeGRPC    = "grpc"
	modeForward = "forward"
)

// do sends one request for dc to the member currently serving it (or to member `force` if >= 0).
func (q *requester) do(dc string, count uint32, mode string, round int, force int) op {
	c := q.c
	ti, m := c.serving(dc)
	if force >= 0 {
		ms := c.members()
		if ms[force] != nil {
			ti, m = force, ms[force]
		}
	}
	o := op{Mode: mode, Round: round, Target: ti}
	o.Client, o.Member, o.DC, o.Count = q.id, ti, dc, count
	o.PDLeader, o.PDLeads = c.pdPlacement()
	o.Skew = q.skew
	if m == nil {
		o.Call = hist.Tick()
		o.Err = "no member serves " + dc
		o.Ret = hist.Tick()
		c.record(o)
		c.r.Count("requests_without_serving_member", 1)
		time.Sleep(20 * time.Millisecond)
		return o
	}
	switch mode {
	case modeDirect:
		func() {
			defer func() {
				if p := recover(); p != nil {
					o.Ret = hist.Tick()
					o.Err = fmt.Sprintf("panic: %v", p)
					c.mu.RLock()
					gone := c.stopped[ti]
					c.mu.RUnlock()
					if gone { // a direct call into the objects of a server the harness has closed
						c.r.Count("panics_on_stopped_member_not_judged", 1)
						return
					}
					c.r.Violation("panic-in-tso-request:"+c.class(), fmt.Sprintf("HandleTSORequest(%s,%d) panicked: %v", dc, count, p),
						map[string]interface{}{"op": o, "notes": c.notesCopy()})
				}
			}()
			o.Call = hist.Tick()
			ts, err := m.Srv.GetTSOAllocatorManager().HandleTSORequest(dc, count)
			o.Ret = hist.Tick()
			if err != nil {
				o.Err = err.Error()
			} else {
				o.Physical, o.Logical, o.Bits = ts.GetPhysical(), ts.GetLogical(), ts.GetSuffixBits()
			}
		}()
	default:
		via := ti
		key := fmt.Sprintf("d%d", ti)
		if mode == modeForward {
			via = (ti + 1 + q.id%2) % len(c.cfgs)
			if ms := c.members(); ms[via] == nil {
				via = ti
			}
			key = fmt.Sprintf("f%d>%d", via, ti)
		}
		st := q.streams[key]
		if st == nil {
			cc := c.conn(via)
			if cc == nil {
				o.Call = hist.Tick()
				o.Err = "dial failed"
				o.Ret = hist.Tick()
				c.record(o)
				return o
			}
			ctx, cancel := context.WithCancel(context.Background())
			if via != ti {
				ctx = grpcutil.BuildForwardContext(ctx, m.Srv.GetAddr())
			}
			s, err := pdpb.NewPDClient(cc).Tso(ctx)
			if err != nil {
				cancel()
				o.Call = hist.Tick()
				o.Err = "open stream: " + err.Error()
				o.Ret = hist.Tick()
				c.record(o)
				time.Sleep(5 * time.Millisecond)
				return o
			}
			q.cancels = append(q.cancels, cancel)
			q.streams[key] = s
			st = s
		}
		o.Call = hist.Tick()
		err := st.Send(&pdpb.TsoRequest{Header: m.Header(), Count: count, DcLocation: dc})
		var rp *pdpb.TsoResponse
		if err == nil {
			rp, err = st.Recv()
		}
		o.Ret = hist.Tick()
		if err != nil {
			o.Err = err.Error()
			delete(q.streams, key)
		} else {
			ts := rp.GetTimestamp()
			o.Physical, o.Logical, o.Bits = ts.GetPhysical(), ts.GetLogical(), ts.GetSuffixBits()
			if rp.GetCount() != count {
				o.Err = fmt.Sprintf("response count %d != requested %d", rp.GetCount(), count)
			}
		}
	}
	o.WallMs = time.Now().UnixNano() / int64(time.Millisecond)
	c.record(o)
	if o.Err != "" {
		time.Sleep(3 * time.Millisecond)
	}
	return o
}

// waitServing waits until every dc in dcs and the global allocator grant a probe request.
func (c *cluster) waitServing(dcs []string, timeout time.Duration) bool {
	q := &requester{c: c, id: 900, streams: map[string]pdpb.PD_TsoClient{}}
	defer q.close()
	deadline := time.Now().Add(timeout)
	want := append([]string{}, dcs...)
	want = append(want, globalDC)
	for {
		okAll := true
		for _, dc := range want {
			if _, m := c.serving(dc); m == nil {
				okAll = false
				break
			}
			if o := q.do(dc, 1, modeDirect, -1, -1); o.Err != "" {
				okAll = false
				break
			}
		}
		if okAll {
			return true
		}
		if time.Now().After(deadline) {
			return false
		}
		time.Sleep(200 * time.Millisecond)
	}
}

var countSet = []uint32{1, 10, 1000, 1 << 15}

func pickCount(lr *rand.Rand, pressure bool) uint32 {
	k := lr.Intn(100)
	if pressure {
		switch {
		case k < 55:
			return 1 << 15
		case k < 75:
			return 1000
		case k < 90:
			return 10
		default:
			return 1
		}
	}
	switch {
	case k < 40:
		return 1
	case k < 75:
		return 10
	case k < 96:
		return 1000
	default:
		return 1 << 15
	}
}

func pickMode(lr *rand.Rand) string {
	switch k := lr.Intn(10); {
	case k < 5:
		return modeDirect
	case k < 8:
		return modeGRPC
	default:
		return modeForward
	}
}

// round: bursts of local requests in every dc from 4-8 goroutines, 1-4 global requesters and one
// chain worker alternating local -> global -> local; the case list is fixed by the seed.
func (c *cluster) round(rd int, rng *rand.Rand, dcs []string, during func()) string {
	pressure := rd%5 == 4
	type plan struct {
		dc    string
		n     int
		seed  int64
		chain bool
	}
	var plans []plan
	shape := fmt.Sprintf("p%v", pressure)
	for _, dc := range dcs {
		g := 4 + rng.Intn(5)
		shape += fmt.Sprintf("|%s:%d", dc, g)
		for i := 0; i < g; i++ {
			plans = append(plans, plan{dc: dc, n: 5 + rng.Intn(8), seed: rng.Int63()})
		}
	}
	ng := 1 + rng.Intn(4)
	shape += fmt.Sprintf("|g:%d", ng)
	for i := 0; i < ng; i++ {
		plans = append(plans, plan{dc: globalDC, n: 3 + rng.Intn(5), seed: rng.Int63()})
	}
	plans = append(plans, plan{chain: true, n: 4 + rng.Intn(4), seed: rng.Int63()})
	shape += fmt.Sprintf("|s%x", rng.Int63()&0xffff) // the rest of the round derives from these seeds
	var wg sync.WaitGroup
	for pi, p := range plans {
		wg.Add(1)
		go func(pi int, p plan) {
			defer wg.Done()
			lr := rand.New(rand.NewSource(p.seed))
			q := &requester{c: c, id: rd*100 + pi, streams: map[string]pdpb.PD_TsoClient{}}
			defer q.close()
			if p.chain {
				for k := 0; k < p.n; k++ {
					q.do(dcs[lr.Intn(len(dcs))], pickCount(lr, false), pickMode(lr), rd, -1)
					q.do(globalDC, pickCount(lr, false), pickMode(lr), rd, -1)
					q.do(dcs[lr.Intn(len(dcs))], pickCount(lr, false), pickMode(lr), rd, -1)
				}
				return
			}
			mode := pickMode(lr)
			for k := 0; k < p.n; k++ {
				force := -1
				if lr.Intn(25) == 0 { // sometimes ask a member that does not serve the dc
					force = lr.Intn(len(c.cfgs))
				}
				q.do(p.dc, pickCount(lr, pressure), mode, rd, force)
			}
		}(pi, p)
	}
	if during != nil {
		wg.Add(1)
		go func() { defer wg.Done(); during() }()
	}
	wg.Wait()
	return shape
}

// beforeJoin prepares the situation in which the late dc joins: placement of the first dc's
// allocator relative to the PD leader, and (Ahead) allocators that run ahead of the wall clock.
func (c *cluster) beforeJoin(rng *rand.Rand, dcs []string) bool {
	t := c.t
	if t.Before != "" {
		gi, _ := c.serving(globalDC)
		li, _ := c.serving(dcs[0])
		moved := false
		switch {
		case t.Before == "remote" && li == gi && li >= 0:
			moved = c.move(dcs[0], rng)
		case t.Before == "colocated" && li != gi && li >= 0 && gi >= 0:
			moved = c.moveTo(dcs[0], gi, rng)
		default:
			li = -1
		}
		if li >= 0 {
			if !moved || !c.waitMoved(dcs[0], li, 60*time.Second) {
				c.r.Count("placement_before_join_not_reached", 1)
			}
			if !c.waitServing(dcs, 90*time.Second) {
				skipped(c.r, "topology_cut_short", t.Name, "allocators did not serve again after the move before the join (placement %s)", c.placement())
				return false
			}
			c.note("serving: %s", c.placement())
		}
	}
	if t.Ahead {
		q := &requester{c: c, id: 700, streams: map[string]pdpb.PD_TsoClient{}}
		defer q.close()
		o := q.do(globalDC, 1, modeDirect, -3, -1)
		_, m := c.serving(globalDC)
		if o.Err != "" || m == nil {
			skipped(c.r, "topology_cut_short", t.Name, "no global timestamp before the administrative reset")
			return false
		}
		target := o.Physical + 8000
		err := m.Srv.GetHandler().ResetTS(tsoutil.GenerateTS(tsoutil.GenerateTimestamp(time.Unix(0, target*int64(time.Millisecond)), 0)))
		c.note("admin reset-ts to physical %d (8 s ahead) err=%v", target, err)
		if err != nil {
			c.r.Count("admin_reset_refused", 1)
		} else {
			c.r.Count("admin_resets", 1)
		}
		// a few global requests carry the new time to every local allocator (write phase)
		for i := 0; i < 3; i++ {
			q.do(globalDC, 1, modeDirect, -3, -1)
		}
		for _, dc := range dcs {
			q.do(dc, 1, modeDirect, -3, -1)
		}
	}
	gi, _ := c.serving(globalDC)
	c.joinClass = "pd-leader-leads-no-allocator"
	for _, dc := range dcs {
		if li, _ := c.serving(dc); li == gi && li >= 0 {
			c.joinClass = "pd-leader-leads-an-allocator"
		}
	}
	c.note("late dc is about to join: %s (%s)", c.placement(), c.joinClass)
	return true
}

// populate stores n unrelated keys of inert kinds below the cluster's etcd root, before, between and
// after the keys the TSO code reads (a cluster that has been in use has thousands of them).
func (c *cluster) populate(n int) {
	cli := c.cli
	if cli == nil {
		return
	}
	root := strings.TrimSuffix(c.prefix, "local-tso-suffix/")
	kinds := []string{"aa/%05d", "gc/safe_point/service/svc-%d", "m/%d", "status/x-%d", "tidb/%d", "zz/%d"}
	var ops []clientv3.Op
	flush := func() {
		if len(ops) > 0 {
			ctx, cancel := context.WithTimeout(context.Background(), 20*time.Second)
			if _, err := cli.Txn(ctx).Then(ops...).Commit(); err == nil {
				c.r.Count("populated_keys", int64(len(ops)))
			}
			cancel()
			ops = ops[:0]
		}
	}
	for i := 0; i < n; i++ {
		ops = append(ops, clientv3.OpPut(root+fmt.Sprintf(kinds[i%len(kinds)], i), "populated-by-the-harness"))
		if len(ops) == 100 {
			flush()
		}
	}
	flush()
}

const (
	evPDTransfer   = "pd-transfer"
	evPDResign     = "pd-resign"
	evAllocReset   = "alloc-reset"
	evAdminReset   = "admin-reset"
	evMemberCycle  = "member-restart"
	evClusterCycle = "cluster-restart"
)

// eventPlan fixes, from the seed, which rounds run which event.
func eventPlan(rng *rand.Rand, rounds int, thorough bool) map[int]string {
	plan := map[int]string{}
	kinds := []string{evPDTransfer, evAllocReset, evAdminReset, evMemberCycle, evAllocReset, evPDResign}
	rng.Shuffle(len(kinds), func(i, j int) { kinds[i], kinds[j] = kinds[j], kinds[i] })
	step, restarts, k := 4, 0, 0
	if thorough {
		step = 5
	}
	for rd := 3; rd < rounds; rd += step {
		kind := kinds[k%len(kinds)]
		k++
		if kind == evMemberCycle {
			if restarts >= 3 {
				kind = evAllocReset
			} else {
				restarts++
			}
		}
		plan[rd] = kind
		if kind == evAdminReset && rd+1 < rounds {
			plan[rd+1] = evAllocReset // an allocator leader change while the TSO is ahead of the wall clock
		}
	}
	return plan
}

// event runs one event against the traffic of the current round.
func (c *cluster) event(kind string, rng *rand.Rand, dcs []string) {
	time.Sleep(time.Duration(5+rng.Intn(25)) * time.Millisecond)
	switch kind {
	case evPDResign:
		if i, m := c.serving(globalDC); m != nil {
			m.Srv.GetMember().ResetLeader()
			c.note("event: PD leader m%d resigned", i)
			c.r.Count("events_pd_resign", 1)
		}
	case evPDTransfer:
		// what the /leader/resign API does: the etcd leadership moves to another member and the PD
		// leadership follows it
		if i, m := c.serving(globalDC); m != nil {
			ctx, cancel := context.WithTimeout(context.Background(), 10*time.Second)
			err := m.Srv.GetMember().ResignEtcdLeader(ctx, m.Srv.Name(), "")
			cancel()
			c.note("event: PD leader m%d hands the etcd leadership over (err=%v)", i, err)
			c.r.Count("events_pd_transfer", 1)
		}
	case evAllocReset:
		dc := dcs[rng.Intn(len(dcs))]
		if i, m := c.serving(dc); m != nil {
			m.Srv.GetTSOAllocatorManager().ResetAllocatorGroup(dc)
			c.note("event: allocator of %s reset on its leader m%d", dc, i)
			c.r.Count("events_alloc_reset", 1)
		}
	case evAdminReset:
		q := &requester{c: c, id: 650, streams: map[string]pdpb.PD_TsoClient{}}
		o := q.do(globalDC, 1, modeDirect, -3, -1)
		q.close()
		if _, m := c.serving(globalDC); m != nil && o.Err == "" {
			target := o.Physical + 2000
			err := m.Srv.GetHandler().ResetTS(tsoutil.GenerateTS(tsoutil.GenerateTimestamp(time.Unix(0, target*int64(time.Millisecond)), 0)))
			c.note("event: admin reset-ts +2 s err=%v", err)
			c.r.Count("events_admin_reset", 1)
			// a global request carries the new time to the local allocators; then one of them changes
			// its leader while it is ahead of the wall clock
			q2 := &requester{c: c, id: 651, streams: map[string]pdpb.PD_TsoClient{}}
			q2.do(globalDC, 1, modeDirect, -3, -1)
			q2.close()
			c.event(evAllocReset, rng, dcs)
		}
	case evMemberCycle:
		c.cycleMember(rng.Intn(len(c.cfgs)), rng)
	case evClusterCycle:
		c.cycleCluster()
	}
}

// cycleMember stops member i (orderly shutdown: its RPCs fail, its leaderships are given up) and
// starts it again on the same data directory.
func (c *cluster) cycleMember(i int, rng *rand.Rand) {
	c.mu.Lock()
	m := c.ms[i]
	if m == nil {
		c.mu.Unlock()
		return
	}
	c.stopped[i] = true
	c.ms[i] = nil
	if cc := c.conns[i]; cc != nil {
		cc.Close()
		delete(c.conns, i)
	}
	c.mu.Unlock()
	var nm *srv.Member
	var err error
	if rng.Intn(2) == 0 {
		// Close and Run again on the SAME server object, server context still alive (what the
		// repository's own tests do with svr.Close(); svr.Run())
		c.note("event: member m%d is closed and run again on the same object", i)
		m.Srv.Close()
		time.Sleep(time.Duration(100+rng.Intn(300)) * time.Millisecond)
		if err = m.Srv.Run(); err == nil {
			nm = m
			c.r.Count("events_member_rerun_same_object", 1)
		} else {
			m.Stop()
		}
	} else {
		// the server context is cancelled first, then the server is closed (pd-server's shutdown order)
		c.note("event: member m%d stops (context cancelled, then closed)", i)
		m.Stop()
		time.Sleep(time.Duration(100+rng.Intn(300)) * time.Millisecond)
	}
	for k := 0; k < 4 && nm == nil; k++ {
		if nm, err = srv.Start(c.cfgs[i]); err == nil {
			break
		}
		nm = nil
		time.Sleep(time.Second)
	}
	if nm == nil {
		c.note("event: member m%d did not come back: %v", i, err)
		c.r.Count("events_member_restart_failed", 1)
		return
	}
	c.mu.Lock()
	c.ms[i] = nm
	delete(c.stopped, i)
	c.mu.Unlock()
	c.note("event: member m%d is back", i)
	c.r.Count("events_member_restart", 1)
}

// stopMember stops member i (context cancelled, then closed) without starting it again.
func (c *cluster) stopMember(i int) bool {
	c.mu.Lock()
	m := c.ms[i]
	if m == nil {
		c.mu.Unlock()
		return false
	}
	c.stopped[i] = true
	c.ms[i] = nil
	if cc := c.conns[i]; cc != nil {
		cc.Close()
		delete(c.conns, i)
	}
	c.mu.Unlock()
	c.note("member m%d stops (context cancelled, then closed)", i)
	m.Stop()
	return true
}

// startMember starts a stopped member again on its data directory.
func (c *cluster) startMember(i int) bool {
	var nm *srv.Member
	var err error
	for k := 0; k < 4; k++ {
		if nm, err = srv.Start(c.cfgs[i]); err == nil {
			break
		}
		nm = nil
		time.Sleep(time.Second)
	}
	if nm == nil {
		c.note("member m%d did not come back: %v", i, err)
		c.r.Count("events_member_restart_failed", 1)
		return false
	}
	c.mu.Lock()
	c.ms[i] = nm
	delete(c.stopped, i)
	c.mu.Unlock()
	c.note("member m%d is back", i)
	return true
}

// pdLeaderOffAllocators tries to put the PD leadership on a member that leads no local allocator
// (through the etcd leadership, as the /leader/transfer API does).
func (c *cluster) pdLeaderOffAllocators(dcs []string) {
	gi, gm := c.serving(globalDC)
	if gm == nil {
		return
	}
	busy := map[int]bool{}
	for _, dc := range dcs {
		if i, _ := c.serving(dc); i >= 0 {
			busy[i] = true
		}
	}
	if !busy[gi] {
		return
	}
	for i, m := range c.members() {
		if m == nil || busy[i] {
			continue
		}
		ctx, cancel := context.WithTimeout(context.Background(), 10*time.Second)
		err := gm.Srv.GetMember().ResignEtcdLeader(ctx, gm.Srv.Name(), m.Srv.Name())
		cancel()
		c.note("PD leadership asked to move m%d -> m%d, which leads no allocator (err=%v)", gi, i, err)
		deadline := time.Now().Add(20 * time.Second)
		for time.Now().Before(deadline) {
			if j, _ := c.serving(globalDC); j == i {
				break
			}
			time.Sleep(100 * time.Millisecond)
		}
		return
	}
}

// windowHistories is a directed, seed-independent family: the TSO is moved ahead of the wall clock
// by the admin reset-ts (+10 s, then +1 h), a global request carries that time G into the local
// allocators and is returned, and BEFORE the wall clock catches up the allocator leadership of one
// dc changes hands in three ways (transfer to another member / its holder stops / it is reset on
// its holder). The next leader has nothing but what is persisted. Local timestamps requested then
// must be greater than G (and than the dc's earlier ones): the existing clauses judge it.
func (c *cluster) windowHistories(rng *rand.Rand, dcs []string) {
	r := c.r
	dc := dcs[0]
	q := &requester{c: c, id: 500, streams: map[string]pdpb.PD_TsoClient{}}
	defer q.close()
	if len(dcs) > 1 {
		c.pdLeaderOffAllocators(dcs)
		c.waitServing(dcs, 60*time.Second)
	}
	c.note("window histories on %s: %s", dc, c.placement())
	k := 0
	for _, lead := range []int64{10 * 1000, 3600 * 1000} {
		for _, action := range []string{"transfer", "stop-holder", "reset-on-holder"} {
			k++
			rd := 3000 + k
			var g0 op
			for try := 0; try < 20; try++ {
				if g0 = q.do(globalDC, 1, modeDirect, rd, -1); g0.Err == "" {
					break
				}
				time.Sleep(200 * time.Millisecond)
			}
			_, gm := c.serving(globalDC)
			if g0.Err != "" || gm == nil {
				skipped(r, "window_history_skipped", fmt.Sprintf("%s_%d", c.t.Name, k), "no global timestamp before the reset")
				continue
			}
			target := g0.Physical + lead
			err := gm.Srv.GetHandler().ResetTS(tsoutil.GenerateTS(tsoutil.GenerateTimestamp(time.Unix(0, target*int64(time.Millisecond)), 0)))
			c.note("window history %d (%s, +%d s): admin reset-ts err=%v", k, action, lead/1000, err)
			// the global request that carries G into the local allocators and returns it
			var g op
			for try := 0; try < 20; try++ {
				if g = q.do(globalDC, 1, modeDirect, rd, -1); g.Err == "" {
					break
				}
				time.Sleep(200 * time.Millisecond)
			}
			q.do(dc, 1, modeDirect, rd, -1)
			cur, cm := c.serving(dc)
			if g.Err != "" || cm == nil {
				skipped(r, "window_history_skipped", fmt.Sprintf("%s_%d", c.t.Name, k), "global request after the reset failed")
				continue
			}
			stoppedIdx := -1
			switch action {
			case "transfer":
				if c.move(dc, rng) {
					c.waitMoved(dc, cur, 40*time.Second)
				}
			case "stop-holder":
				if c.stopMember(cur) {
					stoppedIdx = cur
				}
			case "reset-on-holder":
				cm.Srv.GetTSOAllocatorManager().ResetAllocatorGroup(dc)
				c.note("allocator of %s reset on its leader m%d", dc, cur)
			}
			// waitServing asks the dcs first: the first local timestamp of the next leader is taken
			// before any new global request could write G into it again
			if !c.waitServing(dcs, 90*time.Second) {
				skipped(r, "window_history_skipped", fmt.Sprintf("%s_%d", c.t.Name, k), "allocators did not serve again after %s (placement %s)", action, c.placement())
			} else {
				q.do(dc, 1, modeDirect, rd, -1)
				q.do(dc, 10, modeGRPC, rd, -1)
				q.do(globalDC, 1, modeDirect, rd, -1)
				q.do(dc, 1, modeDirect, rd, -1)
				r.Eval(1)
				r.Distinct(fmt.Sprintf("%s|window|+%ds|%s", c.t.Name, lead/1000, action))
				r.Count("window_histories", 1)
			}
			if stoppedIdx >= 0 {
				if !c.startMember(stoppedIdx) {
					skipped(r, "topology_cut_short", c.t.Name, "a stopped member did not come back in window history %d", k)
					return
				}
				c.waitServing(dcs, 60*time.Second)
			}
		}
	}
}

// cycleCluster stops every member and starts them all again on their data directories: the next PD
// leader and every allocator leader are freshly started processes (never a follower in this life)
// that have nothing but the persisted state.
func (c *cluster) cycleCluster() {
	c.mu.Lock()
	old := append([]*srv.Member(nil), c.ms...)
	var cfgs []*config.Config
	var idx []int
	for i, m := range old {
		if m != nil {
			c.stopped[i] = true
			c.ms[i] = nil
			cfgs = append(cfgs, c.cfgs[i])
			idx = append(idx, i)
		}
	}
	for i, cc := range c.conns {
		cc.Close()
		delete(c.conns, i)
	}
	c.mu.Unlock()
	c.note("event: the whole cluster stops")
	var wg sync.WaitGroup
	for _, m := range old {
		if m != nil {
			wg.Add(1)
			go func(m *srv.Member) { defer wg.Done(); m.Stop() }(m)
		}
	}
	wg.Wait()
	var ms []*srv.Member
	var err error
	for k := 0; k < 3; k++ {
		if ms, err = srv.StartCluster(cfgs); err == nil {
			break
		}
		time.Sleep(time.Second)
	}
	if err != nil {
		c.note("event: the cluster did not come back: %v", err)
		c.r.Count("events_cluster_restart_failed", 1)
		return
	}
	c.mu.Lock()
	for k, m := range ms {
		c.ms[idx[k]] = m
		delete(c.stopped, idx[k])
	}
	c.mu.Unlock()
	c.note("event: the whole cluster is back")
	c.r.Count("events_cluster_restart", 1)
}

// spread puts the local allocator leaders of different dcs on different members (each on a member
// of its own zone - what pd's own priority check does within a minute): leaders on one member
// answer a SyncMaxTS in one RPC, leaders on different members in several.
func (c *cluster) spread(rng *rand.Rand, dcs []string) bool {
	for _, dc := range dcs {
		cur, _ := c.serving(dc)
		if cur >= 0 && c.t.Zones[cur] == dc {
			continue
		}
		home := -1
		for i, z := range c.t.Zones {
			if z == dc {
				home = i
				break
			}
		}
		if home < 0 || cur < 0 {
			continue
		}
		// a refusal usually means that pd's own priority check has already asked for this move
		// (next-leader key present): either way let every member run its priority check and wait
		// until a member of the dc's own zone leads it
		c.moveTo(dc, home, rng)
		deadline := time.Now().Add(40 * time.Second)
		for time.Now().Before(deadline) {
			if i, _ := c.serving(dc); i >= 0 && c.t.Zones[i] == dc {
				break
			}
			for _, m := range c.members() {
				if m != nil {
					m.Srv.GetTSOAllocatorManager().PriorityChecker()
				}
			}
			time.Sleep(300 * time.Millisecond)
		}
	}
	c.waitServing(dcs, 60*time.Second)
	on := map[int]bool{}
	for _, dc := range dcs {
		i, _ := c.serving(dc)
		if i < 0 || on[i] {
			return false
		}
		on[i] = true
	}
	return true
}

var skewLeads = []int64{1000, 2000, 4000} // ms; far below maxResetTSGap (24 h)

// skewedRounds: in every round each local allocator is pushed ahead of its current time by a
// different lead through its allocator's SetTSO (which dc gets the largest lead rotates), then one
// requester takes a local timestamp from every dc, a global one, and local ones again. The
// responses go into the same history and are judged by the same oracles.
func (c *cluster) skewedRounds(rng *rand.Rand, dcs []string, n int) {
	r := c.r
	if !c.spread(rng, dcs) {
		r.Count("skewed_rounds_with_colocated_leaders", 1)
	}
	c.note("skewed-dc rounds: %s", c.placement())
	q := &requester{c: c, id: 600, skew: true, streams: map[string]pdpb.PD_TsoClient{}}
	defer q.close()
	for k := 0; k < n; k++ {
		perm := rng.Perm(len(dcs))
		shape := fmt.Sprintf("%s|skew|%d|", c.t.Name, k)
		pushed := 0
		for i, dc := range dcs {
			lead := skewLeads[(perm[i])%len(skewLeads)]
			shape += fmt.Sprintf("%s+%d,", dc, lead)
			o := q.do(dc, 1, modeDirect, 1000+k, -1)
			_, m := c.serving(dc)
			if o.Err != "" || m == nil {
				continue
			}
			a, err := m.Srv.GetTSOAllocatorManager().GetAllocator(dc)
			if err != nil {
				continue
			}
			ts := tsoutil.GenerateTS(tsoutil.GenerateTimestamp(time.Unix(0, (o.Physical+lead)*int64(time.Millisecond)), 0))
			if err := a.SetTSO(ts); err == nil {
				pushed++
			}
		}
		r.Count("skewed_allocator_pushes", int64(pushed))
		mode := modeDirect
		if k%3 == 2 {
			mode = modeGRPC
		}
		for _, dc := range dcs {
			q.do(dc, []uint32{1, 10}[rng.Intn(2)], mode, 1000+k, -1)
		}
		g := q.do(globalDC, []uint32{1, 10}[rng.Intn(2)], mode, 1000+k, -1)
		if g.Err != "" { // one retry: a global request can fail while an allocator leader changes
			q.do(globalDC, 1, mode, 1000+k, -1)
		}
		for _, dc := range dcs {
			q.do(dc, 1, mode, 1000+k, -1)
		}
		r.Eval(1)
		r.Distinct(shape)
		r.Count("skewed_rounds", 1)
	}
	// Aftermath: the allocators are now minutes ahead of the wall clock. Leader changes in that state
	// must continue above what has been handed out (a new leader only has the stored window).
	kinds := []string{evAllocReset, evPDTransfer}
	if r.Thorough() {
		kinds = append(kinds, evMemberCycle, evAllocReset, evClusterCycle)
	}
	for k, kind := range kinds {
		c.event(kind, rng, dcs)
		if !c.waitServing(dcs, 90*time.Second) {
			skipped(r, "topology_cut_short", c.t.Name, "allocators did not all serve again within 90 s after %s in the aftermath (placement %s)", kind, c.placement())
			return
		}
		for _, dc := range dcs {
			q.do(dc, 1, modeDirect, 2000+k, -1)
		}
		q.do(globalDC, 1, modeDirect, 2000+k, -1)
		for _, dc := range dcs {
			q.do(dc, 10, modeGRPC, 2000+k, -1)
		}
		r.Eval(1)
		r.Distinct(fmt.Sprintf("%s|aftermath|%d|%s", c.t.Name, k, kind))
		r.Count("aftermath_events", 1)
	}
}

// prologue is the quiet sequential phase (the shape of the repository's own test): one requester
// alternates global and local requests with equal counts, so that the allocators are in lock-step
// (estimate == local maximum, the "equal" branch of SyncMaxTS) before the concurrent rounds start.
func (c *cluster) prologue(rng *rand.Rand, dcs []string) {
	q := &requester{c: c, id: 800, streams: map[string]pdpb.PD_TsoClient{}}
	defer q.close()
	n := 30 * len(dcs)
	for i := 0; i < n; i++ {
		dc := dcs[i%len(dcs)]
		cnt := []uint32{1, 1, 10, 1000}[rng.Intn(4)]
		mode := modeDirect
		if rng.Intn(6) == 0 {
			mode = modeGRPC
		}
		q.do(globalDC, cnt, mode, -2, -1)
		q.do(dc, cnt, mode, -2, -1)
		q.do(globalDC, cnt, mode, -2, -1)
		q.do(dc, cnt, mode, -2, -1)
	}
	c.r.Count("prologue_requests", int64(4*n))
}

// move asks for dc's allocator to be transferred to another member and lets every member run its
// priority check (what the 1-minute timer does), so that the current leader resigns.
func (c *cluster) move(dc string, rng *rand.Rand) bool {
	cur, _ := c.serving(dc)
	var cands []int
	for i, m := range c.members() {
		if m != nil && i != cur {
			cands = append(cands, i)
		}
	}
	if cur < 0 || len(cands) == 0 {
		return false
	}
	return c.moveTo(dc, cands[rng.Intn(len(cands))], rng)
}

func (c *cluster) moveTo(dc string, to int, rng *rand.Rand) bool {
	cur, _ := c.serving(dc)
	ms := c.members()
	if cur < 0 || to == cur || ms[to] == nil {
		return false
	}
	tam := ms[to].Srv.GetTSOAllocatorManager()
	if _, err := tam.GetAllocator(dc); err != nil {
		// the target has not discovered the dc yet (it does so on its periodic dc-location check):
		// run that check now, as the repository's tests do, and give its patroller (1 s) time
		tam.ClusterDCLocationChecker()
		for k := 0; k < 100; k++ {
			if _, err = tam.GetAllocator(dc); err == nil {
				break
			}
			time.Sleep(50 * time.Millisecond)
		}
		if err != nil {
			c.note("transfer %s: m%d -> m%d skipped, the target has no allocator for it", dc, cur, to)
			c.r.Count("transfers_skipped_target_unaware", 1)
			return false
		}
	}
	err := tam.TransferAllocatorForDCLocation(dc, ms[to].Srv.GetMember().ID())
	c.note("transfer %s: m%d -> m%d requested (err=%v)", dc, cur, to, err)
	if err != nil {
		c.r.Count("transfers_refused", 1)
		return false
	}
	c.r.Count("transfers_requested", 1)
	time.Sleep(time.Duration(rng.Intn(30)) * time.Millisecond)
	for _, m := range ms {
		if m != nil {
			m.Srv.GetTSOAllocatorManager().PriorityChecker()
		}
	}
	return true
}

func (c *cluster) waitMoved(dc string, from int, timeout time.Duration) bool {
	deadline := time.Now().Add(timeout)
	for time.Now().Before(deadline) {
		if i, _ := c.serving(dc); i >= 0 && i != from {
			return true
		}
		time.Sleep(50 * time.Millisecond)
	}
	return false
}

func runTopology(r *ev.Run, t topo, rng *rand.Rand, rounds int) {
	if t.Transfer {
		tso.PriorityCheck = 4 * time.Second // the knob the repository exports for its tests
	} else {
		tso.PriorityCheck = time.Minute
	}
	c := startCluster(r, t)
	if c == nil {
		return
	}
	defer c.close()
	r.Count("clusters_started", 1)
	dcs := c.dcs(false)
	if t.Populated {
		c.populate(r.Pick(2500, 5000))
	}
	if !c.waitServing(dcs, 150*time.Second) {
		skipped(r, "topology_skipped_setup_timeout", t.Name, "allocators %v + global did not all serve within 150 s (placement %s)", dcs, c.placement())
		c.judgeSuffixOnly() // the suffix clauses do not depend on anybody serving
		return
	}
	c.note("serving: %s", c.placement())
	c.prologue(rng, dcs)
	events := map[int]string{}
	if t.Events {
		events = eventPlan(rng, rounds, r.Thorough())
	}
	lateAt := -1
	if t.Late != nil {
		lateAt = 2 + rng.Intn(3)
	}
	var shapes []string
	for rd := 0; rd < rounds; rd++ {
		if rd == lateAt {
			if !c.beforeJoin(rng, dcs) {
				break
			}
			// the late member joins while a round is running
			ok := true
			pdDelay := time.Duration(300+rng.Intn(1500)) * time.Millisecond
			pdRng := rand.New(rand.NewSource(rng.Int63()))
			oldDCs := dcs
			shapes = append(shapes, c.round(rd, rng, dcs, func() {
				var wg sync.WaitGroup
				if t.PDChangeAtJoin {
					wg.Add(1)
					go func() {
						defer wg.Done()
						time.Sleep(pdDelay)
						c.event(evPDResign, pdRng, oldDCs)
					}()
				}
				ok = c.startLate()
				wg.Wait()
			}))
			r.Eval(1)
			if !ok {
				break
			}
			dcs = c.dcs(true)
			if !c.waitServing(dcs, 150*time.Second) {
				skipped(r, "topology_cut_short", t.Name, "after the late member joined, allocators %v + global did not all serve within 150 s (placement %s)", dcs, c.placement())
				break
			}
			c.note("serving: %s", c.placement())
			r.Count("late_joins", 1)
			continue
		}
		var during func()
		if kind, ok := events[rd]; ok {
			erng := rand.New(rand.NewSource(rng.Int63()))
			during = func() { c.event(kind, erng, dcs) }
		} else if t.Transfer && rd%4 == 1 {
			dc := dcs[rng.Intn(len(dcs))]
			mrng := rand.New(rand.NewSource(rng.Int63()))
			during = func() {
				time.Sleep(time.Duration(mrng.Intn(20)) * time.Millisecond)
				c.move(dc, mrng)
			}
		}
		before := c.placement()
		shapes = append(shapes, c.round(rd, rng, dcs, during))
		r.Eval(1)
		if after := c.placement(); after != before {
			c.note("placement after round %d: %s", rd, after)
			r.Count("placement_changes_seen", 1)
		}
		if t.Transfer && rd%4 == 2 {
			// give a pending move the chance to finish before the next burst
			c.waitServing(dcs, 30*time.Second)
		}
		if kind, ok := events[rd]; ok {
			shapes[len(shapes)-1] += "|" + kind
			if !c.waitServing(dcs, 90*time.Second) {
				skipped(r, "topology_cut_short", t.Name, "allocators did not all serve again within 90 s after %s (placement %s)", kind, c.placement())
				break
			}
		}
	}
	for i, s := range shapes {
		r.Distinct(fmt.Sprintf("%s|%d|%s", t.Name, i, s))
	}
	if t.Window {
		c.windowHistories(rng, dcs)
	}
	if t.Skewed && len(dcs) >= 2 {
		c.skewedRounds(rng, dcs, r.Pick(30, 60))
	}
	if !c.settleWatch() {
		skipped(r, "topology_skipped_watch_timeout", t.Name, "the suffix watch did not catch up with etcd; history not judged")
		return
	}
	c.scrapeMetrics()
	c.judge()
}

func main() {
	r := ev.New("C05", "exploration")
	r.Rule("per topology (3 real servers, local TSO on, zone labels): rounds of {4-8 requester goroutines per dc x 5-12 requests, 1-4 global requesters x 3-7 requests, one chain worker local->global->local}, counts from {1,10,1000,2^15} (every 5th round mostly 2^15), transport per requester from {HandleTSORequest on the serving member, gRPC Tso stream, forwarded gRPC Tso stream}, 4% of requests to a random member; each topology starts with a quiet sequential phase global/local with equal counts; topologies: 3 dcs x 1 member, 2 dcs 2+1, 1 dc, a dc joining later (4 variants: placement of the running allocator relative to the PD leader forced or free, allocators moved 8 s ahead of the wall clock by the admin reset-ts operation or not), allocator moves; the static 3-dc and 2-dc topologies end with 30 (thorough 60) sequential skewed-dc rounds: allocator leaders spread over different members, every local allocator pushed ahead by a different lead (1/2/4 s, rotating) through SetTSO, then local x dcs, global, local x dcs, and an aftermath of allocator reset / PD leader transfer (thorough: + member restart and a restart of the whole cluster) while the TSO is minutes ahead of the wall clock; during the concurrent rounds of the static topologies every 4th (thorough 5th) round runs one event from {PD leader transfer through the etcd leadership, PD leader resign, local allocator reset on its leader, admin reset-ts +2 s followed by an allocator reset, member stop + restart}; the 1-dc topology (and a 2-dc one with the PD leader off the allocators, thorough) ends with directed window histories: admin reset-ts +10 s / +1 h, a global request, then the dc's allocator leadership changes (transfer / holder stops / reset on the holder) before the wall clock catches up, then local, global, local requests; one static topology has dc names that are prefixes of each other and 2500 unrelated keys in its etcd root; distinct = (topology, round index, goroutine counts per dc, round seed) resp. (topology, skewed round index, lead per dc). Add-on: gated schedules of suffix assignment with a PD-leader change (old leader parked before its create-if-absent txn; release order by seed); distinct = (keys the two leaders were about to create, release order); and 15-member worlds (dc-location upper limit, prefix-related dc names, populated root) whose suffixes are assigned in two waves by two successive PD leaders")
	r.Assume("the logical clock (lib/hist) orders call/return events of all requesters of the process; a suffix is taken as stored when the etcd watch has delivered it before the request's call tick (under-approximation)")
	r.Assume("errors grant nothing and impose no constraint; clock failpoints are not used; all members run in one process on one wall clock")
	rng := rand.New(rand.NewSource(r.ShardSeed()))
	srv.Quiet()

	var plan []string
	if !r.Thorough() {
		plan = []string{"3dc-prefix", "late-dc-remote", "late-dc-colocated", "1dc"}
	} else {
		all := []string{"3dc", "2dc", "1dc", "3dc-move", "2dc-move", "late-dc", "late-dc-remote", "late-dc-colocated", "late-3rd", "3dc-prefix", "late-3rd-pdchange", "late-dc-pdchange", "2dc-window"}
		if r.Shards < 4 {
			plan = all
		} else {
			// every topology is run by two shards (with different seeds)
			plan = []string{all[r.Shard%len(all)], all[(r.Shard+5)%len(all)]}
			if r.Shard+8 < len(all) {
				plan = append(plan, all[r.Shard+8])
			}
		}
	}
	if only := os.Getenv("VERIF_C05_ONLY"); only != "" { // development aid: run a chosen list of topologies ("-" = none)
		plan = nil
		for _, n := range strings.Split(only, ",") {
			if _, ok := topologies[n]; ok {
				plan = append(plan, n)
			}
		}
	}
	for _, name := range plan {
		t := topologies[name]
		rounds := r.Pick(18, 150)
		if t.Late != nil && !r.Thorough() {
			rounds = 8
		}
		if t.Window && !r.Thorough() {
			rounds = 6 // the directed histories are what this topology is run for in the quick tier
		}
		runTopology(r, t, rng, rounds)
	}
	suffixAddon(r, rng, r.Pick(30, 80))
	r.Floor(int64(r.Pick(30, 100)))
	r.Finish()
}

// skipped records that a topology could not be set up (or continued) within its budget. That is a
// limit of the machine or of pd's liveness, not of the property: the topology is counted and the
// run goes on; the evaluation floor decides whether enough was observed overall.
func skipped(r *ev.Run, counter, name, format string, a ...interface{}) {
	r.Count(counter, 1)
	r.Set("skipped_"+name, fmt.Sprintf(format, a...))
}

func (c *cluster) notesCopy() []string {
	c.mu.RLock()
	defer c.mu.RUnlock()
	return append([]string(nil), c.notes...)
}

func atoi32(s string) (int32, bool) {
	v, err := strconv.ParseInt(s, 10, 32)
	return int32(v), err == nil
}
