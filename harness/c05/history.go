package main

import (
	"context"
	"fmt"
	"math/rand"
	"strings"
	"time"

	"verif/harness/lib/etcdx"
	"verif/harness/lib/ev"
	"verif/harness/lib/tsow"
)

// Component-level suffix histories (real member.Member + tso.AllocatorManager objects on one
// embedded etcd): dcs join one after another, one dc leaves (its dc-location key is deleted the way
// the members API does it; its suffix key stays), the PD leadership stays / moves to a member that
// has been a follower / goes to a freshly constructed member that has never been one ("restart"),
// then a brand-new dc joins and the departed dc re-joins, in both orders. The committed history of
// the suffix keys is judged by the suffix clauses (kept, > 0, pairwise distinct).

type histCase struct {
	leave  string // "max" | "mid"
	leader string // "same" | "transfer" | "restart"
	order  string // "new-first" | "rejoin-first"
}

func allHistCases() []histCase {
	var out []histCase
	for _, lv := range []string{"max", "mid"} {
		for _, ld := range []string{"restart", "transfer", "same"} {
			for _, od := range []string{"new-first", "rejoin-first"} {
				out = append(out, histCase{lv, ld, od})
			}
		}
	}
	return out
}

// follow makes m behave like a running follower: it watches the PD leader (so that its own
// dc-location check takes the follower branch).
func follow(ctx context.Context, m *tsow.Member) chan struct{} {
	done := make(chan struct{})
	leader, rev, _ := m.M.CheckLeader()
	if leader == nil {
		close(done)
		return done
	}
	go func() { defer close(done); m.M.WatchLeader(ctx, leader, rev) }()
	time.Sleep(10 * time.Millisecond)
	return done
}

func suffixHistory(r *ev.Run, e *etcdx.Etcd, rng *rand.Rand, n int, hc histCase) bool {
	root := fmt.Sprintf("/c05/h%02d_%04d", r.Shard, n)
	w, err := tsow.NewWorld(e, root, 5, 3*time.Second, 50*time.Millisecond)
	if err != nil {
		addonSkip(r, "history world: %v", err)
		return false
	}
	w.Lease = 10
	defer w.Close()
	ctx, cancel := context.WithCancel(context.Background())
	defer cancel()
	prefix := w.Members[0].AM.GetLocalTSOSuffixPathPrefix() + "/"
	var steps []string
	step := func(f string, a ...interface{}) { steps = append(steps, fmt.Sprintf(f, a...)) }
	L := w.Members[0]
	if err := L.Campaign(true); err != nil {
		addonSkip(r, "history campaign: %v", err)
		return false
	}
	L.M.EnableLeader()
	check := func(tag string) {
		time.Sleep(15 * time.Millisecond) // let the checkers pd spawns itself finish first
		L.AM.ClusterDCLocationChecker()
		step("%s: PD leader m%d ran its dc-location check", tag, L.Idx)
	}
	publish := func(i int, dc string) bool {
		if err := w.Members[i].AM.SetLocalTSOConfig(dc); err != nil {
			addonSkip(r, "history SetLocalTSOConfig(%s): %v", dc, err)
			return false
		}
		step("m%d publishes dc-location %s", i, dc)
		return true
	}
	// (1) three dcs join one after another
	for i, dc := range []string{"dc-1", "dc-2", "dc-3"} {
		if !publish(i, dc) {
			return false
		}
		check("join " + dc)
	}
	// a follower that has been following all along (transfer target)
	watching := follow(ctx, w.Members[3])
	w.Members[3].AM.ClusterDCLocationChecker()
	// (2) one dc leaves: the members API deletes the member's dc-location key under the leader's txn
	gone, goneDC := 2, "dc-3"
	if hc.leave == "mid" {
		gone, goneDC = 1, "dc-2"
	}
	if err := L.M.DeleteMemberDCLocationInfo(uint64(gone + 1)); err != nil {
		addonSkip(r, "history delete dc-location: %v", err)
		return false
	}
	step("member m%d (%s) is removed: its dc-location key is deleted, its suffix key stays", gone, goneDC)
	check("after the departure")
	// (3) PD leadership
	switch hc.leader {
	case "transfer":
		L.Resign()
		L = w.Members[3]
		// as in a server's leader loop, the follower campaigns only after its watch of the old leader ended
		select {
		case <-watching:
		case <-time.After(10 * time.Second):
			addonSkip(r, "history: the follower's leader watch did not end")
			return false
		}
		if err := L.Campaign(true); err != nil {
			addonSkip(r, "history campaign: %v", err)
			return false
		}
		L.M.EnableLeader()
		step("PD leadership moves to m3, which has been a follower so far")
		check("new leader")
	case "restart":
		L.Resign()
		nm, err := w.Restart(0)
		if err != nil {
			addonSkip(r, "history restart: %v", err)
			return false
		}
		L = nm
		if err := L.AM.SetLocalTSOConfig("dc-1"); err != nil { // a starting server publishes its dc-location again
			addonSkip(r, "history SetLocalTSOConfig: %v", err)
			return false
		}
		if err := L.Campaign(true); err != nil {
			addonSkip(r, "history campaign: %v", err)
			return false
		}
		L.M.EnableLeader()
		step("the PD leader m0 is restarted (new objects, never a follower in this life) and is PD leader again")
		check("restarted leader")
	}
	// (4)/(5) a brand-new dc joins and the departed one comes back
	joinNew := func() bool {
		if !publish(4, "dc-4") {
			return false
		}
		check("join dc-4")
		return true
	}
	rejoin := func() bool {
		if !publish(gone, goneDC) {
			return false
		}
		check("re-join " + goneDC)
		return true
	}
	if hc.order == "new-first" {
		if !joinNew() || !rejoin() {
			return false
		}
	} else if !rejoin() || !joinNew() {
		return false
	}
	L.Resign()
	hs, err := e.History(prefix, w.StartRev)
	if err != nil {
		addonSkip(r, "history: %v", err)
		return false
	}
	var sev []suffixEv
	for _, h := range hs {
		t := "PUT"
		if h.Delete {
			t = "DELETE"
		}
		sev = append(sev, suffixEv{Key: h.Key, DC: strings.TrimPrefix(h.Key, prefix), Type: t, Value: h.Value, Rev: h.Rev})
	}
	fs, sufOf, _ := judgeSuffixKeys(sev)
	for _, dc := range []string{"dc-1", "dc-2", "dc-3", "dc-4"} {
		if len(sufOf[dc]) == 0 {
			r.Count("addon_history_dc_without_suffix", 1) // liveness only
			r.Count(fmt.Sprintf("addon_history_no_suffix_%s_%s_%s_%s", hc.leave, hc.leader, hc.order, dc), 1)
		}
	}
	done := map[string]bool{}
	for _, f := range fs {
		key := f.key + ":leave-" + hc.leave + "/leader-" + hc.leader
		if done[key] {
			continue
		}
		done[key] = true
		r.Violation(key, f.what+" (history: a dc leaves, PD leader "+hc.leader+", a new dc joins and the departed one re-joins, "+hc.order+")",
			map[string]interface{}{"case": fmt.Sprintf("%+v", hc), "steps": steps, "suffix_key_history": sev})
	}
	r.Eval(1)
	r.Distinct(fmt.Sprintf("suffix-history|%+v", hc))
	r.Count("addon_suffix_histories", 1)
	return true
}

// dcNameSpellings: dc-location names that differ only in letter case, surrounding blanks or
// punctuation are different datacenters for pd (they are compared and stored as exact strings), so
// each must get its own suffix. Path-like names ("a/b", "dc-9/", "x/../y", "./z") are folded or split
// by the etcd key construction (path.Join) and by the parser of the suffix keys; pd has no
// documented convention for them, so those worlds are observed and counted, not judged.
func dcNameSpellings(r *ev.Run, e *etcdx.Etcd, rng *rand.Rand, n int) {
	exact := []string{"dc-1", "DC-1", "Dc-1", "dc-1 ", " dc-1", "dc_1", "dc.1", "dc-01"}
	pathLike := []string{"a/b", "b", "dc-9/", "dc-9", "x/../y", "y", "./z", "z"}
	for fam, names := range [][]string{exact, pathLike} {
		root := fmt.Sprintf("/c05/n%02d_%04d_%d", r.Shard, n, fam)
		w, err := tsow.NewWorld(e, root, len(names), 3*time.Second, 50*time.Millisecond)
		if err != nil {
			addonSkip(r, "names world: %v", err)
			return
		}
		w.Lease = 10
		prefix := w.Members[0].AM.GetLocalTSOSuffixPathPrefix() + "/"
		order := rng.Perm(len(names))
		L := w.Members[0]
		ok := L.Campaign(true) == nil
		if ok {
			L.M.EnableLeader()
			for _, i := range order {
				if err := w.Members[i].AM.SetLocalTSOConfig(names[i]); err != nil {
					ok = false
					break
				}
				time.Sleep(10 * time.Millisecond)
				L.AM.ClusterDCLocationChecker()
			}
			L.AM.ClusterDCLocationChecker()
		}
		var sev []suffixEv
		if ok {
			hs, err := e.History(prefix, w.StartRev)
			ok = err == nil
			for _, h := range hs {
				t := "PUT"
				if h.Delete {
					t = "DELETE"
				}
				sev = append(sev, suffixEv{Key: h.Key, DC: strings.TrimPrefix(h.Key, prefix), Type: t, Value: h.Value, Rev: h.Rev})
			}
		}
		// what the leader itself believes: dc name -> suffix (element-wise, exact strings)
		view := map[string]int32{}
		for dc, info := range L.AM.GetClusterDCLocations() {
			view[dc] = info.Suffix
		}
		L.Resign()
		w.Close()
		if !ok {
			addonSkip(r, "names world could not be driven")
			return
		}
		if fam == 1 {
			shared := 0
			seen := map[int32]string{}
			for dc, s := range view {
				if s > 0 {
					if _, dup := seen[s]; dup {
						shared++
					}
					seen[s] = dc
				}
			}
			r.Count("skipped_ambiguous_path_like_dc_names", 1)
			r.Set("observed_path_like_dc_names", map[string]interface{}{"leader_view": view, "dcs_sharing_a_suffix_in_leader_view": shared, "suffix_keys": len(sev)})
			continue
		}
		fs, _, _ := judgeSuffixKeys(sev)
		// the leader's own table must give every spelling its own positive suffix
		seen := map[int32]string{}
		for _, dc := range names {
			s, known := view[dc]
			if !known || s <= 0 {
				r.Count("addon_names_dc_without_suffix", 1) // liveness only
				continue
			}
			if other, dup := seen[s]; dup {
				fs = append(fs, finding{key: "suffix-shared-by-two-dcs", what: fmt.Sprintf("the PD leader serves dc-locations %q and %q with the same suffix %d", other, dc, s)})
			}
			seen[s] = dc
		}
		done := map[string]bool{}
		for _, f := range fs {
			key := f.key + ":dc-name-spellings"
			if done[key] {
				continue
			}
			done[key] = true
			r.Violation(key, f.what, map[string]interface{}{"names": names, "publication_order": order, "leader_view": view, "suffix_key_history": sev})
		}
		r.Eval(1)
		r.Distinct(fmt.Sprintf("dc-name-spellings|%v", order))
		r.Count("addon_name_worlds", 1)
	}
}
