package main

import (
	"fmt"
	"math/rand"
	"strings"
	"sync"
	"time"

	"verif/harness/lib/etcdx"
	"verif/harness/lib/ev"
	"verif/harness/lib/hist"
	"verif/harness/lib/tsow"
)

// Component-level add-on for suffix assignment (DESIGN §4-D9): two members (real member.Member +
// tso.AllocatorManager) on one embedded etcd publish their dc-locations; the PD leader runs
// ClusterDCLocationChecker; its create-if-absent transaction on local-tso-suffix/<dc> is parked at
// the etcd client boundary, the PD leadership changes hands, the new leader runs its own checker
// (parked at every suffix transaction as well) and the parked transactions are released in an
// order chosen by the seed. The committed history of the suffix keys is judged by the same suffix
// clauses as the cluster runs.

type gate struct {
	mu      sync.Mutex
	on      bool
	parked  chan string
	release chan struct{}
}

func newGate() *gate { return &gate{parked: make(chan string, 16), release: make(chan struct{}, 16)} }

func (g *gate) hook(prefix string) func(kind, key string) {
	return func(kind, key string) {
		g.mu.Lock()
		on := g.on
		g.mu.Unlock()
		if on && kind == "Txn" && strings.HasPrefix(key, prefix) {
			g.parked <- key
			<-g.release
		}
	}
}

func (g *gate) set(on bool) { g.mu.Lock(); g.on = on; g.mu.Unlock() }

// suffixRace runs one gated schedule; returns its id ("" if the schedule could not be driven).
func suffixRace(r *ev.Run, e *etcdx.Etcd, rng *rand.Rand, n int) string {
	root := fmt.Sprintf("/c05/s%02d_%04d", r.Shard, n)
	w, err := tsow.NewWorld(e, root, 2, 3*time.Second, 50*time.Millisecond)
	if err != nil {
		addonSkip(r, "world: %v", err)
		return ""
	}
	w.Lease = 5
	defer w.Close()
	A, B := w.Members[0], w.Members[1]
	prefix := A.AM.GetLocalTSOSuffixPathPrefix() + "/"
	var steps []string
	step := func(f string, a ...interface{}) {
		steps = append(steps, fmt.Sprintf("t%d ", hist.Now())+fmt.Sprintf(f, a...))
	}
	// members publish their dc-locations (no PD leader yet: the checkers they spawn return at once)
	if err := A.AM.SetLocalTSOConfig("dc-1"); err != nil {
		addonSkip(r, "SetLocalTSOConfig: %v", err)
		return ""
	}
	if err := B.AM.SetLocalTSOConfig("dc-2"); err != nil {
		addonSkip(r, "SetLocalTSOConfig: %v", err)
		return ""
	}
	time.Sleep(30 * time.Millisecond)
	gA, gB := newGate(), newGate()
	A.Cl.Gate, B.Cl.Gate = gA.hook(prefix), gB.hook(prefix)
	defer func() {
		gA.set(false)
		gB.set(false)
		for i := 0; i < 8; i++ { // never leave a parked transaction behind
			gA.release <- struct{}{}
			gB.release <- struct{}{}
		}
	}()
	if err := A.Campaign(true); err != nil {
		addonSkip(r, "campaign A: %v", err)
		return ""
	}
	A.M.EnableLeader()
	step("m0 is PD leader")
	// From here on every suffix transaction of either member parks at the client boundary; one
	// parked transaction at a time is released, following the pattern chosen for this schedule.
	patterns := []string{"ABAB", "ABBA", "BABA", "ABAB", "AABB", "ABBA", "BAAB", "ABAB", "BBAA", "ABBA"}
	pattern := patterns[n%len(patterns)]
	type side struct {
		name   string
		g      *gate
		done   chan struct{}
		parked bool
		fin    bool
		key    string
	}
	sa := &side{name: "m0", g: gA, done: make(chan struct{})}
	sb := &side{name: "m1", g: gB, done: make(chan struct{})}
	settle := func(x *side) bool {
		if x.parked || x.fin {
			return true
		}
		select {
		case k := <-x.g.parked:
			x.parked, x.key = true, strings.TrimPrefix(k, prefix)
			step("%s read the suffixes and is about to create %s; parked", x.name, x.key)
		case <-x.done:
			x.fin = true
			step("%s's checker finished", x.name)
		case <-time.After(30 * time.Second):
			addonSkip(r, "%s neither reached a suffix transaction nor finished", x.name)
			return false
		}
		return true
	}
	gA.set(true)
	gB.set(true)
	go func() { defer close(sa.done); A.AM.ClusterDCLocationChecker() }()
	if !settle(sa) {
		return ""
	}
	if !sa.parked {
		addonSkip(r, "the old leader's suffix transaction was never reached")
		return ""
	}
	// PD leader change while the old leader's transaction is in flight
	A.Resign()
	step("m0 resigned (lease revoked)")
	if err := B.Campaign(true); err != nil {
		addonSkip(r, "campaign B: %v", err)
		return ""
	}
	B.M.EnableLeader()
	step("m1 is PD leader")
	// Third worker (every other schedule): a second dc-location check on the new leader (in a
	// server: the GetDCLocationInfo handler or the SyncMaxTS retry path) is started while the first
	// one is parked inside its transaction holding the AllocatorManager lock; it queues on that
	// lock, and readers of the suffix width queue behind it. Only writes are gated, so nobody
	// parks in front of the lock.
	third := n%2 == 1
	var bwg sync.WaitGroup
	bwg.Add(1)
	go func() { defer bwg.Done(); B.AM.ClusterDCLocationChecker() }()
	go func() { bwg.Wait(); close(sb.done) }()
	if third {
		if !settle(sb) {
			return ""
		}
		if sb.parked {
			bwg.Add(2)
			go func() { defer bwg.Done(); B.AM.ClusterDCLocationChecker() }()
			go func() { defer bwg.Done(); _ = B.AM.GetSuffixBits(); _ = B.AM.GetClusterDCLocations() }()
			time.Sleep(5 * time.Millisecond) // start order only: let them reach the lock queue
			step("a second dc-location check and a width reader of m1 queue behind the parked one")
			r.Count("addon_three_worker_schedules", 1)
		}
	}
	var released []string
	pi := 0
	for {
		if !settle(sa) || !settle(sb) {
			return ""
		}
		if sa.fin && sb.fin {
			break
		}
		var pick *side
		for pick == nil && pi < len(pattern) {
			x := sa
			if pattern[pi] == 'B' {
				x = sb
			}
			pi++
			if x.parked {
				pick = x
			}
		}
		if pick == nil {
			if sa.parked {
				pick = sa
			} else {
				pick = sb
			}
		}
		released = append(released, pick.name+":"+pick.key)
		step("release %s's transaction on %s", pick.name, pick.key)
		pick.parked = false
		pick.g.release <- struct{}{}
	}
	B.Resign()
	// committed history of the suffix keys
	hs, err := e.History(prefix, w.StartRev)
	if err != nil {
		addonSkip(r, "history: %v", err)
		return ""
	}
	var sev []suffixEv
	for _, h := range hs {
		t := "PUT"
		if h.Delete {
			t = "DELETE"
		}
		sev = append(sev, suffixEv{Key: h.Key, DC: strings.TrimPrefix(h.Key, prefix), Type: t, Value: h.Value, Rev: h.Rev})
	}
	r.Count("addon_suffix_key_events", int64(len(sev)))
	fs, _, _ := judgeSuffixKeys(sev)
	var txns []interface{}
	for _, m := range w.Members {
		for _, rpc := range m.Cl.Log() {
			if rpc.Method == "Txn" && len(rpc.Keys) > 0 && strings.HasPrefix(rpc.Keys[0], prefix) {
				txns = append(txns, map[string]interface{}{"member": m.Idx, "key": rpc.Keys[0], "value": rpc.PutVals, "cmps": rpc.Cmps, "succeeded": rpc.Succ, "rev": rpc.Rev, "send": rpc.Send, "ack": rpc.Ack})
			}
		}
	}
	done := map[string]bool{}
	for _, f := range fs {
		key := f.key + ":pd-leader-change-gated"
		if done[key] {
			continue
		}
		done[key] = true
		r.Violation(key, f.what+" (old PD leader's create-if-absent suffix transaction committed after the PD leadership had changed)",
			map[string]interface{}{"schedule": steps, "release_order": released, "suffix_key_history": sev, "suffix_txns": txns})
	}
	if len(fs) == 0 && n == 0 {
		r.Sample(map[string]interface{}{"mode": "suffix add-on", "schedule": steps, "suffix_key_history": sev, "suffix_txns": txns})
	}
	return "suffix-race|" + strings.Join(released, ",")
}

var manyDCNames = []string{"dc-1", "dc-10", "dc-100", "dc-1000", "dc-11", "dc-2", "dc-20", "dc-3", "dc-a", "dc-a1", "dc-ab", "east", "east-1", "east-10", "west"}

// manyDCs: 15 members (the upper limit of dc-locations) with dc names that are prefixes of each other
// publish their dc-location on a populated etcd root in two waves; the PD leader assigns suffixes
// after the first wave, the PD leadership changes, the new leader assigns the rest. The history of
// the suffix keys is judged by the suffix clauses; the width the PD leader would report after its
// assignment must fit the largest stored suffix.
func manyDCs(r *ev.Run, e *etcdx.Etcd, rng *rand.Rand, n int) bool {
	root := fmt.Sprintf("/c05/m%02d_%04d", r.Shard, n)
	w, err := tsow.NewWorld(e, root, len(manyDCNames), 3*time.Second, 50*time.Millisecond)
	if err != nil {
		addonSkip(r, "many-dc world: %v", err)
		return false
	}
	w.Lease = 10
	defer w.Close()
	if err := w.Populate(r.Pick(1500, 4000)); err != nil {
		addonSkip(r, "populate: %v", err)
		return false
	}
	names := append([]string(nil), manyDCNames...)
	rng.Shuffle(len(names), func(i, j int) { names[i], names[j] = names[j], names[i] })
	prefix := w.Members[0].AM.GetLocalTSOSuffixPathPrefix() + "/"
	first := 6 + rng.Intn(6)
	var steps []string
	publish := func(from, to int) bool {
		for i := from; i < to; i++ {
			if err := w.Members[i].AM.SetLocalTSOConfig(names[i]); err != nil {
				addonSkip(r, "SetLocalTSOConfig(%s): %v", names[i], err)
				return false
			}
		}
		return true
	}
	var findings []finding
	assign := func(m *tsow.Member, tag string) bool {
		if err := m.Campaign(true); err != nil {
			addonSkip(r, "campaign: %v", err)
			return false
		}
		m.M.EnableLeader()
		time.Sleep(20 * time.Millisecond) // checkers spawned by SetLocalTSOConfig / EnableLeader are pd's own; ours runs after them
		m.AM.ClusterDCLocationChecker()
		hs, err := e.History(prefix, w.StartRev)
		if err != nil {
			addonSkip(r, "history: %v", err)
			return false
		}
		var max int64
		for _, h := range hs {
			if v, ok := atoi32(h.Value); ok && !h.Delete && int64(v) > max {
				max = int64(v)
			}
		}
		bits := m.AM.GetSuffixBits()
		steps = append(steps, fmt.Sprintf("%s: PD leader m%d ran the dc-location check; %d suffix keys, largest %d, width %d", tag, m.Idx, len(hs), max, bits))
		if max >= int64(1)<<uint(bits) {
			findings = append(findings, finding{key: "suffix-bits-too-narrow:pd-leader-after-assignment",
				what: fmt.Sprintf("after assigning suffixes up to %d the PD leader would report suffix_bits=%d", max, bits)})
		}
		return true
	}
	A, B := w.Members[0], w.Members[1+rng.Intn(len(w.Members)-1)]
	if !publish(0, first) || !assign(A, "wave 1") {
		return false
	}
	if !publish(first, len(names)) {
		return false
	}
	A.Resign()
	if !assign(B, "wave 2 after PD leader change") {
		return false
	}
	B.Resign()
	hs, err := e.History(prefix, w.StartRev)
	if err != nil {
		addonSkip(r, "history: %v", err)
		return false
	}
	var sev []suffixEv
	for _, h := range hs {
		t := "PUT"
		if h.Delete {
			t = "DELETE"
		}
		sev = append(sev, suffixEv{Key: h.Key, DC: strings.TrimPrefix(h.Key, prefix), Type: t, Value: h.Value, Rev: h.Rev})
	}
	fs, sufOf, _ := judgeSuffixKeys(sev)
	findings = append(findings, fs...)
	for _, dc := range names {
		if len(sufOf[dc]) == 0 {
			r.Count("addon_many_dc_without_suffix", 1) // liveness only: counted, not judged
		}
	}
	r.Count("addon_many_dc_suffix_keys", int64(len(sufOf)))
	done := map[string]bool{}
	for _, f := range findings {
		key := f.key + ":many-dcs"
		if done[key] {
			continue
		}
		done[key] = true
		r.Violation(key, f.what, map[string]interface{}{"dc_names_in_publication_order": names, "first_wave": first, "steps": steps, "suffix_key_history": sev})
	}
	r.Eval(1)
	r.Distinct(fmt.Sprintf("many-dcs|%v|%d|B=m%d", names, first, B.Idx))
	r.Count("addon_many_dc_worlds", 1)
	return true
}

// addonSkip: a schedule that could not be driven (hook not reached in time, etcd trouble) is counted,
// not judged.
func addonSkip(r *ev.Run, format string, a ...interface{}) {
	r.Count("addon_schedules_skipped", 1)
	r.Set("addon_last_skip", fmt.Sprintf(format, a...))
}

func suffixAddon(r *ev.Run, rng *rand.Rand, n int) {
	e, err := etcdx.Start()
	if err != nil {
		addonSkip(r, "etcd: %v", err)
		return
	}
	defer e.Close()
	for i := 0; i < r.Pick(2, 6); i++ {
		manyDCs(r, e, rng, i)
	}
	// the leave / leader change / join / re-join histories: the complete grid in thorough; in quick
	// the "restart" column (a leader that has never been a follower) and a seeded half of the rest
	cases := allHistCases()
	for i, hc := range cases {
		if !r.Thorough() && hc.leader != "restart" && (i+int(r.Seed))%2 == 0 {
			continue
		}
		suffixHistory(r, e, rng, i, hc)
	}
	dcNameSpellings(r, e, rng, 0)
	for i := 0; i < n; i++ {
		id := suffixRace(r, e, rng, i)
		if id == "" {
			continue
		}
		r.Eval(1)
		r.Distinct(id)
		r.Count("addon_gated_schedules", 1)
		r.Count("addon_"+id, 1)
	}
}
