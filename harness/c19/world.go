package main

import (
	"context"
	"encoding/json"
	"errors"
	"fmt"
	"math/rand"
	"reflect"
	"runtime"
	"strings"
	"sync"
	"sync/atomic"
	"time"

	"github.com/pingcap/kvproto/pkg/metapb"
	pb "github.com/pingcap/kvproto/pkg/replication_modepb"
	"github.com/tikv/pd/pkg/mock/mockcluster"
	"github.com/tikv/pd/pkg/typeutil"
	"github.com/tikv/pd/server/config"
	"github.com/tikv/pd/server/core"
	"github.com/tikv/pd/server/kv"
	"github.com/tikv/pd/server/replication"
	"verif/harness/lib/ev"
	"verif/harness/lib/hist"
	"verif/harness/lib/kvx"
)

const (
	modeMaj   = "majority"
	modeDR    = "dr-auto-sync"
	stSync    = "sync"
	stAsync   = "async"
	stRecover = "sync_recover"

	storeTimeout = time.Hour // WaitStoreTimeout; "down" = last heartbeat 100 h ago, "up" = now
)

// pair is what is served to stores (and over HTTP) at one observation.
type pair struct {
	Mode  string `json:"mode"`
	State string `json:"state,omitempty"`
	ID    uint64 `json:"id,omitempty"`
}

func (p pair) dr() bool { return p.Mode == modeDR }
func (p pair) String() string {
	if !p.dr() {
		return p.Mode
	}
	return fmt.Sprintf("%s#%d", p.State, p.ID)
}

// ---- fakes ----

type offer struct {
	Seq    int64  `json:"seq"`
	Name   string `json:"name"`
	State  string `json:"state"`
	ID     uint64 `json:"id"`
	Failed bool   `json:"failed,omitempty"`
	Raw    string `json:"-"`
}

// fakeRep is the FileReplicater double: records every file offered to "all members".
type fakeRep struct {
	mu     sync.Mutex
	offers []offer
	fail   bool
}

func (f *fakeRep) ReplicateFileToAllMembers(ctx context.Context, name string, data []byte) error {
	var p struct {
		State   string `json:"state"`
		StateID uint64 `json:"state_id"`
	}
	json.Unmarshal(data, &p)
	f.mu.Lock()
	defer f.mu.Unlock()
	f.offers = append(f.offers, offer{Seq: hist.Tick(), Name: name, State: p.State, ID: p.StateID, Failed: f.fail, Raw: string(data)})
	if f.fail {
		return errors.New("c19: injected replication failure")
	}
	return nil
}

func (f *fakeRep) setFail(b bool) { f.mu.Lock(); f.fail = b; f.mu.Unlock() }
func (f *fakeRep) all() []offer {
	f.mu.Lock()
	defer f.mu.Unlock()
	return append([]offer(nil), f.offers...)
}

// clus is the mock cluster with an id allocator that can be made to fail.
type clus struct {
	*mockcluster.Cluster
	failAlloc int32
	scanHook  func() // set before a tick starts (gated scenario only): runs inside ScanRegions, i.e. inside the recovery scan
	// storesHook runs inside GetStores, i.e. inside checkStoreStatus (read lock held), gated scenarios only
	storesHook func()
	// allocFailEvery > 0: every n-th id allocation fails (free-running fault rounds)
	allocFailEvery int64
	allocs         int64
}

// GetStores is what checkStoreStatus reads.
func (c *clus) GetStores() []*core.StoreInfo {
	res := c.Cluster.GetStores()
	if c.storesHook != nil {
		c.storesHook()
	}
	return res
}

// ScanRegions takes the cluster lock (the mock's own ScanRegions reads the tree without it, which
// matters once region reports arrive concurrently with a tick).
func (c *clus) ScanRegions(startKey, endKey []byte, limit int) []*core.RegionInfo {
	res := c.Cluster.BasicCluster.ScanRange(startKey, endKey, limit)
	if c.scanHook != nil {
		c.scanHook()
	}
	return res
}

func (c *clus) AllocID() (uint64, error) {
	if atomic.LoadInt32(&c.failAlloc) != 0 {
		return 0, errors.New("c19: injected id allocation failure")
	}
	if n := atomic.LoadInt64(&c.allocFailEvery); n > 0 && atomic.AddInt64(&c.allocs, 1)%n == 0 {
		return 0, errors.New("c19: injected id allocation failure")
	}
	return c.Cluster.AllocID()
}

// ---- world (one history) ----

type storeRec struct {
	ID     uint64            `json:"id"`
	Labels map[string]string `json:"labels"`
	// List, when set, is the ordered label list actually sent to pd (keys in any letter case, duplicate
	// keys, empty values); otherwise the list is derived from Labels in the order zone, site, host.
	List [][2]string `json:"label_list,omitempty"`
	Up   bool        `json:"up"`
}

// regionRec is the harness' own record of the latest report delivered for one region.
type regionRec struct {
	id         uint64
	start, end string
	present    bool // delivered to pd at least once
	hasStatus  bool
	stID       uint64
	st         pb.RegionReplicationState
	okUnder    uint64 // state id under which this key range last reported integrity
}

type params struct {
	Hist       int    `json:"history"`
	HSeed      int64  `json:"hseed"`
	N          int    `json:"regions"`
	Ticks      int    `json:"ticks"`
	TP         int    `json:"primary_replicas"`
	TD         int    `json:"dr_replicas"`
	AsyncWait  string `json:"wait_async_timeout"`
	StartMode  string `json:"start_mode"`
	Faulty     bool   `json:"faulty"`
	Reader     bool   `json:"concurrent_reader"`
	Topology   bool   `json:"topology_changes"`
	Gaps       []int  `json:"initially_absent_regions,omitempty"`
	ConfigPlay bool   `json:"config_switches"`
	Keys       string `json:"region_keys,omitempty"`
}

type world struct {
	r   *ev.Run
	rng *rand.Rand
	p   params

	ctx     context.Context
	cancel  context.CancelFunc
	cl      *clus
	kv      *kvx.KV
	storage *core.Storage
	rep     *fakeRep
	m       *replication.ModeManager
	cfg     config.ReplicationModeConfig // what the manager was last successfully given

	stores []*storeRec
	regs   []*regionRec // ordered by start key
	nextID uint64

	last        pair
	served      map[uint64]string // state id -> state, for every pair ever served in this history
	idState     map[uint64]string // state id -> state, for every id seen anywhere (saved, offered, served)
	kvSeen      int               // kv log events already folded into idState
	offSeen     int
	streak      int // consecutive eligible ticks without reaching sync
	ep          *epoch
	events      []interface{}
	shape       []string
	dead        bool // harness problem: stop this history
	topoDone    bool // a split/merge happened in the current state-id epoch
	forceEpoch  int  // kind of the next report stream (-1 = free choice)
	obsLabelKey string
	obsHint     int32
}

func drConfig(tp, td int, asyncWait time.Duration, labelKey string) config.ReplicationModeConfig {
	return config.ReplicationModeConfig{ReplicationMode: modeDR, DRAutoSync: config.DRAutoSyncReplicationConfig{
		LabelKey: labelKey, Primary: "dc1", DR: "dc2", PrimaryReplicas: tp, DRReplicas: td,
		WaitStoreTimeout: typeutil.Duration{Duration: storeTimeout},
		WaitSyncTimeout:  typeutil.Duration{Duration: time.Minute},
		WaitAsyncTimeout: typeutil.Duration{Duration: asyncWait},
	}}
}

func (w *world) logf(kind string, kv ...interface{}) {
	m := map[string]interface{}{"ev": kind}
	for i := 0; i+1 < len(kv); i += 2 {
		m[kv[i].(string)] = kv[i+1]
	}
	w.events = append(w.events, m)
}

func (w *world) witness(extra map[string]interface{}) map[string]interface{} {
	evs := w.events
	if len(evs) > 400 {
		evs = evs[len(evs)-400:]
	}
	out := map[string]interface{}{"params": w.p, "config": w.cfg, "stores": w.stores, "events": evs,
		"regions": w.mirrorSummary(), "replay": fmt.Sprintf("c19 -tier %s -seed %d, history %d (hseed %d)", w.r.Tier, w.r.Seed, w.p.Hist, w.p.HSeed)}
	for k, v := range extra {
		out[k] = v
	}
	return out
}

func (w *world) mirrorSummary() map[string]interface{} {
	present, bad := 0, []string{}
	for i, g := range w.regs {
		if !g.present {
			if len(bad) < 12 {
				bad = append(bad, fmt.Sprintf("#%d[%q,%q) absent", i, g.start, g.end))
			}
			continue
		}
		present++
		if w.last.dr() && !(g.hasStatus && g.stID == w.last.ID && g.st == pb.RegionReplicationState_INTEGRITY_OVER_LABEL) && len(bad) < 12 {
			bad = append(bad, fmt.Sprintf("#%d[%q,%q) id=%d state=%v status=%v okUnder=%d", i, g.start, g.end, g.stID, g.st, g.hasStatus, g.okUnder))
		}
	}
	return map[string]interface{}{"total": len(w.regs), "present": present, "first_not_compliant_with_served_id": bad}
}

// ---- observation ----

func lower(s pb.DRAutoSyncState) string { return strings.ToLower(s.String()) }

// observe reads what is served over both channels.
func (w *world) observe() (grpc pair, http pair) {
	st := w.m.GetReplicationStatus()
	switch st.GetMode() {
	case pb.ReplicationMode_MAJORITY:
		grpc = pair{Mode: modeMaj}
	case pb.ReplicationMode_DR_AUTO_SYNC:
		grpc = pair{Mode: modeDR, State: lower(st.GetDrAutoSync().GetState()), ID: st.GetDrAutoSync().GetStateId()}
	default:
		grpc = pair{Mode: fmt.Sprint(st.GetMode())}
	}
	h := w.m.GetReplicationStatusHTTP()
	http = pair{Mode: h.Mode}
	if h.Mode == modeDR {
		http.State, http.ID = h.DrAutoSync.State, h.DrAutoSync.StateID
	}
	w.obsLabelKey, w.obsHint = st.GetDrAutoSync().GetLabelKey(), st.GetDrAutoSync().GetWaitSyncTimeoutHint()
	// get-edit: a caller may do anything with the objects it was handed; the next answer must not care
	st.Mode = pb.ReplicationMode_MAJORITY
	if d := st.DrAutoSync; d != nil {
		d.State, d.LabelKey, d.WaitSyncTimeoutHint = (d.State+1)%3, "scribbled", -1
	}
	h.Mode = "scribbled"
	h.DrAutoSync.State, h.DrAutoSync.LabelKey, h.DrAutoSync.StateID = "scribbled", "scribbled", 1<<62
	return
}

type persisted struct {
	State   string `json:"state"`
	StateID uint64 `json:"state_id"`
}

func (w *world) load() (pair, bool) {
	var p persisted
	ok, err := w.storage.LoadReplicationStatus(modeDR, &p)
	if err != nil || !ok {
		return pair{}, false
	}
	return pair{Mode: modeDR, State: p.State, ID: p.StateID}, true
}

type saveEv struct {
	Seq   int64  `json:"seq"`
	P     pair   `json:"pair"`
	Err   string `json:"err,omitempty"`
	Fault string `json:"fault,omitempty"`
	Raw   string `json:"-"`
}

func savesOf(log []kvx.Event) []saveEv {
	var out []saveEv
	for _, e := range log {
		if e.Kind != "Save" || !strings.HasPrefix(e.Key, "replication_mode/") {
			continue
		}
		var p persisted
		json.Unmarshal([]byte(e.Value), &p)
		out = append(out, saveEv{Seq: e.Seq, P: pair{Mode: modeDR, State: p.State, ID: p.StateID}, Err: e.Err, Fault: e.Fault, Raw: e.Value})
	}
	return out
}

// foldIDs keeps the id -> state table over everything saved / offered / served and reports an id
// that appears with two different states.
func (w *world) foldIDs(log []kvx.Event, offers []offer) {
	note := func(id uint64, state, where string) {
		if id == 0 && state == "" {
			return
		}
		if old, ok := w.idState[id]; ok && old != state {
			w.r.Violation("state-id-reused:one-id-two-states",
				fmt.Sprintf("state id %d was issued for state %q and appears again for state %q (%s)", id, old, state, where),
				w.witness(nil))
			return
		}
		w.idState[id] = state
	}
	for _, s := range savesOf(log[w.kvSeen:]) {
		note(s.P.ID, s.P.State, "saved")
	}
	w.kvSeen = len(log)
	for _, o := range offers[w.offSeen:] {
		note(o.ID, o.State, "offered to members")
	}
	w.offSeen = len(offers)
}

// ---- reference model (from the statement) ----

type cond struct {
	DownPrimary  int  `json:"failed_primary"`
	DownDR       int  `json:"failed_dr"`
	TP           int  `json:"primary_replicas"`
	TD           int  `json:"dr_replicas"`
	DCFailed     bool `json:"some_dc_failed_ge_replicas"`
	Majority     bool `json:"majority_can_be_up"`
	Elapsed      bool `json:"async_wait_elapsed"`
	AsyncAllowed bool `json:"async_allowed"`
	CanRecover   bool `json:"both_dcs_below_replicas"`
	// Ambiguous: the configuration is outside what the statement talks about (replica count <= 0,
	// empty datacenter name): exercised, but the permission clauses are not judged
	Ambiguous string `json:"ambiguous_config,omitempty"`
}

func labelsOf(s *storeRec) [][2]string {
	if s.List != nil {
		return s.List
	}
	var out [][2]string
	for _, k := range []string{"zone", "site", "host"} {
		if v, ok := s.Labels[k]; ok {
			out = append(out, [2]string{k, v})
		}
	}
	return out
}

// labelValue: first label whose key equals key ignoring letter case; "" when there is none.
func labelValue(s *storeRec, key string) string {
	for _, l := range labelsOf(s) {
		if strings.EqualFold(l[0], key) {
			return l[1]
		}
	}
	return ""
}

// conditions evaluates the statement's predicates on the harness' own store table.
func (w *world) conditions(cfg config.ReplicationModeConfig) cond {
	d := cfg.DRAutoSync
	c := cond{TP: d.PrimaryReplicas, TD: d.DRReplicas}
	for _, s := range w.stores {
		// a store is failed when it has been silent for WaitStoreTimeout; a timeout <= 0 makes every store failed
		if s.Up && d.WaitStoreTimeout.Duration > 0 {
			continue
		}
		// the datacenter of a store: label keys are case-insensitive and the first matching label
		// counts (pd's label convention), datacenter names are compared exactly
		v := labelValue(s, d.LabelKey)
		if v == d.Primary {
			c.DownPrimary++
		}
		if v == d.DR {
			c.DownDR++
		}
	}
	switch {
	case d.PrimaryReplicas <= 0 || d.DRReplicas <= 0:
		c.Ambiguous = "non-positive-replicas"
	case d.Primary == "" || d.DR == "":
		c.Ambiguous = "empty-datacenter-name"
	}
	c.DCFailed = c.DownPrimary >= c.TP || c.DownDR >= c.TD
	min := func(a, b int) int {
		if a < b {
			return a
		}
		return b
	}
	up := (c.TP - min(c.TP, c.DownPrimary)) + (c.TD - min(c.TD, c.DownDR))
	c.Majority = 2*up > c.TP+c.TD
	c.Elapsed = d.WaitAsyncTimeout.Duration <= 0 // <= 0: has passed; 1 h: never passes inside a history
	c.AsyncAllowed = c.DCFailed && c.Majority && c.Elapsed
	c.CanRecover = c.DownPrimary < c.TP && c.DownDR < c.TD
	return c
}

// scan is the linear scan over the delivered reports: contiguous from "" to "" and every region
// reporting integrity under id. strict = judge the latest report of each region; otherwise the
// permissive reading "has reported integrity under id since it was issued".
func (w *world) scan(id uint64, strict bool) (bool, string) {
	cursor, n, prevStart := "", 0, ""
	closed := false
	for _, g := range w.regs {
		if !g.present {
			continue
		}
		if n > 0 && g.start <= prevStart {
			w.r.Inconclusive("harness: region mirror not ordered at %q", g.start)
			w.dead = true
			return false, "harness"
		}
		prevStart = g.start
		if closed {
			w.r.Inconclusive("harness: region mirror has a region after the one ending at +inf")
			w.dead = true
			return false, "harness"
		}
		if g.start != cursor {
			if n == 0 {
				return false, "gap-head"
			}
			return false, "gap-middle"
		}
		ok := g.okUnder == id
		if strict {
			ok = g.hasStatus && g.stID == id && g.st == pb.RegionReplicationState_INTEGRITY_OVER_LABEL
		}
		if !ok {
			switch {
			case !g.hasStatus:
				return false, "no-status"
			case g.st == pb.RegionReplicationState_INTEGRITY_OVER_LABEL:
				return false, "stale-id"
			default:
				return false, "not-integrity"
			}
		}
		cursor = g.end
		n++
		if cursor == "" {
			closed = true
		}
	}
	if n == 0 {
		return false, "no-regions"
	}
	if !closed {
		return false, "gap-tail"
	}
	return true, ""
}

func (w *world) presentCount() int {
	n := 0
	for _, g := range w.regs {
		if g.present {
			n++
		}
	}
	return n
}

// ---- region delivery ----

func (w *world) put(g *regionRec, hasStatus bool, id uint64, st pb.RegionReplicationState) {
	peer := &metapb.Peer{Id: g.id*4 + 1, StoreId: 1}
	meta := &metapb.Region{Id: g.id, StartKey: []byte(g.start), EndKey: []byte(g.end), Peers: []*metapb.Peer{peer},
		RegionEpoch: &metapb.RegionEpoch{ConfVer: 1, Version: 1}}
	var reg *core.RegionInfo
	if hasStatus {
		reg = core.NewRegionInfo(meta, peer, core.SetReplicationStatus(&pb.RegionReplicationStatus{State: st, StateId: id}))
	} else {
		reg = core.NewRegionInfo(meta, peer)
	}
	w.cl.PutRegion(reg)
	g.present, g.hasStatus, g.stID, g.st = true, hasStatus, id, st
	if hasStatus && st == pb.RegionReplicationState_INTEGRITY_OVER_LABEL && id > g.okUnder && id < 1<<31 {
		g.okUnder = id // state ids only grow: a late report under an older id does not undo "has reported under id"
	}
	w.r.Count("region_reports_delivered", 1)
}

// ---- stores ----

func (w *world) setStore(s *storeRec, up bool) {
	s.Up = up
	t := time.Now()
	if !up {
		t = t.Add(-100 * storeTimeout)
	}
	var labels []*metapb.StoreLabel
	for _, l := range labelsOf(s) {
		labels = append(labels, &metapb.StoreLabel{Key: l[0], Value: l[1]})
	}
	w.cl.PutStore(core.NewStoreInfo(&metapb.Store{Id: s.ID, Labels: labels, State: metapb.StoreState_Up}, core.SetLastHeartbeatTS(t)))
}

// ---- one monitored call ----

type faultPlan struct {
	Storage string `json:"storage,omitempty"` // fail-before / lost-ack
	K       int64  `json:"k,omitempty"`
	Rep     bool   `json:"replicater_fails,omitempty"`
	Alloc   bool   `json:"alloc_fails,omitempty"`
}

func (f faultPlan) String() string {
	s := ""
	if f.Storage != "" {
		s += fmt.Sprintf("%s@%d", f.Storage, f.K)
	}
	if f.Rep {
		s += "+rep"
	}
	if f.Alloc {
		s += "+alloc"
	}
	return s
}

type readerObs struct {
	P    pair  `json:"pair"`
	Call int64 `json:"call"`
	Ret  int64 `json:"ret"`
}

// callKind: "tick", "config", "restart", "init"
type callInfo struct {
	kind        string
	newCfg      *config.ReplicationModeConfig
	modeToDR    bool // UpdateConfig majority -> dr-auto-sync (documented: goes to sync_recover)
	labelChange bool // UpdateConfig with a new label key (documented: goes to async)
	force       *faultPlan
}

func (w *world) planFault(ci callInfo, c cond) faultPlan {
	var f faultPlan
	if ci.force != nil {
		return *ci.force
	}
	if !w.p.Faulty || ci.kind == "restart" || ci.kind == "init" {
		return f
	}
	// steer faults towards calls in which the model expects a transition to be attempted
	expect := ci.modeToDR || ci.labelChange
	if ci.kind == "tick" && w.last.dr() {
		switch w.last.State {
		case stSync:
			expect = c.AsyncAllowed
		case stAsync:
			expect = c.CanRecover
		case stRecover:
			ok, _ := w.scan(w.last.ID, true)
			expect = c.AsyncAllowed || ok
		}
	}
	p := 0.04
	if expect {
		p = 0.35
	}
	if w.rng.Float64() >= p {
		return f
	}
	switch w.rng.Intn(7) {
	case 0, 1:
		f.Storage, f.K = "fail-before", 1
	case 2, 3:
		f.Storage, f.K = "lost-ack", 1
	case 4:
		f.Rep = true
	case 5:
		f.Alloc = true
	case 6:
		f.Rep = true
		if w.rng.Intn(2) == 0 {
			f.Storage, f.K = "fail-before", 1
		} else {
			f.Storage, f.K = "lost-ack", 1
		}
	}
	return f
}

func (w *world) arm(f faultPlan) {
	switch f.Storage {
	case "fail-before":
		w.kv.FailWrite(f.K, kvx.FailBefore)
	case "lost-ack":
		w.kv.FailWrite(f.K, kvx.LostAck)
	}
	w.rep.setFail(f.Rep)
	if f.Alloc {
		atomic.StoreInt32(&w.cl.failAlloc, 1)
	}
}

func (w *world) disarm() int64 {
	inj := w.kv.Injected()
	w.kv.ResetFaults()
	w.rep.setFail(false)
	atomic.StoreInt32(&w.cl.failAlloc, 0)
	return inj
}

// call runs one monitored invocation and judges what is served afterwards.
func (w *world) call(ci callInfo, f func() error) error {
	r := w.r
	pre := w.last
	cfgForCond := w.cfg
	if ci.newCfg != nil {
		cfgForCond = *ci.newCfg
	}
	c := w.conditions(cfgForCond)
	strictOK, strictWhy := false, ""
	permOK, permWhy := false, ""
	if pre.dr() && pre.State == stRecover {
		strictOK, strictWhy = w.scan(pre.ID, true)
		permOK, permWhy = w.scan(pre.ID, false)
		if w.dead {
			return nil
		}
	}
	fp := w.planFault(ci, c)
	logBefore := len(w.kv.Log())
	offBefore := len(w.rep.all())
	w.arm(fp)

	// concurrent reader of the served status
	var obs []readerObs
	var stop int32
	var wg sync.WaitGroup
	if w.p.Reader && ci.kind != "restart" && ci.kind != "init" {
		wg.Add(1)
		m := w.m
		go func() {
			defer wg.Done()
			var lastP pair
			first := true
			for atomic.LoadInt32(&stop) == 0 {
				cl := hist.Tick()
				st := m.GetReplicationStatus()
				rt := hist.Tick()
				p := pair{Mode: modeMaj}
				if st.GetMode() == pb.ReplicationMode_DR_AUTO_SYNC {
					p = pair{Mode: modeDR, State: lower(st.GetDrAutoSync().GetState()), ID: st.GetDrAutoSync().GetStateId()}
				}
				if first || p != lastP {
					obs = append(obs, readerObs{P: p, Call: cl, Ret: rt})
					lastP, first = p, false
				}
				m.GetReplicationStatusHTTP()
				runtime.Gosched()
			}
		}()
		// heartbeats that change nothing (an up store refreshing its timestamp, a region repeating its
		// last report) keep arriving while the call runs: the model stays exact, the code paths overlap
		wg.Add(1)
		go func() {
			defer wg.Done()
			for i := 0; atomic.LoadInt32(&stop) == 0; i++ {
				if len(w.stores) > 0 {
					s := w.stores[i%len(w.stores)]
					w.setStore(s, s.Up)
				}
				if len(w.regs) > 0 {
					if g := w.regs[(i*7)%len(w.regs)]; g.present {
						w.put(g, g.hasStatus, g.stID, g.st)
					}
				}
				w.r.Count("neutral_heartbeats_during_calls", 2)
				runtime.Gosched()
			}
		}()
	}

	var err error
	var panicked interface{}
	func() {
		defer func() {
			if p := recover(); p != nil {
				panicked = p
			}
		}()
		err = f()
	}()
	atomic.StoreInt32(&stop, 1)
	wg.Wait()
	injected := w.disarm()

	if panicked != nil {
		r.Violation("panic:"+ci.kind, fmt.Sprintf("pd panicked in %s: %v", ci.kind, panicked), w.witness(map[string]interface{}{"pre": pre, "cond": c, "fault": fp}))
		w.dead = true
		return nil
	}
	if ci.kind == "restart" || ci.kind == "init" {
		if err != nil {
			return err
		}
	}

	post, httpPost := w.observe()
	log := w.kv.Log()
	offers := w.rep.all()
	callSaves := savesOf(log[logBefore:])
	callOffers := offers[offBefore:]
	w.foldIDs(log, offers)

	errS := ""
	if err != nil {
		errS = err.Error()
	}
	w.logf(ci.kind, "pre", pre.String(), "post", post.String(), "cond", c, "fault", fp.String(), "err", errS,
		"scan_latest", strictWhy, "saves", callSaves, "offers", callOffers)
	wit := func() map[string]interface{} {
		return w.witness(map[string]interface{}{"call": ci.kind, "pre": pre, "post": post, "http_post": httpPost, "cond": c, "fault": fp,
			"err": errS, "saves_in_call": callSaves, "offers_in_call": callOffers, "reader": obs,
			"scan_latest_reports": strictWhy, "scan_ever_reported": permWhy})
	}
	r.Eval(1)
	r.Count("calls_"+ci.kind, 1)
	if injected > 0 {
		r.Count("faults_storage_"+fp.Storage, 1)
	}
	if fp.Rep && len(callOffers) > 0 {
		r.Count("faults_replicater_failed_offer", 1)
	}
	if fp.Alloc {
		r.Count("faults_alloc_armed", 1)
	}

	if post != httpPost {
		r.Violation("served-status-differs-between-grpc-and-http", fmt.Sprintf("GetReplicationStatus serves %v while GetReplicationStatusHTTP serves %v", post, httpPost), wit())
	}

	// the status served to stores names the label key of the configuration that was last accepted
	if post.dr() {
		want := w.cfg
		if ci.kind == "config" && ci.newCfg != nil && err == nil {
			want = *ci.newCfg
		}
		if w.obsLabelKey != want.DRAutoSync.LabelKey {
			r.Violation("served-label-key-differs-from-accepted-config", fmt.Sprintf("%s: the status served with %v names label key %q, the accepted configuration says %q", ci.kind, post, w.obsLabelKey, want.DRAutoSync.LabelKey), wit())
		}
		if w.obsHint != int32(want.DRAutoSync.WaitSyncTimeout.Seconds()) {
			r.Count("served_wait_sync_hint_differs_from_accepted_config(counted)", 1)
		}
	}
	changed := post != pre
	trans := "stay"
	if changed {
		trans = pre.State + ">" + post.State
		if pre.Mode != post.Mode {
			trans = pre.Mode + ":" + pre.State + ">" + post.Mode + ":" + post.State
		}
	}
	r.Count("transition_"+ci.kind+"_"+trans, 1)

	// --- serving clauses: a newly served pair must be fresh, persisted and offered ---
	if changed && post.dr() {
		if old, ok := w.served[post.ID]; ok {
			r.Violation("state-id-reused:served-again", fmt.Sprintf("state id %d served for %q was already served before in this history for %q", post.ID, post.State, old), wit())
		}
		// persisted
		var okSave, failedSave, appliedEver bool
		for _, s := range callSaves {
			if s.P == post {
				if s.Err == "" {
					okSave = true
				} else {
					failedSave = true
				}
			}
		}
		for _, s := range savesOf(log) {
			if s.P == post && (s.Err == "" || s.Fault == "lost-ack") {
				appliedEver = true
			}
		}
		loaded, have := w.load()
		switch {
		case !okSave && failedSave:
			r.Violation("failed-persist-served:"+ci.kind+":"+fp.Storage, fmt.Sprintf("the storage write of %v failed (%s) and it is served nonetheless (was %v)", post, fp.Storage, pre), wit())
		case !okSave && (ci.kind == "restart" || ci.kind == "init"):
			// a (re)constructed manager serves what an earlier call left in storage
			if !appliedEver || !have || loaded != post {
				r.Violation("served-not-persisted:after-"+ci.kind, fmt.Sprintf("a freshly constructed manager serves %v but storage holds %v", post, loaded), wit())
			}
		case !okSave:
			r.Violation("served-not-persisted:"+ci.kind, fmt.Sprintf("%v is served but was never written to storage (storage holds %v)", post, loaded), wit())
		default:
			// the last applied write of this call decides what storage must show
			lastApplied := post
			for _, s := range callSaves {
				if s.Err == "" || s.Fault == "lost-ack" {
					lastApplied = s.P
				}
			}
			if lastApplied == post && (!have || loaded != post) {
				r.Violation("served-not-persisted:load-mismatch", fmt.Sprintf("%v is served but LoadReplicationStatus shows %v", post, loaded), wit())
			}
		}
		// offered
		off := false
		for _, o := range offers {
			if o.State == post.State && o.ID == post.ID {
				off = true
			}
		}
		if !off {
			r.Violation("served-not-offered-to-members:"+ci.kind, fmt.Sprintf("%v is served but was never handed to the file replicater", post), wit())
		}
		// what was handed to the members and what was written must be the same status, field by field
		var offRaw, savRaw string
		for _, o := range offers {
			if o.ID == post.ID {
				offRaw = o.Raw
			}
		}
		for _, sv := range savesOf(log) {
			if sv.P.ID == post.ID && (sv.Err == "" || sv.Fault == "lost-ack") {
				savRaw = sv.Raw
			}
		}
		if offRaw != "" && savRaw != "" {
			var a, b map[string]interface{}
			json.Unmarshal([]byte(offRaw), &a)
			json.Unmarshal([]byte(savRaw), &b)
			if !reflect.DeepEqual(a, b) {
				r.Violation("offered-status-differs-from-persisted", fmt.Sprintf("state id %d: the members were offered %s but storage holds %s", post.ID, offRaw, savRaw), wit())
			}
			r.Count("offered_vs_persisted_compared_fieldwise", 1)
		}
		r.Count("new_pairs_checked_fresh_persisted_offered", 1)
	}
	if post.dr() {
		w.served[post.ID] = post.State
	}
	// a failed call leaves everything as it was
	if (injected > 0 || fp.Alloc) && !changed {
		r.Count("faulted_call_left_state_unchanged", 1)
	}
	if injected > 0 && changed {
		// allowed only if the served pair is one written successfully (checked above); count it
		r.Count("faulted_call_changed_state", 1)
	}

	// --- concurrent reader: nothing may be seen before it is persisted and offered ---
	var maxSeen uint64
	for _, o := range obs {
		r.Count("reader_observations", 1)
		if o.P.dr() {
			// observations are recorded on change only and every change carries a newer id
			if o.P.ID <= maxSeen {
				r.Violation("state-id-reused:reader-saw-older-id-again", fmt.Sprintf("a concurrent reader saw state id %d after it had seen %d", o.P.ID, maxSeen), wit())
			}
			maxSeen = o.P.ID
		}
		if !o.P.dr() || o.P == pre {
			continue
		}
		var saved, offd bool
		for _, s := range savesOf(log) {
			if s.P == o.P && s.Err == "" && s.Seq < o.Ret {
				saved = true
			}
		}
		for _, of := range offers {
			if of.State == o.P.State && of.ID == o.P.ID && of.Seq < o.Ret {
				offd = true
			}
		}
		if !saved {
			r.Violation("served-before-persisted:concurrent-reader", fmt.Sprintf("a concurrent GetReplicationStatus saw %v before a successful storage write of it had completed", o.P), wit())
		} else if !offd {
			r.Violation("served-before-offered-to-members:concurrent-reader", fmt.Sprintf("a concurrent GetReplicationStatus saw %v before it was handed to the file replicater", o.P), wit())
		}
	}

	// --- transition clauses ---
	if changed && ci.kind != "restart" && ci.kind != "init" {
		w.judgeTransition(ci, pre, post, c, permOK, permWhy, strictOK, strictWhy, wit)
	}

	// --- converse directions: counted, never judged ---
	if !changed && ci.kind == "tick" && pre.dr() && injected == 0 && !fp.Alloc {
		if c.AsyncAllowed && pre.State != stAsync {
			r.Count("converse_async_allowed_but_not_taken", 1)
		}
		if c.CanRecover && pre.State == stAsync {
			r.Count("converse_recover_allowed_but_not_taken", 1)
		}
	}

	// --- bounded progress ---
	if ci.kind == "tick" && pre.dr() && pre.State == stRecover {
		if strictOK {
			r.Count("recover_ticks_scan_ok", 1)
		} else {
			r.Count("recover_ticks_scan_fails_"+strictWhy, 1)
		}
		eligible := strictOK && c.CanRecover && injected == 0 && !fp.Alloc
		switch {
		case post.dr() && post.State == stSync:
			r.Count("progress_sync_reached_after_eligible_ticks_"+fmt.Sprint(w.streak+1), 1)
			w.streak = 0
		case !eligible || changed:
			w.streak = 0
		default:
			w.streak++
			n := w.presentCount()
			bound := (n+1023)/1024 + 2
			if w.streak == bound {
				if w.topoDone {
					// splits / merges are outside the stated report streams: recorded, not judged (see report)
					r.Count("exploratory_progress_stalled_after_split_or_merge", 1)
					r.Set("exploratory_stall_witness", map[string]interface{}{"history": w.p.Hist, "hseed": w.p.HSeed, "regions": n, "ticks": w.streak, "served": pre.String()})
					if judgeTopologyProgress {
						r.Violation("bounded-progress:stalled-after-merge-across-recovery-cursor", fmt.Sprintf("all %d regions are contiguous and report integrity under state id %d for %d ticks (bound %d) and sync is not reached", n, pre.ID, w.streak, bound), wit())
					}
				} else {
					r.Violation("bounded-progress:sync-not-reached", fmt.Sprintf("all %d regions are contiguous and report integrity under state id %d for %d consecutive ticks (bound ceil(N/1024)+2 = %d) and the state is still %v", n, pre.ID, w.streak, bound, post), wit())
				}
			}
		}
	} else if ci.kind == "tick" {
		w.streak = 0
	}

	// distinct abstract situation
	sit := fmt.Sprintf("%s|%s|ca=%v,cr=%v,mj=%v,el=%v|scan=%s|f=%s|n=%s", ci.kind, trans, c.AsyncAllowed, c.CanRecover, c.Majority, c.Elapsed, strictWhy, fp.String(), nBucket(w.presentCount()))
	r.Distinct(sit)
	if changed || strictWhy != "" {
		w.shape = append(w.shape, trans+"/"+strictWhy)
	}
	if post != pre && post.dr() && (pre.Mode != post.Mode || pre.ID != post.ID) {
		w.topoDone = false
	}
	w.last = post
	return err
}

func nBucket(n int) string {
	switch {
	case n <= 1:
		return "1"
	case n <= 3:
		return "2-3"
	case n <= 64:
		return "4-64"
	case n <= 1024:
		return "65-1024"
	case n <= 2048:
		return "1025-2048"
	}
	return ">2048"
}

// judgeTransition decides whether going from pre to post inside one call is permitted: post must be
// reachable from pre in the statement's transition graph with the edges enabled by the conditions
// that held during the call.
func (w *world) judgeTransition(ci callInfo, pre, post pair, c cond, permOK bool, permWhy string, strictOK bool, strictWhy string,
	wit func() map[string]interface{}) {
	r := w.r
	if !post.dr() {
		return // leaving dr-auto-sync: nothing is declared
	}
	if ci.kind == "config" {
		if ci.modeToDR && post.State == stRecover {
			r.Count("skipped_ambiguous_mode_switch_enters_sync_recover", 1)
			return
		}
		if ci.labelChange && post.State == stAsync {
			r.Count("skipped_ambiguous_label_key_change_enters_async", 1)
			return
		}
	}
	if c.Ambiguous != "" && post.State != stSync {
		r.Count("skipped_ambiguous_config_"+c.Ambiguous, 1)
		return
	}
	from := pre.State
	if !pre.dr() {
		from = "(majority)"
	}
	switch post.State {
	case stAsync:
		// reachable only over an "-> async" edge (async -> sync_recover -> async needs both predicates at once)
		if !c.AsyncAllowed || from == stAsync {
			why := "async wait not elapsed"
			switch {
			case from == stAsync:
				why = "re-issued while already async"
			case !c.DCFailed:
				why = "no datacenter has failed stores >= replicas"
			case !c.Majority:
				why = "no majority of replicas can be up"
			}
			key := "no-dc-failed"
			switch {
			case from == stAsync:
				key = "reissued"
			case !c.DCFailed:
			case !c.Majority:
				key = "no-majority"
			default:
				key = "wait-not-elapsed"
			}
			r.Violation("async-not-allowed:"+key, fmt.Sprintf("%s: %v -> %v although %s (failed primary %d/%d replicas, failed dr %d/%d replicas)", ci.kind, pre, post, why, c.DownPrimary, c.TP, c.DownDR, c.TD), wit())
			return
		}
		r.Count("judged_to_async_ok", 1)
	case stRecover:
		if from != stAsync || !c.CanRecover {
			key := "dc-still-failed"
			if from != stAsync {
				key = "from-" + from
			}
			r.Violation("sync_recover-not-allowed:"+key, fmt.Sprintf("%s: %v -> %v although failed primary %d/%d replicas, failed dr %d/%d replicas", ci.kind, pre, post, c.DownPrimary, c.TP, c.DownDR, c.TD), wit())
			return
		}
		r.Count("judged_to_sync_recover_ok", 1)
	case stSync:
		if from != stRecover {
			r.Violation("sync-not-allowed:from-"+from, fmt.Sprintf("%s: %v -> %v: sync declared although no region can have reported under a state id that was never served", ci.kind, pre, post), wit())
			return
		}
		if !permOK {
			r.Violation("sync-not-allowed:"+permWhy, fmt.Sprintf("%s: %v -> %v although the linear scan of the delivered reports under state id %d fails with %q", ci.kind, pre, post, pre.ID, permWhy), wit())
			return
		}
		if !strictOK {
			r.Count("skipped_ambiguous_sync_with_region_whose_latest_report_regressed", 1)
		}
		r.Count("judged_to_sync_ok", 1)
	default:
		r.Violation("unknown-state-served", fmt.Sprintf("%v served", post), wit())
	}
}

// ---- construction ----

func newWorld(r *ev.Run, p params, rng *rand.Rand, opts *config.PersistOptions) *world {
	w := &world{r: r, rng: rng, p: p, served: map[uint64]string{}, idState: map[uint64]string{}, forceEpoch: -1}
	w.ctx, w.cancel = context.WithCancel(context.Background())
	w.cl = &clus{Cluster: mockcluster.NewCluster(w.ctx, opts)}
	w.kv = kvx.New(kv.NewMemoryKV())
	w.storage = core.NewStorage(w.kv)
	w.rep = &fakeRep{}
	return w
}

func (w *world) close() { w.cancel() }
