// C19 — DR auto-sync only declares 'sync' when every region is in sync.
//
// A real replication.ModeManager (storage = core.NewStorage over the instrumented in-memory kv,
// cluster = mockcluster with a failable id allocator, FileReplicater = recording fake) is driven
// through the verif hook VerifTickDR, UpdateConfig and re-construction ("restart") over generated
// histories of store failures per datacenter, region report streams, configuration switches and
// faults at transitions. After every call the served status (gRPC and HTTP form) is observed and
// judged against a reference model written from the property statement:
//
//   - "-> async" only if some datacenter has failed stores >= its replicas, a strict majority of
//     all replicas can still be up and the async wait has elapsed (WaitAsyncTimeout 0 = elapsed,
//     1 h = never elapses inside a history: no wall-clock race decides anything);
//   - "async -> sync_recover" only if both datacenters have fewer failed stores than replicas;
//   - "sync_recover -> sync" only if a linear scan over the harness' own record of the delivered
//     reports finds every region contiguous from "" to "" and reporting integrity under the
//     state id that was being served;
//   - a newly served (state, id): id never served before, one id never stands for two states,
//     LoadReplicationStatus shows it, it was handed to the FileReplicater before;
//   - a call whose storage write failed does not serve what it failed to write;
//   - bounded progress: all regions contiguous and in integrity under the served id for
//     ceil(N/1024)+2 ticks (stores permitting) => sync is reached.
//
// Converse directions ("allowed but not taken") are counted only.
package main

import (
	"encoding/json"
	"fmt"
	"io/ioutil"
	"math/rand"
	"os"
	"strings"
	"sync"
	"sync/atomic"
	"time"

	"github.com/pingcap/log"
	"github.com/tikv/pd/server/config"
	"go.uber.org/zap"
	"verif/harness/lib/ev"
	"verif/harness/lib/hist"
	"verif/harness/lib/kvx"

	pb "github.com/pingcap/kvproto/pkg/replication_modepb"
)

// judgeTopologyProgress turns the exploratory "stalled after a merge" observation into a violation.
var judgeTopologyProgress = os.Getenv("VERIF_C19_JUDGE_TOPOLOGY") == "1"

func quiet() {
	if os.Getenv("VERIF_LOG") != "" {
		return
	}
	lg, props, err := log.InitLogger(&log.Config{Level: "fatal", File: log.FileLogConfig{Filename: os.DevNull}})
	if err == nil {
		log.ReplaceGlobals(lg, props)
	} else {
		log.ReplaceGlobals(zap.NewNop(), nil)
	}
}

func runHistory(r *ev.Run, opts *config.PersistOptions, idx int, hseed int64) *world {
	rng := rand.New(rand.NewSource(hseed))
	p := pickParams(r, rng, idx, hseed)
	w := newWorld(r, p, rng, opts)
	defer w.close()
	w.run()
	r.Count("histories", 1)
	r.Count("histories_regions_"+nBucket(p.N), 1)
	if p.Faulty {
		r.Count("histories_with_faults", 1)
	}
	if len(p.Gaps) > 0 {
		r.Count("histories_with_absent_regions", 1)
	}
	if p.Topology {
		r.Count("histories_with_split_merge(exploratory)", 1)
	}
	r.Distinct("history|" + strings.Join(w.shape, ","))
	return w
}

// concurrentPhase runs every entry point a server has at the same time on one long-lived manager:
// the background tick, one or two configuration API callers, member wait-time updates, status
// readers (store heartbeats / HTTP), store heartbeats that change store status, and region reports.
// Every second round additionally fails storage writes (fail-before or lost-ack), replicater offers
// and id allocations at random inside those races.
// Verdicts: the race detector (mechanism functions); the sequence of successful state writes, which
// is totally ordered because every switch writes under the manager's lock (a written "sync" must
// directly follow a written "sync_recover" whose id every region had begun to report integrity under
// before that write); every pair a reader sees has a successful write before the read returned and
// reader-observed ids never go back; at quiescence the served pair is the last successfully written.
func concurrentPhase(r *ev.Run, opts *config.PersistOptions, seed int64) {
	rounds := r.Pick(18, 36)
	variants := []string{"replicas", "label-key", "mode"}
	for k := 0; k < rounds; k++ {
		rng := rand.New(rand.NewSource(seed + int64(k)))
		n := []int{10, 300, 64, 1100, 33, 2049}[k%6] // two of six rounds scan more than one batch
		variant := variants[(k/3)%3]
		second := ""
		if k%4 >= 2 {
			second = variants[(k/3+1+k%2)%3]
		}
		faults := k%2 == 1
		wait := "0"
		if k%3 == 2 {
			wait = "1h" // the tick then walks the member wait-time table that the admin API writes
		}
		p := params{Hist: -1 - k, HSeed: seed + int64(k), N: n, Ticks: 0, TP: 2, TD: 1, AsyncWait: wait, StartMode: modeDR}
		w := newWorld(r, p, rng, opts)
		if !w.setup() {
			w.close()
			return
		}
		var wg sync.WaitGroup
		var stop int32
		base := w.cfg
		ticks := 400
		name := variant
		if second != "" {
			name += "||" + second
		}
		if wait == "1h" {
			name += "/wait=1h"
		}
		if faults {
			name += "+faults"
			var nw int64
			mode := []kvx.FaultMode{kvx.FailBefore, kvx.LostAck}[(k/2)%2]
			w.kv.FailAllWrites(mode, func(kind, key string) bool { return atomic.AddInt64(&nw, 1)%3 == 0 })
			atomic.StoreInt64(&w.cl.allocFailEvery, 7)
		}
		wg.Add(1)
		go func() { // the background job
			defer wg.Done()
			for i := 0; i < ticks; i++ {
				w.m.VerifTickDR()
				if i%3 == 0 {
					time.Sleep(30 * time.Microsecond)
				}
			}
			atomic.StoreInt32(&stop, 1)
		}()
		updater := func(variant string, useed int64) {
			defer wg.Done()
			lr := rand.New(rand.NewSource(useed))
			cur := base
			for i := 0; atomic.LoadInt32(&stop) == 0; i++ {
				c := cur
				c.DRAutoSync.PrimaryReplicas, c.DRAutoSync.DRReplicas = 1+lr.Intn(3), 1+lr.Intn(2)
				if i%48 == 47 {
					switch variant {
					case "label-key":
						if c.DRAutoSync.LabelKey == "zone" {
							c.DRAutoSync.LabelKey = "site"
						} else {
							c.DRAutoSync.LabelKey = "zone"
						}
					case "mode":
						if c.ReplicationMode == modeDR {
							c.ReplicationMode = modeMaj
						} else {
							c.ReplicationMode = modeDR
						}
					}
				}
				if w.m.UpdateConfig(c) == nil {
					cur = c
				}
				r.Count("concurrent_config_updates_"+variant, 1)
				if i%48 == 47 {
					time.Sleep(time.Duration(100+lr.Intn(400)) * time.Microsecond)
				}
			}
		}
		wg.Add(1)
		go updater(variant, seed*31+int64(k))
		if second != "" {
			wg.Add(1)
			go updater(second, seed*37+int64(k))
		}
		wg.Add(1)
		go func() { // store heartbeats: stores of both datacenters fail and recover while ticks run
			defer wg.Done()
			for i := 0; atomic.LoadInt32(&stop) == 0; i++ {
				w.applyFailure([]string{"dr", "up", "up", "partial", "edge"}[rng.Intn(5)])
				r.Count("concurrent_store_status_changes", 1)
				time.Sleep(time.Duration(50+rng.Intn(300)) * time.Microsecond)
			}
		}()
		wg.Add(1)
		go func() { // member sync (admin API) and, in fault rounds, a replicater that comes and goes
			defer wg.Done()
			for i := 0; atomic.LoadInt32(&stop) == 0; i++ {
				w.m.UpdateMemberWaitAsyncTime(uint64(1 + i%3))
				if faults {
					w.rep.setFail(i%3 == 0)
				}
				r.Count("concurrent_member_wait_updates", 1)
				time.Sleep(80 * time.Microsecond)
			}
		}()
		// status readers (store heartbeat responses / HTTP)
		readers := make([][]readerObs, 2)
		for ri := range readers {
			ri := ri
			wg.Add(1)
			go func() {
				defer wg.Done()
				var lastP pair
				first := true
				for atomic.LoadInt32(&stop) == 0 {
					cl := hist.Tick()
					st := w.m.GetReplicationStatus()
					rt := hist.Tick()
					pp := pair{Mode: modeMaj}
					if st.GetMode() == pb.ReplicationMode_DR_AUTO_SYNC {
						pp = pair{Mode: modeDR, State: lower(st.GetDrAutoSync().GetState()), ID: st.GetDrAutoSync().GetStateId()}
					}
					if first || pp != lastP {
						readers[ri] = append(readers[ri], readerObs{P: pp, Call: cl, Ret: rt})
						lastP, first = pp, false
					}
					w.m.GetReplicationStatusHTTP()
					r.Count("concurrent_status_reads", 1)
					time.Sleep(15 * time.Microsecond)
				}
			}()
		}
		// region heartbeats: every region echoes the state id it is told (integrity unless async)
		began := make([]map[uint64]int64, len(w.regs)) // region -> state id -> tick at which its first integrity report began
		for i := range began {
			began[i] = map[uint64]int64{}
		}
		wg.Add(1)
		go func() {
			defer wg.Done()
			var told uint64
			for atomic.LoadInt32(&stop) == 0 {
				st := w.m.GetReplicationStatus()
				d := st.GetDrAutoSync()
				if d == nil || d.GetStateId() == told {
					time.Sleep(10 * time.Microsecond)
					continue
				}
				told = d.GetStateId()
				state := integ
				if lower(d.GetState()) == stAsync {
					state = simple
				}
				for i, g := range w.regs {
					if state == integ {
						if _, ok := began[i][told]; !ok {
							began[i][told] = hist.Tick()
						}
					}
					w.put(g, true, told, state)
				}
				r.Count("concurrent_report_rounds", 1)
			}
		}()
		wg.Wait()
		injected := w.kv.Injected()
		w.kv.ResetFaults()
		w.rep.setFail(false)
		atomic.StoreInt64(&w.cl.allocFailEvery, 0)
		r.Count("concurrent_storage_faults_injected", injected)
		// the sequence of successful writes
		saves := savesOf(w.kv.Log())
		var seq []saveEv
		for _, sv := range saves {
			if sv.Err == "" {
				seq = append(seq, sv)
			}
		}
		around := func(i int) []saveEv {
			lo := i - 6
			if lo < 0 {
				lo = 0
			}
			return seq[lo : i+1]
		}
		base0 := map[string]interface{}{"round": k, "regions": n, "concurrent": name,
			"note": "ticks, UpdateConfig, member wait updates, status reads, store status changes and region reports ran concurrently on one manager; sequences are in the order of successful SaveReplicationStatus calls"}
		witWith := func(extra map[string]interface{}) map[string]interface{} {
			out := map[string]interface{}{}
			for kk, v := range base0 {
				out[kk] = v
			}
			for kk, v := range extra {
				out[kk] = v
			}
			return out
		}
		seenID := map[uint64]string{}
		for i := range seq {
			if old, ok := seenID[seq[i].P.ID]; ok {
				r.Violation("state-id-reused:concurrent", fmt.Sprintf("state id %d was written for %q and again for %q", seq[i].P.ID, old, seq[i].P.State), witWith(map[string]interface{}{"saved_sequence_around": around(i)}))
			}
			seenID[seq[i].P.ID] = seq[i].P.State
			if i == 0 {
				continue
			}
			r.Count("concurrent_saved_"+seq[i-1].P.State+">"+seq[i].P.State, 1)
			if seq[i].P.State != stSync {
				continue
			}
			prev := seq[i-1].P
			if prev.State != stRecover {
				r.Violation("sync-not-allowed:concurrent-config-update",
					fmt.Sprintf("with UpdateConfig (%s) running concurrently with ticks, sync#%d was saved directly after %v: sync declared although no region can have reported under that id", name, seq[i].P.ID, prev), witWith(map[string]interface{}{"saved_sequence_around": around(i)}))
				continue
			}
			missing := 0
			for j := range began {
				if t, ok := began[j][prev.ID]; !ok || t > seq[i].Seq {
					missing++
				}
			}
			if missing > 0 {
				r.Violation("sync-not-allowed:concurrent-config-update",
					fmt.Sprintf("sync#%d was saved after %v although %d of %d regions had not reported integrity under id %d", seq[i].P.ID, prev, missing, n, prev.ID), witWith(map[string]interface{}{"saved_sequence_around": around(i)}))
			} else {
				r.Count("concurrent_sync_judged_ok", 1)
			}
		}
		// readers
		for ri, obs := range readers {
			var maxSeen uint64
			for _, o := range obs {
				r.Count("concurrent_reader_observations", 1)
				if !o.P.dr() {
					continue
				}
				// observations are recorded on change only, and every change of what is served in
				// dr-auto-sync mode (including re-entering the mode) carries a newer id
				if o.P.ID <= maxSeen {
					r.Violation("state-id-reused:reader-saw-older-id-again", fmt.Sprintf("reader %d saw %v after it had seen state id %d and something else in between", ri, o.P, maxSeen), witWith(map[string]interface{}{"reader": obs}))
				}
				maxSeen = o.P.ID
				ok := false
				for _, sv := range seq {
					if sv.P == o.P && sv.Seq < o.Ret {
						ok = true
					}
				}
				if !ok {
					r.Violation("served-before-persisted:concurrent", fmt.Sprintf("reader %d saw %v, for which no successful storage write had completed", ri, o.P), witWith(map[string]interface{}{"reader": obs, "writes": saves}))
				}
			}
		}
		// quiescence
		served, _ := w.observe()
		if served.dr() && len(seq) > 0 && served != seq[len(seq)-1].P {
			r.Violation("served-not-persisted:concurrent-ticks-and-config", fmt.Sprintf("after the concurrent round (%s) %v is served but the last successful write is %v", name, served, seq[len(seq)-1].P), witWith(map[string]interface{}{"saved_sequence_around": around(len(seq) - 1)}))
		}
		if loaded, ok := w.load(); served.dr() && injected == 0 && (!ok || loaded != served) {
			r.Violation("served-not-persisted:concurrent-ticks-and-config", fmt.Sprintf("after concurrent ticks and config updates %v is served but storage holds %v", served, loaded), witWith(nil))
		}
		r.Count("concurrent_rounds", 1)
		r.Count("concurrent_rounds_"+name, 1)
		r.Count("concurrent_ticks", int64(ticks))
		r.Distinct(fmt.Sprintf("concurrent|%s|%d|%d", name, n, len(seq)))
		r.Eval(1)
		w.close()
	}
}

// gatedConfigDuringScan is the deterministic form of the schedule "a configuration update arrives
// while the last recovery scan of a tick is running": the tick is held inside ScanRegions (it holds
// the manager's read lock there), UpdateConfig is started and given time to queue up for the write
// lock, then the scan is released. The settle sleep only decides whether the schedule is produced,
// never a verdict: the verdict is read from the order of the saved states.
func gatedConfigDuringScan(r *ev.Run, opts *config.PersistOptions, variant string, n int, seed int64) {
	p := params{Hist: -2000, HSeed: seed, N: n, Ticks: 0, TP: 2, TD: 1, AsyncWait: "0", StartMode: modeDR}
	w := newWorld(r, p, rand.New(rand.NewSource(seed)), opts)
	defer w.close()
	if !w.setup() {
		return
	}
	tick := func() { w.call(callInfo{kind: "tick"}, func() error { w.m.VerifTickDR(); return nil }) }
	prim, dr := w.dcStores()
	w.setDown(prim, 0)
	w.setDown(dr, len(dr))
	tick() // -> async
	w.setDown(dr, 0)
	tick() // -> sync_recover
	if !w.last.dr() || w.last.State != stRecover {
		r.Count("gated_setup_missed", 1)
		return
	}
	x := w.last
	for _, g := range w.regs {
		w.put(g, true, x.ID, integ)
	}
	before := len(savesOf(w.kv.Log()))
	inScan, release := make(chan struct{}), make(chan struct{})
	var once sync.Once
	w.cl.scanHook = func() {
		once.Do(func() { close(inScan); <-release })
	}
	var wg sync.WaitGroup
	wg.Add(2)
	go func() { defer wg.Done(); w.m.VerifTickDR() }()
	<-inScan
	go func() {
		defer wg.Done()
		c := w.cfg
		switch variant {
		case "label-key":
			c.DRAutoSync.LabelKey = "site"
			w.m.UpdateConfig(c)
		case "mode-bounce":
			c.ReplicationMode = modeMaj
			w.m.UpdateConfig(c)
			w.m.UpdateConfig(w.cfg)
		}
	}()
	time.Sleep(30 * time.Millisecond)
	close(release)
	wg.Wait()
	w.cl.scanHook = nil
	w.m.UpdateConfig(w.cfg)
	var seq []saveEv
	for _, sv := range savesOf(w.kv.Log())[before:] {
		if sv.Err == "" {
			seq = append(seq, sv)
		}
	}
	served, _ := w.observe()
	names := x.String()
	for _, sv := range seq {
		names += " -> " + sv.P.String()
	}
	r.Count("gated_config_during_scan_"+variant, 1)
	r.Distinct("gated|" + variant + "|" + fmt.Sprint(len(seq)))
	r.Eval(1)
	prev := x
	for _, sv := range seq {
		if sv.P.State == stSync && (prev.State != stRecover || prev.ID != x.ID) {
			r.Violation("sync-not-allowed:config-update-during-recovery-scan:"+variant,
				fmt.Sprintf("UpdateConfig (%s) arrived while the last recovery scan of a tick was running: saved states %s; sync#%d is declared directly after %v, under whose id no region has reported (all %d regions had reported under #%d only); served afterwards: %v",
					variant, names, sv.P.ID, prev, n, x.ID, served),
				map[string]interface{}{"regions": n, "variant": variant, "state_before": x, "saved_sequence": seq, "served_after": served,
					"schedule": "tick holds the read lock in updateProgress/ScanRegions; UpdateConfig queues for the write lock; scan released; UpdateConfig switches the state; the tick then calls drSwitchToSync on the progress it computed before"})
			return
		}
		prev = sv.P
	}
	r.Count("gated_schedule_without_violation_"+variant, 1)
}

// gatedBatchBoundary holds a tick inside its holdAt-th ScanRegions call, i.e. while the recovery
// cursor sits on a batch boundary, and lets region reports arrive meanwhile: one for a region the
// cursor has passed, one for a region of the batch already fetched, and the missing report of the
// first region of the last batch (not yet scanned). The last region of the key space stays stale, so
// sync must not be declared in this tick; afterwards it reports and sync must follow. Optionally a
// configuration bounce queues up during the hold.
func gatedBatchBoundary(r *ev.Run, opts *config.PersistOptions, n, holdAt int, withBounce bool, seed int64) {
	p := params{Hist: -2500, HSeed: seed, N: n, Ticks: 0, TP: 2, TD: 1, AsyncWait: "0", StartMode: modeDR}
	w := newWorld(r, p, rand.New(rand.NewSource(seed)), opts)
	defer w.close()
	if !w.setup() {
		return
	}
	tick := func() { w.call(callInfo{kind: "tick"}, func() error { w.m.VerifTickDR(); return nil }) }
	prim, dr := w.dcStores()
	w.setDown(prim, 0)
	w.setDown(dr, len(dr))
	tick() // -> async
	w.setDown(dr, 0)
	tick() // -> sync_recover
	if !w.last.dr() || w.last.State != stRecover {
		r.Count("gated_setup_missed", 1)
		return
	}
	x := w.last
	d1, d2 := ((n-1)/1024)*1024, n-1
	for i, g := range w.regs {
		if i == d1 || i == d2 {
			w.put(g, true, w.staleID(x.ID), integ)
		} else {
			w.put(g, true, x.ID, integ)
		}
	}
	before := len(savesOf(w.kv.Log()))
	inScan, release := make(chan struct{}), make(chan struct{})
	var calls int32
	w.cl.scanHook = func() {
		if atomic.AddInt32(&calls, 1) == int32(holdAt) {
			close(inScan)
			<-release
		}
	}
	var wg sync.WaitGroup
	tDone := make(chan struct{})
	go func() { w.m.VerifTickDR(); close(tDone) }()
	held := true
	select {
	case <-inScan:
	case <-tDone:
		held = false
	}
	if held {
		w.put(w.regs[5%n], true, x.ID, integ)      // behind the cursor
		w.put(w.regs[(1030)%n], true, x.ID, integ) // in the batch already fetched
		if d1 != d2 {
			w.put(w.regs[d1], true, x.ID, integ) // not yet scanned: arrives just in time
		}
		if withBounce {
			wg.Add(1)
			go func() {
				defer wg.Done()
				c := w.cfg
				c.ReplicationMode = modeMaj
				w.m.UpdateConfig(c)
				w.m.UpdateConfig(w.cfg)
			}()
			time.Sleep(20 * time.Millisecond)
		}
		close(release)
	}
	<-tDone
	wg.Wait()
	w.cl.scanHook = nil
	name := fmt.Sprintf("n=%d,hold=%d,bounce=%v", n, holdAt, withBounce)
	r.Count("gated_batch_boundary_runs", 1)
	if !held {
		r.Count("gated_batch_boundary_hold_not_reached", 1)
	}
	r.Eval(1)
	served, _ := w.observe()
	seq := x.String()
	bad := false
	for _, sv := range savesOf(w.kv.Log())[before:] {
		if sv.Err == "" {
			seq += " -> " + sv.P.String()
			if sv.P.State == stSync {
				bad = true
			}
		}
	}
	r.Distinct("gated-batch|" + name + "|" + seq[len(x.String()):])
	if bad {
		r.Violation("sync-not-allowed:reports-during-batched-scan", fmt.Sprintf("%s: saved states %s although region #%d (the last one) never reported under the served id; served afterwards %v", name, seq, d2, served),
			w.witness(map[string]interface{}{"case": name, "saved": seq, "stale_regions": []int{d1, d2}}))
		return
	}
	// the rest through the monitored path: everything reports under whatever id is served now
	w.last = served
	if served.dr() {
		w.served[served.ID] = served.State
	}
	w.foldIDs(w.kv.Log(), w.rep.all())
	for i := 0; i < 6 && w.last.dr() && w.last.State == stRecover; i++ {
		for _, g := range w.regs {
			if !w.compliant(g, w.last.ID) {
				w.put(g, true, w.last.ID, integ)
			}
		}
		tick()
	}
	if !(w.last.dr() && w.last.State == stSync) {
		r.Count("gated_batch_boundary_did_not_finish_in_sync", 1)
	}
}

func main() {
	r := ev.New("C19", "exploration")
	quiet()
	r.Rule("one history = a seeded choice of (region count N in {1..64, 600, 1023, 1024, 1025, 1100, 2048, 2049, 3000; thorough also 513, 2047, 2500, 3073, 4100}, region keys fixed-width or prefixes of each other (a, a\\x00, aa, job-1, job-10, ...), replicas per datacenter, stores per datacenter, WaitAsyncTimeout 0|1h, start mode, absent regions at the hot positions (0, 511-513, 1023-1025, 2047-2049, 3071-3073, last), fault plan, concurrent status reader) followed by 30 (thorough 40) ticks; 1000 histories quick, 2500 per shard thorough; between ticks stores fail/recover per datacenter (steered to the thresholds), region reports arrive (complete / partial per tick / complete except 1-4 defective regions held for 1-4 ticks then repaired; 'walk': defects at 2-6 hot positions repaired in key order one tick after the other so that the cursor crosses the batch boundaries while already-scanned regions re-report and late regions ahead report, optionally with a majority->dr bounce in the middle followed by a tail-first stream; forward, reverse or shuffled; stale ids, simple-majority, no status, late regressing reports), the configuration is switched (majority<->dr-auto-sync, wait timeout, replicas, primary/dr swap, label key), the manager is re-constructed. evaluations = monitored calls (tick / UpdateConfig / construction). distinct = abstract situation of a call: (call kind, observed transition, model predicates async-allowed / can-recover / majority / wait-elapsed, reason the report scan fails, injected fault, region-count bucket) plus the per-history sequence of transitions.")
	r.Assume("stores are up (last heartbeat = now) or down (last heartbeat 100 h ago) against WaitStoreTimeout = 1 h; WaitAsyncTimeout is 0 (elapsed) or 1 h (never elapses within a history); no verdict depends on a wall-clock race")
	r.Assume("region reports carry the served state id or an older one; ids that were not issued yet are not generated (stores only echo ids they were told)")
	r.Assume("documented special cases are not judged for permission (counted as skipped_ambiguous_*): UpdateConfig majority->dr-auto-sync enters sync_recover, a label-key change enters async, the state served by a fresh manager on empty storage is sync; a region whose latest report regressed after it had reported integrity under the served id is judged by 'has reported'")
	r.Assume("free-running rounds and the gated grid judge a tick-made transition as permitted when the old or the new configuration permits it, and accept a re-issue of async / sync_recover under a fresh id (the tick checks the state in one critical section and switches in a later one); declaring sync is always tied to the reports under the id being served")
	r.Assume("trusted: mockcluster region tree / store table / id allocator (unique ids), kvx wrapper, the recording FileReplicater fake, the logical clock")
	opts := config.NewTestOptions()

	if r.Replay != "" {
		b, err := ioutil.ReadFile(r.Replay)
		var doc struct {
			Witness struct {
				Params  params `json:"params"`
				Variant string `json:"variant"`
				Regions int    `json:"regions"`
			} `json:"witness"`
		}
		if err == nil && json.Unmarshal(b, &doc) == nil && doc.Witness.Variant != "" && doc.Witness.Regions > 0 {
			// witness of the gated schedule "configuration update during the recovery scan"
			gatedConfigDuringScan(r, opts, doc.Witness.Variant, doc.Witness.Regions, 1)
			r.Distinct("replay")
			r.Finish()
		}
		if err != nil || json.Unmarshal(b, &doc) != nil || doc.Witness.Params.HSeed == 0 {
			r.Inconclusive("replay file %s has no history parameters", r.Replay)
			r.Finish()
		}
		w := runHistory(r, opts, doc.Witness.Params.Hist, doc.Witness.Params.HSeed)
		r.Sample(map[string]interface{}{"replayed": w.p, "transitions": w.shape})
		r.Distinct("replay")
		r.Finish()
	}

	master := rand.New(rand.NewSource(r.ShardSeed()))
	histories := r.Pick(1000, 2500)
	if os.Getenv("VERIF_C19_ONLY_CONCURRENT") == "1" {
		histories = 0 // development aid
	}
	for h := 0; h < histories; h++ {
		hseed := master.Int63()
		w := runHistory(r, opts, h, hseed)
		if h%97 == 5 {
			evs := w.events
			if len(evs) > 25 {
				evs = evs[:25]
			}
			r.Sample(map[string]interface{}{"params": w.p, "transitions": w.shape, "first_events": evs})
		}
	}
	mergeWitness(r, opts)
	scaleGrid(r, opts, master.Int63())
	if os.Getenv("VERIF_C19_CONCURRENT") != "0" {
		for i, v := range []string{"label-key", "mode-bounce", "label-key", "mode-bounce"} {
			gatedConfigDuringScan(r, opts, v, []int{3, 3, 1100, 1100}[i], master.Int63())
		}
		for _, c := range []struct {
			n, hold int
			bounce  bool
		}{{1025, 2, false}, {2049, 2, false}, {2049, 3, true}, {3000, 2, true}, {3000, 3, false}, {1024, 1, false}} {
			gatedBatchBoundary(r, opts, c.n, c.hold, c.bounce, master.Int63())
		}
		gatedGrid(r, opts, master.Int63())
		threeParty(r, opts, master.Int63())
		concurrentPhase(r, opts, master.Int63())
	}
	r.Floor(int64(r.Pick(10000, 25000)))
	r.Finish()
}
