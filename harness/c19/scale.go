package main

import (
	"fmt"

	"github.com/tikv/pd/server/config"
	"verif/harness/lib/ev"
)

// Scale grid: worlds with more regions than one (two, three) scan batches, one long-lived manager per
// world, and for every hot position (0, 511-513, 1023-1025, 2047-2049, 3071-3073, last two) x every
// kind of defect (stale state id with integrity, simple majority under the served id, no status,
// region absent) one recovery in which exactly that region is defective: the tick must not declare
// sync; then the region reports and sync must follow (bounded progress). A few pairs of defects on
// both sides of a batch boundary make the cursor stop twice. Everything runs through the monitored
// call path, so the ordinary oracles judge it.

type scaleWorld struct {
	N    int
	Keys string
}

func (w *world) removeFromPD(g *regionRec) {
	if reg := w.cl.GetRegion(g.id); reg != nil {
		w.cl.RemoveRegion(reg)
	}
	g.present, g.hasStatus, g.stID, g.okUnder = false, false, 0, 0
}

// scaleToRecover brings the manager to a fresh sync_recover state.
func (w *world) scaleToRecover() bool {
	for i := 0; i < 6 && !w.dead; i++ {
		cur := w.last
		switch {
		case cur.dr() && cur.State == stRecover && i > 0:
			return true
		case cur.dr() && cur.State == stAsync:
			w.gSetDown(nil)
		default:
			w.gSetDown([]uint64{4, 5})
		}
		w.gTick()
	}
	return w.last.dr() && w.last.State == stRecover
}

func (w *world) scaleCell(positions []int, kind int) {
	r := w.r
	if !w.scaleToRecover() {
		r.Count("scale_grid_setup_missed", 1)
		return
	}
	id := w.last.ID
	def := map[int]bool{}
	for _, p := range positions {
		def[p] = true
	}
	// reports arrive tail first, so that nothing but the defect stands between the scan and the end
	for i := len(w.regs) - 1; i >= 0; i-- {
		g := w.regs[i]
		switch {
		case !def[i]:
			w.put(g, true, id, integ)
		case kind == dkGap:
			w.removeFromPD(g)
		default:
			w.bad(g, kind, id)
		}
	}
	name := kindNames[kind]
	w.logf("scale-cell", "positions", positions, "defect", name, "regions", len(w.regs))
	r.Count("scale_grid_cells", 1)
	r.Count("scale_grid_cells_"+name, 1)
	r.Distinct(fmt.Sprintf("scale|%d|%s|%v|%s", len(w.regs), w.p.Keys, positions, name))
	w.gTick() // must stay in sync_recover (judged by the sync oracle)
	for _, p := range positions {
		// already scanned regions keep reporting, then the defect is repaired, lowest position first
		for j := 0; j < 5; j++ {
			g := w.regs[(p*7+j*131)%len(w.regs)]
			if w.compliant(g, id) {
				w.put(g, true, id, integ)
			}
		}
		w.put(w.regs[p], true, id, integ)
		w.gTick()
	}
	// everything reports integrity now: bounded progress is judged inside the calls
	for i := 0; i < 4 && w.last.dr() && w.last.State == stRecover; i++ {
		w.gTick()
	}
	if w.last.dr() && w.last.State == stSync {
		r.Count("scale_grid_cells_finished_in_sync", 1)
	}
}

func scaleGrid(r *ev.Run, opts *config.PersistOptions, seed int64) {
	worlds := []scaleWorld{{1025, "prefixes"}, {2049, "fixed-width"}, {3000, "prefixes"}}
	if r.Thorough() {
		worlds = append(worlds, scaleWorld{1024, "fixed-width"}, scaleWorld{2048, "prefixes"}, scaleWorld{3073, "fixed-width"}, scaleWorld{4100, "prefixes"})
	}
	for wi, sw := range worlds {
		if r.Shards > 1 && wi%r.Shards != r.Shard {
			continue
		}
		w := newFixedWorld(r, opts, seed+int64(wi), sw.N, sw.Keys)
		if w == nil {
			return
		}
		w.p.Hist = -4000 - wi
		hp := hotPositions(sw.N)
		for _, p := range hp {
			for kind := dkStale; kind <= dkHigh; kind++ {
				if w.dead {
					break
				}
				w.scaleCell([]int{p}, kind)
			}
		}
		// two defects: the cursor stops, moves across the boundary, stops again
		pairs := [][]int{{511, 512}, {1023, 1024}, {1024, 1025}, {512, 1024}, {1023, 2048}, {2047, 2048}, {2048, sw.N - 1}, {0, sw.N - 1}}
		for pi, pr := range pairs {
			if pr[0] < pr[1] && pr[1] < sw.N && !w.dead {
				w.scaleCell(pr, pi%5)
			}
		}
		r.Count("scale_grid_worlds", 1)
		w.close()
	}
}
