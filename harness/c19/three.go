package main

import (
	"fmt"
	"sync"
	"sync/atomic"
	"time"

	"github.com/tikv/pd/server/config"
	"verif/harness/lib/ev"
	"verif/harness/lib/hist"
)

// Three-party races: one operation is parked inside its storage write, i.e. while it holds the
// manager's write lock; two other operations are started in a chosen order and queue on that lock;
// then the write is released and both run back to back. Only storage writes are gated (a parked read
// would stop a worker before the lock it has to queue on). The settle sleeps decide only whether the
// queue forms; verdicts come from the recorded order of writes and from what is served afterwards.

type tpCase struct {
	Holder string `json:"parked_in_its_write"`
	A, B   string `json:"-"`
	Queue  string `json:"queued_in_order"`
	DRDown bool   `json:"dr_store_down"` // the queued tick finds a reason to switch to async
}

func threePartyCases() []tpCase {
	var out []tpCase
	pairs := [][2]string{{"tick", "u-bounce"}, {"tick", "u-label-key"}, {"u-label-key", "u-to-majority"}, {"u-replicas", "tick"},
		{"u-bounce", "u-label-key"}, {"tick", "u-wait+replicas"}, {"w-member", "tick"}}
	for _, h := range []string{"u-label-key", "u-to-dr", "t-async", "t-recover", "t-sync"} {
		for _, p := range pairs {
			a, b := p[0], p[1]
			if h[0] == 't' { // one background goroutine only: no second tick while a tick is parked
				if a == "tick" {
					a = "u-to-majority"
				}
				if b == "tick" {
					b = "u-to-majority"
				}
				if a == b {
					continue
				}
			}
			out = append(out, tpCase{Holder: h, A: a, B: b, Queue: a + "," + b}, tpCase{Holder: h, A: b, B: a, Queue: b + "," + a})
			if h[0] == 'u' && (a == "tick" || b == "tick") {
				out = append(out, tpCase{Holder: h, A: a, B: b, Queue: a + "," + b, DRDown: true}, tpCase{Holder: h, A: b, B: a, Queue: b + "," + a, DRDown: true})
			}
		}
	}
	return out
}

func (w *world) tpConfigs(op string) []config.ReplicationModeConfig {
	base := gBase("0")
	switch op {
	case "u-bounce":
		return gVariantCfgs("bounce", base)
	case "u-label-key":
		return gVariantCfgs("label-key", base)
	case "u-to-majority":
		return gVariantCfgs("to-majority", base)
	case "u-replicas":
		return gVariantCfgs("replicas", base)
	case "u-wait+replicas":
		return gVariantCfgs("wait+replicas", gBase("1h"))
	case "u-to-dr":
		return []config.ReplicationModeConfig{base}
	}
	return nil
}

func (w *world) runThree(c tpCase, settle time.Duration) {
	r := w.r
	// state and stores for the holder
	pre := stSync
	switch c.Holder {
	case "t-recover":
		pre = stAsync
	case "t-sync":
		pre = stRecover
	}
	if !w.gDriveTo(pre) {
		r.Count("three_party_setup_missed", 1)
		return
	}
	switch c.Holder {
	case "u-to-dr":
		m := gBase("0")
		m.ReplicationMode = modeMaj
		if !w.gConfigTo(m) {
			return
		}
	case "t-async":
		w.gSetDown([]uint64{4})
	default:
		w.gSetDown(nil)
	}
	if c.DRDown {
		w.gSetDown([]uint64{4})
	}
	start := w.last
	cfgsInPlay := []config.ReplicationModeConfig{w.cfg}
	logBefore := len(w.kv.Log())
	parked, release := make(chan struct{}), make(chan struct{})
	var once sync.Once
	w.kv.Gate = func(kind, key string) {
		if kind == "Save" {
			once.Do(func() { close(parked); <-release })
		}
	}
	type worker struct {
		name string
		goid int64
		done chan struct{}
		errs []string
	}
	var mu sync.Mutex
	lastMode := map[string]string{}
	launch := func(name string) *worker {
		wk := &worker{name: name, done: make(chan struct{})}
		cfgs := w.tpConfigs(name)
		cfgsInPlay = append(cfgsInPlay, cfgs...)
		go func() {
			defer close(wk.done)
			atomic.StoreInt64(&wk.goid, hist.Goid())
			switch {
			case name == "tick" || name[0] == 't':
				w.m.VerifTickDR()
			case name == "w-member":
				w.m.UpdateMemberWaitAsyncTime(7)
			default:
				for _, n := range cfgs {
					err := w.m.UpdateConfig(n)
					mu.Lock()
					if err != nil {
						wk.errs = append(wk.errs, err.Error())
					} else {
						lastMode[name] = n.ReplicationMode
					}
					mu.Unlock()
				}
			}
		}()
		return wk
	}
	h := launch(c.Holder)
	isParked := true
	select {
	case <-parked:
	case <-h.done:
		isParked = false
	}
	a := launch(c.A)
	time.Sleep(settle)
	b := launch(c.B)
	time.Sleep(settle)
	if isParked {
		close(release)
	}
	<-h.done
	<-a.done
	<-b.done
	w.kv.Gate = nil

	served, httpServed := w.observe()
	log := w.kv.Log()
	w.foldIDs(log, w.rep.all())
	who := func(g int64) string {
		for _, wk := range []*worker{h, a, b} {
			if atomic.LoadInt64(&wk.goid) == g {
				return wk.name
			}
		}
		return "?"
	}
	r.Eval(1)
	r.Count("three_party_cases", 1)
	if !isParked {
		r.Count("three_party_holder_did_not_write(serial history)", 1)
	}
	var conds []cond
	for _, cf := range cfgsInPlay {
		conds = append(conds, w.conditions(cf))
	}
	any := func(f func(cond) bool) bool {
		for _, cd := range conds {
			if f(cd) {
				return true
			}
		}
		return false
	}
	cur := start
	chain := []pair{start}
	trace := start.String()
	type sv struct {
		saveEv
		By string `json:"by"`
	}
	var saves []sv
	wit := func() map[string]interface{} {
		return map[string]interface{}{"case": c, "served_before": start, "storage_writes": saves, "served_after": served, "holder_parked": isParked,
			"schedule": c.Holder + " parked inside its SaveReplicationStatus (write lock held); then started in this order: " + c.Queue + "; then the write released",
			"stores":   w.stores, "configs_in_play": cfgsInPlay}
	}
	key := func(what string) string {
		k := "three-party:" + what + ":" + c.Holder + "|" + c.Queue
		if c.DRDown {
			k += "|dr-store-down"
		}
		return k
	}
	for i, e := range log[logBefore:] {
		one := savesOf(log[logBefore+i : logBefore+i+1])
		if len(one) == 0 {
			continue
		}
		by := who(e.Goid)
		saves = append(saves, sv{one[0], by})
		trace += fmt.Sprintf(" -%s-> %s", by, one[0].P.String())
		if one[0].Err != "" {
			continue
		}
		next := one[0].P
		if next.ID <= cur.ID && cur.dr() {
			r.Violation(key("state-id-not-fresh"), fmt.Sprintf("writes %s: id %d after %d", trace, next.ID, cur.ID), wit())
		}
		if by == "tick" || by[0] == 't' {
			ok := false
			switch next.State {
			case stAsync:
				ok = any(func(cd cond) bool { return cd.AsyncAllowed })
			case stRecover:
				ok = any(func(cd cond) bool { return cd.CanRecover })
				seenAsync := false
				for _, p := range chain {
					seenAsync = seenAsync || p.State == stAsync
				}
				ok = ok && seenAsync
			case stSync:
				scanOK, _ := w.scan(cur.ID, false)
				ok = cur.State == stRecover && scanOK
			}
			if !ok {
				r.Violation(key(next.State+"-not-allowed"), fmt.Sprintf("writes %s: the tick moved %v -> %v, which no configuration in play permits", trace, cur, next), wit())
			} else {
				r.Count("three_party_tick_transitions_judged_ok", 1)
			}
		} else {
			// which configuration the update found in force depends on the order in which the queued
			// updates ran (those that write nothing leave no trace): entering sync_recover (mode switch) and
			// entering async (label key change) are the documented outcomes, declaring sync is not
			doc := next.State == stRecover || next.State == stAsync
			if !doc {
				r.Violation(key("config-update-unexplained-transition"), fmt.Sprintf("writes %s: %s wrote %v", trace, by, next), wit())
			}
		}
		cur = next
		chain = append(chain, next)
	}
	if served != httpServed {
		r.Violation(key("grpc-http-differ"), fmt.Sprintf("GetReplicationStatus serves %v, HTTP serves %v", served, httpServed), wit())
	}
	if served.dr() && cur.dr() && served != cur {
		r.Violation(key("served-differs-from-last-successful-save"), fmt.Sprintf("writes %s; served %v", trace, served), wit())
	}
	r.Distinct(fmt.Sprintf("three|%s|%s|%v|%s", c.Holder, c.Queue, c.DRDown, trace[len(start.String()):]))
	w.logf("three-party", "case", c, "writes", trace, "served", served.String())
	// resynchronise the model with the manager: put the plain configuration back through the monitored path
	for _, p := range chain[1:] {
		w.served[p.ID] = p.State
	}
	w.last, w.streak, w.ep = served, 0, nil
	if served.dr() {
		w.served[served.ID] = served.State
	}
	// the manager's configuration is whatever update ran last; force a known one (two steps so that the
	// model's idea of the current configuration cannot hide a switch)
	m := gBase("0")
	m.ReplicationMode = modeMaj
	w.cfg = m
	if served.dr() {
		w.cfg = gBase("0")
		w.cfg.DRAutoSync.LabelKey = w.obsLabelKey
	}
	w.gConfigTo(m)
	w.gConfigTo(gBase("0"))
}

func threeParty(r *ev.Run, opts *config.PersistOptions, seed int64) {
	cases := threePartyCases()
	settle := time.Duration(r.Pick(8, 15)) * time.Millisecond
	var w *world
	for i, c := range cases {
		if r.Shards > 1 && i%r.Shards != r.Shard {
			continue
		}
		if w == nil || w.dead {
			if w = newFixedWorld(r, opts, seed+int64(i), 3, "fixed-width"); w == nil {
				return
			}
			w.p.Hist = -5000
		}
		w.runThree(c, settle)
	}
	if w != nil {
		w.close()
	}
	r.Set("three_party_case_list_size", len(cases))
}
