package main

import (
	"fmt"
	"math/rand"
	"sort"
	"strings"
	"time"

	pb "github.com/pingcap/kvproto/pkg/replication_modepb"
	"github.com/tikv/pd/server/config"
	"github.com/tikv/pd/server/replication"
	"verif/harness/lib/ev"
)

const (
	integ  = pb.RegionReplicationState_INTEGRITY_OVER_LABEL
	simple = pb.RegionReplicationState_SIMPLE_MAJORITY
)

// ---- parameters of one history ----

func pickParams(r *ev.Run, rng *rand.Rand, idx int, hseed int64) params {
	p := params{Hist: idx, HSeed: hseed, Ticks: r.Pick(30, 40)}
	small := []int{1, 2, 3, 5, 10, 10, 33, 64}
	// more regions than one scan batch (1024) and than two; 512 is the sample size of the estimate
	big := []int{600, 1023, 1024, 1025, 1100, 2048, 2049, 3000}
	if r.Thorough() {
		big = append(big, 513, 2047, 2500, 3073, 4100)
	}
	if rng.Intn(100) < r.Pick(22, 30) {
		p.N = big[rng.Intn(len(big))]
	} else {
		p.N = small[rng.Intn(len(small))]
	}
	p.TP = 1 + rng.Intn(3)
	p.TD = 1 + rng.Intn(2)
	if rng.Intn(10) == 0 {
		p.TD = 3
	}
	p.AsyncWait = "0"
	if rng.Intn(5) == 0 {
		p.AsyncWait = "1h"
	}
	p.StartMode = modeDR
	if rng.Intn(6) == 0 {
		p.StartMode = modeMaj
	}
	p.Faulty = rng.Intn(10) < 6
	p.Reader = rng.Intn(10) < 4
	p.ConfigPlay = rng.Intn(10) < 4
	p.Topology = rng.Intn(10) == 0 && p.N >= 3
	p.Keys = "fixed-width"
	if rng.Intn(10) < 3 {
		p.Keys = "prefixes" // a, a\x00, aa, job-1, job-10, job-100, ...: keys that are prefixes of each other
	}
	if rng.Intn(10) < 4 {
		// regions pd has not heard of yet: head / tail / scan-batch boundary / anywhere
		k := 1 + rng.Intn(2)
		for i := 0; i < k; i++ {
			var g int
			switch rng.Intn(5) {
			case 0, 1, 2:
				hp := hotPositions(p.N)
				g = hp[rng.Intn(len(hp))]
			default:
				g = rng.Intn(p.N)
			}
			if g >= 0 && g < p.N && p.N > 1 {
				p.Gaps = append(p.Gaps, g)
			}
		}
		sort.Ints(p.Gaps)
	}
	return p
}

// hotPositions are the region indices at which a scan that works in batches of 1024 with samples of
// 512 can go wrong: first, last, and both sides of every batch / sample boundary.
func hotPositions(n int) []int {
	var out []int
	seen := map[int]bool{}
	for _, v := range []int{0, 511, 512, 513, 1023, 1024, 1025, 2047, 2048, 2049, 3071, 3072, 3073, n - 2, n - 1} {
		if v >= 0 && v < n && !seen[v] {
			seen[v] = true
			out = append(out, v)
		}
	}
	return out
}

// bounds returns the n+1 region boundaries ("" first and last).
func bounds(n int, scheme string) []string {
	out := make([]string, n+1)
	if scheme != "prefixes" {
		for i := 1; i < n; i++ {
			out[i] = boundary(i, n)
		}
		return out
	}
	keys := []string{}
	for _, k := range []string{"a", "a\x00", "a\x00\x00", "aa", "aa\x00", "ab", "b", "job-", "job-\x00"} {
		if len(keys) < n-1 {
			keys = append(keys, k)
		}
	}
	for i := 1; len(keys) < n-1; i++ {
		keys = append(keys, fmt.Sprintf("job-%d", i))
		if i%7 == 0 && len(keys) < n-1 {
			keys = append(keys, fmt.Sprintf("job-%d\x00", i))
		}
	}
	sort.Strings(keys)
	copy(out[1:], keys)
	return out
}

func boundary(i, n int) string {
	if i <= 0 || i >= n {
		return ""
	}
	return fmt.Sprintf("k%08d", i*4)
}

func (w *world) asyncWait() time.Duration {
	if w.p.AsyncWait == "1h" {
		return time.Hour
	}
	return 0
}

// setup builds stores, regions and the manager.
func (w *world) setup() bool {
	rng, p := w.rng, w.p
	// stores: two datacenters under label "zone", a different split under "site", some outside both
	nP, nD := p.TP+rng.Intn(3), p.TD+rng.Intn(3)
	if rng.Intn(8) == 0 && nP > 1 {
		nP = p.TP - 1 + rng.Intn(2) // sometimes fewer stores than replicas
		if nP < 1 {
			nP = 1
		}
	}
	id := uint64(1)
	add := func(zone string) {
		s := &storeRec{ID: id, Labels: map[string]string{"zone": zone, "host": fmt.Sprintf("h%d", id)}, Up: true}
		s.Labels["site"] = []string{"dc1", "dc2"}[rng.Intn(2)]
		if rng.Intn(12) == 0 {
			delete(s.Labels, "site")
		}
		switch rng.Intn(24) {
		case 0: // the key in another letter case
			s.List = [][2]string{{"Zone", zone}, {"site", s.Labels["site"]}}
		case 1:
			s.List = [][2]string{{"ZONE", zone}, {"SITE", s.Labels["site"]}}
		case 2: // the same key twice in different case: the first one counts
			s.List = [][2]string{{"zone", "dc3"}, {"ZONE", zone}}
		case 3:
			s.List = [][2]string{{"ZONE", zone}, {"zone", "dc3"}}
		case 4: // the datacenter name in another letter case: a different name
			s.List = [][2]string{{"zone", strings.ToUpper(zone)}}
		case 5: // empty value = no datacenter
			s.List = [][2]string{{"zone", ""}, {"site", zone}}
		case 6: // no datacenter label at all
			s.List = [][2]string{{"host", "h"}}
		}
		if s.List != nil {
			w.r.Count("stores_with_unusual_label_spelling", 1)
		}
		id++
		w.stores = append(w.stores, s)
	}
	for i := 0; i < nP; i++ {
		add("dc1")
	}
	for i := 0; i < nD; i++ {
		add("dc2")
	}
	for i := rng.Intn(3); i > 0; i-- {
		add("dc3")
	}
	for _, s := range w.stores {
		w.setStore(s, true)
	}
	// regions
	gap := map[int]bool{}
	for _, g := range p.Gaps {
		gap[g] = true
	}
	bs := bounds(p.N, p.Keys)
	for i := 0; i < p.N; i++ {
		w.regs = append(w.regs, &regionRec{id: uint64(10000 + i), start: bs[i], end: bs[i+1]})
	}
	w.nextID = uint64(10000 + p.N)
	w.cfg = drConfig(p.TP, p.TD, w.asyncWait(), "zone")
	if p.StartMode == modeMaj {
		w.cfg.ReplicationMode = modeMaj
	}
	// construction (optionally with a write fault: it must fail rather than serve an unsaved state)
	if p.Faulty && p.StartMode == modeDR && rng.Intn(4) == 0 {
		mode := []string{"fail-before", "lost-ack"}[rng.Intn(2)]
		fp := faultPlan{Storage: mode, K: 1}
		err := w.call(callInfo{kind: "init", force: &fp}, w.construct)
		if err == nil && w.m == nil {
			w.r.Inconclusive("harness: construction returned neither manager nor error")
			return false
		}
		if err != nil {
			w.r.Count("init_with_write_fault_rejected", 1)
			w.m = nil
		}
	}
	if w.m == nil {
		if err := w.call(callInfo{kind: "init"}, w.construct); err != nil || w.m == nil {
			w.r.Inconclusive("harness: cannot construct the manager: %v", err)
			return false
		}
	}
	// first heartbeats of the regions pd knows
	for i, g := range w.regs {
		if gap[i] {
			continue
		}
		switch {
		case w.last.dr() && rng.Intn(10) < 8:
			w.put(g, true, w.last.ID, integ)
		case rng.Intn(2) == 0:
			w.put(g, false, 0, 0)
		default:
			w.put(g, true, 0, simple)
		}
	}
	return !w.dead
}

func (w *world) construct() error {
	m, err := replication.NewReplicationModeManager(w.cfg, w.storage, w.cl, w.rep)
	if err != nil {
		return err
	}
	w.m = m
	return nil
}

// ---- store failures ----

func (w *world) dcStores() (prim, dr []*storeRec) {
	d := w.cfg.DRAutoSync
	for _, s := range w.stores {
		v := labelValue(s, d.LabelKey)
		if v == d.Primary {
			prim = append(prim, s)
		} else if v == d.DR {
			dr = append(dr, s)
		}
	}
	return
}

func (w *world) setDown(list []*storeRec, down int) {
	perm := w.rng.Perm(len(list))
	for k, i := range perm {
		up := k >= down
		if list[i].Up != up {
			w.setStore(list[i], up)
		}
	}
}

func clamp(v, lo, hi int) int {
	if v > hi {
		v = hi
	}
	if v < lo {
		v = lo
	}
	return v
}

// failure scenario: "up", "partial", "dr", "primary", "both", "edge" (exactly at / next to a threshold)
func (w *world) applyFailure(kind string) {
	rng := w.rng
	prim, dr := w.dcStores()
	tp, td := w.cfg.DRAutoSync.PrimaryReplicas, w.cfg.DRAutoSync.DRReplicas
	if tp > 8 {
		tp = 8
	}
	if td > 8 {
		td = 8
	}
	dp, dd := 0, 0
	switch kind {
	case "up":
	case "partial":
		dp = clamp(intn(rng, tp), 0, len(prim))
		dd = clamp(intn(rng, td), 0, len(dr))
	case "dr":
		dd = clamp(td+rng.Intn(2), 0, len(dr))
		if rng.Intn(3) == 0 {
			dp = clamp(intn(rng, tp), 0, len(prim))
		}
	case "primary":
		dp = clamp(tp+rng.Intn(2), 0, len(prim))
		if rng.Intn(3) == 0 {
			dd = clamp(intn(rng, td), 0, len(dr))
		}
	case "both":
		dp = clamp(tp+rng.Intn(2), 0, len(prim))
		dd = clamp(td+rng.Intn(2), 0, len(dr))
	case "edge":
		dp = clamp(tp-1+rng.Intn(3), 0, len(prim))
		dd = clamp(td-1+rng.Intn(3), 0, len(dr))
		if rng.Intn(2) == 0 {
			dp = clamp(intn(rng, tp), 0, len(prim))
		} else if rng.Intn(2) == 0 {
			dd = clamp(intn(rng, td), 0, len(dr))
		}
	}
	w.setDown(prim, dp)
	w.setDown(dr, dd)
	// stores outside both datacenters flap freely
	for _, s := range w.stores {
		v := labelValue(s, w.cfg.DRAutoSync.LabelKey)
		if v != w.cfg.DRAutoSync.Primary && v != w.cfg.DRAutoSync.DR && rng.Intn(3) == 0 {
			w.setStore(s, !s.Up)
		}
	}
	w.logf("stores", "scenario", kind, "failed_primary", dp, "failed_dr", dd)
}

func intn(rng *rand.Rand, n int) int {
	if n <= 0 {
		return 0
	}
	return rng.Intn(n)
}

func (w *world) storeStep() {
	x := w.rng.Float64()
	pick := func(opts ...string) string { return opts[w.rng.Intn(len(opts))] }
	switch {
	case !w.last.dr():
		if x < 0.3 {
			w.applyFailure(pick("up", "partial", "dr", "primary", "both", "edge"))
		}
	case w.last.State == stSync:
		switch {
		case x < 0.40:
			w.applyFailure(pick("dr", "dr", "primary", "edge", "edge"))
		case x < 0.50:
			w.applyFailure(pick("partial", "both"))
		case x < 0.58:
			w.applyFailure("up")
		}
	case w.last.State == stAsync:
		switch {
		case x < 0.45:
			w.applyFailure(pick("up", "partial"))
		case x < 0.75:
			w.applyFailure(pick("edge", "edge", "dr", "primary", "both"))
		}
	case w.last.State == stRecover:
		switch {
		case x < 0.06:
			w.applyFailure(pick("dr", "primary", "edge"))
		case x < 0.12:
			w.applyFailure(pick("partial", "up"))
		case x < 0.15:
			w.applyFailure("both")
		}
	}
}

// ---- region report streams ----

const (
	epComplete = iota
	epPartial
	epNear
	epIdle
	epWalk // defects at the hot positions repaired one after the other: the cursor walks across the batch boundaries
)

const (
	dkStale = iota
	dkSimple
	dkNil
	dkGap
	dkHigh // integrity under an id that equals the served one in the low 32 bits only, or has the top bit set
)

var kindNames = []string{"stale-id", "simple-majority", "no-status", "absent", "id-differs-in-high-bits"}

func pickKind(rng *rand.Rand) int { return []int{dkStale, dkSimple, dkNil, dkHigh}[rng.Intn(4)] }

type epoch struct {
	id      uint64
	kind    int
	order   int // 0 forward, 1 reverse, 2 shuffled
	defects []*regionRec
	defKind int
	hold    int
	age     int
	frac    float64
	done    bool
	// walk: step at which each defective region reports integrity (absent regions: show up)
	repairAt map[*regionRec]int
	defOf    map[*regionRec]int
	bounceAt int // step at which the configuration is bounced majority -> dr-auto-sync (-1 = never)
}

func (w *world) staleID(cur uint64) uint64 {
	if cur <= 1 {
		return 0
	}
	switch w.rng.Intn(3) {
	case 0:
		return cur - 1
	case 1:
		return 0
	}
	return uint64(w.rng.Int63n(int64(cur)))
}

func (w *world) ordered(list []*regionRec, order int) []*regionRec {
	out := append([]*regionRec(nil), list...)
	switch order {
	case 1:
		for i, j := 0, len(out)-1; i < j; i, j = i+1, j-1 {
			out[i], out[j] = out[j], out[i]
		}
	case 2:
		w.rng.Shuffle(len(out), func(i, j int) { out[i], out[j] = out[j], out[i] })
	}
	return out
}

func (w *world) bad(g *regionRec, kind int, cur uint64) {
	switch kind {
	case dkHigh:
		w.put(g, true, []uint64{cur + 1<<32, cur | 1<<63, cur<<32 | cur}[w.rng.Intn(3)], integ)
		w.r.Count("reports_with_id_differing_in_high_bits", 1)
	case dkStale:
		w.put(g, true, w.staleID(cur), integ)
	case dkSimple:
		w.put(g, true, cur, simple)
	case dkNil:
		w.put(g, false, 0, 0)
	}
}

func (w *world) compliant(g *regionRec, id uint64) bool {
	return g.present && g.hasStatus && g.stID == id && g.st == integ
}

func (w *world) newEpoch(id uint64) {
	rng := w.rng
	e := &epoch{id: id, order: rng.Intn(3), hold: 1 + rng.Intn(4), frac: 0.2 + 0.6*rng.Float64()}
	e.bounceAt = -1
	x := rng.Intn(12)
	if len(w.regs) > 1024 && x < 5 && rng.Intn(2) == 0 {
		x = 5 + rng.Intn(7) // worlds larger than a scan batch: more near-complete and walk streams
	}
	switch {
	case x < 3:
		e.kind = epComplete
	case x < 5:
		e.kind = epPartial
	case x < 8:
		e.kind = epNear
	case x < 9:
		e.kind = epIdle
	default:
		e.kind = epWalk
	}
	if w.forceEpoch >= 0 {
		// after a bounce in the middle of a walk: the tail of the key space reports first
		e.kind, e.order, w.forceEpoch = w.forceEpoch, 1, -1
	}
	if e.kind == epWalk {
		e.repairAt, e.defOf = map[*regionRec]int{}, map[*regionRec]int{}
		hp := hotPositions(len(w.regs))
		rng.Shuffle(len(hp), func(i, j int) { hp[i], hp[j] = hp[j], hp[i] })
		k := 2 + rng.Intn(5)
		if k > len(hp) {
			k = len(hp)
		}
		pos := append([]int(nil), hp[:k]...)
		sort.Ints(pos)
		step := 1
		for _, i := range pos { // repaired in key order, one or two per step
			g := w.regs[i]
			e.defects = append(e.defects, g)
			e.defOf[g] = pickKind(rng)
			e.repairAt[g] = step
			if rng.Intn(3) != 0 {
				step++
			}
		}
		// regions anywhere that are late: some report before the cursor reaches them, some after
		for j := len(w.regs) / 12; j > 0; j-- {
			g := w.regs[rng.Intn(len(w.regs))]
			if _, ok := e.repairAt[g]; !ok {
				e.defects = append(e.defects, g)
				e.defOf[g] = pickKind(rng)
				e.repairAt[g] = 1 + rng.Intn(step+1)
			}
		}
		if w.p.ConfigPlay && rng.Intn(4) == 0 {
			e.bounceAt = 1 + rng.Intn(step+1)
		}
	}
	if e.kind == epNear {
		var absent []*regionRec
		for _, g := range w.regs {
			if !g.present {
				absent = append(absent, g)
			}
		}
		if len(absent) > 0 && rng.Intn(3) != 0 {
			e.defKind, e.defects = dkGap, absent
		} else {
			e.defKind = pickKind(rng)
			k := 1
			if rng.Intn(3) == 0 {
				k = 2 + rng.Intn(3)
			}
			var present []*regionRec
			for _, g := range w.regs {
				if g.present {
					present = append(present, g)
				}
			}
			for i := 0; i < k && len(present) > 0; i++ {
				var g *regionRec
				switch rng.Intn(6) {
				case 0:
					g = present[0]
				case 1:
					g = present[len(present)-1]
				case 2:
					hp := hotPositions(len(present))
					g = present[hp[rng.Intn(len(hp))]]
				default:
					g = present[rng.Intn(len(present))]
				}
				e.defects = append(e.defects, g)
			}
		}
	}
	w.ep = e
	w.r.Count("epochs_"+[]string{"complete", "partial", "near-complete", "idle", "walk"}[e.kind], 1)
	w.logf("epoch", "id", id, "kind", []string{"complete", "partial", "near-complete", "idle", "walk"}[e.kind], "order", e.order,
		"defect", kindNames[e.defKind], "defects", len(e.defects), "hold", e.hold)
}

func (w *world) isDefect(g *regionRec) bool {
	for _, d := range w.ep.defects {
		if d == g {
			return true
		}
	}
	return false
}

// regionStep delivers the reports that arrive between two ticks.
func (w *world) regionStep() {
	rng := w.rng
	cur := w.last
	if !cur.dr() || cur.State != stRecover {
		// stores report what they are told: integrity while sync, simple majority while async;
		// these reports become the stale ones of the next recovery
		w.ep = nil
		n := len(w.regs)
		k := rng.Intn(40)
		if (n <= 1100 && rng.Intn(4) == 0) || rng.Intn(8) == 0 {
			k = n
		}
		for i := 0; i < k && n > 0; i++ {
			g := w.regs[rng.Intn(n)]
			if !g.present && rng.Intn(20) != 0 {
				continue
			}
			switch {
			case !cur.dr():
				w.put(g, true, w.staleID(uint64(len(w.idState)+1)), []pb.RegionReplicationState{integ, simple}[rng.Intn(2)])
			case cur.State == stSync:
				w.put(g, true, cur.ID, integ)
			default:
				w.put(g, true, cur.ID, simple)
			}
		}
		return
	}
	if w.ep == nil || w.ep.id != cur.ID {
		w.newEpoch(cur.ID)
	}
	e := w.ep
	defer func() { e.age++ }()
	var present []*regionRec
	for _, g := range w.regs {
		if g.present {
			present = append(present, g)
		}
	}
	deliverAll := func(skipDefects bool) {
		for _, g := range w.ordered(present, e.order) {
			if skipDefects && w.isDefect(g) {
				continue
			}
			if !w.compliant(g, cur.ID) {
				w.put(g, true, cur.ID, integ)
			}
		}
	}
	switch e.kind {
	case epComplete:
		if e.age == 0 {
			deliverAll(false)
		}
	case epIdle:
		if e.age == e.hold {
			deliverAll(false)
		}
	case epPartial:
		var todo []*regionRec
		for _, g := range present {
			if !w.compliant(g, cur.ID) {
				todo = append(todo, g)
			}
		}
		todo = w.ordered(todo, e.order)
		k := int(float64(len(todo))*e.frac) + 1
		for i, g := range todo {
			if i < k {
				w.put(g, true, cur.ID, integ)
			} else if rng.Intn(10) == 0 {
				w.bad(g, pickKind(rng), cur.ID)
			}
		}
	case epWalk:
		if e.age == 0 {
			for _, g := range e.defects {
				if g.present {
					w.bad(g, e.defOf[g], cur.ID)
				}
			}
			deliverAll(true)
		}
		for _, g := range e.defects {
			if e.repairAt[g] == e.age {
				w.put(g, true, cur.ID, integ)
				w.r.Count("walk_repairs", 1)
			}
		}
		// regions the cursor has passed keep heartbeating (same report again), in no particular order
		for j := 0; j < 20 && len(present) > 0; j++ {
			if g := present[rng.Intn(len(present))]; w.compliant(g, cur.ID) {
				w.put(g, true, cur.ID, integ)
			}
		}
		if e.bounceAt == e.age && w.cfg.ReplicationMode == modeDR {
			w.bounce()
			return
		}
	case epNear:
		if e.age == 0 {
			for _, g := range e.defects {
				if g.present && e.defKind != dkGap {
					w.bad(g, e.defKind, cur.ID)
				}
			}
			deliverAll(true)
		}
		if e.age == e.hold && !e.done {
			e.done = true
			for _, g := range e.defects {
				w.put(g, true, cur.ID, integ) // repairs the report / fills the gap
			}
			w.logf("repair", "defects", len(e.defects))
		}
	}
	// a region pd had not heard of shows up
	if rng.Intn(12) == 0 {
		for _, g := range w.regs {
			if !g.present && !(e.kind == epNear && !e.done && w.isDefect(g)) {
				if rng.Intn(2) == 0 {
					w.put(g, true, cur.ID, integ)
				} else {
					w.put(g, true, w.staleID(cur.ID), integ)
				}
				w.logf("gap-filled", "start", g.start)
				break
			}
		}
	}
	// a late / regressing report of a region that had already reported integrity under the current id
	// (ambiguous zone: judged by "has reported", the stricter reading is only counted)
	if rng.Intn(25) == 0 && len(present) > 0 {
		g := present[rng.Intn(len(present))]
		if w.compliant(g, cur.ID) {
			w.bad(g, rng.Intn(2), cur.ID)
			w.r.Count("regressing_reports_delivered", 1)
			w.logf("regress", "start", g.start)
		}
	}
	if w.p.Topology && rng.Intn(3) == 0 {
		w.topologyStep(cur.ID)
	}
}

// topologyStep merges or splits regions (exploratory; outside the stated report streams).
func (w *world) topologyStep(cur uint64) {
	rng := w.rng
	// prefer a merge of a compliant region with its not yet compliant right neighbour
	var cand []int
	for i := 0; i+1 < len(w.regs); i++ {
		a, b := w.regs[i], w.regs[i+1]
		if a.present && b.present && a.end == b.start && w.compliant(a, cur) && !w.compliant(b, cur) {
			cand = append(cand, i)
		}
	}
	if len(cand) > 0 && rng.Intn(4) != 0 {
		i := cand[rng.Intn(len(cand))]
		a, b := w.regs[i], w.regs[i+1]
		a.end = b.end
		bothOK := a.okUnder == cur && b.okUnder == cur
		w.regs = append(w.regs[:i+1], w.regs[i+2:]...)
		for k, d := range w.ep.defects {
			if d == b {
				w.ep.defects[k] = a
			}
		}
		okBefore := a.okUnder
		if rng.Intn(2) == 0 {
			w.put(a, true, cur, integ)
		} else {
			w.put(a, true, cur, simple)
			if !bothOK {
				a.okUnder = 0
			} else {
				a.okUnder = okBefore
			}
		}
		w.topoDone = true
		w.r.Count("topology_merges", 1)
		w.logf("merge", "start", a.start, "end", a.end, "compliant", w.compliant(a, cur))
		return
	}
	// split a present region; both halves are delivered back to back (no tick sees the hole)
	if len(w.regs) == 0 {
		return
	}
	i := rng.Intn(len(w.regs))
	if rng.Intn(2) == 0 {
		// around the cursor: the first region that is not yet compliant, or the one just before it
		for j, g := range w.regs {
			if g.present && !w.compliant(g, cur) {
				i = j
				if j > 0 && rng.Intn(2) == 0 {
					i = j - 1
				}
				break
			}
		}
	}
	a := w.regs[i]
	if !a.present {
		return
	}
	mid := a.start + "m"
	if a.start == "" {
		mid = "a"
	}
	if w.p.Keys == "prefixes" && a.start != "" {
		mid = a.start + "\x00" // the smallest key after the start key
	}
	if !(a.start < mid && (a.end == "" || mid < a.end)) {
		return
	}
	b := &regionRec{id: w.nextID, start: mid, end: a.end, okUnder: a.okUnder}
	w.nextID++
	a.end = mid
	w.regs = append(w.regs, nil)
	copy(w.regs[i+2:], w.regs[i+1:])
	w.regs[i+1] = b
	w.put(a, a.hasStatus, a.stID, a.st)
	w.put(b, a.hasStatus, a.stID, a.st)
	w.topoDone = true
	w.r.Count("topology_splits", 1)
	w.logf("split", "start", a.start, "mid", mid, "end", b.end)
}

// ---- configuration switches and restarts ----

func (w *world) configStep() {
	rng := w.rng
	n := w.cfg
	ci := callInfo{kind: "config"}
	what := ""
	switch x := rng.Intn(16); {
	case x >= 10:
		d := &n.DRAutoSync
		switch rng.Intn(12) {
		case 0: // the same label key in another letter case (pd compares the configured keys exactly: it switches to async)
			if d.LabelKey == strings.ToLower(d.LabelKey) {
				d.LabelKey = strings.ToUpper(d.LabelKey)
			} else {
				d.LabelKey = strings.ToLower(d.LabelKey)
			}
			what = "label-key-case"
			ci.labelChange = w.cfg.ReplicationMode == modeDR
		case 1:
			d.DR = d.Primary
			what = "primary-equals-dr"
		case 2:
			d.Primary, what = []string{"dc1", "dc2", "dc3", "DC1"}[rng.Intn(4)], "primary-name-only"
		case 3:
			d.DR, what = []string{"dc1", "dc2", "dc3", "DC2"}[rng.Intn(4)], "dr-name-only"
		case 4:
			d.PrimaryReplicas, what = []int{0, -1, 1 << 31, 1, 2, 3}[rng.Intn(6)], "primary-replicas-only"
		case 5:
			d.DRReplicas, what = []int{0, -1, 1 << 31, 1, 2}[rng.Intn(5)], "dr-replicas-only"
		case 6:
			d.WaitAsyncTimeout.Duration, what = []time.Duration{-time.Second, -time.Hour, 0, time.Hour}[rng.Intn(4)], "wait-async-only"
		case 7:
			d.WaitStoreTimeout.Duration, what = []time.Duration{0, -time.Minute, storeTimeout, storeTimeout}[rng.Intn(4)], "wait-store-only"
		case 8:
			d.WaitSyncTimeout.Duration, what = []time.Duration{0, -time.Second, time.Minute, 90 * time.Second}[rng.Intn(4)], "wait-sync-only"
		case 9:
			d.Primary, d.DR, what = "", "", "empty-names"
		default: // back to the plain configuration
			keepMode := n.ReplicationMode
			n = drConfig(w.p.TP, w.p.TD, w.asyncWait(), "zone")
			n.ReplicationMode = keepMode
			what = "back-to-plain"
			ci.labelChange = w.cfg.ReplicationMode == modeDR && w.cfg.DRAutoSync.LabelKey != "zone"
		}
	case x < 4:
		if n.ReplicationMode == modeDR {
			n.ReplicationMode, what = modeMaj, "to-majority"
		} else {
			n.ReplicationMode, what = modeDR, "to-dr-auto-sync"
			ci.modeToDR = true
		}
	case x < 6:
		if n.DRAutoSync.WaitAsyncTimeout.Duration == 0 {
			n.DRAutoSync.WaitAsyncTimeout.Duration = time.Hour
		} else {
			n.DRAutoSync.WaitAsyncTimeout.Duration = 0
		}
		what = "wait-async-timeout"
	case x < 8:
		n.DRAutoSync.PrimaryReplicas, n.DRAutoSync.DRReplicas = 1+rng.Intn(3), 1+rng.Intn(2)
		what = "replicas"
	case x < 9:
		n.DRAutoSync.Primary, n.DRAutoSync.DR = n.DRAutoSync.DR, n.DRAutoSync.Primary
		what = "swap-primary-dr"
	default:
		if n.DRAutoSync.LabelKey == "zone" {
			n.DRAutoSync.LabelKey = "site"
		} else {
			n.DRAutoSync.LabelKey = "zone"
		}
		what = "label-key"
		ci.labelChange = w.cfg.ReplicationMode == modeDR
		if w.cfg.ReplicationMode != modeDR {
			ci.modeToDR = false
		}
	}
	ci.newCfg = &n
	w.logf("update-config", "what", what)
	w.r.Count("config_"+what, 1)
	err := w.call(ci, func() error { return w.m.UpdateConfig(n) })
	if err == nil {
		w.cfg = n
	} else {
		w.r.Count("config_update_rejected", 1)
	}
}

// bounce switches to majority and straight back: a new state id is issued and the recovery starts
// over, whatever the scan had reached. The next report stream starts from the tail of the key space.
func (w *world) bounce() {
	w.logf("bounce")
	w.r.Count("config_bounce_mid_walk", 1)
	for _, mode := range []string{modeMaj, modeDR} {
		n := w.cfg
		n.ReplicationMode = mode
		ci := callInfo{kind: "config", newCfg: &n, modeToDR: mode == modeDR}
		if err := w.call(ci, func() error { return w.m.UpdateConfig(n) }); err != nil {
			w.r.Count("config_update_rejected", 1)
			return
		}
		w.cfg = n
	}
	w.forceEpoch = epPartial
}

// runAfterQuit: the background job started with an already closed quit channel (a cluster that is
// stopped right after it was started) must return without touching anything.
func (w *world) runAfterQuit() {
	q := make(chan struct{})
	close(q)
	done := make(chan struct{})
	writes := w.kv.Writes()
	go func() { w.m.Run(q); close(done) }()
	select {
	case <-done:
	case <-time.After(10 * time.Second):
		w.r.Inconclusive("Run with a closed quit channel did not return within 10 s")
		w.dead = true
		return
	}
	now, _ := w.observe()
	w.r.Count("run_after_quit", 1)
	if now != w.last || w.kv.Writes() != writes {
		w.r.Violation("run-after-quit-changed-state", fmt.Sprintf("Run(quit already closed) changed the served status from %v to %v (storage writes %d)", w.last, now, w.kv.Writes()-writes), w.witness(nil))
	}
}

func (w *world) restartStep() {
	if w.rng.Intn(3) == 0 {
		w.runAfterQuit()
	}
	w.logf("restart")
	old := w.m
	if err := w.call(callInfo{kind: "restart"}, w.construct); err != nil {
		w.m = old
		w.r.Count("restart_failed", 1)
	}
	w.streak = 0
	// the first call after a reload is a configuration update or a stopped job as often as a tick
	switch w.rng.Intn(4) {
	case 0:
		w.configStep()
	case 1:
		w.runAfterQuit()
	}
}

// run executes the whole history.
func (w *world) run() {
	if !w.setup() {
		return
	}
	for t := 0; t < w.p.Ticks && !w.dead; t++ {
		w.storeStep()
		w.regionStep()
		if w.dead {
			return
		}
		if w.p.ConfigPlay && w.rng.Intn(8) == 0 {
			w.configStep()
		}
		if w.rng.Intn(40) == 0 {
			w.restartStep()
		}
		if w.rng.Intn(30) == 0 {
			w.m.UpdateMemberWaitAsyncTime(uint64(1 + w.rng.Intn(3)))
		}
		if got, want := w.cl.GetRegionCount(), w.presentCount(); got != want {
			w.r.Inconclusive("harness: pd holds %d regions, the mirror %d (history %d)", got, want, w.p.Hist)
			return
		}
		w.call(callInfo{kind: "tick"}, func() error { w.m.VerifTickDR(); return nil })
	}
}

var _ = config.ReplicationModeConfig{}

// mergeWitness is the minimal scripted form of an exploratory observation (outside the stated report
// streams, therefore recorded and not judged unless VERIF_C19_JUDGE_TOPOLOGY=1): three regions, the
// recovery scan stops at the second one, the first two merge, every region then reports integrity
// under the served id -- and the scan never moves again.
func mergeWitness(r *ev.Run, opts *config.PersistOptions) {
	p := params{Hist: -1000, HSeed: 7, N: 3, Ticks: 0, TP: 2, TD: 1, AsyncWait: "0", StartMode: modeDR, Topology: true}
	w := newWorld(r, p, rand.New(rand.NewSource(p.HSeed)), opts)
	defer w.close()
	if !w.setup() {
		return
	}
	tick := func() { w.call(callInfo{kind: "tick"}, func() error { w.m.VerifTickDR(); return nil }) }
	prim, dr := w.dcStores()
	w.setDown(prim, 0)
	w.setDown(dr, len(dr))
	tick() // -> async
	w.setDown(dr, 0)
	tick() // -> sync_recover
	if !w.last.dr() || w.last.State != stRecover {
		r.Count("merge_witness_setup_missed", 1)
		return
	}
	id := w.last.ID
	w.put(w.regs[0], true, id, integ)
	w.put(w.regs[1], true, id, simple)
	w.put(w.regs[2], true, id, integ)
	tick() // the scan passes region 0 and stops at region 1
	a, b := w.regs[0], w.regs[1]
	a.end = b.end
	w.regs = []*regionRec{a, w.regs[2]}
	w.put(a, true, id, integ) // merged region ["", end of region 1) reports integrity
	w.topoDone = true
	w.logf("merge", "start", a.start, "end", a.end)
	for i := 0; i < 5; i++ {
		tick()
	}
	if w.last.dr() && w.last.State == stRecover {
		r.Set("exploratory_merge_across_recovery_cursor_minimal", map[string]interface{}{
			"served": w.last.String(), "regions": w.mirrorSummary(), "ticks_with_all_regions_in_integrity": 5, "events": w.events})
	} else {
		r.Count("merge_witness_reached_sync", 1)
	}
}
