package main

import (
	"fmt"
	"math/rand"
	"sync"
	"sync/atomic"
	"time"

	"github.com/tikv/pd/server/config"
	"verif/harness/lib/ev"
	"verif/harness/lib/hist"
	"verif/harness/lib/kvx"
)

// Gated grid: one configuration update (config API goroutine) is placed inside one tick
// (background goroutine) at a chosen point, with a fault at a chosen persist step.
//
// The tick is held inside a cluster read it performs under the manager's read lock
// (GetStores in checkStoreStatus, or ScanRegions in updateProgress); UpdateConfig is started and
// given time to queue for the write lock; then the read is released. Because a queued writer goes
// first, the update lands exactly between two of the tick's critical sections. The settle sleep only
// decides whether that schedule is produced (otherwise the history is a serial one); the verdict is
// read from the recorded order of storage writes and from what is served afterwards.
//
// One manager lives through a whole run of cells (hundreds of configuration changes, failed and
// successful), so anything it caches across updates is exercised.

type gcell struct {
	Hook    string `json:"tick_held_in"` // "stores" (checkStoreStatus) | "scan" (updateProgress)
	Pre     string `json:"state_before"`
	Variant string `json:"config_update"`
	Fault   string `json:"fault"`
	Down    string `json:"stores_down"`
	Wait    string `json:"wait_async_timeout"`
}

// the second line: updates that differ from the configuration in force in exactly one field
var gVariants = []string{"replicas", "wait", "wait+replicas", "swap", "swap+replicas", "label-key", "label-key+wait", "to-majority", "bounce",
	"primary-name", "dr-name", "primary-replicas", "dr-replicas", "wait-store", "wait-sync", "label-key-case"}
var gFaults = []string{"", "u-fail-before", "u-lost-ack", "u-alloc", "u-rep", "t-fail-before", "t-lost-ack"}
var gDown = map[string][]uint64{"none": nil, "dr1": {4}, "drall": {4, 5}, "p1": {1}, "p2": {1, 2}, "s5": {5}, "s3": {3}}

func gatedCells() []gcell {
	var out []gcell
	for _, hook := range []string{"stores", "scan"} {
		pres := []string{stSync, stAsync, stRecover}
		downs := []string{"none", "dr1", "drall", "p1", "p2", "s5", "s3"}
		if hook == "scan" {
			pres = []string{stRecover, stAsync}
			downs = []string{"none", "p1", "s3", "s5"}
		}
		for _, pre := range pres {
			for _, v := range gVariants {
				for _, f := range gFaults {
					for _, d := range downs {
						for _, wt := range []string{"0", "1h"} {
							out = append(out, gcell{hook, pre, v, f, d, wt})
						}
					}
				}
			}
		}
	}
	return out
}

func gBase(wait string) config.ReplicationModeConfig {
	d := time.Duration(0)
	if wait == "1h" {
		d = time.Hour
	}
	return drConfig(2, 1, d, "zone")
}

// gVariantCfgs returns the configurations the API goroutine applies, in order.
func gVariantCfgs(v string, base config.ReplicationModeConfig) []config.ReplicationModeConfig {
	n := base
	toggle := func(c *config.ReplicationModeConfig) {
		if c.DRAutoSync.WaitAsyncTimeout.Duration == 0 {
			c.DRAutoSync.WaitAsyncTimeout.Duration = time.Hour
		} else {
			c.DRAutoSync.WaitAsyncTimeout.Duration = 0
		}
	}
	switch v {
	case "replicas":
		n.DRAutoSync.PrimaryReplicas, n.DRAutoSync.DRReplicas = 1, 2
	case "wait":
		toggle(&n)
	case "wait+replicas":
		toggle(&n)
		n.DRAutoSync.PrimaryReplicas, n.DRAutoSync.DRReplicas = 1, 2
	case "swap":
		n.DRAutoSync.Primary, n.DRAutoSync.DR = "dc2", "dc1"
	case "swap+replicas":
		n.DRAutoSync.Primary, n.DRAutoSync.DR = "dc2", "dc1"
		n.DRAutoSync.PrimaryReplicas, n.DRAutoSync.DRReplicas = 1, 2
	case "label-key":
		n.DRAutoSync.LabelKey = "site"
	case "label-key+wait":
		n.DRAutoSync.LabelKey = "site"
		toggle(&n)
	case "primary-name":
		n.DRAutoSync.Primary = "dc3"
	case "dr-name":
		n.DRAutoSync.DR = "dc3"
	case "primary-replicas":
		n.DRAutoSync.PrimaryReplicas = 1
	case "dr-replicas":
		n.DRAutoSync.DRReplicas = 2
	case "wait-store":
		n.DRAutoSync.WaitStoreTimeout.Duration = 0 // every store counts as failed
	case "wait-sync":
		n.DRAutoSync.WaitSyncTimeout.Duration = 90 * time.Second
	case "label-key-case":
		n.DRAutoSync.LabelKey = "ZONE" // same key for the stores, a different string for UpdateConfig
	case "to-majority":
		n.ReplicationMode = modeMaj
	case "bounce":
		n.ReplicationMode = modeMaj
		return []config.ReplicationModeConfig{n, base}
	}
	return []config.ReplicationModeConfig{n}
}

func newGatedWorld(r *ev.Run, opts *config.PersistOptions, seed int64) *world {
	return newFixedWorld(r, opts, seed, 3, "fixed-width")
}

// newFixedWorld: five stores in two datacenters (fixed labels), n regions, dr-auto-sync 2+1, manager constructed.
func newFixedWorld(r *ev.Run, opts *config.PersistOptions, seed int64, n int, keys string) *world {
	p := params{Hist: -3000, HSeed: seed, N: n, Ticks: 0, TP: 2, TD: 1, AsyncWait: "0", StartMode: modeDR, Keys: keys}
	w := newWorld(r, p, rand.New(rand.NewSource(seed)), opts)
	site := map[uint64]string{1: "dc1", 2: "dc1", 3: "dc2", 4: "dc2", 5: "dc1"}
	for id := uint64(1); id <= 5; id++ {
		zone := "dc1"
		if id >= 4 {
			zone = "dc2"
		}
		s := &storeRec{ID: id, Labels: map[string]string{"zone": zone, "site": site[id], "host": fmt.Sprintf("h%d", id)}, Up: true}
		w.stores = append(w.stores, s)
		w.setStore(s, true)
	}
	bs := bounds(p.N, p.Keys)
	for i := 0; i < p.N; i++ {
		w.regs = append(w.regs, &regionRec{id: uint64(10000 + i), start: bs[i], end: bs[i+1]})
	}
	w.nextID = uint64(10000 + p.N)
	w.cfg = gBase("0")
	if err := w.call(callInfo{kind: "init"}, w.construct); err != nil || w.m == nil {
		r.Inconclusive("harness: gated grid cannot construct the manager: %v", err)
		return nil
	}
	for _, g := range w.regs {
		w.put(g, true, w.last.ID, integ)
	}
	return w
}

func (w *world) gTick() {
	w.call(callInfo{kind: "tick"}, func() error { w.m.VerifTickDR(); return nil })
}

func (w *world) gSetDown(ids []uint64) {
	down := map[uint64]bool{}
	for _, id := range ids {
		down[id] = true
	}
	for _, s := range w.stores {
		if s.Up == down[s.ID] {
			w.setStore(s, !down[s.ID])
		}
	}
}

// gConfigTo applies a configuration sequentially through the monitored call path.
func (w *world) gConfigTo(n config.ReplicationModeConfig) bool {
	if w.cfg == n {
		return true
	}
	ci := callInfo{kind: "config", newCfg: &n}
	ci.modeToDR = w.cfg.ReplicationMode == modeMaj && n.ReplicationMode == modeDR
	ci.labelChange = w.cfg.ReplicationMode == modeDR && n.ReplicationMode == modeDR && w.cfg.DRAutoSync.LabelKey != n.DRAutoSync.LabelKey
	if err := w.call(ci, func() error { return w.m.UpdateConfig(n) }); err != nil {
		return false
	}
	w.cfg = n
	return true
}

func (w *world) gReportAll() {
	for _, g := range w.regs {
		w.put(g, true, w.last.ID, integ)
	}
}

// gDriveTo brings the long-lived manager to the wanted state by ordinary (monitored) calls.
func (w *world) gDriveTo(pre string) bool {
	if !w.gConfigTo(gBase("0")) {
		return false
	}
	for i := 0; i < 8 && !w.dead; i++ {
		cur := w.last
		if cur.dr() && cur.State == pre {
			if pre != stAsync {
				w.gSetDown(nil)
				w.gReportAll()
			}
			return true
		}
		switch {
		case pre == stAsync, pre == stRecover && cur.State != stAsync:
			w.gSetDown([]uint64{4, 5})
		default:
			w.gSetDown(nil)
			if cur.State == stRecover {
				w.gReportAll()
			}
		}
		w.gTick()
	}
	return false
}

type gCallRes struct {
	Cfg string `json:"config"`
	Err string `json:"err,omitempty"`
}

type gSave struct {
	saveEv
	By string `json:"by"`
}

func (w *world) runCell(c gcell, settle time.Duration) {
	r := w.r
	if !w.gDriveTo(c.Pre) {
		r.Count("gated_grid_pre_state_not_reached", 1)
		return
	}
	base := gBase(c.Wait)
	if !w.gConfigTo(base) {
		r.Count("gated_grid_pre_state_not_reached", 1)
		return
	}
	w.gSetDown(gDown[c.Down])
	pre := w.last
	cfgs := gVariantCfgs(c.Variant, base)
	final := cfgs[len(cfgs)-1]
	condOld, condNew := w.conditions(base), w.conditions(final)
	logBefore := len(w.kv.Log())
	uWrites := int64(0)
	switch c.Variant {
	case "label-key", "label-key+wait", "label-key-case", "bounce":
		uWrites = 1
	}
	switch c.Fault {
	case "u-fail-before":
		w.kv.FailWrite(1, kvx.FailBefore)
	case "u-lost-ack":
		w.kv.FailWrite(1, kvx.LostAck)
	case "t-fail-before":
		w.kv.FailWrite(uWrites+1, kvx.FailBefore)
	case "t-lost-ack":
		w.kv.FailWrite(uWrites+1, kvx.LostAck)
	}
	inHook, release, tDone := make(chan struct{}), make(chan struct{}), make(chan struct{})
	var once sync.Once
	hook := func() { once.Do(func() { close(inHook); <-release }) }
	if c.Hook == "stores" {
		w.cl.storesHook = hook
	} else {
		w.cl.scanHook = hook
	}
	var tg, ug int64
	go func() {
		atomic.StoreInt64(&tg, hist.Goid())
		w.m.VerifTickDR()
		close(tDone)
	}()
	reached := true
	select {
	case <-inHook:
	case <-tDone:
		reached = false
	}
	var results []gCallRes
	uDone := make(chan struct{})
	go func() {
		defer close(uDone)
		atomic.StoreInt64(&ug, hist.Goid())
		for _, n := range cfgs {
			if c.Fault == "u-rep" {
				w.rep.setFail(true)
			}
			if c.Fault == "u-alloc" {
				atomic.StoreInt32(&w.cl.failAlloc, 1)
			}
			err := w.m.UpdateConfig(n)
			w.rep.setFail(false)
			atomic.StoreInt32(&w.cl.failAlloc, 0)
			res := gCallRes{Cfg: n.ReplicationMode + "/" + n.DRAutoSync.LabelKey}
			if err != nil {
				res.Err = err.Error()
			}
			results = append(results, res)
		}
	}()
	if reached {
		time.Sleep(settle)
		close(release)
	}
	<-tDone
	<-uDone
	w.cl.storesHook, w.cl.scanHook = nil, nil
	injected := w.kv.Injected()
	w.kv.ResetFaults()

	// what the manager holds now, as the model follows it
	cfgNow, modeNow := base, base.ReplicationMode
	for i, res := range results {
		if res.Err == "" {
			cfgNow, modeNow = cfgs[i], cfgs[i].ReplicationMode
		}
	}
	served, httpServed := w.observe()
	log := w.kv.Log()
	offers := w.rep.all()
	w.foldIDs(log, offers)
	var saves []gSave
	for i, e := range log[logBefore:] {
		sv := savesOf(log[logBefore+i : logBefore+i+1])
		if len(sv) == 0 {
			continue
		}
		by := "?"
		switch e.Goid {
		case atomic.LoadInt64(&tg):
			by = "tick"
		case atomic.LoadInt64(&ug):
			by = "config"
		}
		saves = append(saves, gSave{sv[0], by})
	}
	r.Eval(1)
	r.Count("gated_grid_cells", 1)
	if !reached {
		r.Count("gated_grid_hook_not_reached(serial history)", 1)
	}
	if injected > 0 {
		r.Count("gated_grid_storage_faults_injected", 1)
	}
	scanOK, scanWhy := false, ""
	if pre.dr() && pre.State == stRecover {
		scanOK, scanWhy = w.scan(pre.ID, false)
	}
	wit := func() map[string]interface{} {
		return map[string]interface{}{"cell": c, "served_before": pre, "config_before": base, "config_update": cfgs, "update_results": results,
			"cond_under_old_config": condOld, "cond_under_new_config": condNew, "stores": w.stores, "storage_writes": saves,
			"served_after": served, "schedule_produced": reached, "report_scan_under_old_id": scanWhy,
			"schedule": "tick held inside " + map[string]string{"stores": "checkStoreStatus/GetStores", "scan": "updateProgress/ScanRegions"}[c.Hook] + " (read lock held); UpdateConfig queues for the write lock; read released; UpdateConfig runs between two critical sections of the tick"}
	}
	key := func(what string) string { return "gated:" + c.Hook + ":" + what + ":" + c.Variant }
	if served != httpServed {
		r.Violation(key("grpc-http-differ"), fmt.Sprintf("GetReplicationStatus serves %v, HTTP serves %v", served, httpServed), wit())
	}
	// the chain of successful writes
	cur := pre
	chain := []pair{pre}
	trace := pre.String()
	for _, sv := range saves {
		trace += fmt.Sprintf(" -%s-> %s", sv.By, sv.P.String())
		if sv.Err != "" {
			trace += "(" + sv.Fault + ")"
			continue
		}
		next := sv.P
		switch sv.By {
		case "config":
			okDoc := (next.State == stRecover && (c.Variant == "bounce")) ||
				(next.State == stAsync && (c.Variant == "label-key" || c.Variant == "label-key+wait" || c.Variant == "label-key-case"))
			if !okDoc {
				r.Violation(key("config-update-unexplained-transition"), fmt.Sprintf("UpdateConfig (%s) wrote %v after %v", c.Variant, next, cur), wit())
			}
		default:
			// the tick checks the state in one critical section and switches in a later one: it may act on
			// any state that was current since it started (a re-issue of async / sync_recover under a fresh
			// id is not something the statement forbids). Declaring sync is different: the statement ties
			// it to the reports under the current id.
			perm := func(cd cond) bool {
				switch next.State {
				case stAsync:
					if !cd.AsyncAllowed {
						return false
					}
					for _, p := range chain {
						if p.State != stAsync {
							return true
						}
					}
				case stRecover:
					if !cd.CanRecover {
						return false
					}
					for _, p := range chain {
						if p.State == stAsync {
							return true
						}
					}
				case stSync:
					return cur.State == stRecover && cur.ID == pre.ID && pre.State == stRecover && scanOK
				}
				return false
			}
			if !perm(condOld) && !perm(condNew) {
				r.Violation(key(next.State+"-not-allowed"),
					fmt.Sprintf("tick held in %s, UpdateConfig (%s) in between: the tick moved %v -> %v, which neither the old nor the new configuration permits (old: async-allowed=%v can-recover=%v; new: async-allowed=%v can-recover=%v; failed primary/dr under old %d/%d of %d/%d, under new %d/%d of %d/%d)",
						c.Hook, c.Variant, cur, next, condOld.AsyncAllowed, condOld.CanRecover, condNew.AsyncAllowed, condNew.CanRecover,
						condOld.DownPrimary, condOld.DownDR, condOld.TP, condOld.TD, condNew.DownPrimary, condNew.DownDR, condNew.TP, condNew.TD), wit())
			} else {
				r.Count("gated_grid_tick_transitions_judged_ok", 1)
			}
		}
		cur = next
		chain = append(chain, next)
	}
	// failed persist leaves the served state unchanged / persisted before served
	if served.Mode != modeNow {
		r.Violation(key("mode-after-config-update"), fmt.Sprintf("update results %v: the manager should be in mode %s but serves %v", results, modeNow, served), wit())
	}
	if served.dr() && served != cur {
		r.Violation(key("served-differs-from-last-successful-save"), fmt.Sprintf("writes: %s; the last successful write is %v but %v is served", trace, cur, served), wit())
	}
	if served.dr() && served != pre {
		if old, ok := w.served[served.ID]; ok {
			r.Violation(key("state-id-served-again"), fmt.Sprintf("state id %d (%s) is served again as %v", served.ID, old, served), wit())
		}
		off := false
		for _, o := range offers {
			if o.State == served.State && o.ID == served.ID {
				off = true
			}
		}
		if !off {
			r.Violation(key("served-not-offered"), fmt.Sprintf("%v is served but was never handed to the file replicater", served), wit())
		}
	}
	if served.dr() {
		w.served[served.ID] = served.State
	}
	for _, sv := range saves {
		if sv.Err == "" {
			w.served[sv.P.ID] = sv.P.State // it was served in between, even if nobody looked
		}
	}
	r.Distinct(fmt.Sprintf("gated|%s|%s|%s|%s|%v|%s", c.Hook, c.Pre, c.Variant, c.Fault, reached, trace[len(pre.String()):]))
	w.logf("gated-cell", "cell", c, "writes", trace, "served", served.String(), "results", results)
	w.cfg, w.last, w.streak, w.ep = cfgNow, served, 0, nil
}

// gatedGrid runs the cells of this run: the complete grid split over the shards (thorough) or a
// fixed core plus a seeded sample (quick).
func gatedGrid(r *ev.Run, opts *config.PersistOptions, seed int64) {
	all := gatedCells()
	var cells []gcell
	settle := time.Duration(r.Pick(15, 30)) * time.Millisecond
	if r.Thorough() {
		for i, c := range all {
			if i%r.Shards == r.Shard {
				cells = append(cells, c)
			}
		}
		r.Set("gated_grid_complete", true)
	} else {
		rng := rand.New(rand.NewSource(seed))
		for _, c := range all {
			core := c.Fault == "" && c.Wait == "1h" && (c.Down == "dr1" || c.Down == "none") && c.Pre != stAsync
			if core && (c.Variant == "wait+replicas" || c.Variant == "bounce" || c.Variant == "label-key") || rng.Intn(len(all)) < 260 {
				cells = append(cells, c)
			}
		}
	}
	r.Set("gated_grid_size", len(all))
	var w *world
	for i, c := range cells {
		if w == nil || w.dead || i%80 == 0 {
			if w != nil {
				w.close()
			}
			if w = newGatedWorld(r, opts, seed+int64(i)); w == nil {
				return
			}
		}
		w.runCell(c, settle)
	}
	if w != nil {
		w.close()
	}
}
