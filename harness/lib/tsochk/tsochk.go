// Package tsochk holds the offline oracles over recorded TSO responses: field check, pairwise
// disjointness of the owned value sets and real-time order ("completed before began" => smaller).
package tsochk

import (
	"fmt"
	"sort"
)

// Resp is one recorded TSO request.
type Resp struct {
	Client   int    `json:"client"`
	Member   int    `json:"member"`
	DC       string `json:"dc,omitempty"`
	Epoch    int    `json:"epoch,omitempty"`
	Count    uint32 `json:"count"`
	Physical int64  `json:"physical"`
	Logical  int64  `json:"logical"`
	Bits     uint32 `json:"suffix_bits"`
	Err      string `json:"err,omitempty"`
	Call     int64  `json:"call"`
	Ret      int64  `json:"ret"`
}

const logicalBits = 18

// Compose builds the 64-bit timestamp.
func Compose(physical, logical int64) uint64 { return uint64(physical)<<logicalBits | uint64(logical) }

// Range returns the smallest and largest composed value owned by r (valid for successful r).
func (r Resp) Range() (lo, hi uint64) {
	b := r.Bits
	raw := r.Logical >> b
	suffix := r.Logical & ((1 << b) - 1)
	first := raw - int64(r.Count) + 1
	return Compose(r.Physical, first<<b|suffix), Compose(r.Physical, raw<<b|suffix)
}

// Problem describes a refuted oracle.
type Problem struct {
	Kind string `json:"kind"`
	What string `json:"what"`
	A    *Resp  `json:"a,omitempty"`
	B    *Resp  `json:"b,omitempty"`
}

// Check judges a history of one allocator (all successful responses must share suffix bits handling;
// with Bits>0 the raw logical parts are compared, which is exact as long as all responses of the
// history carry the same (bits, suffix) — callers partition accordingly).
func Check(ops []Resp) *Problem {
	var ok []Resp
	for _, o := range ops {
		if o.Err == "" {
			ok = append(ok, o)
		}
	}
	// 1. fields
	for i := range ok {
		o := ok[i]
		if o.Physical <= 0 {
			return &Problem{Kind: "tso-physical-zero", What: "successful response with physical part <= 0", A: &ok[i]}
		}
		if o.Logical < 0 || o.Logical >= 1<<logicalBits {
			return &Problem{Kind: "tso-logical-overflow", What: fmt.Sprintf("logical part %d does not fit 18 bits", o.Logical), A: &ok[i]}
		}
		if (o.Logical>>o.Bits)-int64(o.Count)+1 < 0 {
			return &Problem{Kind: "tso-range-underflow", What: fmt.Sprintf("response with count %d and logical %d would own negative logical values", o.Count, o.Logical), A: &ok[i]}
		}
		if o.Count == 0 {
			return &Problem{Kind: "tso-count-zero-granted", What: "a request with count 0 was granted", A: &ok[i]}
		}
	}
	// 2. disjointness
	idx := make([]int, len(ok))
	for i := range idx {
		idx[i] = i
	}
	sort.Slice(idx, func(a, b int) bool {
		la, _ := ok[idx[a]].Range()
		lb, _ := ok[idx[b]].Range()
		return la < lb
	})
	for k := 1; k < len(idx); k++ {
		_, hiPrev := ok[idx[k-1]].Range()
		lo, _ := ok[idx[k]].Range()
		if lo <= hiPrev {
			return &Problem{Kind: "tso-ranges-overlap", What: "two granted timestamp ranges intersect", A: &ok[idx[k-1]], B: &ok[idx[k]]}
		}
	}
	// 3. real-time order
	type ev struct {
		t    int64
		call bool
		i    int
	}
	evs := make([]ev, 0, 2*len(ok))
	for i, o := range ok {
		evs = append(evs, ev{o.Call, true, i}, ev{o.Ret, false, i})
	}
	sort.Slice(evs, func(a, b int) bool { return evs[a].t < evs[b].t })
	var floor uint64
	floorBy := -1
	floorAt := make([]uint64, len(ok))
	floorWho := make([]int, len(ok))
	for _, e := range evs {
		if e.call {
			floorAt[e.i], floorWho[e.i] = floor, floorBy
		} else {
			lo, hi := ok[e.i].Range()
			if floorWho[e.i] >= 0 && lo <= floorAt[e.i] {
				return &Problem{Kind: "tso-not-increasing-in-real-time", What: "a request that began after another completed was granted a value not larger than the earlier one", A: &ok[floorWho[e.i]], B: &ok[e.i]}
			}
			if hi > floor {
				floor, floorBy = hi, e.i
			}
		}
	}
	return nil
}
