// Package hist provides the single logical clock used to order API-boundary events, a recorder
// for call/return events and the interval-order checkers built on it.
package hist

import (
	"bytes"
	"runtime"
	"strconv"
	"sync"
	"sync/atomic"
)

var clock int64

// Tick returns the next value of the process-wide logical clock. "A completed before B began" is
// decided as ret(A) < call(B): the call tick is taken before invoking and the return tick after.
func Tick() int64 { return atomic.AddInt64(&clock, 1) }

// Now returns the current clock value without advancing it.
func Now() int64 { return atomic.LoadInt64(&clock) }

// Goid returns the current goroutine id (parsed from the stack header; used only to map
// intercepted storage operations back to harness workers).
func Goid() int64 {
	var buf [64]byte
	n := runtime.Stack(buf[:], false)
	b := buf[:n]
	b = bytes.TrimPrefix(b, []byte("goroutine "))
	i := bytes.IndexByte(b, ' ')
	if i < 0 {
		return -1
	}
	v, _ := strconv.ParseInt(string(b[:i]), 10, 64)
	return v
}

// Op is one recorded client call.
type Op struct {
	Client int         `json:"client"`
	Kind   string      `json:"kind"`
	In     interface{} `json:"in,omitempty"`
	Out    interface{} `json:"out,omitempty"`
	Err    string      `json:"err,omitempty"`
	Call   int64       `json:"call"`
	Ret    int64       `json:"ret"`
}

// Recorder is a thread-safe append-only history.
type Recorder struct {
	mu  sync.Mutex
	ops []Op
}

// Begin takes the call tick.
func (r *Recorder) Begin() int64 { return Tick() }

// End takes the return tick and appends the op.
func (r *Recorder) End(client int, kind string, in, out interface{}, err error, call int64) {
	ret := Tick()
	o := Op{Client: client, Kind: kind, In: in, Out: out, Call: call, Ret: ret}
	if err != nil {
		o.Err = err.Error()
	}
	r.mu.Lock()
	r.ops = append(r.ops, o)
	r.mu.Unlock()
}

// Ops returns a copy of the history.
func (r *Recorder) Ops() []Op {
	r.mu.Lock()
	defer r.mu.Unlock()
	return append([]Op(nil), r.ops...)
}

// Len returns the number of recorded ops.
func (r *Recorder) Len() int { r.mu.Lock(); defer r.mu.Unlock(); return len(r.ops) }

// Reset clears the history.
func (r *Recorder) Reset() { r.mu.Lock(); r.ops = nil; r.mu.Unlock() }
