// Package sched is the gate scheduler: harness workers call PD API functions; every intercepted
// storage operation parks at a gate; when all live workers are parked, finished, or blocked (no
// state change for a settle interval) the scheduler releases exactly one parked operation, waits
// until that operation has completed at the storage boundary, and repeats. Release orders are
// chosen by a PRNG or enumerated depth-first. Only exploration order depends on the settle timing,
// never a verdict.
package sched

import (
	"fmt"
	"sort"
	"strings"
	"sync"
	"time"

	"verif/harness/lib/hist"
)

// Info describes one parked operation.
type Info struct {
	Worker int    `json:"w"`
	Kind   string `json:"kind"`
	Key    string `json:"key"`
}

func (i Info) String() string { return fmt.Sprintf("w%d:%s:%s", i.Worker, i.Kind, i.Key) }

type parked struct {
	info Info
	ch   chan struct{}
}

// Sched is one scheduling session (one execution).
type Sched struct {
	Settle time.Duration
	// Stagger starts the workers one at a time, in list order, each when the workers started so far
	// are parked, finished or blocked: a worker then reaches its first storage operation (having
	// made its in-memory decisions) before the next one starts. Callers permute the list to
	// explore the start orders.
	Stagger bool
	// OnQuiescent is called (scheduler goroutine) each time the system is quiescent, before a
	// release; no storage operation is in flight at that moment.
	OnQuiescent func(step int, parked []Info)

	mu         sync.Mutex
	workers    map[int64]int
	parked     map[int]*parked
	running    int
	finished   int
	n          int
	inflight   int // worker whose released op has not completed yet, -1 none
	lastChange time.Time
	notify     chan struct{}
	Trace      []Info
	Choices    []int
	NOpts      []int
	Blocked    int // number of times quiescence was declared by the settle rule
	Err        error
}

// New returns a scheduler.
func New() *Sched {
	return &Sched{Settle: 40 * time.Millisecond, workers: map[int64]int{}, parked: map[int]*parked{}, inflight: -1,
		notify: make(chan struct{}, 1)}
}

func (s *Sched) touch() {
	s.lastChange = time.Now()
	select {
	case s.notify <- struct{}{}:
	default:
	}
}

// Gate is installed as the before-hook of an interception point.
func (s *Sched) Gate(kind, key string) {
	g := hist.Goid()
	s.mu.Lock()
	w, ok := s.workers[g]
	if !ok {
		s.mu.Unlock()
		return
	}
	p := &parked{info: Info{w, kind, key}, ch: make(chan struct{})}
	s.parked[w] = p
	s.running--
	s.touch()
	s.mu.Unlock()
	<-p.ch
}

// Done is installed as the after-hook of an interception point.
func (s *Sched) Done(kind, key string) {
	g := hist.Goid()
	s.mu.Lock()
	if w, ok := s.workers[g]; ok && s.inflight == w {
		s.inflight = -1
		s.touch()
	}
	s.mu.Unlock()
}

// Run executes the workers under the chooser. choose gets the step number and the parked
// operations sorted by worker and returns the index to release.
func (s *Sched) Run(workers []func(), choose func(step int, opts []Info) int) {
	s.n = len(workers)
	var wg sync.WaitGroup
	starts := make([]chan struct{}, len(workers))
	reg := make(chan struct{}, len(workers))
	s.mu.Lock()
	s.running = 0
	s.lastChange = time.Now()
	s.mu.Unlock()
	for i, f := range workers {
		wg.Add(1)
		starts[i] = make(chan struct{})
		go func(i int, f func()) {
			defer wg.Done()
			g := hist.Goid()
			s.mu.Lock()
			s.workers[g] = i
			s.mu.Unlock()
			reg <- struct{}{}
			<-starts[i]
			defer func() {
				s.mu.Lock()
				s.running--
				s.finished++
				if s.inflight == i {
					s.inflight = -1
				}
				delete(s.workers, g)
				s.touch()
				s.mu.Unlock()
			}()
			f()
		}(i, f)
	}
	for range workers {
		<-reg
	}
	for i := range workers {
		s.mu.Lock()
		s.running++
		s.touch()
		s.mu.Unlock()
		close(starts[i])
		if s.Stagger && i < len(workers)-1 {
			// wait until the workers started so far are parked / finished / blocked
			s.mu.Lock()
			for !(s.running == 0 || time.Since(s.lastChange) >= s.Settle) {
				s.mu.Unlock()
				select {
				case <-s.notify:
				case <-time.After(s.Settle / 2):
				}
				s.mu.Lock()
			}
			s.mu.Unlock()
		}
	}
	step := 0
	deadline := time.Now().Add(120 * time.Second)
	for {
		// wait for quiescence
		s.mu.Lock()
		for {
			if s.inflight == -1 && s.running == 0 {
				break
			}
			if s.inflight == -1 && len(s.parked) > 0 && time.Since(s.lastChange) >= s.Settle {
				s.Blocked++
				break
			}
			if time.Now().After(deadline) {
				s.Err = fmt.Errorf("scheduler watchdog: running=%d parked=%d inflight=%d", s.running, len(s.parked), s.inflight)
				// release everything so that the workers can end
				for w, p := range s.parked {
					delete(s.parked, w)
					s.running++
					close(p.ch)
				}
				s.mu.Unlock()
				wg.Wait()
				return
			}
			s.mu.Unlock()
			select {
			case <-s.notify:
			case <-time.After(s.Settle / 2):
			}
			s.mu.Lock()
		}
		if len(s.parked) == 0 {
			s.mu.Unlock()
			break // all finished
		}
		opts := make([]Info, 0, len(s.parked))
		for _, p := range s.parked {
			opts = append(opts, p.info)
		}
		sort.Slice(opts, func(a, b int) bool { return opts[a].Worker < opts[b].Worker })
		s.mu.Unlock()
		if s.OnQuiescent != nil {
			s.OnQuiescent(step, opts)
		}
		c := choose(step, opts)
		if c < 0 || c >= len(opts) {
			c = len(opts) - 1
		}
		s.mu.Lock()
		p := s.parked[opts[c].Worker]
		delete(s.parked, opts[c].Worker)
		s.running++
		s.inflight = opts[c].Worker
		s.Trace = append(s.Trace, opts[c])
		s.Choices = append(s.Choices, c)
		s.NOpts = append(s.NOpts, len(opts))
		s.touch()
		close(p.ch)
		s.mu.Unlock()
		step++
	}
	wg.Wait()
	if s.OnQuiescent != nil {
		s.OnQuiescent(step, nil)
	}
}

// TraceKey is a string identifying the released sequence (worker, kind) — the schedule identity.
func (s *Sched) TraceKey() string {
	var b strings.Builder
	for _, i := range s.Trace {
		fmt.Fprintf(&b, "%d%s;", i.Worker, i.Kind)
	}
	return b.String()
}

// Explorer enumerates release orders depth-first (stateless re-execution).
type Explorer struct {
	prefix   []int
	started  bool
	Complete bool
	Runs     int
	Diverged int
}

// Next returns the chooser for the next execution, or nil when the tree is exhausted.
func (e *Explorer) Next() func(step int, opts []Info) int {
	if e.Complete {
		return nil
	}
	e.started = true
	prefix := e.prefix
	return func(step int, opts []Info) int {
		if step < len(prefix) {
			c := prefix[step]
			if c >= len(opts) {
				e.Diverged++
				c = len(opts) - 1
			}
			return c
		}
		return 0
	}
}

// Advance must be called after each execution with the scheduler that ran it.
func (e *Explorer) Advance(s *Sched) {
	e.Runs++
	i := len(s.Choices) - 1
	for i >= 0 && s.Choices[i]+1 >= s.NOpts[i] {
		i--
	}
	if i < 0 {
		e.Complete = true
		return
	}
	e.prefix = append(append([]int(nil), s.Choices[:i]...), s.Choices[i]+1)
}
