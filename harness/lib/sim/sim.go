// Package sim is the store-side (TiKV) simulator shared by the operator related checks (C08-C11).
//
// A sim.Region is ONE raft group as its leader store sees it: peers with roles (Voter, Learner,
// IncomingVoter, DemotingVoter), the leader, conf_ver / version / term, pending and down peers.
// It applies operator steps (ApplyStep) or the heartbeat-response commands PD sends (ApplyResponse)
// the way a store would, and REFUSES what a real store refuses (returns a *Refusal and leaves the
// state untouched):
//
//   - add a peer on a store that already holds a peer of the region, or with a used / zero peer id;
//   - promote something that is not a learner with that id; demote something that is not a plain voter;
//   - remove or (simple-)demote the current leader; remove a voter inside a joint change;
//   - any simple or enter-joint change while the region is in a joint state; leave when not in one;
//   - leave the joint state while the leader is a DemotingVoter;
//   - transfer leadership to an absent peer, a Learner or a DemotingVoter;
//   - any command while the region has no leader; a change that would leave no voter.
//
// The model is written from the documented raftstore behaviour (conf change v1 / v2, "ignore remove
// leader or demote leader", "can not remove voter directly", "ignore leave joint command that
// demoting leader"), NOT from pd's step methods: effects are computed from the plain fields of a
// step only; CheckSafety / IsFinish / ConfVerChanged are never called here (checks observe them).
//
// Epoch bookkeeping follows the store: every simple change conf_ver+1; entering a joint state
// conf_ver += number of changes; leaving conf_ver += number of peers that leave a joint role;
// a split bumps version; a leader change bumps term.
package sim

import (
	"fmt"
	"sort"
	"strconv"
	"strings"

	"github.com/pingcap/kvproto/pkg/eraftpb"
	"github.com/pingcap/kvproto/pkg/metapb"
	"github.com/pingcap/kvproto/pkg/pdpb"
	"github.com/tikv/pd/server/core"
	"github.com/tikv/pd/server/schedule/operator"
)

// Refusal codes (stable strings; checks use them to classify violations).
const (
	RefNoLeader          = "no-leader"
	RefInvalidPeer       = "invalid-peer"           // zero store id / zero peer id
	RefStoreHasPeer      = "store-already-has-peer" // a second peer on one store
	RefDuplicatePeerID   = "duplicate-peer-id"      // peer id already used by another peer
	RefNoPeer            = "no-such-peer"           // nothing on that store
	RefPeerIDMismatch    = "peer-id-mismatch"       // another peer lives on that store
	RefNotLearner        = "not-a-learner"          // promote of a non learner
	RefNotVoter          = "not-a-voter"            // demote of a non (plain) voter
	RefRemoveLeader      = "remove-leader"          // remove the current leader
	RefDemoteLeader      = "demote-leader"          // simple demotion of the current leader
	RefRemoveVoterJoint  = "remove-voter-in-joint"  // "can not remove voter directly"
	RefInJoint           = "in-joint-state"         // simple / enter change while in joint state
	RefNotInJoint        = "not-in-joint-state"     // leave while not in joint state
	RefLeaveDemoteLeader = "leave-joint-leader-is-demoting"
	RefNoVoterLeft       = "no-voter-left"
	RefTransferAbsent    = "transfer-to-absent-peer"
	RefTransferLearner   = "transfer-to-learner"
	RefTransferDemoting  = "transfer-to-demoting-voter"
	RefOnlyLearnerJoint  = "joint-change-only-affects-learners"
	RefDuplicateChange   = "multiple-changes-for-one-peer"
	RefWrongRegion       = "wrong-region-id"
	RefStaleEpoch        = "stale-epoch"
	RefNotLeaderTarget   = "target-peer-is-not-leader"
	RefUnsupported       = "unsupported"
	RefMalformed         = "malformed-command"
)

// Refusal is the error returned when the store refuses a command. The region is unchanged.
type Refusal struct {
	Code string
	Msg  string
}

func (e *Refusal) Error() string { return e.Code + ": " + e.Msg }

func refuse(code, format string, a ...interface{}) error {
	return &Refusal{Code: code, Msg: fmt.Sprintf(format, a...)}
}

// Code returns the refusal code of err ("" for nil, "error" for a foreign error).
func Code(err error) string {
	if err == nil {
		return ""
	}
	if r, ok := err.(*Refusal); ok {
		return r.Code
	}
	return "error"
}

// PeerRef names a peer inside a joint change.
type PeerRef struct {
	Store, ID uint64
}

// Region is one simulated raft group.
type Region struct {
	ID               uint64
	StartKey, EndKey []byte
	Peers            []*metapb.Peer // insertion order; at most one per store
	LeaderStore      uint64         // store id of the leader peer, 0 = no leader
	ConfVer          uint64
	Version          uint64
	Term             uint64
	Pending          map[uint64]bool // peer id -> reported as pending
	Down             map[uint64]bool // peer id -> reported as down
	ApproximateSize  uint64          // bytes, as in a heartbeat
	NextPeerID       uint64          // source of fresh peer ids for foreign changes (FreshPeerID)

	// HoldNewPeersPending: a newly added peer is reported pending until SettlePending is called
	// (default: the snapshot is applied at once, the peer is never pending).
	HoldNewPeersPending bool
	// SingleChangeV2IsSimple: a ChangePeerV2 *command* with exactly one change is applied as a simple
	// change (roles go straight to Voter/Learner, conf_ver+1) the way raftstore classifies it
	// (0 changes = leave, 1 = simple, >1 = enter joint). Default false: every non-empty ChangePeerV2
	// enters a joint state, which is what pd's ChangePeerV2Enter step expects. Only ApplyResponse
	// looks at this flag; ApplyStep(ChangePeerV2Enter) always enters.
	SingleChangeV2IsSimple bool
	// StrictSimpleDemote: a simple ChangePeer{AddLearnerNode} on a store that holds a voter is refused
	// ("can't add duplicated learner", conf change v1). Default false: it is the demotion pd means.
	StrictSimpleDemote bool

	// Applied counts accepted conf changes / leader changes, Refused counts refusals.
	ConfChanges   int
	LeaderChanges int
	Refused       int
}

// NewRegion creates a region with the given peers (copied) and leader store.
// Epoch starts at conf_ver 1, version 1, term 1.
func NewRegion(id uint64, peers []*metapb.Peer, leaderStore uint64) *Region {
	r := &Region{ID: id, LeaderStore: leaderStore, ConfVer: 1, Version: 1, Term: 1,
		Pending: map[uint64]bool{}, Down: map[uint64]bool{}, ApproximateSize: 10 << 20,
		StartKey: []byte(fmt.Sprintf("%20d", id)), EndKey: []byte(fmt.Sprintf("%20d", id+1))}
	var max uint64
	for _, p := range peers {
		r.Peers = append(r.Peers, clonePeer(p))
		if p.GetId() > max {
			max = p.GetId()
		}
	}
	r.NextPeerID = max + 1<<32 // far away from ids handed out by pd's allocator
	return r
}

// FromInfo creates a simulated region from a pd RegionInfo (peers, leader, epoch, keys, pending, down).
func FromInfo(info *core.RegionInfo) *Region {
	r := NewRegion(info.GetID(), info.GetPeers(), info.GetLeader().GetStoreId())
	r.StartKey = append([]byte(nil), info.GetStartKey()...)
	r.EndKey = append([]byte(nil), info.GetEndKey()...)
	if e := info.GetRegionEpoch(); e != nil {
		r.ConfVer, r.Version = e.GetConfVer(), e.GetVersion()
	}
	if t := info.GetTerm(); t != 0 {
		r.Term = t
	}
	for _, p := range info.GetPendingPeers() {
		r.Pending[p.GetId()] = true
	}
	for _, d := range info.GetDownPeers() {
		r.Down[d.GetPeer().GetId()] = true
	}
	if s := info.GetApproximateSize(); s > 0 {
		r.ApproximateSize = uint64(s) << 20
	}
	return r
}

// Clone returns an independent copy.
func (r *Region) Clone() *Region {
	c := *r
	c.StartKey = append([]byte(nil), r.StartKey...)
	c.EndKey = append([]byte(nil), r.EndKey...)
	c.Peers = nil
	for _, p := range r.Peers {
		c.Peers = append(c.Peers, clonePeer(p))
	}
	c.Pending, c.Down = map[uint64]bool{}, map[uint64]bool{}
	for k, v := range r.Pending {
		c.Pending[k] = v
	}
	for k, v := range r.Down {
		c.Down[k] = v
	}
	return &c
}

func clonePeer(p *metapb.Peer) *metapb.Peer {
	return &metapb.Peer{Id: p.GetId(), StoreId: p.GetStoreId(), Role: p.GetRole()}
}

// ---- read access -------------------------------------------------------------------------------

// Peer returns the peer on a store (nil if none). The result must not be modified.
func (r *Region) Peer(store uint64) *metapb.Peer {
	for _, p := range r.Peers {
		if p.StoreId == store {
			return p
		}
	}
	return nil
}

// PeerByID returns the peer with the given id (nil if none).
func (r *Region) PeerByID(id uint64) *metapb.Peer {
	for _, p := range r.Peers {
		if p.Id == id {
			return p
		}
	}
	return nil
}

// Leader returns the leader peer (nil if none).
func (r *Region) Leader() *metapb.Peer {
	if r.LeaderStore == 0 {
		return nil
	}
	return r.Peer(r.LeaderStore)
}

// InJoint reports whether some peer has an Incoming/Demoting role.
func (r *Region) InJoint() bool {
	for _, p := range r.Peers {
		if p.Role == metapb.PeerRole_IncomingVoter || p.Role == metapb.PeerRole_DemotingVoter {
			return true
		}
	}
	return false
}

// CountRole counts the peers with the given role.
func (r *Region) CountRole(role metapb.PeerRole) int {
	n := 0
	for _, p := range r.Peers {
		if p.Role == role {
			n++
		}
	}
	return n
}

// VotersAll counts Voter + IncomingVoter + DemotingVoter peers (everything that is not a Learner).
func (r *Region) VotersAll() int { return len(r.Peers) - r.CountRole(metapb.PeerRole_Learner) }

// Learners counts Learner peers.
func (r *Region) Learners() int { return r.CountRole(metapb.PeerRole_Learner) }

// Stores returns the sorted store ids holding a peer.
func (r *Region) Stores() []uint64 {
	var s []uint64
	for _, p := range r.Peers {
		s = append(s, p.StoreId)
	}
	sort.Slice(s, func(i, j int) bool { return s[i] < s[j] })
	return s
}

// Epoch returns the current epoch.
func (r *Region) Epoch() *metapb.RegionEpoch {
	return &metapb.RegionEpoch{ConfVer: r.ConfVer, Version: r.Version}
}

// Invariant checks the structural invariants of the model itself (one peer per store, unique ids,
// leader is an existing non-learner peer). A non-nil result means the *simulator* is broken.
func (r *Region) Invariant() error {
	st, ids := map[uint64]bool{}, map[uint64]bool{}
	for _, p := range r.Peers {
		if st[p.StoreId] {
			return fmt.Errorf("two peers on store %d", p.StoreId)
		}
		if ids[p.Id] {
			return fmt.Errorf("peer id %d used twice", p.Id)
		}
		st[p.StoreId], ids[p.Id] = true, true
	}
	if r.LeaderStore != 0 {
		l := r.Peer(r.LeaderStore)
		if l == nil {
			return fmt.Errorf("leader store %d holds no peer", r.LeaderStore)
		}
		if l.Role == metapb.PeerRole_Learner {
			return fmt.Errorf("leader on store %d is a learner", r.LeaderStore)
		}
	}
	return nil
}

// String is the compact layout, e.g. "1v* 2v 3l 4i 5d" (see ParseLayout).
func (r *Region) String() string {
	ps := append([]*metapb.Peer(nil), r.Peers...)
	sort.Slice(ps, func(i, j int) bool { return ps[i].StoreId < ps[j].StoreId })
	var b []string
	for _, p := range ps {
		s := strconv.FormatUint(p.StoreId, 10) + roleLetter(p.Role)
		if p.StoreId == r.LeaderStore {
			s += "*"
		}
		b = append(b, s)
	}
	return strings.Join(b, " ")
}

// Describe is String plus peer ids and epoch (for witnesses).
func (r *Region) Describe() string {
	ps := append([]*metapb.Peer(nil), r.Peers...)
	sort.Slice(ps, func(i, j int) bool { return ps[i].StoreId < ps[j].StoreId })
	var b []string
	for _, p := range ps {
		s := fmt.Sprintf("%d%s#%d", p.StoreId, roleLetter(p.Role), p.Id)
		if p.StoreId == r.LeaderStore {
			s += "*"
		}
		if r.Pending[p.Id] {
			s += "(pending)"
		}
		if r.Down[p.Id] {
			s += "(down)"
		}
		b = append(b, s)
	}
	return fmt.Sprintf("%s @conf_ver=%d,version=%d,term=%d", strings.Join(b, " "), r.ConfVer, r.Version, r.Term)
}

func roleLetter(role metapb.PeerRole) string {
	switch role {
	case metapb.PeerRole_Voter:
		return "v"
	case metapb.PeerRole_Learner:
		return "l"
	case metapb.PeerRole_IncomingVoter:
		return "i"
	case metapb.PeerRole_DemotingVoter:
		return "d"
	}
	return "?"
}

// ---- what pd sees ------------------------------------------------------------------------------

// Heartbeat builds the region heartbeat the leader store would send now (deep copies).
func (r *Region) Heartbeat() *pdpb.RegionHeartbeatRequest {
	meta := &metapb.Region{Id: r.ID, StartKey: append([]byte(nil), r.StartKey...), EndKey: append([]byte(nil), r.EndKey...),
		RegionEpoch: r.Epoch()}
	var pending []*metapb.Peer
	var down []*pdpb.PeerStats
	for _, p := range r.Peers {
		meta.Peers = append(meta.Peers, clonePeer(p))
		if r.Pending[p.Id] {
			pending = append(pending, clonePeer(p))
		}
		if r.Down[p.Id] {
			down = append(down, &pdpb.PeerStats{Peer: clonePeer(p), DownSeconds: 3600})
		}
	}
	hb := &pdpb.RegionHeartbeatRequest{Region: meta, Term: r.Term, PendingPeers: pending, DownPeers: down,
		ApproximateSize: r.ApproximateSize, ApproximateKeys: 1000}
	if l := r.Leader(); l != nil {
		hb.Leader = clonePeer(l)
	}
	return hb
}

// Info is the core.RegionInfo pd would build from the heartbeat of the current state (snapshot; later
// changes of r do not show through).
func (r *Region) Info() *core.RegionInfo {
	return core.RegionFromHeartbeat(r.Heartbeat())
}

// ---- primitive commands ------------------------------------------------------------------------

func (r *Region) refused(err error) error {
	r.Refused++
	return err
}

func (r *Region) needLeader() error {
	if r.Leader() == nil {
		return refuse(RefNoLeader, "region %d has no leader, nobody executes commands", r.ID)
	}
	return nil
}

func (r *Region) checkNewPeer(store, id uint64) error {
	if store == 0 || id == 0 {
		return refuse(RefInvalidPeer, "peer id %d on store %d", id, store)
	}
	if p := r.Peer(store); p != nil {
		return refuse(RefStoreHasPeer, "store %d already holds peer %d (%s); cannot add peer %d", store, p.Id, roleLetter(p.Role), id)
	}
	if p := r.PeerByID(id); p != nil {
		return refuse(RefDuplicatePeerID, "peer id %d already used on store %d", id, p.StoreId)
	}
	return nil
}

func (r *Region) simplePre() error {
	if err := r.needLeader(); err != nil {
		return err
	}
	if r.InJoint() {
		return refuse(RefInJoint, "region is in a joint state, only leaving it is accepted")
	}
	return nil
}

func (r *Region) addPeer(store, id uint64, role metapb.PeerRole) error {
	if err := r.simplePre(); err != nil {
		return r.refused(err)
	}
	if err := r.checkNewPeer(store, id); err != nil {
		return r.refused(err)
	}
	r.Peers = append(r.Peers, &metapb.Peer{Id: id, StoreId: store, Role: role})
	if r.HoldNewPeersPending {
		r.Pending[id] = true
	}
	r.ConfVer++
	r.ConfChanges++
	return nil
}

// AddLearner adds a new learner peer (simple change).
func (r *Region) AddLearner(store, id uint64) error {
	return r.addPeer(store, id, metapb.PeerRole_Learner)
}

// AddVoter adds a new voter peer directly (simple change, the legacy AddPeer step).
func (r *Region) AddVoter(store, id uint64) error { return r.addPeer(store, id, metapb.PeerRole_Voter) }

func (r *Region) lookup(store, id uint64) (*metapb.Peer, error) {
	p := r.Peer(store)
	if p == nil {
		return nil, refuse(RefNoPeer, "no peer on store %d", store)
	}
	if id != 0 && p.Id != id {
		return nil, refuse(RefPeerIDMismatch, "store %d holds peer %d, not %d", store, p.Id, id)
	}
	return p, nil
}

// Promote turns the learner (store,id) into a voter (simple change).
func (r *Region) Promote(store, id uint64) error {
	if err := r.simplePre(); err != nil {
		return r.refused(err)
	}
	p, err := r.lookup(store, id)
	if err != nil {
		return r.refused(err)
	}
	if p.Role != metapb.PeerRole_Learner {
		return r.refused(refuse(RefNotLearner, "peer %d on store %d is %s", p.Id, store, roleLetter(p.Role)))
	}
	p.Role = metapb.PeerRole_Voter
	r.ConfVer++
	r.ConfChanges++
	return nil
}

// Demote turns the voter (store,id) into a learner (simple change). The leader cannot be demoted.
func (r *Region) Demote(store, id uint64) error {
	if err := r.simplePre(); err != nil {
		return r.refused(err)
	}
	p, err := r.lookup(store, id)
	if err != nil {
		return r.refused(err)
	}
	if p.Role != metapb.PeerRole_Voter {
		return r.refused(refuse(RefNotVoter, "peer %d on store %d is %s", p.Id, store, roleLetter(p.Role)))
	}
	if store == r.LeaderStore {
		return r.refused(refuse(RefDemoteLeader, "peer %d on store %d is the leader", p.Id, store))
	}
	p.Role = metapb.PeerRole_Learner
	r.ConfVer++
	r.ConfChanges++
	return nil
}

// Remove removes the peer on store (id 0 = whatever peer is there). The leader cannot be removed.
func (r *Region) Remove(store, id uint64) error {
	if err := r.simplePre(); err != nil {
		return r.refused(err)
	}
	p, err := r.lookup(store, id)
	if err != nil {
		return r.refused(err)
	}
	if store == r.LeaderStore {
		return r.refused(refuse(RefRemoveLeader, "peer %d on store %d is the leader", p.Id, store))
	}
	if p.Role != metapb.PeerRole_Learner && r.VotersAll() <= 1 {
		return r.refused(refuse(RefNoVoterLeft, "peer %d is the last voter", p.Id))
	}
	for i, q := range r.Peers {
		if q == p {
			r.Peers = append(r.Peers[:i:i], r.Peers[i+1:]...)
			break
		}
	}
	delete(r.Pending, p.Id)
	delete(r.Down, p.Id)
	r.ConfVer++
	r.ConfChanges++
	return nil
}

// TransferLeader moves leadership to the peer on store. Absent peers, learners and demoting voters
// are refused; transferring to the current leader is a no-op.
func (r *Region) TransferLeader(store uint64) error {
	if err := r.needLeader(); err != nil {
		return r.refused(err)
	}
	p := r.Peer(store)
	if p == nil {
		return r.refused(refuse(RefTransferAbsent, "no peer on store %d", store))
	}
	if store == r.LeaderStore {
		return nil // already the leader (whatever its role): nothing to do
	}
	switch p.Role {
	case metapb.PeerRole_Learner:
		return r.refused(refuse(RefTransferLearner, "peer %d on store %d is a learner", p.Id, store))
	case metapb.PeerRole_DemotingVoter:
		return r.refused(refuse(RefTransferDemoting, "peer %d on store %d is a demoting voter", p.Id, store))
	}
	if store != r.LeaderStore {
		r.LeaderStore = store
		r.Term++
		r.LeaderChanges++
	}
	return nil
}

// EnterJoint applies an atomic joint change: promote[] learners become IncomingVoter, demote[] voters
// become DemotingVoter (the leader may be among them). conf_ver += number of changes.
// An empty change list is accepted as a no-op.
func (r *Region) EnterJoint(promote, demote []PeerRef) error {
	if err := r.simplePre(); err != nil { // also refuses when already in a joint state
		return r.refused(err)
	}
	seen := map[uint64]bool{}
	var ps, ds []*metapb.Peer
	for _, ref := range promote {
		p, err := r.lookup(ref.Store, ref.ID)
		if err != nil {
			return r.refused(err)
		}
		if p.Role != metapb.PeerRole_Learner {
			return r.refused(refuse(RefNotLearner, "joint promote: peer %d on store %d is %s", p.Id, ref.Store, roleLetter(p.Role)))
		}
		if seen[p.Id] {
			return r.refused(refuse(RefDuplicateChange, "peer %d named twice", p.Id))
		}
		seen[p.Id] = true
		ps = append(ps, p)
	}
	for _, ref := range demote {
		p, err := r.lookup(ref.Store, ref.ID)
		if err != nil {
			return r.refused(err)
		}
		if p.Role != metapb.PeerRole_Voter {
			return r.refused(refuse(RefNotVoter, "joint demote: peer %d on store %d is %s", p.Id, ref.Store, roleLetter(p.Role)))
		}
		if seen[p.Id] {
			return r.refused(refuse(RefDuplicateChange, "peer %d named twice", p.Id))
		}
		seen[p.Id] = true
		ds = append(ds, p)
	}
	// the incoming configuration must keep a voter
	if r.CountRole(metapb.PeerRole_Voter)-len(ds)+len(ps) <= 0 {
		return r.refused(refuse(RefNoVoterLeft, "joint change leaves no voter in the incoming configuration"))
	}
	for _, p := range ps {
		p.Role = metapb.PeerRole_IncomingVoter
	}
	for _, p := range ds {
		p.Role = metapb.PeerRole_DemotingVoter
	}
	n := len(ps) + len(ds)
	if n > 0 {
		r.ConfVer += uint64(n)
		r.ConfChanges++
	}
	return nil
}

// LeaveJoint leaves the joint state: IncomingVoter -> Voter, DemotingVoter -> Learner.
// Refused when the region is not in a joint state or when the leader is a DemotingVoter.
func (r *Region) LeaveJoint() error {
	if err := r.needLeader(); err != nil {
		return r.refused(err)
	}
	if !r.InJoint() {
		return r.refused(refuse(RefNotInJoint, "leave joint requested but no peer has a joint role"))
	}
	if l := r.Leader(); l.Role == metapb.PeerRole_DemotingVoter {
		return r.refused(refuse(RefLeaveDemoteLeader, "leader peer %d on store %d is a demoting voter", l.Id, l.StoreId))
	}
	n := 0
	for _, p := range r.Peers {
		switch p.Role {
		case metapb.PeerRole_IncomingVoter:
			p.Role = metapb.PeerRole_Voter
			n++
		case metapb.PeerRole_DemotingVoter:
			p.Role = metapb.PeerRole_Learner
			n++
		}
	}
	r.ConfVer += uint64(n)
	r.ConfChanges++
	return nil
}

// ---- foreign events (things that happen to a region behind pd's back) -------------------------------

// FreshPeerID hands out a peer id no pd allocator will produce.
func (r *Region) FreshPeerID() uint64 {
	r.NextPeerID++
	return r.NextPeerID
}

// BumpVersion emulates a split / merge seen from this region: version += n.
func (r *Region) BumpVersion(n uint64) { r.Version += n }

// Split emulates a split at key: this region keeps [start,key), version+1. The right half is returned
// as a new region with the given id and fresh peer ids on the same stores.
func (r *Region) Split(key []byte, newID uint64) *Region {
	right := r.Clone()
	right.ID = newID
	right.StartKey = append([]byte(nil), key...)
	for _, p := range right.Peers {
		p.Id = r.FreshPeerID()
	}
	right.Pending, right.Down = map[uint64]bool{}, map[uint64]bool{}
	right.NextPeerID = r.NextPeerID + 1<<20
	r.EndKey = append([]byte(nil), key...)
	r.Version++
	right.Version = r.Version
	return right
}

// ForceLeader sets the leader without any check except existence and voter-ness (an election pd did
// not ask for). Returns false if the store cannot lead.
func (r *Region) ForceLeader(store uint64) bool {
	p := r.Peer(store)
	if p == nil || p.Role == metapb.PeerRole_Learner {
		return false
	}
	if r.LeaderStore != store {
		r.LeaderStore = store
		r.Term++
		r.LeaderChanges++
	}
	return true
}

// SettlePending clears the pending mark of the peer on store (0 = all peers).
func (r *Region) SettlePending(store uint64) {
	for _, p := range r.Peers {
		if store == 0 || p.StoreId == store {
			delete(r.Pending, p.Id)
		}
	}
}

// ---- operator steps ----------------------------------------------------------------------------

// ApplyStep executes one operator step the way the leader store would execute the command pd derives
// from it. Only the step's exported fields are read. MergeRegion / SplitRegion are not modelled by a
// single region and return a Refusal with code RefUnsupported.
func (r *Region) ApplyStep(step operator.OpStep) error {
	switch s := step.(type) {
	case operator.TransferLeader:
		return r.TransferLeader(s.ToStore)
	case operator.AddLearner:
		return r.AddLearner(s.ToStore, s.PeerID)
	case operator.AddLightLearner:
		return r.AddLearner(s.ToStore, s.PeerID)
	case operator.AddPeer:
		return r.addOrPromote(s.ToStore, s.PeerID)
	case operator.AddLightPeer:
		return r.addOrPromote(s.ToStore, s.PeerID)
	case operator.PromoteLearner:
		return r.Promote(s.ToStore, s.PeerID)
	case operator.DemoteFollower:
		return r.Demote(s.ToStore, s.PeerID)
	case operator.RemovePeer:
		return r.Remove(s.FromStore, s.PeerID)
	case operator.ChangePeerV2Enter:
		return r.EnterJoint(refsP(s.PromoteLearners), refsD(s.DemoteVoters))
	case operator.ChangePeerV2Leave:
		return r.LeaveJoint()
	}
	return r.refused(refuse(RefUnsupported, "step %T is not modelled by sim.Region", step))
}

// addOrPromote is conf change v1 AddNode: a new voter, or the promotion of the learner with that id.
func (r *Region) addOrPromote(store, id uint64) error {
	if p := r.Peer(store); p != nil && p.Id == id && p.Role == metapb.PeerRole_Learner {
		return r.Promote(store, id)
	}
	return r.AddVoter(store, id)
}

func refsP(l []operator.PromoteLearner) []PeerRef {
	out := make([]PeerRef, 0, len(l))
	for _, x := range l {
		out = append(out, PeerRef{Store: x.ToStore, ID: x.PeerID})
	}
	return out
}

func refsD(l []operator.DemoteVoter) []PeerRef {
	out := make([]PeerRef, 0, len(l))
	for _, x := range l {
		out = append(out, PeerRef{Store: x.ToStore, ID: x.PeerID})
	}
	return out
}

// ---- heartbeat-response commands -------------------------------------------------------------------

// HeaderMismatch compares the routing fields pd stamped on a command with the region as it is now:
// region id, epoch, target peer = current leader. "" means they all match. (pd is expected to stamp
// the region's values at send time; the store refuses stale epochs and commands sent to non-leaders.)
func (r *Region) HeaderMismatch(resp *pdpb.RegionHeartbeatResponse) string {
	if resp.GetRegionId() != r.ID {
		return fmt.Sprintf("region id %d != %d", resp.GetRegionId(), r.ID)
	}
	if e := resp.GetRegionEpoch(); e.GetConfVer() != r.ConfVer || e.GetVersion() != r.Version {
		return fmt.Sprintf("epoch %v != conf_ver:%d version:%d", e, r.ConfVer, r.Version)
	}
	l := r.Leader()
	if t := resp.GetTargetPeer(); l == nil || t.GetId() != l.Id || t.GetStoreId() != l.StoreId {
		return fmt.Sprintf("target peer %v is not the leader %v", t, l)
	}
	return ""
}

// ApplyResponse executes a command pd sent on the heartbeat stream. If the command carries routing
// fields (RegionId != 0) they are verified first (wrong region / stale epoch / not the leader are
// refused like a store does). Exactly one of ChangePeer, ChangePeerV2, TransferLeader, SplitRegion
// is executed; Merge is refused as unsupported.
func (r *Region) ApplyResponse(resp *pdpb.RegionHeartbeatResponse) error {
	if resp.GetRegionId() != 0 {
		if resp.GetRegionId() != r.ID {
			return r.refused(refuse(RefWrongRegion, "command for region %d delivered to region %d", resp.GetRegionId(), r.ID))
		}
		if e := resp.GetRegionEpoch(); e != nil && (e.GetConfVer() != r.ConfVer || e.GetVersion() != r.Version) {
			return r.refused(refuse(RefStaleEpoch, "command epoch %v, region epoch conf_ver:%d version:%d", e, r.ConfVer, r.Version))
		}
		if t := resp.GetTargetPeer(); t != nil {
			if l := r.Leader(); l == nil || l.Id != t.GetId() {
				return r.refused(refuse(RefNotLeaderTarget, "command addressed to peer %d which is not the leader", t.GetId()))
			}
		}
	}
	switch {
	case resp.GetChangePeer() != nil:
		return r.applyChange(resp.GetChangePeer())
	case resp.GetChangePeerV2() != nil:
		return r.applyChangeV2(resp.GetChangePeerV2().GetChanges())
	case resp.GetTransferLeader() != nil:
		p := resp.GetTransferLeader().GetPeer()
		if p == nil {
			return r.refused(refuse(RefTransferAbsent, "transfer leader command without a peer"))
		}
		if q := r.Peer(p.GetStoreId()); q != nil && p.GetId() != 0 && q.Id != p.GetId() {
			return r.refused(refuse(RefTransferAbsent, "transfer target peer %d is not on store %d (peer %d is)", p.GetId(), p.GetStoreId(), q.Id))
		}
		return r.TransferLeader(p.GetStoreId())
	case resp.GetSplitRegion() != nil:
		if err := r.needLeader(); err != nil {
			return r.refused(err)
		}
		r.Version++
		return nil
	case resp.GetMerge() != nil:
		return r.refused(refuse(RefUnsupported, "merge is not modelled by sim.Region"))
	}
	return r.refused(refuse(RefMalformed, "command carries nothing to execute"))
}

func (r *Region) applyChange(c *pdpb.ChangePeer) error {
	p := c.GetPeer()
	if p == nil {
		return r.refused(refuse(RefMalformed, "change peer without a peer"))
	}
	switch c.GetChangeType() {
	case eraftpb.ConfChangeType_AddNode:
		return r.addOrPromote(p.GetStoreId(), p.GetId())
	case eraftpb.ConfChangeType_AddLearnerNode:
		if q := r.Peer(p.GetStoreId()); q != nil && q.Id == p.GetId() && !r.StrictSimpleDemote {
			return r.Demote(p.GetStoreId(), p.GetId())
		}
		return r.AddLearner(p.GetStoreId(), p.GetId())
	case eraftpb.ConfChangeType_RemoveNode:
		return r.Remove(p.GetStoreId(), p.GetId())
	}
	return r.refused(refuse(RefMalformed, "unknown change type %v", c.GetChangeType()))
}

func (r *Region) applyChangeV2(changes []*pdpb.ChangePeer) error {
	if len(changes) == 0 {
		return r.LeaveJoint()
	}
	if len(changes) == 1 && r.SingleChangeV2IsSimple {
		return r.applyChange(changes[0])
	}
	if err := r.simplePre(); err != nil {
		return r.refused(err)
	}
	// classify every change against the current peers
	var promote, demote []PeerRef
	type add struct {
		store, id uint64
	}
	var addsL, addsV []add
	var removes []PeerRef
	affectsVoter := false
	for _, c := range changes {
		p := c.GetPeer()
		if p == nil {
			return r.refused(refuse(RefMalformed, "change peer without a peer"))
		}
		cur := r.Peer(p.GetStoreId())
		switch c.GetChangeType() {
		case eraftpb.ConfChangeType_AddNode:
			affectsVoter = true
			if cur == nil {
				addsV = append(addsV, add{p.GetStoreId(), p.GetId()})
			} else {
				promote = append(promote, PeerRef{p.GetStoreId(), p.GetId()})
			}
		case eraftpb.ConfChangeType_AddLearnerNode:
			if cur == nil {
				addsL = append(addsL, add{p.GetStoreId(), p.GetId()})
			} else {
				affectsVoter = true
				demote = append(demote, PeerRef{p.GetStoreId(), p.GetId()})
			}
		case eraftpb.ConfChangeType_RemoveNode:
			if cur != nil && cur.Role != metapb.PeerRole_Learner {
				return r.refused(refuse(RefRemoveVoterJoint, "cannot remove voter %d directly inside a joint change", cur.Id))
			}
			if _, err := r.lookup(p.GetStoreId(), p.GetId()); err != nil {
				return r.refused(err)
			}
			removes = append(removes, PeerRef{p.GetStoreId(), p.GetId()})
		default:
			return r.refused(refuse(RefMalformed, "unknown change type %v", c.GetChangeType()))
		}
	}
	if !affectsVoter {
		return r.refused(refuse(RefOnlyLearnerJoint, "multiple changes that only affect learners"))
	}
	// validate on a copy, then commit (atomic)
	c := r.Clone()
	cv := r.ConfVer
	if err := c.EnterJoint(promote, demote); err != nil {
		return r.refused(err)
	}
	for _, a := range addsL {
		if err := c.checkNewPeer(a.store, a.id); err != nil {
			return r.refused(err)
		}
		c.Peers = append(c.Peers, &metapb.Peer{Id: a.id, StoreId: a.store, Role: metapb.PeerRole_Learner})
	}
	for _, a := range addsV {
		if err := c.checkNewPeer(a.store, a.id); err != nil {
			return r.refused(err)
		}
		c.Peers = append(c.Peers, &metapb.Peer{Id: a.id, StoreId: a.store, Role: metapb.PeerRole_IncomingVoter})
	}
	for _, rm := range removes {
		for i, q := range c.Peers {
			if q.StoreId == rm.Store {
				if q.Role != metapb.PeerRole_Learner {
					return r.refused(refuse(RefRemoveVoterJoint, "cannot remove voter %d directly inside a joint change", q.Id))
				}
				c.Peers = append(c.Peers[:i:i], c.Peers[i+1:]...)
				break
			}
		}
	}
	// commit
	r.Peers = c.Peers
	for _, a := range append(addsL, addsV...) {
		if r.HoldNewPeersPending {
			r.Pending[a.id] = true
		}
	}
	for _, rm := range removes {
		delete(r.Pending, rm.ID)
		delete(r.Down, rm.ID)
	}
	r.ConfVer = cv + uint64(len(changes))
	r.ConfChanges++
	return nil
}

// ---- replaying whole operators -----------------------------------------------------------------------

// Trace is the result of replaying a list of steps.
type Trace struct {
	// States[0] is the origin; States[i+1] is the region after step i was applied. When a step is
	// refused the trace stops: len(States) == FailedAt+1.
	States []*core.RegionInfo
	// FailedAt is the index of the refused step, -1 if every step was applied.
	FailedAt int
	// Err is the refusal of step FailedAt.
	Err error
	// Final is the simulated region at the end of the trace.
	Final *Region
}

// OK reports whether every step was applied.
func (t *Trace) OK() bool { return t.FailedAt < 0 }

// Last returns the last reached state.
func (t *Trace) Last() *core.RegionInfo { return t.States[len(t.States)-1] }

// Steps returns the steps of an operator.
func Steps(op *operator.Operator) []operator.OpStep {
	out := make([]operator.OpStep, 0, op.Len())
	for i := 0; i < op.Len(); i++ {
		out = append(out, op.Step(i))
	}
	return out
}

// Replay executes all steps of op in order on a copy of origin and returns the intermediate
// core.RegionInfo states. The hook (may be nil) is called for every step with the state before, the
// outcome and the state after (nil when refused); returning false stops the replay.
func Replay(origin *Region, steps []operator.OpStep, hook func(i int, step operator.OpStep, before *core.RegionInfo, err error, after *core.RegionInfo, r *Region) bool) *Trace {
	r := origin.Clone()
	t := &Trace{FailedAt: -1, Final: r}
	before := r.Info()
	t.States = append(t.States, before)
	for i, st := range steps {
		err := r.ApplyStep(st)
		var after *core.RegionInfo
		if err == nil {
			after = r.Info()
		}
		if hook != nil && !hook(i, st, before, err, after, r) {
			if err != nil {
				t.FailedAt, t.Err = i, err
			} else {
				t.States = append(t.States, after)
			}
			return t
		}
		if err != nil {
			t.FailedAt, t.Err = i, err
			return t
		}
		t.States = append(t.States, after)
		before = after
	}
	return t
}

// ReplayOperator is Replay for a whole operator starting from a pd RegionInfo.
func ReplayOperator(origin *core.RegionInfo, op *operator.Operator) *Trace {
	return Replay(FromInfo(origin), Steps(op), nil)
}

// ---- compact descriptions --------------------------------------------------------------------------

// PeerSpec is one entry of a layout.
type PeerSpec struct {
	Store   uint64
	Role    metapb.PeerRole
	Leader  bool
	Pending bool
	Down    bool
	ID      uint64 // 0 = assign firstPeerID + index
}

// ParseLayout parses "1v* 2v 3l 4i 5d 6v! 7l?": store id, role letter (v voter, l learner,
// i incoming voter, d demoting voter), then optional marks: * leader, ! down, ? pending,
// #<n> explicit peer id.
func ParseLayout(s string) ([]PeerSpec, error) {
	var out []PeerSpec
	for _, f := range strings.Fields(s) {
		i := 0
		for i < len(f) && f[i] >= '0' && f[i] <= '9' {
			i++
		}
		if i == 0 || i >= len(f) {
			return nil, fmt.Errorf("bad peer spec %q", f)
		}
		st, _ := strconv.ParseUint(f[:i], 10, 64)
		ps := PeerSpec{Store: st}
		switch f[i] {
		case 'v':
			ps.Role = metapb.PeerRole_Voter
		case 'l':
			ps.Role = metapb.PeerRole_Learner
		case 'i':
			ps.Role = metapb.PeerRole_IncomingVoter
		case 'd':
			ps.Role = metapb.PeerRole_DemotingVoter
		default:
			return nil, fmt.Errorf("bad role in %q", f)
		}
		for i++; i < len(f); i++ {
			switch f[i] {
			case '*':
				ps.Leader = true
			case '!':
				ps.Down = true
			case '?':
				ps.Pending = true
			case '#':
				j := i + 1
				for j < len(f) && f[j] >= '0' && f[j] <= '9' {
					j++
				}
				ps.ID, _ = strconv.ParseUint(f[i+1:j], 10, 64)
				i = j - 1
			default:
				return nil, fmt.Errorf("bad mark in %q", f)
			}
		}
		out = append(out, ps)
	}
	return out, nil
}

// BuildRegion makes a simulated region from peer specs; peers without explicit id get
// firstPeerID, firstPeerID+1, ... in spec order.
func BuildRegion(regionID uint64, specs []PeerSpec, firstPeerID uint64) *Region {
	var peers []*metapb.Peer
	var leader uint64
	for i, s := range specs {
		id := s.ID
		if id == 0 {
			id = firstPeerID + uint64(i)
		}
		peers = append(peers, &metapb.Peer{Id: id, StoreId: s.Store, Role: s.Role})
		if s.Leader {
			leader = s.Store
		}
	}
	r := NewRegion(regionID, peers, leader)
	for i, s := range specs {
		if s.Pending {
			r.Pending[peers[i].Id] = true
		}
		if s.Down {
			r.Down[peers[i].Id] = true
		}
	}
	return r
}

// MustRegion is BuildRegion(ParseLayout(layout)); it panics on a malformed layout (harness bug).
func MustRegion(regionID uint64, layout string, firstPeerID uint64) *Region {
	specs, err := ParseLayout(layout)
	if err != nil {
		panic(err)
	}
	return BuildRegion(regionID, specs, firstPeerID)
}

// MustInfo is MustRegion(...).Info(): a core.RegionInfo from a compact layout.
func MustInfo(regionID uint64, layout string, firstPeerID uint64) *core.RegionInfo {
	return MustRegion(regionID, layout, firstPeerID).Info()
}

// Layout renders a core.RegionInfo in the compact notation (sorted by store).
func Layout(info *core.RegionInfo) string {
	return FromInfo(info).String()
}
