// Package world is a ground-truth simulator of a TiKV cluster's region layout as PD hears about it.
//
// A World is a partition of the whole key space ["", "") into regions. It evolves by the events a
// real cluster produces — split (one or several split keys, the old id kept by the right-most or
// by the left-most piece: "right derive" / "left derive"), merge (prepare: source version+1 and
// conf_ver+1; commit: target version = max(source, target)+1 and the source id dies; or rollback:
// source version+1), add learner / promote learner / remove peer (conf_ver+1 each), leader change
// (term+1..3), size / flow change, pending / down peer changes — and after every event the regions
// concerned emit a heartbeat Snapshot of their state. The bookkeeping follows the store side
// (raftstore), not PD: PD code is never consulted here.
//
// Invariants of the ground truth (checked by Check, relied upon by the C06 oracles):
//   - the regions always tile the key space without gap or overlap;
//   - per region id, version, conf_ver and term never decrease over time;
//   - whenever the region that covers a key changes its id or its range, the version that covers
//     that key strictly increases; hence of two snapshots with intersecting ranges that differ in id
//     or range, the one taken earlier has the strictly smaller version.
//
// Plan turns the emitted snapshots into a delivery list: per-snapshot delay, loss, duplication and
// re-delivery of arbitrarily old snapshots, assigned to 1..n streams.
package world

import (
	"fmt"
	"math/rand"
	"sort"

	"github.com/pingcap/kvproto/pkg/metapb"
	"github.com/pingcap/kvproto/pkg/pdpb"
	"github.com/pingcap/kvproto/pkg/replication_modepb"
	"github.com/tikv/pd/server/core"
)

// Peer is one replica.
type Peer struct {
	ID      uint64 `json:"id"`
	Store   uint64 `json:"store"`
	Learner bool   `json:"learner,omitempty"`
}

// Region is the true state of one raft group.
type Region struct {
	ID      uint64
	Start   string
	End     string // "" = +inf
	Version uint64
	ConfVer uint64
	Term    uint64
	Peers   []Peer
	Leader  uint64 // peer id
	SizeMB  int64
	Keys    int64
	Written uint64
	Read    uint64
	Pending []uint64 // peer ids
	Down    []uint64 // peer ids
	// replication status reported with the heartbeat (0 = none reported)
	ReplState   int32
	ReplStateID uint64
}

func (r *Region) clone() Region {
	c := *r
	c.Peers = append([]Peer(nil), r.Peers...)
	c.Pending = append([]uint64(nil), r.Pending...)
	c.Down = append([]uint64(nil), r.Down...)
	return c
}

func (r *Region) peer(id uint64) *Peer {
	for i := range r.Peers {
		if r.Peers[i].ID == id {
			return &r.Peers[i]
		}
	}
	return nil
}

func (r *Region) leaderStore() uint64 {
	if p := r.peer(r.Leader); p != nil {
		return p.Store
	}
	return 0
}

func (r *Region) voters() int {
	n := 0
	for _, p := range r.Peers {
		if !p.Learner {
			n++
		}
	}
	return n
}

func (r *Region) hasStore(s uint64) bool {
	for _, p := range r.Peers {
		if p.Store == s {
			return true
		}
	}
	return false
}

// Snapshot is one heartbeat a region leader sends: a copy of the region state at emission time.
type Snapshot struct {
	Seq        int    // global emission order = ground-truth time order
	Step       int    // index of the world event after which it was taken (0 = initial layout)
	Cause      string // event that triggered it
	R          Region
	ReportTerm bool // false: an old store that does not report the raft term (term 0 on the wire)
	// NilSpelling: empty keys and empty peer lists are sent as nil instead of empty slices (the two
	// spellings mean the same on the wire and must be treated alike)
	NilSpelling bool
}

// WireTerm is the term as it appears in the heartbeat.
func (s *Snapshot) WireTerm() uint64 {
	if s.ReportTerm {
		return s.R.Term
	}
	return 0
}

// Request builds a fresh heartbeat request (no object is shared between two calls).
func (s *Snapshot) Request() *pdpb.RegionHeartbeatRequest {
	r := &s.R
	meta := &metapb.Region{Id: r.ID, StartKey: []byte(r.Start), EndKey: []byte(r.End),
		RegionEpoch: &metapb.RegionEpoch{ConfVer: r.ConfVer, Version: r.Version}}
	if s.NilSpelling {
		if r.Start == "" {
			meta.StartKey = nil
		}
		if r.End == "" {
			meta.EndKey = nil
		}
	}
	var leader *metapb.Peer
	byID := map[uint64]*metapb.Peer{}
	for _, p := range r.Peers {
		mp := &metapb.Peer{Id: p.ID, StoreId: p.Store}
		if p.Learner {
			mp.Role = metapb.PeerRole_Learner
		}
		meta.Peers = append(meta.Peers, mp)
		byID[p.ID] = mp
		if p.ID == r.Leader {
			leader = &metapb.Peer{Id: p.ID, StoreId: p.Store}
		}
	}
	req := &pdpb.RegionHeartbeatRequest{
		Region: meta, Leader: leader, Term: s.WireTerm(),
		ApproximateSize: uint64(r.SizeMB) << 20, ApproximateKeys: uint64(r.Keys),
		BytesWritten: r.Written, BytesRead: r.Read, KeysWritten: r.Written / 64, KeysRead: r.Read / 64,
		Interval: &pdpb.TimeInterval{StartTimestamp: uint64(s.Seq) * 10, EndTimestamp: uint64(s.Seq)*10 + 10},
	}
	if r.ReplState != 0 {
		req.ReplicationStatus = &replication_modepb.RegionReplicationStatus{State: replication_modepb.RegionReplicationState(r.ReplState), StateId: r.ReplStateID}
	}
	if !s.NilSpelling {
		req.PendingPeers, req.DownPeers = []*metapb.Peer{}, []*pdpb.PeerStats{}
	}
	for _, id := range r.Pending {
		if mp := byID[id]; mp != nil {
			req.PendingPeers = append(req.PendingPeers, &metapb.Peer{Id: mp.Id, StoreId: mp.StoreId, Role: mp.Role})
		}
	}
	for _, id := range r.Down {
		if mp := byID[id]; mp != nil {
			req.DownPeers = append(req.DownPeers, &pdpb.PeerStats{Peer: &metapb.Peer{Id: mp.Id, StoreId: mp.StoreId, Role: mp.Role}, DownSeconds: 30})
		}
	}
	return req
}

// Info builds the RegionInfo PD's heartbeat handler would build from the request.
func (s *Snapshot) Info() *core.RegionInfo { return core.RegionFromHeartbeat(s.Request()) }

// Describe renders the snapshot for witnesses (keys quoted, so binary keys stay readable).
func (s *Snapshot) Describe() map[string]interface{} {
	r := &s.R
	return map[string]interface{}{
		"seq": s.Seq, "step": s.Step, "cause": s.Cause, "id": r.ID,
		"range":   fmt.Sprintf("[%q,%q)", r.Start, r.End),
		"version": r.Version, "conf_ver": r.ConfVer, "term_on_wire": s.WireTerm(),
		"leader_peer": r.Leader, "leader_store": r.leaderStore(), "peers": r.Peers,
		"size_mb": r.SizeMB, "written": r.Written, "read": r.Read, "pending": r.Pending, "down": r.Down,
	}
}

// Short is a one-line rendering.
func (s *Snapshot) Short() string {
	r := &s.R
	return fmt.Sprintf("#%d id=%d [%q,%q) v%d c%d t%d ldr=%d (%s)", s.Seq, r.ID, r.Start, r.End, r.Version, r.ConfVer, s.WireTerm(), r.Leader, s.Cause)
}

// Term reporting modes.
const (
	TermAll   = 0 // every store reports the term
	TermNone  = 1 // no store reports it
	TermMixed = 2 // stores with an even id do not report it
)

// Config parameterises a world.
type Config struct {
	Alphabet       []string // sorted, distinct, non-empty candidate split keys
	InitialRegions int
	MaxRegions     int
	Stores         int
	Replicas       int
	IDBase         uint64 // ids are allocated from IDBase+1 upwards
	VersionBase    uint64 // initial versions are VersionBase+1..VersionBase+3
	TermMode       int
	NoRangeChange  bool // no split / merge: the partition stays fixed
	EmitP          float64
}

// Event is one ground-truth event (for witnesses / evidence).
type Event struct {
	Step int    `json:"step"`
	Kind string `json:"kind"`
	What string `json:"what"`
}

// World is the ground truth.
type World struct {
	Cfg     Config
	rng     *rand.Rand
	regions []*Region // sorted by Start
	nextID  uint64
	step    int
	Emitted []*Snapshot
	Events  []Event
	Kinds   map[string]int
	dead    map[uint64]bool
}

// MakeAlphabet returns n distinct non-empty keys in byte order. Keys have different lengths and
// contain 0x00 / 0xff bytes so that byte-wise ordering (not length or text ordering) matters.
func MakeAlphabet(rng *rand.Rand, n int) []string {
	syms := []byte{0x00, 'a', 'b', 'c', 'd', 'e', 'f', 'g', 'h', 0xff}
	set := map[string]bool{}
	for len(set) < n {
		l := 1 + rng.Intn(3)
		b := make([]byte, l)
		for i := range b {
			b[i] = syms[rng.Intn(len(syms))]
		}
		set[string(b)] = true
	}
	out := make([]string, 0, n)
	for k := range set {
		out = append(out, k)
	}
	sort.Strings(out)
	return out
}

// MakeNumericAlphabet returns n distinct keys of the form "r<decimal>" in byte order. Many of them are
// prefixes of each other (r1, r10, r100, r1000): byte order differs from numeric order, and a scan
// cursor or range end built from a key must not swallow the keys it is a prefix of. A few keys with
// 0x00 / 0xff tails are mixed in.
func MakeNumericAlphabet(rng *rand.Rand, n int) []string {
	set := map[string]bool{}
	for i := 1; len(set) < n && i <= 9; i++ { // r1 .. r9 and their powers of ten
		for p, v := 0, i; p < 6 && len(set) < n; p, v = p+1, v*10 {
			set[fmt.Sprintf("r%d", v)] = true
		}
	}
	for len(set) < n {
		k := fmt.Sprintf("r%d", rng.Intn(20*n)+1)
		switch rng.Intn(12) {
		case 0:
			k += "\x00"
		case 1:
			k += "\xff"
		}
		set[k] = true
	}
	out := make([]string, 0, n)
	for k := range set {
		out = append(out, k)
	}
	sort.Strings(out)
	return out
}

// New builds a world with its initial layout; every initial region emits one snapshot (step 0).
func New(rng *rand.Rand, cfg Config) *World {
	if cfg.EmitP == 0 {
		cfg.EmitP = 0.9
	}
	if cfg.Replicas > cfg.Stores {
		cfg.Replicas = cfg.Stores
	}
	w := &World{Cfg: cfg, rng: rng, nextID: cfg.IDBase, Kinds: map[string]int{}, dead: map[uint64]bool{}}
	n := cfg.InitialRegions
	if n < 1 {
		n = 1
	}
	if n > len(cfg.Alphabet)+1 {
		n = len(cfg.Alphabet) + 1
	}
	idx := rng.Perm(len(cfg.Alphabet))[:n-1]
	sort.Ints(idx)
	bounds := []string{""}
	for _, i := range idx {
		bounds = append(bounds, cfg.Alphabet[i])
	}
	bounds = append(bounds, "")
	for i := 0; i < n; i++ {
		r := &Region{ID: w.alloc(), Start: bounds[i], End: bounds[i+1],
			Version: cfg.VersionBase + 1 + uint64(rng.Intn(3)), ConfVer: 1 + uint64(rng.Intn(3)), Term: 6 + uint64(rng.Intn(3)),
			SizeMB: 1 + int64(rng.Intn(96)), Keys: int64(rng.Intn(100000))}
		for _, s := range rng.Perm(cfg.Stores)[:cfg.Replicas] {
			r.Peers = append(r.Peers, Peer{ID: w.alloc(), Store: uint64(s + 1)})
		}
		r.Leader = r.Peers[rng.Intn(len(r.Peers))].ID
		w.regions = append(w.regions, r)
	}
	for _, r := range w.regions {
		w.emit(r, "initial", 1.0)
	}
	return w
}

func (w *World) alloc() uint64 { w.nextID++; return w.nextID }

// MaxID is the largest id handed out so far.
func (w *World) MaxID() uint64 { return w.nextID }

// MaxVersion is the largest version of any live region.
func (w *World) MaxVersion() uint64 {
	var m uint64
	for _, r := range w.regions {
		if r.Version > m {
			m = r.Version
		}
	}
	return m
}

// Live returns copies of the live regions in key order.
func (w *World) Live() []Region {
	out := make([]Region, 0, len(w.regions))
	for _, r := range w.regions {
		out = append(out, r.clone())
	}
	return out
}

// Final returns one up-to-date snapshot per live region (not appended to Emitted).
func (w *World) Final() []*Snapshot {
	var out []*Snapshot
	seq := len(w.Emitted)
	for _, r := range w.regions {
		out = append(out, &Snapshot{Seq: seq, Step: w.step, Cause: "final", R: r.clone(), ReportTerm: w.reports(r)})
		seq++
	}
	return out
}

func (w *World) reports(r *Region) bool {
	switch w.Cfg.TermMode {
	case TermNone:
		return false
	case TermMixed:
		return r.leaderStore()%2 == 1
	}
	return true
}

func (w *World) emit(r *Region, cause string, p float64) {
	if p < 1 && w.rng.Float64() >= p {
		return
	}
	w.Emitted = append(w.Emitted, &Snapshot{Seq: len(w.Emitted), Step: w.step, Cause: cause, R: r.clone(), ReportTerm: w.reports(r), NilSpelling: len(w.Emitted)%3 == 0})
}

func (w *World) note(kind, format string, a ...interface{}) {
	w.Kinds[kind]++
	w.Events = append(w.Events, Event{Step: w.step, Kind: kind, What: fmt.Sprintf(format, a...)})
}

// Check verifies the ground-truth invariants; a non-nil error is a bug of the simulator.
func (w *World) Check() error {
	if len(w.regions) == 0 {
		return fmt.Errorf("no regions")
	}
	if w.regions[0].Start != "" || w.regions[len(w.regions)-1].End != "" {
		return fmt.Errorf("key space not covered at the ends")
	}
	seen := map[uint64]bool{}
	for i, r := range w.regions {
		if seen[r.ID] || w.dead[r.ID] {
			return fmt.Errorf("id %d reused", r.ID)
		}
		seen[r.ID] = true
		if i > 0 && w.regions[i-1].End != r.Start {
			return fmt.Errorf("gap/overlap between %d and %d", w.regions[i-1].ID, r.ID)
		}
		if r.End != "" && r.Start >= r.End {
			return fmt.Errorf("empty range in %d", r.ID)
		}
		if r.peer(r.Leader) == nil || r.peer(r.Leader).Learner {
			return fmt.Errorf("region %d has no voter leader", r.ID)
		}
		st := map[uint64]bool{}
		for _, p := range r.Peers {
			if st[p.Store] {
				return fmt.Errorf("region %d has two peers on store %d", r.ID, p.Store)
			}
			st[p.Store] = true
		}
	}
	return nil
}

func (w *World) innerKeys(r *Region) []string {
	var ks []string
	for _, k := range w.Cfg.Alphabet {
		if k > r.Start && (r.End == "" || k < r.End) {
			ks = append(ks, k)
		}
	}
	return ks
}

func sameStores(a, b *Region) bool {
	if len(a.Peers) != len(b.Peers) {
		return false
	}
	for _, p := range a.Peers {
		q := false
		for _, o := range b.Peers {
			if o.Store == p.Store && o.Learner == p.Learner {
				q = true
			}
		}
		if !q || p.Learner {
			return false
		}
	}
	return true
}

// Step applies one random feasible event.
func (w *World) Step() {
	w.step++
	rng := w.rng
	type cand struct {
		weight int
		f      func() bool
	}
	cands := []cand{
		{22, w.split}, {18, w.merge}, {8, w.addLearner}, {9, w.promote}, {8, w.removePeer},
		{14, w.leaderChange}, {10, w.sizeFlow}, {4, w.pendingDown}, {7, w.idle},
	}
	if w.Cfg.NoRangeChange {
		cands[0].weight, cands[1].weight = 0, 0
	}
	for try := 0; try < 20; try++ {
		tot := 0
		for _, c := range cands {
			tot += c.weight
		}
		x := rng.Intn(tot)
		for _, c := range cands {
			if x < c.weight {
				if c.f() {
					return
				}
				break
			}
			x -= c.weight
		}
	}
	w.idle()
}

// Do applies one event of the given kind to a random feasible target; false when none is feasible.
// Kinds: split merge add-learner promote remove-peer leader-change size-flow pending-down idle.
func (w *World) Do(kind string) bool {
	w.step++
	switch kind {
	case "split":
		return w.split()
	case "merge":
		return w.merge()
	case "add-learner":
		return w.addLearner()
	case "promote":
		return w.promote()
	case "remove-peer":
		return w.removePeer()
	case "leader-change":
		return w.leaderChange()
	case "size-flow":
		return w.sizeFlow()
	case "pending-down":
		return w.pendingDown()
	}
	return w.idle()
}

func (w *World) pick() (int, *Region) {
	i := w.rng.Intn(len(w.regions))
	return i, w.regions[i]
}

func (w *World) split() bool {
	if len(w.regions) >= w.Cfg.MaxRegions {
		return false
	}
	// choose a splittable region
	order := w.rng.Perm(len(w.regions))
	for _, i := range order {
		r := w.regions[i]
		ks := w.innerKeys(r)
		if len(ks) == 0 {
			continue
		}
		n := 1
		if w.rng.Intn(4) == 0 {
			n += 1 + w.rng.Intn(2)
		}
		if n > len(ks) {
			n = len(ks)
		}
		if len(w.regions)+n > w.Cfg.MaxRegions {
			n = w.Cfg.MaxRegions - len(w.regions)
		}
		sel := w.rng.Perm(len(ks))[:n]
		sort.Ints(sel)
		bounds := []string{r.Start}
		for _, j := range sel {
			bounds = append(bounds, ks[j])
		}
		bounds = append(bounds, r.End)
		rightDerive := w.rng.Intn(2) == 0
		keep := 0
		if rightDerive {
			keep = n
		}
		newVersion := r.Version + uint64(n)
		pieces := make([]*Region, n+1)
		parent := r.clone()
		for p := 0; p <= n; p++ {
			if p == keep {
				r.Start, r.End, r.Version = bounds[p], bounds[p+1], newVersion
				r.SizeMB = 1 + parent.SizeMB/int64(n+1)
				r.Keys = parent.Keys / int64(n+1)
				pieces[p] = r
				continue
			}
			c := &Region{ID: w.alloc(), Start: bounds[p], End: bounds[p+1], Version: newVersion, ConfVer: parent.ConfVer,
				Term: 5 + uint64(w.rng.Intn(3)), SizeMB: 1 + parent.SizeMB/int64(n+1), Keys: parent.Keys / int64(n+1)}
			for _, pp := range parent.Peers {
				np := Peer{ID: w.alloc(), Store: pp.Store, Learner: pp.Learner}
				c.Peers = append(c.Peers, np)
				if pp.ID == parent.Leader {
					c.Leader = np.ID
				}
			}
			pieces[p] = c
		}
		rest := append([]*Region(nil), w.regions[i+1:]...)
		w.regions = append(append(w.regions[:i:i], pieces...), rest...)
		dir := "left-derive"
		if rightDerive {
			dir = "right-derive"
		}
		w.note("split:"+dir, "region %d [%q,%q) v%d into %d pieces at %q, id kept by piece %d", parent.ID, parent.Start, parent.End, parent.Version, n+1, bounds[1:len(bounds)-1], keep)
		for _, p := range w.rng.Perm(len(pieces)) {
			w.emit(pieces[p], "split", w.Cfg.EmitP)
		}
		return true
	}
	return false
}

func (w *World) merge() bool {
	if len(w.regions) < 2 {
		return false
	}
	order := w.rng.Perm(len(w.regions) - 1)
	for _, i := range order {
		a, b := w.regions[i], w.regions[i+1]
		if !sameStores(a, b) {
			continue
		}
		src, dst := a, b
		if w.rng.Intn(2) == 0 {
			src, dst = b, a
		}
		// prepare merge
		src.Version++
		src.ConfVer++
		if w.rng.Intn(6) == 0 {
			w.emit(src, "prepare-merge", w.Cfg.EmitP)
			// rollback
			src.Version++
			w.note("merge-rollback", "region %d prepared a merge into %d and rolled back (v%d)", src.ID, dst.ID, src.Version)
			w.emit(src, "rollback-merge", w.Cfg.EmitP)
			return true
		}
		if w.rng.Intn(3) == 0 {
			w.emit(src, "prepare-merge", w.Cfg.EmitP)
		}
		v := src.Version
		if dst.Version > v {
			v = dst.Version
		}
		dst.Version = v + 1
		if src == a {
			dst.Start = a.Start
		} else {
			dst.End = b.End
		}
		dst.SizeMB += src.SizeMB
		dst.Keys += src.Keys
		w.dead[src.ID] = true
		w.regions = append(w.regions[:i:i], append([]*Region{dst}, w.regions[i+2:]...)...)
		w.note("merge", "region %d merged into %d, now [%q,%q) v%d", src.ID, dst.ID, dst.Start, dst.End, dst.Version)
		w.emit(dst, "merge", w.Cfg.EmitP)
		return true
	}
	return false
}

func (w *World) addLearner() bool {
	_, r := w.pick()
	if len(r.Peers) >= w.Cfg.Stores || len(r.Peers) >= w.Cfg.Replicas+2 {
		return false
	}
	var free []uint64
	for s := uint64(1); s <= uint64(w.Cfg.Stores); s++ {
		if !r.hasStore(s) {
			free = append(free, s)
		}
	}
	if len(free) == 0 {
		return false
	}
	p := Peer{ID: w.alloc(), Store: free[w.rng.Intn(len(free))], Learner: true}
	r.Peers = append(r.Peers, p)
	r.ConfVer++
	if w.rng.Intn(2) == 0 {
		r.Pending = append(r.Pending, p.ID)
	}
	w.note("add-learner", "region %d + learner %d on store %d (c%d)", r.ID, p.ID, p.Store, r.ConfVer)
	w.emit(r, "add-learner", w.Cfg.EmitP)
	return true
}

func (w *World) promote() bool {
	for _, i := range w.rng.Perm(len(w.regions)) {
		r := w.regions[i]
		for k := range r.Peers {
			if r.Peers[k].Learner {
				r.Peers[k].Learner = false
				r.ConfVer++
				r.Pending = remove(r.Pending, r.Peers[k].ID)
				w.note("promote", "region %d learner %d promoted (c%d)", r.ID, r.Peers[k].ID, r.ConfVer)
				w.emit(r, "promote", w.Cfg.EmitP)
				return true
			}
		}
	}
	return false
}

func remove(l []uint64, id uint64) []uint64 {
	var out []uint64
	for _, x := range l {
		if x != id {
			out = append(out, x)
		}
	}
	return out
}

func (w *World) removePeer() bool {
	_, r := w.pick()
	var cands []int
	for k, p := range r.Peers {
		if p.ID == r.Leader {
			continue
		}
		if !p.Learner && r.voters() <= 2 {
			continue
		}
		cands = append(cands, k)
	}
	if len(cands) == 0 || len(r.Peers) <= 2 {
		return false
	}
	k := cands[w.rng.Intn(len(cands))]
	p := r.Peers[k]
	r.Peers = append(r.Peers[:k:k], r.Peers[k+1:]...)
	r.Pending = remove(r.Pending, p.ID)
	r.Down = remove(r.Down, p.ID)
	r.ConfVer++
	w.note("remove-peer", "region %d - peer %d on store %d (c%d)", r.ID, p.ID, p.Store, r.ConfVer)
	w.emit(r, "remove-peer", w.Cfg.EmitP)
	return true
}

func (w *World) leaderChange() bool {
	_, r := w.pick()
	var cands []uint64
	for _, p := range r.Peers {
		if !p.Learner && p.ID != r.Leader {
			cands = append(cands, p.ID)
		}
	}
	if len(cands) == 0 {
		return false
	}
	r.Leader = cands[w.rng.Intn(len(cands))]
	r.Term += 1 + uint64(w.rng.Intn(3))/2
	r.Down = remove(r.Down, r.Leader)
	r.Pending = remove(r.Pending, r.Leader)
	w.note("leader-change", "region %d leader -> peer %d (t%d)", r.ID, r.Leader, r.Term)
	w.emit(r, "leader-change", w.Cfg.EmitP)
	return true
}

func (w *World) sizeFlow() bool {
	_, r := w.pick()
	r.SizeMB = 1 + int64(w.rng.Intn(200))
	r.Keys = int64(w.rng.Intn(1000000))
	r.Written = uint64(w.rng.Intn(1 << 24))
	r.Read = uint64(w.rng.Intn(1 << 24))
	w.note("size-flow", "region %d size %d MB", r.ID, r.SizeMB)
	w.emit(r, "size-flow", 1.0)
	return true
}

func (w *World) pendingDown() bool {
	_, r := w.pick()
	var others []uint64
	for _, p := range r.Peers {
		if p.ID != r.Leader {
			others = append(others, p.ID)
		}
	}
	if len(others) == 0 {
		return false
	}
	id := others[w.rng.Intn(len(others))]
	switch w.rng.Intn(4) {
	case 0:
		r.Pending = append(remove(r.Pending, id), id)
	case 1:
		r.Down = append(remove(r.Down, id), id)
	case 2:
		r.Pending = remove(r.Pending, id)
	default:
		r.Down = remove(r.Down, id)
	}
	w.note("pending-down", "region %d pending=%v down=%v", r.ID, r.Pending, r.Down)
	w.emit(r, "pending-down", 1.0)
	return true
}

func (w *World) idle() bool {
	_, r := w.pick()
	w.note("idle", "region %d periodic heartbeat", r.ID)
	w.emit(r, "periodic", 1.0)
	return true
}

// Run applies n events.
func (w *World) Run(n int) {
	for i := 0; i < n; i++ {
		w.Step()
	}
}

// Delivery is one snapshot handed to PD.
type Delivery struct {
	Snap   *Snapshot
	Kind   string // "first" | "dup" | "stale"
	Stream int
	Due    int
	tie    int
}

// PlanConfig parameterises the network between the stores and PD.
type PlanConfig struct {
	Streams int
	DropP   float64 // a snapshot is never delivered
	DupP    float64 // a second copy is delivered later
	StaleP  float64 // per world step: an arbitrarily old snapshot is delivered again
}

func delay(rng *rand.Rand) int {
	x := rng.Intn(100)
	switch {
	case x < 55:
		return 0
	case x < 80:
		return 1 + rng.Intn(3)
	case x < 93:
		return 4 + rng.Intn(17)
	default:
		return 20 + rng.Intn(100)
	}
}

// Plan produces the delivery list (ordered by delivery time) from the snapshots emitted so far.
func (w *World) Plan(rng *rand.Rand, pc PlanConfig) []Delivery {
	if pc.Streams < 1 {
		pc.Streams = 1
	}
	var out []Delivery
	for _, s := range w.Emitted {
		if s.Step > 0 && rng.Float64() < pc.DropP {
			continue
		}
		d := Delivery{Snap: s, Kind: "first", Due: s.Step + delay(rng), Stream: rng.Intn(pc.Streams), tie: rng.Int()}
		out = append(out, d)
		if rng.Float64() < pc.DupP {
			out = append(out, Delivery{Snap: s, Kind: "dup", Due: d.Due + delay(rng), Stream: rng.Intn(pc.Streams), tie: rng.Int()})
		}
	}
	// stale re-deliveries: at step t any snapshot emitted before t
	firstAt := func(step int) int { // number of snapshots emitted at steps < step
		return sort.Search(len(w.Emitted), func(i int) bool { return w.Emitted[i].Step >= step })
	}
	for t := 1; t <= w.step; t++ {
		if rng.Float64() < pc.StaleP {
			n := firstAt(t)
			if n > 0 {
				out = append(out, Delivery{Snap: w.Emitted[rng.Intn(n)], Kind: "stale", Due: t, Stream: rng.Intn(pc.Streams), tie: rng.Int()})
			}
		}
	}
	sort.SliceStable(out, func(a, b int) bool {
		if out[a].Due != out[b].Due {
			return out[a].Due < out[b].Due
		}
		return out[a].tie < out[b].tie
	})
	return out
}
