// Package etcdx starts an embedded etcd and hands out clientv3 clients whose every unary RPC
// (Range, Txn, Put, DeleteRange, LeaseGrant, LeaseRevoke, ...) passes through an interceptor at
// the client boundary: it is logged with request/response, can be gated by a scheduler and can be
// failed before sending ("fail-before") or after the server committed it ("lost-ack").
package etcdx

import (
	"context"
	"fmt"
	"io/ioutil"
	"os"
	"strings"
	"sync"
	"time"

	"github.com/tikv/pd/pkg/etcdutil"
	"go.etcd.io/etcd/clientv3"
	"go.etcd.io/etcd/embed"
	pb "go.etcd.io/etcd/etcdserver/etcdserverpb"
	"go.etcd.io/etcd/mvcc/mvccpb"
	"google.golang.org/grpc"
	"google.golang.org/grpc/codes"
	"google.golang.org/grpc/status"
	"verif/harness/lib/hist"
)

// Etcd is one embedded single-node etcd.
type Etcd struct {
	Cfg      *embed.Config
	Server   *embed.Etcd
	Endpoint string
	Observer *clientv3.Client // un-instrumented
}

// Start boots an embedded etcd in a temp dir.
func Start() (*Etcd, error) {
	cfg := etcdutil.NewTestSingleConfig()
	cfg.Logger = "zap"
	cfg.LogOutputs = []string{os.DevNull}
	cfg.LogLevel = "error"
	cfg.Dir, _ = ioutil.TempDir("", "verif_etcd")
	e, err := embed.StartEtcd(cfg)
	if err != nil {
		return nil, err
	}
	select {
	case <-e.Server.ReadyNotify():
	case <-time.After(60 * time.Second):
		e.Close()
		return nil, fmt.Errorf("etcd did not become ready")
	}
	ep := cfg.LCUrls[0].String()
	obs, err := clientv3.New(clientv3.Config{Endpoints: []string{ep}, DialTimeout: 10 * time.Second})
	if err != nil {
		e.Close()
		return nil, err
	}
	return &Etcd{Cfg: cfg, Server: e, Endpoint: ep, Observer: obs}, nil
}

// Close stops etcd and removes its directory.
func (e *Etcd) Close() {
	if e.Observer != nil {
		e.Observer.Close()
	}
	e.Server.Close()
	os.RemoveAll(e.Cfg.Dir)
}

// FaultMode selects how an RPC is failed.
type FaultMode int

const (
	// NoFault does nothing.
	NoFault FaultMode = iota
	// FailBefore returns Unavailable without sending.
	FailBefore
	// LostAck sends, lets it commit, and returns an error.
	LostAck
	// FailBeforeFinal is FailBefore with an error code the etcd client does not retry
	// (Internal): reads failed with Unavailable or with a context error are silently retried by clientv3's own
	// retry interceptor, which sits outside this one, and never reach the caller.
	FailBeforeFinal
)

// RPC is one logged client RPC.
type RPC struct {
	Member   int      `json:"member"`
	Goid     int64    `json:"-"`
	Method   string   `json:"method"`
	Send     int64    `json:"send"`
	Ack      int64    `json:"ack"`
	Keys     []string `json:"keys,omitempty"` // keys written (Txn success ops / Put / Delete)
	Cmps     []string `json:"cmps,omitempty"`
	Reads    []string `json:"reads,omitempty"`
	Write    bool     `json:"write"`
	Succ     bool     `json:"succeeded"`
	Rev      int64    `json:"rev"`
	Err      string   `json:"err,omitempty"`
	Fault    string   `json:"fault,omitempty"`
	PutVals  []string `json:"-"`
	LeaseIDs []int64  `json:"leases,omitempty"`
}

// Client is an instrumented client of one logical member.
type Client struct {
	*clientv3.Client
	Member int

	mu      sync.Mutex
	log     []RPC
	logging bool
	// Decide is consulted (under no lock) for every write-class RPC (Txn with puts/deletes, Put,
	// DeleteRange) and for reads when FaultReads is set; it returns the fault to inject.
	Decide func(r *RPC) FaultMode
	// After, when non-nil, is called synchronously after an RPC completed at the server (before
	// the reply is handed back to pd): "the write is durable, the process has not seen the ack yet".
	After func(r *RPC)
	// Gate / Done hooks for the scheduler (kind = method, key = first key touched).
	Gate func(kind, key string)
	Done func(kind, key string)
}

// NewClient returns an instrumented client for member id.
func (e *Etcd) NewClient(member int) (*Client, error) {
	c := &Client{Member: member, logging: true}
	cli, err := clientv3.New(clientv3.Config{
		Endpoints:   []string{e.Endpoint},
		DialTimeout: 10 * time.Second,
		DialOptions: []grpc.DialOption{grpc.WithChainUnaryInterceptor(c.intercept)},
	})
	if err != nil {
		return nil, err
	}
	c.Client = cli
	return c, nil
}

// Log returns a copy of the RPC log.
func (c *Client) Log() []RPC { c.mu.Lock(); defer c.mu.Unlock(); return append([]RPC(nil), c.log...) }

// ResetLog clears the RPC log.
func (c *Client) ResetLog() { c.mu.Lock(); c.log = nil; c.mu.Unlock() }

// SetLogging toggles logging.
func (c *Client) SetLogging(b bool) { c.mu.Lock(); c.logging = b; c.mu.Unlock() }

func short(m string) string {
	if i := strings.LastIndex(m, "/"); i >= 0 {
		return m[i+1:]
	}
	return m
}

func describe(r *RPC, req interface{}) {
	switch q := req.(type) {
	case *pb.TxnRequest:
		for _, c := range q.Compare {
			r.Cmps = append(r.Cmps, fmt.Sprintf("%s %s %s", string(c.Key), c.Target.String(), c.Result.String()))
		}
		for _, op := range q.Success {
			if p := op.GetRequestPut(); p != nil {
				r.Keys = append(r.Keys, string(p.Key))
				r.PutVals = append(r.PutVals, string(p.Value))
				r.LeaseIDs = append(r.LeaseIDs, p.Lease)
				r.Write = true
			}
			if d := op.GetRequestDeleteRange(); d != nil {
				r.Keys = append(r.Keys, string(d.Key))
				r.Write = true
			}
			if g := op.GetRequestRange(); g != nil {
				r.Reads = append(r.Reads, string(g.Key))
			}
		}
		for _, op := range q.Failure {
			if p := op.GetRequestPut(); p != nil {
				r.Write = true
				_ = p
			}
			if g := op.GetRequestRange(); g != nil {
				r.Reads = append(r.Reads, string(g.Key))
			}
		}
	case *pb.PutRequest:
		r.Keys = append(r.Keys, string(q.Key))
		r.PutVals = append(r.PutVals, string(q.Value))
		r.LeaseIDs = append(r.LeaseIDs, q.Lease)
		r.Write = true
	case *pb.DeleteRangeRequest:
		r.Keys = append(r.Keys, string(q.Key))
		r.Write = true
	case *pb.RangeRequest:
		r.Reads = append(r.Reads, string(q.Key))
	case *pb.LeaseRevokeRequest:
		r.LeaseIDs = append(r.LeaseIDs, q.ID)
	}
}

func (r *RPC) firstKey() string {
	if len(r.Keys) > 0 {
		return r.Keys[0]
	}
	if len(r.Reads) > 0 {
		return r.Reads[0]
	}
	return ""
}

func (c *Client) intercept(ctx context.Context, method string, req, reply interface{}, cc *grpc.ClientConn, invoker grpc.UnaryInvoker, opts ...grpc.CallOption) error {
	r := RPC{Member: c.Member, Method: short(method), Goid: hist.Goid()}
	describe(&r, req)
	gated := r.Method == "Txn" || r.Method == "Range" || r.Method == "Put" || r.Method == "DeleteRange"
	if c.Gate != nil && gated {
		c.Gate(r.Method, r.firstKey())
	}
	mode := NoFault
	if c.Decide != nil && (r.Write || r.Method == "Range") {
		mode = c.Decide(&r)
	}
	if mode == FailBefore && !r.Write {
		// a read failed with Unavailable never reaches the caller (clientv3 retries it)
		mode = FailBeforeFinal
	}
	r.Send = hist.Tick()
	var err error
	switch mode {
	case FailBefore:
		r.Fault = "fail-before"
		err = status.Error(codes.Unavailable, "etcdx: injected failure before send")
	case FailBeforeFinal:
		r.Fault = "fail-before-final"
		err = status.Error(codes.Internal, "etcdx: injected failure before send (not retried)")
	case LostAck:
		r.Fault = "lost-ack"
		err = invoker(ctx, method, req, reply, cc, opts...)
		if err == nil {
			fill(&r, reply)
			err = status.Error(codes.Unavailable, "etcdx: injected lost acknowledgement")
		}
	default:
		err = invoker(ctx, method, req, reply, cc, opts...)
		if err == nil {
			fill(&r, reply)
		}
	}
	r.Ack = hist.Tick()
	if err != nil {
		r.Err = err.Error()
	}
	c.mu.Lock()
	if c.logging {
		c.log = append(c.log, r)
	}
	c.mu.Unlock()
	if c.After != nil {
		c.After(&r)
	}
	if c.Done != nil && gated {
		c.Done(r.Method, r.firstKey())
	}
	return err
}

func fill(r *RPC, reply interface{}) {
	switch p := reply.(type) {
	case *pb.TxnResponse:
		r.Succ = p.Succeeded
		if p.Header != nil {
			r.Rev = p.Header.Revision
		}
	case *pb.PutResponse:
		r.Succ = true
		if p.Header != nil {
			r.Rev = p.Header.Revision
		}
	case *pb.DeleteRangeResponse:
		r.Succ = true
		if p.Header != nil {
			r.Rev = p.Header.Revision
		}
	case *pb.RangeResponse:
		r.Succ = true
		if p.Header != nil {
			r.Rev = p.Header.Revision
		}
	case *pb.LeaseGrantResponse:
		r.Succ = true
		r.LeaseIDs = append(r.LeaseIDs, p.ID)
	}
}

// WatchEvent is one committed change seen by the observer.
type WatchEvent struct {
	Key    string `json:"key"`
	Value  string `json:"-"`
	Hex    string `json:"value_hex,omitempty"`
	Delete bool   `json:"delete,omitempty"`
	Rev    int64  `json:"rev"`
	Lease  int64  `json:"lease,omitempty"`
	Create int64  `json:"create_rev,omitempty"`
	Tick   int64  `json:"tick"` // logical tick at which the observer learned of it
}

// Watcher collects the totally ordered committed changes under a prefix.
type Watcher struct {
	mu     sync.Mutex
	evs    []WatchEvent
	cancel context.CancelFunc
	done   chan struct{}
}

// Watch starts watching prefix from the revision current now (+1).
func (e *Etcd) Watch(prefix string) *Watcher {
	ctx, cancel := context.WithCancel(context.Background())
	w := &Watcher{cancel: cancel, done: make(chan struct{})}
	resp, err := e.Observer.Get(ctx, "\x00")
	rev := int64(1)
	if err == nil {
		rev = resp.Header.Revision + 1
	}
	ch := e.Observer.Watch(ctx, prefix, clientv3.WithPrefix(), clientv3.WithRev(rev))
	go func() {
		defer close(w.done)
		for wr := range ch {
			w.mu.Lock()
			for _, ev := range wr.Events {
				we := WatchEvent{Key: string(ev.Kv.Key), Value: string(ev.Kv.Value), Rev: ev.Kv.ModRevision,
					Lease: ev.Kv.Lease, Create: ev.Kv.CreateRevision, Delete: ev.Type == mvccpb.DELETE, Tick: hist.Tick()}
				we.Hex = fmt.Sprintf("%x", ev.Kv.Value)
				w.evs = append(w.evs, we)
			}
			w.mu.Unlock()
		}
	}()
	return w
}

// Events returns the events seen so far.
func (w *Watcher) Events() []WatchEvent {
	w.mu.Lock()
	defer w.mu.Unlock()
	return append([]WatchEvent(nil), w.evs...)
}

// History returns, in revision order, every committed change of keys under prefix with
// mod revision >= fromRev (fromRev <= 1 means from the beginning). Completeness is decided by a
// sentinel write: all events with a smaller revision have been delivered when it shows up.
func (e *Etcd) History(prefix string, fromRev int64) ([]WatchEvent, error) {
	if fromRev < 1 {
		fromRev = 1
	}
	ctx, cancel := context.WithTimeout(context.Background(), 60*time.Second)
	defer cancel()
	sent := fmt.Sprintf("/verif-sentinel/%d", hist.Tick())
	pr, err := e.Observer.Put(ctx, sent, "x")
	if err != nil {
		return nil, err
	}
	sentRev := pr.Header.Revision
	ch := e.Observer.Watch(ctx, "\x00", clientv3.WithFromKey(), clientv3.WithRev(fromRev))
	var out []WatchEvent
	for wr := range ch {
		if wr.Err() != nil {
			return out, wr.Err()
		}
		for _, ev := range wr.Events {
			k := string(ev.Kv.Key)
			if ev.Kv.ModRevision >= sentRev {
				return out, nil
			}
			if strings.HasPrefix(k, prefix) {
				out = append(out, WatchEvent{Key: k, Value: string(ev.Kv.Value), Hex: fmt.Sprintf("%x", ev.Kv.Value), Rev: ev.Kv.ModRevision,
					Lease: ev.Kv.Lease, Create: ev.Kv.CreateRevision, Delete: ev.Type == mvccpb.DELETE})
			}
		}
	}
	return out, fmt.Errorf("watch closed before sentinel")
}

// Stop ends the watch.
func (w *Watcher) Stop() { w.cancel(); <-w.done }
