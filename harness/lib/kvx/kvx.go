// Package kvx wraps a kv.Base: every operation is logged, can be gated by a scheduler, and the
// k-th write can be failed either before it reaches the store ("fail-before") or after it was
// applied ("lost-ack").
package kvx

import (
	"errors"
	"sync"

	"github.com/tikv/pd/server/kv"
	"verif/harness/lib/hist"
)

// Event is one logged storage operation.
type Event struct {
	Seq    int64  `json:"seq"`
	Goid   int64  `json:"goid"`
	Kind   string `json:"kind"` // Load LoadRange Save Remove
	Key    string `json:"key"`
	Value  string `json:"value,omitempty"`
	Err    string `json:"err,omitempty"`
	Fault  string `json:"fault,omitempty"`
	Result string `json:"result,omitempty"`
}

// ErrInjected is returned for injected faults.
var ErrInjected = errors.New("kvx: injected storage failure")

// FaultMode selects how a write fails.
type FaultMode int

const (
	// NoFault does nothing.
	NoFault FaultMode = iota
	// FailBefore returns an error without applying the write.
	FailBefore
	// LostAck applies the write and returns an error.
	LostAck
)

// KV is the wrapper.
type KV struct {
	Inner kv.Base

	mu       sync.Mutex
	log      []Event
	logging  bool
	writes   int64 // number of Save/Remove seen since ResetFaults
	failAt   int64 // 1-based index of the write to fail; 0 = none
	failMode FaultMode
	failAll  bool
	failKey  func(kind, key string) bool
	injected int64

	// Gate, when non-nil, is called before every operation (outside the wrapper's lock) and
	// Done after it; used by the gate scheduler.
	Gate func(kind, key string)
	Done func(kind, key string)
	// LoadRangeLimitBytes emulates a response size limit (error when exceeded); 0 = off.
	LoadRangeLimitBytes int
}

// New wraps inner.
func New(inner kv.Base) *KV { return &KV{Inner: inner, logging: true} }

// SetLogging switches event logging.
func (k *KV) SetLogging(b bool) { k.mu.Lock(); k.logging = b; k.mu.Unlock() }

// Log returns a copy of the event log.
func (k *KV) Log() []Event { k.mu.Lock(); defer k.mu.Unlock(); return append([]Event(nil), k.log...) }

// ResetLog clears the log.
func (k *KV) ResetLog() { k.mu.Lock(); k.log = nil; k.mu.Unlock() }

// Writes returns the number of writes seen since the last ResetFaults.
func (k *KV) Writes() int64 { k.mu.Lock(); defer k.mu.Unlock(); return k.writes }

// Injected returns the number of injected faults since the last ResetFaults.
func (k *KV) Injected() int64 { k.mu.Lock(); defer k.mu.Unlock(); return k.injected }

// ResetFaults clears the write counter and the fault plan.
func (k *KV) ResetFaults() {
	k.mu.Lock()
	k.writes, k.failAt, k.failMode, k.failAll, k.failKey, k.injected = 0, 0, NoFault, false, nil, 0
	k.mu.Unlock()
}

// FailWrite plans a fault at the n-th write (1-based) from now.
func (k *KV) FailWrite(n int64, mode FaultMode) {
	k.mu.Lock()
	k.writes, k.failAt, k.failMode, k.failAll, k.injected = 0, n, mode, false, 0
	k.mu.Unlock()
}

// FailAllWrites makes every write fail (optionally only those selected by sel).
func (k *KV) FailAllWrites(mode FaultMode, sel func(kind, key string) bool) {
	k.mu.Lock()
	k.writes, k.failAt, k.failMode, k.failAll, k.failKey, k.injected = 0, 0, mode, true, sel, 0
	k.mu.Unlock()
}

func (k *KV) record(e Event) {
	k.mu.Lock()
	if k.logging {
		e.Seq = hist.Tick()
		k.log = append(k.log, e)
	}
	k.mu.Unlock()
}

func (k *KV) planWrite(kind, key string) FaultMode {
	k.mu.Lock()
	defer k.mu.Unlock()
	k.writes++
	if k.failAll {
		if k.failKey == nil || k.failKey(kind, key) {
			k.injected++
			return k.failMode
		}
		return NoFault
	}
	if k.failAt != 0 && k.writes == k.failAt {
		k.injected++
		return k.failMode
	}
	return NoFault
}

func errStr(err error) string {
	if err == nil {
		return ""
	}
	return err.Error()
}

// Load implements kv.Base.
func (k *KV) Load(key string) (string, error) {
	if k.Gate != nil {
		k.Gate("Load", key)
	}
	v, err := k.Inner.Load(key)
	k.record(Event{Goid: hist.Goid(), Kind: "Load", Key: key, Result: v, Err: errStr(err)})
	if k.Done != nil {
		k.Done("Load", key)
	}
	return v, err
}

// LoadRange implements kv.Base.
func (k *KV) LoadRange(key, endKey string, limit int) ([]string, []string, error) {
	if k.Gate != nil {
		k.Gate("LoadRange", key)
	}
	ks, vs, err := k.Inner.LoadRange(key, endKey, limit)
	if err == nil && k.LoadRangeLimitBytes > 0 {
		n := 0
		for i := range ks {
			n += len(ks[i]) + len(vs[i])
		}
		if n > k.LoadRangeLimitBytes {
			ks, vs, err = nil, nil, errors.New("rpc error: code = ResourceExhausted desc = grpc: received message larger than max (kvx emulation)")
		}
	}
	k.record(Event{Goid: hist.Goid(), Kind: "LoadRange", Key: key, Value: endKey, Err: errStr(err)})
	if k.Done != nil {
		k.Done("LoadRange", key)
	}
	return ks, vs, err
}

// Save implements kv.Base.
func (k *KV) Save(key, value string) error {
	if k.Gate != nil {
		k.Gate("Save", key)
	}
	var err error
	mode := k.planWrite("Save", key)
	fault := ""
	switch mode {
	case FailBefore:
		err, fault = ErrInjected, "fail-before"
	case LostAck:
		err = k.Inner.Save(key, value)
		if err == nil {
			err = ErrInjected
		}
		fault = "lost-ack"
	default:
		err = k.Inner.Save(key, value)
	}
	k.record(Event{Goid: hist.Goid(), Kind: "Save", Key: key, Value: value, Err: errStr(err), Fault: fault})
	if k.Done != nil {
		k.Done("Save", key)
	}
	return err
}

// Remove implements kv.Base.
func (k *KV) Remove(key string) error {
	if k.Gate != nil {
		k.Gate("Remove", key)
	}
	var err error
	mode := k.planWrite("Remove", key)
	fault := ""
	switch mode {
	case FailBefore:
		err, fault = ErrInjected, "fail-before"
	case LostAck:
		err = k.Inner.Remove(key)
		if err == nil {
			err = ErrInjected
		}
		fault = "lost-ack"
	default:
		err = k.Inner.Remove(key)
	}
	k.record(Event{Goid: hist.Goid(), Kind: "Remove", Key: key, Err: errStr(err), Fault: fault})
	if k.Done != nil {
		k.Done("Remove", key)
	}
	return err
}

// Dump returns the whole content of the wrapped store (un-gated, un-logged).
func (k *KV) Dump() map[string]string {
	out := map[string]string{}
	start := ""
	for {
		ks, vs, err := k.Inner.LoadRange(start, "\xff\xff\xff\xff", 10000)
		if err != nil || len(ks) == 0 {
			break
		}
		for i := range ks {
			out[ks[i]] = vs[i]
		}
		if len(ks) < 10000 {
			break
		}
		start = ks[len(ks)-1] + "\x00"
	}
	return out
}

// Restore replaces the content of the wrapped store by snap (un-gated, un-logged).
func (k *KV) Restore(snap map[string]string) {
	cur := k.Dump()
	for key := range cur {
		if _, ok := snap[key]; !ok {
			k.Inner.Remove(key)
		}
	}
	for key, v := range snap {
		if cur[key] != v || cur[key] == "" {
			k.Inner.Save(key, v)
		}
	}
}
