// Package tsow builds "members" at component level on one shared embedded etcd: each member is a
// real member.Member (election.Leadership on the PD leader key) + tso.AllocatorManager with its
// Global allocator, using an instrumented etcd client, so that campaigns, window saves and resets
// are driven and observed directly by the harness (no server loops, no timers of pd's own).
package tsow

import (
	"context"
	"encoding/binary"
	"fmt"
	"path"
	"sync"
	"time"

	"github.com/pingcap/failpoint"
	"github.com/pingcap/kvproto/pkg/pdpb"
	"github.com/tikv/pd/pkg/typeutil"
	"github.com/tikv/pd/server/config"
	"github.com/tikv/pd/server/member"
	"github.com/tikv/pd/server/tso"
	"go.etcd.io/etcd/clientv3"
	"verif/harness/lib/etcdx"
	"verif/harness/lib/hist"
	"verif/harness/lib/tsochk"
)

// Member is one contender.
type Member struct {
	Idx   int
	Gen   int // restart generation
	Cl    *etcdx.Client
	M     *member.Member
	AM    *tso.AllocatorManager
	Alloc tso.Allocator

	w          *World
	keepCancel context.CancelFunc
	ctx        context.Context
	cancel     context.CancelFunc
}

// World is one etcd root path with several members.
type World struct {
	E              *etcdx.Etcd
	Root           string
	SaveInterval   time.Duration
	UpdateInterval time.Duration
	MaxResetGap    time.Duration
	Lease          int64
	Members        []*Member
	StartRev       int64

	mu       sync.Mutex
	resp     []tsochk.Resp
	borrowed bool
}

// NewWorld creates n members under root.
func NewWorld(e *etcdx.Etcd, root string, n int, saveInterval, updateInterval time.Duration) (*World, error) {
	return NewWorldWithClients(e, root, n, saveInterval, updateInterval, nil)
}

// NewWorldWithClients is NewWorld reusing already dialled instrumented clients (their logs are
// reset); such clients are not closed by Close.
func NewWorldWithClients(e *etcdx.Etcd, root string, n int, saveInterval, updateInterval time.Duration, cls []*etcdx.Client) (*World, error) {
	w := &World{E: e, Root: root, SaveInterval: saveInterval, UpdateInterval: updateInterval, MaxResetGap: 24 * time.Hour, Lease: 3}
	resp, err := e.Observer.Get(context.Background(), "\x00")
	if err != nil {
		return nil, err
	}
	w.StartRev = resp.Header.Revision + 1
	for i := 0; i < n; i++ {
		var cl *etcdx.Client
		if i < len(cls) {
			cl = cls[i]
			cl.ResetLog()
			cl.Decide, cl.After, cl.Gate, cl.Done = nil, nil, nil, nil
			w.borrowed = true
		}
		m, err := w.newMember(i, 0, cl)
		if err != nil {
			return nil, err
		}
		w.Members = append(w.Members, m)
	}
	return w, nil
}

func (w *World) newMember(idx, gen int, cl *etcdx.Client) (*Member, error) {
	var err error
	if cl == nil {
		cl, err = w.E.NewClient(idx)
		if err != nil {
			return nil, err
		}
	}
	ctx, cancel := context.WithCancel(context.Background())
	m := &Member{Idx: idx, Gen: gen, Cl: cl, w: w, ctx: ctx, cancel: cancel}
	m.M = member.NewMember(w.E.Server, cl.Client, uint64(idx+1))
	cfg := config.NewConfig()
	cfg.AdvertiseClientUrls = fmt.Sprintf("http://127.0.0.1:%d", 20000+idx)
	cfg.AdvertisePeerUrls = fmt.Sprintf("http://127.0.0.1:%d", 21000+idx)
	cfg.TSOSaveInterval = typeutil.NewDuration(w.SaveInterval)
	cfg.TSOUpdatePhysicalInterval = typeutil.NewDuration(w.UpdateInterval)
	m.M.MemberInfo(cfg, fmt.Sprintf("pd-%d", idx), w.Root)
	m.AM = tso.NewAllocatorManager(m.M, w.Root, cfg, func() time.Duration { return w.MaxResetGap })
	m.AM.SetUpAllocator(ctx, tso.GlobalDCLocation, m.M.GetLeadership())
	m.Alloc, err = m.AM.GetAllocator(tso.GlobalDCLocation)
	if err != nil {
		return nil, err
	}
	return m, nil
}

// Close releases all clients.
func (w *World) Close() {
	for _, m := range w.Members {
		m.StopKeep()
		m.cancel()
		if !w.borrowed {
			m.Cl.Close()
		}
	}
}

// TimestampKey is the etcd key of the global time window.
func (w *World) TimestampKey() string { return path.Join(w.Root, "timestamp") }

// LeaderKey is the PD leader key.
func (w *World) LeaderKey() string { return path.Join(w.Root, "leader") }

// Campaign tries to become leader; on success starts the keep-alive (if keep) and returns nil.
func (m *Member) Campaign(keep bool) error {
	if err := m.M.CampaignLeader(m.w.Lease); err != nil {
		return err
	}
	if keep {
		m.StartKeep()
	}
	return nil
}

// StartKeep starts the lease keep-alive.
func (m *Member) StartKeep() {
	m.StopKeep()
	ctx, cancel := context.WithCancel(m.ctx)
	m.keepCancel = cancel
	go m.M.KeepLeader(ctx)
}

// StopKeep stops the lease keep-alive (the lease then expires naturally).
func (m *Member) StopKeep() {
	if m.keepCancel != nil {
		m.keepCancel()
		m.keepCancel = nil
	}
}

// Resign is the orderly step-down: reset the allocator, then the leadership (lease revoked).
func (m *Member) Resign() {
	m.StopKeep()
	m.Alloc.Reset()
	m.M.ResetLeader()
}

// Restart replaces the member's objects by fresh ones on the same client ("process restart").
// The old lease is revoked through the observer so that no wall-clock wait is needed.
func (w *World) Restart(idx int) (*Member, error) {
	old := w.Members[idx]
	old.StopKeep()
	old.cancel()
	w.RevokeLeases(idx)
	m, err := w.newMember(idx, old.Gen+1, old.Cl)
	if err != nil {
		return nil, err
	}
	w.Members[idx] = m
	return m, nil
}

// RevokeLeases revokes every lease the member's client was ever granted (crash emulation).
func (w *World) RevokeLeases(idx int) {
	for _, rpc := range w.Members[idx].Cl.Log() {
		if rpc.Method == "LeaseGrant" && rpc.Err == "" {
			for _, id := range rpc.LeaseIDs {
				ctx, cancel := context.WithTimeout(context.Background(), 5*time.Second)
				w.E.Observer.Revoke(ctx, clientv3.LeaseID(id))
				cancel()
			}
		}
	}
}

// TSO issues one request on member m and records it.
func (w *World) TSO(client int, m *Member, count uint32, epoch int) (pdpb.Timestamp, error) {
	call := hist.Tick()
	ts, err := m.AM.HandleTSORequest(tso.GlobalDCLocation, count)
	r := tsochk.Resp{Client: client, Member: m.Idx*1000 + m.Gen, Count: count, Physical: ts.Physical, Logical: ts.Logical, Bits: ts.SuffixBits, Call: call, Ret: hist.Tick(), Epoch: epoch}
	if err != nil {
		r.Err = err.Error()
	}
	w.mu.Lock()
	w.resp = append(w.resp, r)
	w.mu.Unlock()
	return ts, err
}

// Responses returns the recorded responses.
func (w *World) Responses() []tsochk.Resp {
	w.mu.Lock()
	defer w.mu.Unlock()
	return append([]tsochk.Resp(nil), w.resp...)
}

// DurableBound reads the stored time window (unix nanos; 0 if absent) through the observer.
func (w *World) DurableBound() (int64, error) {
	resp, err := w.E.Observer.Get(context.Background(), w.TimestampKey())
	if err != nil {
		return 0, err
	}
	if len(resp.Kvs) == 0 {
		return 0, nil
	}
	return DecodeBound(resp.Kvs[0].Value), nil
}

// DecodeBound decodes a stored window value.
func DecodeBound(v []byte) int64 {
	if len(v) != 8 {
		return 0
	}
	return int64(binary.BigEndian.Uint64(v))
}

// Clock failpoints of the repository (effective only in a failpoint-enabled build).
const (
	fpSync   = "github.com/tikv/pd/server/tso/fallBackSync"
	fpUpdate = "github.com/tikv/pd/server/tso/fallBackUpdate"
	fpSlow   = "github.com/tikv/pd/server/tso/systemTimeSlow"
)

// Clock modes.
const (
	ClockNormal      = "normal"
	ClockFastSync    = "+1h-at-sync"
	ClockFastUpdate  = "+1h-at-update"
	ClockSlow        = "-1h"
	ClockFastAndSlow = "+1h-at-sync,-1h" // cancels at sync (0), -1h at update
)

// SetClock selects a wall-clock offset mode.
func SetClock(mode string) {
	failpoint.Disable(fpSync)
	failpoint.Disable(fpUpdate)
	failpoint.Disable(fpSlow)
	switch mode {
	case ClockFastSync:
		failpoint.Enable(fpSync, "return(true)")
	case ClockFastUpdate:
		failpoint.Enable(fpUpdate, "return(true)")
	case ClockSlow:
		failpoint.Enable(fpSlow, "return(true)")
	case ClockFastAndSlow:
		failpoint.Enable(fpSync, "return(true)")
		failpoint.Enable(fpSlow, "return(true)")
	}
}

// Populate stores n unrelated keys below the world's root the way a populated cluster has them
// (store / region / member / gc / rule metadata sort before "<root>/timestamp"; a tenth as many keys
// sort after it), so that whatever reads the root by range or by pages sees a realistic key count.
func (w *World) Populate(n int) error {
	kinds := []string{"raft/s/%020d", "raft/r/%020d", "member/%d/binary_version", "gc/safe_point/service/svc-%d", "rules/pd-%08d"}
	var ops []clientv3.Op
	flush := func() error {
		if len(ops) == 0 {
			return nil
		}
		_, err := w.E.Observer.Txn(context.Background()).Then(ops...).Commit()
		ops = ops[:0]
		return err
	}
	for i := 0; i < n+n/10; i++ {
		var k string
		if i < n {
			k = path.Join(w.Root, fmt.Sprintf(kinds[i%len(kinds)], i))
		} else {
			k = path.Join(w.Root, fmt.Sprintf("zz/%d", i))
		}
		ops = append(ops, clientv3.OpPut(k, "populated-by-the-harness"))
		if len(ops) == 100 {
			if err := flush(); err != nil {
				return err
			}
		}
	}
	return flush()
}
