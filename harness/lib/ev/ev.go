// Package ev is the evidence / violation / known-finding plumbing shared by every check binary.
//
// A check binary does:
//
//	r := ev.New("C07", "exploration")     // parses -seed -tier -out -shard -replay
//	... r.Eval(1); r.Distinct(key); r.Sample(x); r.Count("events_put", 1)
//	... r.Violation(key, what, witness)   // prints VIOLATION / KNOWN-FINDING, writes replay file
//	r.Finish()                            // writes evidence JSON, exits 0 / 1 / 2
//
// Exit codes: 0 held on everything observed, 1 violation (with a VIOLATION line), 2 inconclusive.
package ev

import (
	"encoding/json"
	"flag"
	"fmt"
	"hash/fnv"
	"io/ioutil"
	"os"
	"path/filepath"
	"sort"
	"strconv"
	"strings"
	"sync"
	"time"
)

// Finding is one entry of /verif/known_findings.json.
type Finding struct {
	Property string `json:"property"`
	Key      string `json:"key"`
	Status   string `json:"status"` // "known" | "fixed"
	Commit   string `json:"commit,omitempty"`
	What     string `json:"what"`
}

type findingsFile struct {
	Findings []Finding `json:"findings"`
}

// Run collects what one execution of a check observed.
type Run struct {
	ID     string
	Level  string
	Tier   string
	Seed   int64
	Shard  int
	Shards int
	Out    string
	Replay string
	Root   string

	start time.Time

	mu          sync.Mutex
	evaluations int64
	distinct    map[uint64]struct{}
	rule        string
	samples     []interface{}
	maxSamples  int
	counters    map[string]int64
	extra       map[string]interface{}
	assumptions []string
	exhaustive  *bool
	floorEval   int64

	violations   int
	violKeys     map[string]bool
	knownPrinted map[string]bool
	inconclusive []string
	findings     []Finding
}

// New parses the common flags and returns a Run. Extra flags may be registered before calling New.
func New(id, level string) *Run {
	r := &Run{ID: id, Level: level, start: time.Now(),
		distinct: map[uint64]struct{}{}, counters: map[string]int64{}, extra: map[string]interface{}{},
		violKeys: map[string]bool{}, knownPrinted: map[string]bool{}, maxSamples: 4, floorEval: 1}
	seedDef := int64(1)
	if s := os.Getenv("VERIF_SEED"); s != "" {
		if v, err := strconv.ParseInt(s, 10, 64); err == nil {
			seedDef = v
		}
	}
	tierDef := "quick"
	if s := os.Getenv("VERIF_TIER"); s == "quick" || s == "thorough" {
		tierDef = s
	}
	r.Root = os.Getenv("VERIF_ROOT")
	if r.Root == "" {
		r.Root = "/verif"
	}
	shard := "0/1"
	flag.Int64Var(&r.Seed, "seed", seedDef, "PRNG seed")
	flag.StringVar(&r.Tier, "tier", tierDef, "quick|thorough")
	flag.StringVar(&r.Out, "out", "", "evidence output file (default <root>/evidence/<id>.json)")
	flag.StringVar(&shard, "shard", "0/1", "shard i/n")
	flag.StringVar(&r.Replay, "replay", "", "replay file")
	flag.Parse()
	if r.Out == "" {
		r.Out = filepath.Join(r.Root, "evidence", id+".json")
	}
	if p := strings.SplitN(shard, "/", 2); len(p) == 2 {
		r.Shard, _ = strconv.Atoi(p[0])
		r.Shards, _ = strconv.Atoi(p[1])
	}
	if r.Shards < 1 {
		r.Shards = 1
	}
	if b, err := ioutil.ReadFile(filepath.Join(r.Root, "known_findings.json")); err == nil {
		var ff findingsFile
		if json.Unmarshal(b, &ff) == nil {
			for _, f := range ff.Findings {
				if f.Property == id {
					r.findings = append(r.findings, f)
				}
			}
		}
	}
	return r
}

// Thorough reports whether the thorough tier was requested.
func (r *Run) Thorough() bool { return r.Tier == "thorough" }

// Pick returns q for the quick tier and t for the thorough tier.
func (r *Run) Pick(q, t int) int {
	if r.Thorough() {
		return t
	}
	return q
}

// ShardSeed derives the seed of this shard.
func (r *Run) ShardSeed() int64 { return r.Seed*1000003 + int64(r.Shard)*7919 }

// Rule sets the text describing generation and distinctness.
func (r *Run) Rule(s string) { r.mu.Lock(); r.rule = s; r.mu.Unlock() }

// Floor sets the minimum number of evaluations below which the run is inconclusive.
func (r *Run) Floor(n int64) { r.mu.Lock(); r.floorEval = n; r.mu.Unlock() }

// Assume records an assumption.
func (r *Run) Assume(s string) { r.mu.Lock(); r.assumptions = append(r.assumptions, s); r.mu.Unlock() }

// Exhaustive marks the run as a complete enumeration of a bounded space.
func (r *Run) Exhaustive(b bool) { r.mu.Lock(); r.exhaustive = &b; r.mu.Unlock() }

// Eval counts executed cases.
func (r *Run) Eval(n int64) { r.mu.Lock(); r.evaluations += n; r.mu.Unlock() }

// Distinct records one non-trivial case by its distinguishing key.
func (r *Run) Distinct(key string) {
	h := fnv.New64a()
	h.Write([]byte(key))
	v := h.Sum64()
	r.mu.Lock()
	r.distinct[v] = struct{}{}
	r.mu.Unlock()
}

// DistinctN reports the number of distinct keys so far.
func (r *Run) DistinctN() int { r.mu.Lock(); defer r.mu.Unlock(); return len(r.distinct) }

// Sample keeps a few real cases for the evidence file.
func (r *Run) Sample(v interface{}) {
	r.mu.Lock()
	if len(r.samples) < r.maxSamples {
		r.samples = append(r.samples, v)
	}
	r.mu.Unlock()
}

// Count adds to a named counter that ends up in coverage.counters.
func (r *Run) Count(name string, n int64) { r.mu.Lock(); r.counters[name] += n; r.mu.Unlock() }

// Counter returns the value of a named counter.
func (r *Run) Counter(name string) int64 { r.mu.Lock(); defer r.mu.Unlock(); return r.counters[name] }

// Set stores an extra coverage key.
func (r *Run) Set(name string, v interface{}) { r.mu.Lock(); r.extra[name] = v; r.mu.Unlock() }

// Inconclusive records a reason why no verdict can be given.
func (r *Run) Inconclusive(format string, a ...interface{}) {
	s := fmt.Sprintf(format, a...)
	r.mu.Lock()
	r.inconclusive = append(r.inconclusive, s)
	r.mu.Unlock()
	fmt.Printf("INCONCLUSIVE property=%s %s\n", r.ID, s)
}

// Violations returns the number of (unlisted) violations so far.
func (r *Run) Violations() int { r.mu.Lock(); defer r.mu.Unlock(); return r.violations }

func (r *Run) matchFinding(key string) *Finding {
	for i := range r.findings {
		f := &r.findings[i]
		if f.Status == "known" && (f.Key == key) {
			return f
		}
	}
	return nil
}

// IsKnown reports whether key is listed as a known finding (status "known").
func (r *Run) IsKnown(key string) bool { return r.matchFinding(key) != nil }

// Violation reports a refuted oracle. key classifies the failing input / call site / history; it is
// compared with known_findings.json. witness is written to a replay file.
// Returns true when it was an unlisted violation.
func (r *Run) Violation(key, what string, witness interface{}) bool {
	r.mu.Lock()
	defer r.mu.Unlock()
	if f := r.matchFinding(key); f != nil {
		r.counters["known_finding_hits"]++
		if !r.knownPrinted[key] {
			r.knownPrinted[key] = true
			fmt.Printf("KNOWN-FINDING: property=%s %s [key=%s]\n", r.ID, f.What, key)
		}
		return false
	}
	r.violations++
	if r.violKeys[key] {
		return true
	}
	r.violKeys[key] = true
	if len(r.violKeys) > 20 {
		return true
	}
	dir := filepath.Join(r.Root, "replays")
	if d := os.Getenv("VERIF_REPLAY_DIR"); d != "" {
		dir = d
	}
	os.MkdirAll(dir, 0o755)
	name := fmt.Sprintf("%s-%s-seed%d-shard%d-%d.json", r.ID, r.Tier, r.Seed, r.Shard, len(r.violKeys))
	p := filepath.Join(dir, name)
	doc := map[string]interface{}{"property": r.ID, "tier": r.Tier, "seed": r.Seed, "shard": r.Shard,
		"shards": r.Shards, "key": key, "what": what, "witness": witness}
	b, err := json.MarshalIndent(doc, "", " ")
	if err != nil {
		b = []byte(fmt.Sprintf(`{"property":%q,"key":%q,"what":%q,"witness_error":%q}`, r.ID, key, what, err.Error()))
	}
	ioutil.WriteFile(p, b, 0o644)
	fmt.Printf("VIOLATION property=%s replay=%s\n", r.ID, p)
	fmt.Printf("  key=%s\n  what=%s\n", key, what)
	return true
}

// Finish writes the evidence file and exits.
func (r *Run) Finish() {
	code := r.write()
	os.Exit(code)
}

func (r *Run) write() int {
	r.mu.Lock()
	defer r.mu.Unlock()
	cov := map[string]interface{}{}
	for k, v := range r.extra {
		cov[k] = v
	}
	cov["evaluations"] = r.evaluations
	cov["distinct_nontrivial"] = len(r.distinct)
	cov["rule"] = r.rule
	if len(r.samples) == 0 {
		cov["samples"] = []interface{}{}
	} else {
		cov["samples"] = r.samples
	}
	cov["counters"] = r.counters
	if r.exhaustive != nil {
		cov["exhaustive"] = *r.exhaustive
	}
	if len(r.inconclusive) > 0 {
		cov["inconclusive"] = r.inconclusive
	}
	doc := map[string]interface{}{
		"property_id": r.ID, "tier": r.Tier, "seed": r.Seed, "level": r.Level,
		"coverage": cov, "assumptions": r.assumptions, "wall_s": time.Since(r.start).Seconds(),
		"violations": r.violations,
	}
	if r.assumptions == nil {
		doc["assumptions"] = []string{}
	}
	b, _ := json.MarshalIndent(doc, "", " ")
	os.MkdirAll(filepath.Dir(r.Out), 0o755)
	ioutil.WriteFile(r.Out, b, 0o644)
	// sidecar with distinct hashes so that the driver can union shards
	if r.Shards > 1 || os.Getenv("VERIF_SIDECAR") != "" {
		hs := make([]string, 0, len(r.distinct))
		for h := range r.distinct {
			hs = append(hs, strconv.FormatUint(h, 16))
		}
		sort.Strings(hs)
		ioutil.WriteFile(r.Out+".distinct", []byte(strings.Join(hs, "\n")), 0o644)
	}
	fmt.Printf("SUMMARY property=%s tier=%s seed=%d shard=%d/%d evaluations=%d distinct=%d violations=%d known_hits=%d wall=%.1fs\n",
		r.ID, r.Tier, r.Seed, r.Shard, r.Shards, r.evaluations, len(r.distinct), r.violations, r.counters["known_finding_hits"], time.Since(r.start).Seconds())
	if r.violations > 0 {
		return 1
	}
	if len(r.inconclusive) > 0 {
		return 2
	}
	if r.evaluations < r.floorEval || len(r.distinct) < 2 {
		fmt.Printf("INCONCLUSIVE property=%s observed too little: evaluations=%d (floor %d) distinct=%d\n", r.ID, r.evaluations, r.floorEval, len(r.distinct))
		return 2
	}
	return 0
}
