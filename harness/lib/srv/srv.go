// Package srv runs real pd servers in process (without the repository's `tests` package, which
// does not build offline).
package srv

import (
	"context"
	"fmt"
	"io/ioutil"
	"os"
	"sync"
	"time"

	"github.com/pingcap/check"
	"github.com/pingcap/kvproto/pkg/metapb"
	"github.com/pingcap/kvproto/pkg/pdpb"
	"github.com/pingcap/log"
	"github.com/tikv/pd/server"
	"github.com/tikv/pd/server/config"
	"go.uber.org/zap"

	// register schedulers
	_ "github.com/tikv/pd/server/schedulers"
)

var logOnce sync.Once

// Quiet silences the global pingcap/log logger and etcd's stdout logging.
func Quiet() {
	logOnce.Do(func() {
		server.EnableZap = false
		if os.Getenv("VERIF_LOG") == "" {
			lg, props, err := log.InitLogger(&log.Config{Level: "fatal", File: log.FileLogConfig{Filename: os.DevNull}})
			if err == nil {
				log.ReplaceGlobals(lg, props)
			} else {
				log.ReplaceGlobals(zap.NewNop(), nil)
			}
		}
	})
}

// Member is one running server.
type Member struct {
	Cfg    *config.Config
	Srv    *server.Server
	cancel context.CancelFunc
}

// NewConfigs returns n member configs forming one cluster. mod may adjust each config.
func NewConfigs(n int, mod func(i int, cfg *config.Config)) []*config.Config {
	c := &check.C{}
	var cfgs []*config.Config
	if n == 1 {
		cfgs = []*config.Config{server.NewTestSingleConfig(c)}
	} else {
		cfgs = server.NewTestMultiConfig(c, n)
	}
	for i, cfg := range cfgs {
		os.RemoveAll(cfg.DataDir)
		cfg.DataDir, _ = ioutil.TempDir("", "verif_pd")
		if os.Getenv("VERIF_LOG") == "" {
			cfg.Log.Level = "fatal"
			cfg.Log.File.Filename = os.DevNull
			cfg.SetupLogger()
		}
		// the test default is a 1 s leader lease; on a loaded machine (race detector, many shards)
		// the keep-alive can miss it and the member silently steps down. No check relies on natural
		// expiry of the *server's* lease (resignations revoke it), so use a generous lease.
		cfg.LeaderLease = 60
		if mod != nil {
			mod(i, cfg)
		}
	}
	Quiet()
	if os.Getenv("VERIF_LOG") == "" {
		lg, props, err := log.InitLogger(&log.Config{Level: "fatal", File: log.FileLogConfig{Filename: os.DevNull}})
		if err == nil {
			log.ReplaceGlobals(lg, props)
		}
	}
	return cfgs
}

// Start creates and runs a server from cfg.
func Start(cfg *config.Config) (*Member, error) {
	ctx, cancel := context.WithCancel(context.Background())
	s, err := server.CreateServer(ctx, cfg)
	if err != nil {
		cancel()
		return nil, err
	}
	if err = s.Run(); err != nil {
		cancel()
		return nil, err
	}
	return &Member{Cfg: cfg, Srv: s, cancel: cancel}, nil
}

// StartCluster starts all members concurrently (etcd needs a quorum to become ready).
func StartCluster(cfgs []*config.Config) ([]*Member, error) {
	ms := make([]*Member, len(cfgs))
	errs := make([]error, len(cfgs))
	var wg sync.WaitGroup
	for i := range cfgs {
		wg.Add(1)
		go func(i int) {
			defer wg.Done()
			ms[i], errs[i] = Start(cfgs[i])
		}(i)
	}
	wg.Wait()
	for _, e := range errs {
		if e != nil {
			for _, m := range ms {
				if m != nil {
					m.Close()
				}
			}
			return nil, e
		}
	}
	return ms, nil
}

// Close stops the member and removes its data dir.
func (m *Member) Close() {
	m.cancel()
	m.Srv.Close()
	os.RemoveAll(m.Cfg.DataDir)
}

// Stop stops the member but keeps its data dir (for a restart).
func (m *Member) Stop() {
	m.cancel()
	m.Srv.Close()
}

// WaitLeader waits until one of the members is PD leader and returns it.
func WaitLeader(ms []*Member, timeout time.Duration) *Member {
	deadline := time.Now().Add(timeout)
	for time.Now().Before(deadline) {
		for _, m := range ms {
			if m != nil && !m.Srv.IsClosed() && m.Srv.GetMember().IsLeader() {
				return m
			}
		}
		time.Sleep(20 * time.Millisecond)
	}
	return nil
}

// Header returns a request header for the member's cluster.
func (m *Member) Header() *pdpb.RequestHeader {
	return &pdpb.RequestHeader{ClusterId: m.Srv.ClusterID()}
}

// BootstrapReq builds a well-formed bootstrap request.
func (m *Member) BootstrapReq(storeID, regionID, peerID uint64, addr string) *pdpb.BootstrapRequest {
	return &pdpb.BootstrapRequest{
		Header: m.Header(),
		Store:  &metapb.Store{Id: storeID, Address: addr, Version: "5.0.0"},
		Region: &metapb.Region{Id: regionID, RegionEpoch: &metapb.RegionEpoch{ConfVer: 1, Version: 1},
			Peers: []*metapb.Peer{{Id: peerID, StoreId: storeID}}},
	}
}

// Bootstrap bootstraps the cluster with store 1 / region 2 / peer 3.
func (m *Member) Bootstrap() error {
	resp, err := m.Srv.Bootstrap(context.Background(), m.BootstrapReq(1, 2, 3, "mock://tikv-1"))
	if err != nil {
		return err
	}
	if resp.GetHeader().GetError() != nil {
		return fmt.Errorf("bootstrap: %v", resp.GetHeader().GetError())
	}
	return nil
}
