// C04 — Allocated ids are unique forever.
//
// Several id.NewAllocator instances share one embedded etcd; the leader record switches between
// them; instances are dropped and re-created; the window txn / read is failed before sending or
// after commit; two instances' read->txn pairs are interleaved in every order by the gate
// scheduler. Monitors: global exactly-once set of returned ids, per-instance real-time order,
// durable-bound check against the committed alloc_id history, fold of the etcd history to judge
// every successful window extension (leader record == member, previous value == what was read,
// +1000 steps). Level B: AllocID / AskBatchSplit of a real server across leader resignations.
package main

import (
	"context"
	"fmt"
	"math/rand"
	"path"
	"sort"
	"sync"
	"sync/atomic"
	"time"

	"github.com/pingcap/kvproto/pkg/pdpb"
	"github.com/tikv/pd/pkg/typeutil"
	"github.com/tikv/pd/server/id"
	"verif/harness/lib/etcdx"
	"verif/harness/lib/ev"
	"verif/harness/lib/hist"
	"verif/harness/lib/sched"
	"verif/harness/lib/srv"
)

// winStep is the window size observed at run time (stored bound after the first allocation of a
// fresh allocator); workloads place their counts around it. It is an implementation constant, not
// part of the property.
var winStep = 1000

type allocEv struct {
	Inst int    `json:"inst"` // instance number (unique over the whole world, also across "crashes")
	Mem  int    `json:"member"`
	ID   uint64 `json:"id"`
	Err  string `json:"err,omitempty"`
	Call int64  `json:"call"`
	Ret  int64  `json:"ret"`
}

type world struct {
	r      *ev.Run
	e      *etcdx.Etcd
	root   string
	cl     []*etcdx.Client // one instrumented client per member
	insts  []id.Allocator  // current instance per member
	instNo []int
	nextNo int
	mu     sync.Mutex
	evs    []allocEv
	steps  []string
	start  int64 // etcd revision at world start
}

func member(i int) string { return fmt.Sprintf("member-%d", i) }

func newWorld(r *ev.Run, e *etcdx.Etcd, n int, tag string) (*world, error) {
	w := &world{r: r, e: e, root: "/verif-c04/" + tag}
	resp, err := e.Observer.Get(context.Background(), "\x00")
	if err != nil {
		return nil, err
	}
	w.start = resp.Header.Revision + 1
	for i := 0; i < n; i++ {
		c, err := e.NewClient(i)
		if err != nil {
			return nil, err
		}
		w.cl = append(w.cl, c)
		w.insts = append(w.insts, id.NewAllocator(c.Client, w.root, member(i)))
		w.instNo = append(w.instNo, w.nextNo)
		w.nextNo++
	}
	return w, nil
}

func (w *world) close() {
	for _, c := range w.cl {
		c.Close()
	}
}

func (w *world) setLeader(i int) {
	w.e.Observer.Put(context.Background(), path.Join(w.root, "leader"), member(i))
	w.steps = append(w.steps, fmt.Sprintf("leader=%d", i))
}

func (w *world) crash(i int) {
	w.insts[i] = id.NewAllocator(w.cl[i].Client, w.root, member(i))
	w.instNo[i] = w.nextNo
	w.nextNo++
	w.steps = append(w.steps, fmt.Sprintf("crash(%d)->inst%d", i, w.instNo[i]))
}

func (w *world) alloc(i int) (uint64, error) {
	w.mu.Lock()
	a, no := w.insts[i], w.instNo[i]
	w.mu.Unlock()
	c := hist.Tick()
	v, err := a.Alloc()
	e := allocEv{Inst: no, Mem: i, ID: v, Call: c, Ret: hist.Tick()}
	if err != nil {
		e.Err = err.Error()
	}
	w.mu.Lock()
	w.evs = append(w.evs, e)
	w.mu.Unlock()
	return v, err
}

// judge runs all offline oracles over the world's recorded events and the etcd history.
func (w *world) judge(mode string, seen map[uint64]allocEv) {
	r := w.r
	wit := func(extra map[string]interface{}) map[string]interface{} {
		m := map[string]interface{}{"mode": mode, "steps": w.steps, "root": w.root}
		evs := w.evs
		if len(evs) > 400 {
			evs = evs[len(evs)-400:]
		}
		m["alloc_events_tail"] = evs
		for k, v := range extra {
			m[k] = v
		}
		return m
	}
	// 1. exactly-once
	for _, e := range w.evs {
		if e.Err != "" {
			continue
		}
		r.Count("ids_returned", 1)
		if p, dup := seen[e.ID]; dup {
			r.Violation("id-duplicate:"+mode, fmt.Sprintf("id %d returned twice (instances %d and %d)", e.ID, p.Inst, e.Inst), wit(map[string]interface{}{"first": p, "second": e}))
			return
		}
		seen[e.ID] = e
	}
	// 2. per instance real-time order
	byInst := map[int][]allocEv{}
	for _, e := range w.evs {
		if e.Err == "" {
			byInst[e.Inst] = append(byInst[e.Inst], e)
		}
	}
	for no, l := range byInst {
		type x struct {
			t    int64
			call bool
			i    int
		}
		var xs []x
		for i, e := range l {
			xs = append(xs, x{e.Call, true, i}, x{e.Ret, false, i})
		}
		sort.Slice(xs, func(a, b int) bool { return xs[a].t < xs[b].t })
		var floor uint64
		fl := make([]uint64, len(l))
		for _, q := range xs {
			if q.call {
				fl[q.i] = floor
			} else {
				if l[q.i].ID <= fl[q.i] {
					r.Violation("id-not-increasing-within-instance:"+mode, fmt.Sprintf("instance %d returned %d after %d had already been returned", no, l[q.i].ID, fl[q.i]), wit(nil))
					return
				}
				if l[q.i].ID > floor {
					floor = l[q.i].ID
				}
			}
		}
	}
	// 3+4. etcd history fold
	hs, err := w.e.History(w.root+"/", w.start)
	if err != nil {
		r.Inconclusive("history: %v", err)
		return
	}
	leaderAt := map[int64]string{} // state after revision
	allocAt := map[int64]uint64{}
	var revs []int64
	curLeader, curAlloc := "", uint64(0)
	var allocVals []uint64
	var allocRevs []int64
	for _, h := range hs {
		switch h.Key {
		case path.Join(w.root, "leader"):
			if h.Delete {
				curLeader = ""
			} else {
				curLeader = h.Value
			}
		case path.Join(w.root, "alloc_id"):
			v, _ := typeutil.BytesToUint64([]byte(h.Value))
			// the window size is an implementation constant; the property only needs the stored bound to
			// move strictly forward (a repeated or smaller bound hands a window out twice)
			if v <= curAlloc {
				r.Violation("alloc_id-not-strictly-increasing:"+mode, fmt.Sprintf("stored window bound went from %d to %d", curAlloc, v), wit(map[string]interface{}{"history": hs}))
				return
			}
			if curAlloc != 0 || len(allocVals) > 0 {
				r.Count(fmt.Sprintf("window_step_%d", v-curAlloc), 1)
			}
			curAlloc = v
			allocVals = append(allocVals, v)
			allocRevs = append(allocRevs, h.Rev)
		}
		leaderAt[h.Rev], allocAt[h.Rev] = curLeader, curAlloc
		revs = append(revs, h.Rev)
	}
	before := func(rev int64) (string, uint64) { // state just before revision rev
		i := sort.Search(len(revs), func(i int) bool { return revs[i] >= rev })
		if i == 0 {
			return "", 0
		}
		return leaderAt[revs[i-1]], allocAt[revs[i-1]]
	}
	// successful window txns from the RPC logs: (value, send tick), ownership at commit
	type win struct {
		v    uint64
		send int64
	}
	var wins []win
	for mi, c := range w.cl {
		for _, rpc := range c.Log() {
			if rpc.Method != "Txn" || len(rpc.Keys) == 0 || rpc.Keys[0] != path.Join(w.root, "alloc_id") {
				continue
			}
			r.Count("window_txns", 1)
			if !rpc.Succ {
				r.Count("window_txns_rejected_or_failed", 1)
				continue
			}
			r.Count("window_txns_committed", 1)
			v, _ := typeutil.BytesToUint64([]byte(rpc.PutVals[0]))
			wins = append(wins, win{v, rpc.Send})
			ld, prev := before(rpc.Rev)
			if ld != member(mi) {
				r.Violation("window-extended-by-non-leader:"+mode, fmt.Sprintf("member %d extended the window to %d at revision %d while the leader record was %q", mi, v, rpc.Rev, ld), wit(map[string]interface{}{"rpc": rpc, "history": hs}))
				return
			}
			if v <= prev {
				r.Violation("window-extended-from-stale-read:"+mode, fmt.Sprintf("member %d wrote bound %d at revision %d while the stored bound was already %d", mi, v, rpc.Rev, prev), wit(map[string]interface{}{"rpc": rpc, "history": hs}))
				return
			}
		}
	}
	// durable bound: for each returned id there is a committed bound >= id whose txn was sent before the return
	sort.Slice(wins, func(a, b int) bool { return wins[a].send < wins[b].send })
	for _, e := range w.evs {
		if e.Err != "" {
			continue
		}
		var best uint64
		for _, x := range wins {
			if x.send < e.Ret && x.v > best {
				best = x.v
			}
		}
		if e.ID > best {
			r.Violation("id-above-durable-bound:"+mode, fmt.Sprintf("id %d was returned although the largest bound committed by then was %d", e.ID, best), wit(map[string]interface{}{"event": e}))
			return
		}
	}
	r.Count("etcd_history_events", int64(len(hs)))
}

func (w *world) randomHistory(rng *rand.Rand) string {
	n := len(w.cl)
	shape := ""
	w.setLeader(rng.Intn(n))
	steps := 6 + rng.Intn(14)
	for s := 0; s < steps; s++ {
		switch k := rng.Intn(10); {
		case k < 5: // burst of allocs on one or several instances, around the window size
			cnt := []int{1, 3, winStep - 1, winStep, winStep + 1, 2*winStep + winStep/2, 10}[rng.Intn(7)]
			par := 1 + rng.Intn(3)
			who := rng.Intn(n)
			w.steps = append(w.steps, fmt.Sprintf("alloc(m%d x%d par%d)", who, cnt, par))
			var wg sync.WaitGroup
			for p := 0; p < par; p++ {
				wg.Add(1)
				m := who
				if p > 0 && rng.Intn(2) == 0 {
					m = rng.Intn(n)
				}
				go func(m, cnt int) {
					defer wg.Done()
					fails := 0
					for i := 0; i < cnt && fails < 3; i++ {
						if _, err := w.alloc(m); err != nil {
							fails++
						}
					}
				}(m, cnt/par+1)
			}
			wg.Wait()
			shape += "A"
		case k == 5:
			w.setLeader(rng.Intn(n))
			shape += "L"
		case k == 6:
			i := rng.Intn(n)
			w.crash(i)
			if rng.Intn(2) == 0 {
				err := w.insts[i].Rebase()
				w.steps = append(w.steps, fmt.Sprintf("rebase(%d)=%v", i, err != nil))
			}
			shape += "C"
		case k == 7:
			i := rng.Intn(n)
			err := w.insts[i].Rebase()
			w.steps = append(w.steps, fmt.Sprintf("rebase(%d) err=%v", i, err != nil))
			shape += "R"
		default: // fault on the next window txn / read of one member, then allocs that hit it
			i := rng.Intn(n)
			mode := []etcdx.FaultMode{etcdx.FailBefore, etcdx.LostAck}[rng.Intn(2)]
			onRead := rng.Intn(3) == 0
			fired := false
			var fmu sync.Mutex
			w.cl[i].Decide = func(rpc *etcdx.RPC) etcdx.FaultMode {
				fmu.Lock()
				defer fmu.Unlock()
				if fired {
					return etcdx.NoFault
				}
				if onRead && rpc.Method == "Range" || !onRead && rpc.Method == "Txn" {
					fired = true
					return mode
				}
				return etcdx.NoFault
			}
			w.crash(i) // empty window so that the next alloc needs the store
			w.steps = append(w.steps, fmt.Sprintf("fault(m%d mode=%d onRead=%v)", i, mode, onRead))
			for q := 0; q < 3; q++ {
				w.alloc(i)
			}
			w.cl[i].Decide = nil
			if fired {
				w.r.Count("faults_injected", 1)
			}
			shape += "F"
		}
	}
	return shape
}

// gated: two instances, both with an empty window, each Alloc = Range + Txn; a third worker
// switches the leader record (Put). All release orders are enumerated.
func gatedPhase(r *ev.Run, e *etcdx.Etcd) {
	variants := []struct {
		name    string
		leader0 int
		switchT int // -1 none
		// recreate: the record changes hands the way it really does: deleted (lease expiry / resign),
		// then created by the next leader
		recreate bool
	}{{"no-switch", 0, -1, false}, {"switch-0-to-1", 0, 1, false}, {"switch-1-to-0", 1, 0, false},
		{"recreate-0-to-1", 0, 1, true}, {"recreate-1-to-0", 1, 0, true}, {"recreate-0-to-0", 0, 0, true}}
	// fault dimension: the window txn of one instance fails during the race, either without being
	// sent or after it was applied ("Commit returned an error" tells the caller nothing about which).
	type gfault struct {
		name string
		mem  int
		mode etcdx.FaultMode
	}
	faults := []gfault{{"none", -1, etcdx.NoFault}, {"m0-fail-before", 0, etcdx.FailBefore}, {"m1-fail-before", 1, etcdx.FailBefore},
		{"m0-lost-ack", 0, etcdx.LostAck}, {"m1-lost-ack", 1, etcdx.LostAck}}
	cnt := 0
	for _, v := range variants {
		for _, gf := range faults {
			if !r.Thorough() {
				// quick: the complete fault dimension on two variants, a reduced one on the others
				full := v.name == "no-switch" || v.name == "switch-0-to-1"
				keep := full || gf.name == "none" || (v.name == "switch-1-to-0" && gf.name == "m0-fail-before")
				if !keep || v.name == "recreate-1-to-0" {
					continue
				}
			}
			ex := &sched.Explorer{}
			for {
				ch := ex.Next()
				if ch == nil {
					break
				}
				cnt++
				w, err := newWorld(r, e, 3, fmt.Sprintf("g%d-%d", r.Shard, cnt))
				if err != nil {
					r.Inconclusive("world: %v", err)
					return
				}
				w.setLeader(v.leader0)
				// give the bound a non-zero start in half of the variants via a normal allocation
				if cnt%2 == 0 {
					w.alloc(v.leader0)
					w.crash(v.leader0)
				}
				s := sched.New()
				for _, c := range w.cl {
					c.Gate, c.Done = s.Gate, s.Done
				}
				var injected int32
				if gf.mem >= 0 {
					gf := gf
					w.cl[gf.mem].Decide = func(rpc *etcdx.RPC) etcdx.FaultMode {
						if rpc.Method == "Txn" && rpc.Write && atomic.CompareAndSwapInt32(&injected, 0, 1) {
							return gf.mode
						}
						return etcdx.NoFault
					}
					w.steps = append(w.steps, "fault="+gf.name)
				}
				ws := []func(){func() { w.alloc(0) }, func() { w.alloc(1) }}
				if v.switchT >= 0 {
					ws = append(ws, func() {
						if v.recreate {
							w.cl[2].Delete(context.Background(), path.Join(w.root, "leader"))
						}
						w.cl[2].Put(context.Background(), path.Join(w.root, "leader"), member(v.switchT))
					})
				}
				s.Run(ws, ch)
				for _, c := range w.cl {
					c.Gate, c.Done = nil, nil
					c.Decide = nil
				}
				if atomic.LoadInt32(&injected) == 1 {
					r.Count("gated_faults_injected", 1)
				}
				ex.Advance(s)
				if s.Err != nil {
					r.Inconclusive("scheduler: %v", s.Err)
					w.close()
					return
				}
				// after the race, both instances keep allocating: duplicates would show up here
				for i := 0; i < 3; i++ {
					w.alloc(0)
					w.alloc(1)
				}
				w.steps = append(w.steps, "schedule="+s.TraceKey())
				r.Eval(1)
				r.Count("gated_schedules", 1)
				r.Distinct("gated|" + v.name + "|" + gf.name + "|" + fmt.Sprint(cnt%2) + "|" + s.TraceKey())
				if cnt == 5 {
					r.Sample(map[string]interface{}{"mode": "gated", "variant": v.name, "schedule": s.Trace, "events": w.evs})
				}
				w.judge("gated", map[uint64]allocEv{})
				w.close()
				if r.Violations() > 0 {
					return
				}
			}
		}
	}
	r.Set("gated_dfs_complete", true)
}

// flipPhase enumerates "leadership goes away and comes back" histories completely over a small
// grid: L(a) Alloc(a)xn1, L(b) Alloc(b)xn2, L(a) Alloc(a)xn3 with counts around the window size,
// with and without the protocol's Rebase when leadership is taken. The instance that gets the
// leadership back still holds (part of) its old in-memory window.
func flipPhase(r *ev.Run, e *etcdx.Etcd) {
	counts := []int{1, winStep - 1, winStep, winStep + 1, 2*winStep + 1}
	n := 0
	for _, n1 := range counts {
		for _, n2 := range counts {
			for _, n3 := range counts {
				for _, rebase := range []bool{false, true} {
					n++
					w, err := newWorld(r, e, 2, fmt.Sprintf("f%d-%d", r.Shard, n))
					if err != nil {
						r.Inconclusive("world: %v", err)
						return
					}
					burst := func(m, cnt int) {
						fails := 0
						for i := 0; i < cnt && fails < 3; i++ {
							if _, err := w.alloc(m); err != nil {
								fails++
							}
						}
						w.steps = append(w.steps, fmt.Sprintf("alloc(m%d x%d)", m, cnt))
					}
					take := func(m int) {
						w.setLeader(m)
						if rebase {
							w.insts[m].Rebase()
							w.steps = append(w.steps, fmt.Sprintf("rebase(%d)", m))
						}
					}
					take(0)
					burst(0, n1)
					take(1)
					burst(1, n2)
					take(0)
					burst(0, n3)
					burst(1, 2) // the instance that lost the record again still may serve from its window
					r.Eval(1)
					r.Count("flip_histories", 1)
					r.Distinct(fmt.Sprintf("flip|%d|%d|%d|%v", n1, n2, n3, rebase))
					w.judge("leader-flip", map[uint64]allocEv{})
					w.close()
					if r.Violations() > 0 {
						return
					}
				}
			}
		}
	}
	r.Set("flip_grid_complete", true)
}

func levelB(r *ev.Run, rng *rand.Rand) {
	cfgs := srv.NewConfigs(1, nil)
	m, err := srv.Start(cfgs[0])
	if err != nil {
		r.Inconclusive("server start: %v", err)
		return
	}
	defer m.Close()
	if srv.WaitLeader([]*srv.Member{m}, 30*time.Second) == nil {
		r.Inconclusive("no leader")
		return
	}
	if err := m.Bootstrap(); err != nil {
		r.Inconclusive("bootstrap: %v", err)
		return
	}
	seen := map[uint64]string{}
	var mu sync.Mutex
	dup := func(id uint64, src string) {
		mu.Lock()
		defer mu.Unlock()
		r.Count("server_ids_returned", 1)
		if p, ok := seen[id]; ok {
			r.Violation("id-duplicate:server", fmt.Sprintf("id %d returned by %s and %s of a real server", id, p, src), map[string]interface{}{"id": id, "first": p, "second": src})
		}
		seen[id] = src
	}
	rounds := r.Pick(3, 12)
	for round := 0; round < rounds; round++ {
		var wg sync.WaitGroup
		for g := 0; g < 8; g++ {
			wg.Add(1)
			go func(g int) {
				defer wg.Done()
				ctx := context.Background()
				for i := 0; i < 300; i++ {
					if g%2 == 0 {
						resp, err := m.Srv.AllocID(ctx, &pdpb.AllocIDRequest{Header: m.Header()})
						if err == nil && resp.GetHeader().GetError() == nil {
							dup(resp.Id, fmt.Sprintf("AllocID r%d", round))
						}
					} else {
						rc := m.Srv.GetRaftCluster()
						if rc == nil { // not leader at the moment
							continue
						}
						region := rc.GetRegion(2)
						if region == nil {
							continue
						}
						resp, err := m.Srv.AskBatchSplit(ctx, &pdpb.AskBatchSplitRequest{Header: m.Header(), Region: region.GetMeta(), SplitCount: 3})
						if err == nil && resp.GetHeader().GetError() == nil {
							for _, s := range resp.Ids {
								dup(s.NewRegionId, fmt.Sprintf("AskBatchSplit r%d", round))
								for _, p := range s.NewPeerIds {
									dup(p, fmt.Sprintf("AskBatchSplit-peer r%d", round))
								}
							}
						}
					}
				}
			}(g)
		}
		// resign in the middle of the burst in every other round
		if round%2 == 1 {
			time.Sleep(time.Duration(rng.Intn(20)) * time.Millisecond)
			m.Srv.GetMember().ResetLeader()
			r.Count("server_leader_resigns", 1)
		}
		wg.Wait()
		if srv.WaitLeader([]*srv.Member{m}, 30*time.Second) == nil {
			r.Inconclusive("no leader after resign")
			return
		}
		// wait until the raft cluster is running again
		for i := 0; i < 500 && m.Srv.GetRaftCluster() == nil; i++ {
			time.Sleep(10 * time.Millisecond)
		}
		r.Eval(1)
	}
}

func main() {
	r := ev.New("C04", "exploration")
	r.Rule("component level: 3-4 id allocator instances on one etcd, random histories over {alloc bursts around the 1000-id window, leader record switch, instance crash (+/- Rebase), Rebase, fail-before/lost-ack on the window txn or read}; distinct = history shape string; gated: every release order of two instances' Range->Txn pairs and a leader switch (Put overwrite, or Delete then Put as after a lease expiry), crossed with {no fault, fail-before, lost-ack} on either instance's window txn (distinct = variant x fault x schedule); level B: AllocID/AskBatchSplit bursts on a real server with leader resignations")
	r.Assume("leader record switched by writing the leader key through an un-instrumented observer client (component level) and by Member.ResetLeader (real server)")
	r.Assume("64-bit wrap-around of alloc_id is not driven")
	rng := rand.New(rand.NewSource(r.ShardSeed()))
	srv.Quiet()
	e, err := etcdx.Start()
	if err != nil {
		r.Inconclusive("etcd: %v", err)
		r.Finish()
	}
	// observe the window size
	if w, err := newWorld(r, e, 1, fmt.Sprintf("probe%d", r.Shard)); err == nil {
		w.setLeader(0)
		if _, aerr := w.alloc(0); aerr == nil {
			if resp, gerr := e.Observer.Get(context.Background(), path.Join(w.root, "alloc_id")); gerr == nil && len(resp.Kvs) == 1 {
				if v, perr := typeutil.BytesToUint64(resp.Kvs[0].Value); perr == nil && v >= 2 && v <= 50000 {
					winStep = int(v)
				}
			}
		}
		w.close()
	}
	r.Set("observed_window_size", winStep)
	gatedPhase(r, e)
	if r.Violations() == 0 {
		flipPhase(r, e)
	}
	nh := r.Pick(60, 600)
	for h := 0; h < nh && r.Violations() == 0; h++ {
		seenW := map[uint64]allocEv{} // ids are per root path
		w, err := newWorld(r, e, 3+rng.Intn(2), fmt.Sprintf("h%d-%d", r.Shard, h))
		if err != nil {
			r.Inconclusive("world: %v", err)
			break
		}
		shape := w.randomHistory(rng)
		r.Eval(1)
		r.Count("histories", 1)
		r.Distinct("hist|" + shape)
		w.judge("history", seenW)
		if h == 1 {
			evs := w.evs
			if len(evs) > 30 {
				evs = evs[:30]
			}
			r.Sample(map[string]interface{}{"mode": "history", "steps": w.steps, "first_events": evs})
		}
		w.close()
	}
	e.Close()
	if r.Violations() == 0 {
		levelB(r, rng)
	}
	r.Floor(50)
	r.Finish()
}
