package main

import (
	"fmt"
	"math/rand"
	"runtime"
	"sync"
	"sync/atomic"
	"time"

	"github.com/tikv/pd/server/schedule"
	"github.com/tikv/pd/server/schedule/operator"
	"verif/harness/lib/ev"
)

// Operators past their deadline. A running operator's start time is put far in the past (twice the
// timeout, the way the repository's own tests age an operator), so the very next poll of its timeout
// fires whatever the speed of the machine. In every round that single poll (heartbeat dispatch, push
// loop, influence calculation, the API's String) is released together with an end transition made by
// another goroutine (RemoveOperator, a higher-priority AddOperator, the Dispatch that finds the last
// step finished). While the round runs every actor and a spinning observer sample the operator's
// status under one lock (so the samples are totally ordered); the sequence is judged by the allowed
// status graph (an end status is final), then the ordinary monitor checks the running set and the
// record. Waiting operators past their expiry deadline meet concurrent promotions the same way.

type statusLog struct {
	mu   sync.Mutex
	seen map[*opTrack][]operator.OpStatus
}

func (l *statusLog) sample(ts ...*opTrack) {
	l.mu.Lock()
	for _, t := range ts {
		s := t.op.Status()
		if q := l.seen[t]; len(q) == 0 || q[len(q)-1] != s {
			l.seen[t] = append(q, s)
		}
	}
	l.mu.Unlock()
}

// judge feeds the in-call samples of t into the monitor's status sequence.
func (w *world) judgeSamples(l *statusLog, t *opTrack, call string) {
	for _, s := range l.seen[t] {
		if s == t.last {
			continue
		}
		w.r.Count("transition_"+sname(t.last)+"->"+sname(s), 1)
		if !reach[t.last][s] {
			tt, from, to := t, t.last, s
			report("status-transition-not-allowed:"+sname(from)+"->"+sname(to), fmt.Sprintf("operator status seen as %s and, during %s, as %s", sname(from), call, sname(to)),
				w.phase, len(t.g.log)-t.logAt, func() map[string]interface{} { return w.opWitness(tt, map[string]interface{}{"call": call}) })
		}
		t.last = s
		t.changedAt = w.callNo
		t.trans = append(t.trans, sname(s)+"@"+call)
	}
}

func (w *world) agedRound(g *reg, ender string, pollers []string) bool {
	rng := w.rng
	if g.dirty {
		w.putView(g)
	}
	g.inbox = nil
	w.evNo++
	want := []string{"transfer", "add-peer", "remove-peer"}[rng.Intn(3)]
	if ender == "last-step" {
		want = "transfer"
	}
	ts := w.submit(g, g.view, false, false, false, want)
	if len(ts) != 1 || w.running[g.id] != ts[0] {
		return false
	}
	t := ts[0]
	if ender == "last-step" {
		// the store executes the whole operator and pd's cache learns it: the next Check reaches success
		for i := 0; i < 6 && !w.stepDone(t); i++ {
			if len(w.queued) > 0 {
				w.readStream()
			}
			for len(g.inbox) > 0 {
				_ = w.exec(g, 0, true)
			}
			w.putView(g)
			if !w.stepDone(t) {
				w.dispatchPush(g)
			}
		}
		if !w.stepDone(t) || w.running[g.id] != t || t.op.Status() != operator.STARTED {
			w.cleanup(g)
			return false
		}
	}
	var repl *opTrack
	var replOp *operator.Operator
	if ender == "replace" {
		w.prepareOnly = true
		rs := w.submit(g, g.view, false, true, false, []string{"transfer", "add-peer"}[rng.Intn(2)])
		w.prepareOnly = false
		if len(rs) != 1 {
			w.cleanup(g)
			return false
		}
		repl, replOp = rs[0], rs[0].op
	}
	t.removedBy = "aged-round" // ended by the round's own actors: not an own-steps-only execution
	// age it: started long ago, never polled since
	operator.SetOperatorStatusReachTime(t.op, operator.STARTED, time.Now().Add(-2*operator.SlowOperatorWaitTime))
	g.logf("#%d op%d is past its timeout deadline (start time put 2x the timeout into the past)", w.evNo, t.id)

	view := g.view
	name := "aged:" + ender + "‖" + fmt.Sprint(pollers)
	l := &statusLog{seen: map[*opTrack][]operator.OpStatus{}}
	ci := &callInfo{name: name, g: g, pair: true, holder: true, samples: l}
	hook := w.hc.hook
	w.hc.hook = nil
	watch := []*opTrack{t}
	if repl != nil {
		watch = append(watch, repl)
	}
	w.call(ci, func() {
		var wg sync.WaitGroup
		var ready sync.WaitGroup
		var panicked atomic.Value
		gate := make(chan struct{})
		var done int32
		actor := func(delay int, f func()) {
			wg.Add(1)
			ready.Add(1)
			go func() {
				defer wg.Done()
				defer func() {
					if p := recover(); p != nil {
						panicked.Store(fmt.Sprint(p))
					}
				}()
				ready.Done()
				<-gate
				spin(delay)
				f()
				l.sample(watch...)
			}()
		}
		jitter := func() int { return []int{0, 0, 10, 30, 80, 200, 500, 1200}[rng.Intn(8)] }
		switch ender {
		case "remove":
			actor(jitter(), func() { w.oc.RemoveOperator(t.op) })
		case "replace":
			actor(jitter(), func() { w.oc.AddOperator(replOp) })
		case "last-step":
			actor(jitter(), func() { w.oc.Dispatch(view, schedule.DispatchFromHeartBeat) })
		}
		for _, p := range pollers {
			switch p {
			case "dispatch":
				actor(jitter(), func() { w.oc.Dispatch(view, schedule.DispatchFromHeartBeat) })
			case "push":
				actor(jitter(), func() { w.oc.PushOperators() })
			case "influence":
				actor(jitter(), func() { _ = w.oc.GetOpInfluence(w.mc) })
			case "string":
				actor(jitter(), func() {
					if s := w.oc.GetOperatorStatus(g.id); s != nil {
						_, _ = s.MarshalJSON()
					}
				})
			}
		}
		// the observer
		obs := make(chan struct{})
		go func() {
			defer close(obs)
			for atomic.LoadInt32(&done) == 0 {
				l.sample(watch...)
				runtime.Gosched()
			}
		}()
		ready.Wait()
		close(gate)
		wg.Wait()
		atomic.StoreInt32(&done, 1)
		<-obs
		l.sample(watch...)
		if p := panicked.Load(); p != nil {
			panic(p)
		}
	})
	if w.broken {
		return true
	}
	w.hc.hook = hook
	return true
}

// cleanup removes whatever still runs on g.
func (w *world) cleanup(g *reg) {
	if t := w.running[g.id]; t != nil && !w.broken {
		tt := t
		w.call(&callInfo{name: "RemoveOperator", g: g}, func() {
			if w.oc.RemoveOperator(tt.op) {
				tt.removedBy = "RemoveOperator"
			}
		})
	}
}

func agedFamily(r *ev.Run, rng *rand.Rand) {
	target := r.Pick(14000, 40000)
	enders := []string{"remove", "replace", "last-step"}
	pollerSets := [][]string{{"dispatch"}, {"influence"}, {"string"}, {"push"}, {"dispatch", "influence"}, {"influence", "string", "dispatch"}, {"influence", "influence", "string"}}
	rounds, wi := 0, 0
	for rounds < target {
		wi++
		w, err := newWorld(r, rng, 400000+wi, modeJoint, 6, 3, []string{"1v* 2v 3v 4l", "2v* 3v 4v", "1v* 3v 5v 6l"})
		if err != nil {
			r.Inconclusive("aged family: %v", err)
			return
		}
		w.phase = "aged-operators"
		for c := 0; c < 150 && rounds < target && !w.broken; c++ {
			var cand []*reg
			for _, g := range w.liveRegions() {
				if w.running[g.id] == nil && g.view != nil && len(g.sim.Peers) >= 2 && len(g.sim.Peers) < 6 {
					cand = append(cand, g)
				}
			}
			if len(cand) == 0 {
				break
			}
			g := cand[rng.Intn(len(cand))]
			ender := enders[rng.Intn(len(enders))]
			ps := pollerSets[rng.Intn(len(pollerSets))]
			if w.agedRound(g, ender, ps) {
				rounds++
				r.Count("aged_rounds", 1)
				r.Count("aged_rounds_"+ender, 1)
			}
			if w.broken {
				break
			}
			// the in-call samples were fed to the monitor by observe (see judgeSamples)
			w.cleanup(g)
			for len(w.queued) > 0 {
				w.readStream()
			}
			g.inbox = nil
			if rng.Intn(4) == 0 {
				agedWaiting(w, rng)
			}
		}
		w.close()
	}
}

// agedWaiting: an operator that has been waiting longer than the expiry time meets two concurrent
// promotions (and a RemoveOperator, which must not touch a waiting operator).
func agedWaiting(w *world, rng *rand.Rand) {
	var free []*reg
	for _, g := range w.liveRegions() {
		if w.running[g.id] == nil && g.view != nil && !g.dirty {
			free = append(free, g)
		}
	}
	if len(free) < 2 {
		return
	}
	ts := w.submitBatch(free[:2], true, []string{"add-peer", "transfer"})
	var wait *opTrack
	for _, t := range ts {
		if t.waiting && t.last == operator.CREATED {
			wait = t
		}
	}
	if wait == nil {
		for _, g := range free[:2] {
			w.cleanup(g)
		}
		return
	}
	operator.SetOperatorStatusReachTime(wait.op, operator.CREATED, time.Now().Add(-2*operator.OperatorExpireTime))
	wait.g.logf("#%d op%d has been waiting longer than the expiry time (creation time put into the past)", w.evNo, wait.id)
	l := &statusLog{seen: map[*opTrack][]operator.OpStatus{}}
	hook := w.hc.hook
	w.hc.hook = nil
	ci := &callInfo{name: "aged-waiting:Promote‖Promote‖Remove", pair: true, holder: true, samples: l}
	w.call(ci, func() {
		var wg sync.WaitGroup
		gate := make(chan struct{})
		for i := 0; i < 3; i++ {
			wg.Add(1)
			go func(i int) {
				defer wg.Done()
				<-gate
				spin([]int{0, 20, 100}[rng.Intn(3)] * (i + 1) / 2)
				if i < 2 {
					w.oc.PromoteWaitingOperator()
				} else {
					w.oc.RemoveOperator(wait.op)
				}
				l.sample(wait)
			}(i)
		}
		close(gate)
		wg.Wait()
		l.sample(wait)
	})
	w.hc.hook = hook
	w.r.Count("aged_waiting_rounds", 1)
	for _, g := range free[:2] {
		w.cleanup(g)
	}
}
