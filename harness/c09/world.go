package main

import (
	"context"
	"fmt"
	"math/rand"
	"sort"
	"sync"
	"time"

	"github.com/gogo/protobuf/proto"
	"github.com/pingcap/kvproto/pkg/metapb"
	"github.com/pingcap/kvproto/pkg/pdpb"
	"github.com/tikv/pd/pkg/mock/mockcluster"
	"github.com/tikv/pd/server/config"
	"github.com/tikv/pd/server/core"
	"github.com/tikv/pd/server/core/storelimit"
	"github.com/tikv/pd/server/schedule"
	"github.com/tikv/pd/server/schedule/hbstream"
	"github.com/tikv/pd/server/schedule/operator"
	"github.com/tikv/pd/server/versioninfo"
	"verif/harness/lib/ev"
	"verif/harness/lib/sim"
)

// Feature modes of the operator builder (which step kinds it produces).
const (
	modeJoint  = "joint"  // joint consensus: ChangePeerV2Enter / ChangePeerV2Leave
	modeDemote = "demote" // demotion allowed, enable-joint-consensus=false: DemoteFollower / PromoteLearner one by one
	modeLegacy = "legacy" // cluster version below 5.0: AddPeer / RemovePeer only
)

// config.NewTestOptions registers schedulers in a global map: clusters are created one at a time.
var clusterMu sync.Mutex

// reg is one region: the store-side truth (sim), what pd has been told (view), commands in flight.
type reg struct {
	id       uint64
	k        int // position in the key space of the world
	sim      *sim.Region
	view     *core.RegionInfo   // == mc.GetRegion(id); nil once the region is gone from pd's cache
	lastView *core.RegionInfo   // the last view pd held (kept after the region is gone)
	oldViews []*core.RegionInfo // a few superseded snapshots (operators built from them must be refused)
	dirty    bool               // sim changed since the last view was put
	dead     bool               // merged into a neighbour: the store no longer has it
	inbox    []*cmd             // commands pd sent for this region, not yet executed by the store
	ops      []*opTrack         // operators of this region that are not finalised yet
	log      []string           // history of the region (witness material)
}

// cmd is one command drained from the heartbeat stream.
type cmd struct {
	m    *pdpb.RegionHeartbeatResponse
	snap *pdpb.RegionHeartbeatResponse // its value when the store side took it off the stream
	t    *opTrack                      // operator it was sent for (nil: could not be attributed)
	seq  int
	kind string
}

// footprint is the state of one store's peer after a change: (store, peer id, role); id 0 / role -1 = no peer.
type footprint struct {
	store, id uint64
	role      int32
}

// opTrack is everything the monitor knows about one operator.
type opTrack struct {
	id        int
	op        *operator.Operator
	g         *reg
	api       string
	shape     string
	admin     bool
	planOK    bool // executed alone on the region it was built for, every step is safe and accepted
	staleView bool // built from a superseded snapshot of the region
	mergeSrc  bool
	mergeDst  bool
	pair      *opTrack
	logAt     int // len(g.log) when the operator was created
	origin    string
	call      string // call through which it was submitted

	last        operator.OpStatus
	changedAt   int // call number of the last observed status change
	trans       []string
	everRunning bool
	submitted   bool
	done        bool

	waiting      bool // seen sitting in the waiting queue (status created, listed by GetWaitingOperators)
	epochChanged bool // pd learnt a new epoch of the region while the operator was waiting

	ownApplied uint64 // conf_ver units the store has applied on behalf of this operator's commands
	ownAtView  uint64 // ownApplied as reflected in pd's current view of the region
	foreign    bool   // the region changed by something else than this operator's commands since it was built
	ambiguous  bool   // such a change produced the same peer state as one of the operator's own steps would
	tainted    bool   // a command could not be attributed with certainty
	removedBy  string // "" or the harness action that ended it (remove / replace)
	fkinds     map[string]bool
	fp         map[footprint]bool
	fpk        map[[2]uint64]bool // (store, peer id) named by a step; (store, 0) for a removal
}

// coincides: does a change that left `f` behind look like one of the operator's own steps to pd? pd's
// step accounting goes by store and peer id and mostly by "learner or not": a change that touches a
// peer the operator names (whatever role it leaves it in), or removes the peer of a store the operator
// removes, cannot be told apart from the operator's own progress.
func (t *opTrack) coincides(f footprint) bool {
	return t.fpk[[2]uint64{f.store, f.id}]
}

// hookCluster is the opt.Cluster handed to the controller: the repository's cluster double, with the
// region-cache read intercepted. A region heartbeat is put into the cache under the cluster's lock,
// not the controller's, so in a running server it can land between any two cache reads of one
// controller call; the hook lets a directed family place it there.
type hookCluster struct {
	*mockcluster.Cluster
	hook  func(id uint64, n int)
	reads int
}

func (h *hookCluster) GetRegion(id uint64) *core.RegionInfo {
	if h.hook != nil {
		h.reads++
		h.hook(id, h.reads)
	}
	return h.Cluster.GetRegion(id)
}

// injection: a cache update placed inside a controller call, before the controller's at-th cache read.
type injection struct {
	at     int
	kind   string // conf | leader | evict
	g      *reg
	done   bool
	before *core.RegionInfo // the region as the cache held it until the injection
}

type world struct {
	hc      *hookCluster
	inj     *injection
	r       *ev.Run
	rng     *rand.Rand
	wid     int
	mode    string
	phase   string
	mc      *mockcluster.Cluster
	hb      *hbstream.HeartbeatStreams
	oc      *schedule.OperatorController
	cancel  context.CancelFunc
	stores  []uint64
	regs    map[uint64]*reg
	rids    []uint64
	live    []*opTrack
	byOp    map[*operator.Operator]*opTrack
	running map[uint64]*opTrack // running set as of the last sample
	nextOp  int
	nextPid uint64
	seq     int
	evNo    int
	callNo  int

	lastReads    int        // cache reads of the last controller call
	queued       []*sentCtx // commands on the stream that the store side has not read yet
	pendingWorld bool
	prepareOnly  bool // submitOps only builds and tracks; the caller makes the controller call itself
	lazy         int  // 0: the stream is read after every call; n: only when n commands are queued
	broken       bool // a controller call panicked
	populated    bool // a world with ~100+ regions
	finite       bool // small store limits (admissions get refused for quota)
}

func key(k int) []byte { return []byte(fmt.Sprintf("k%04d", k)) }

// finiteLimits: the next clusters get small store limits (wall-clock token buckets; they only decide
// which operators are refused, never a verdict).
var finiteLimits bool

func newBareCluster(mode string, nStores int) (*mockcluster.Cluster, context.CancelFunc, []uint64, error) {
	clusterMu.Lock()
	defer clusterMu.Unlock()
	opts := config.NewTestOptions()
	ctx, cancel := context.WithCancel(context.Background())
	mc := mockcluster.NewCluster(ctx, opts)
	switch mode {
	case modeJoint:
	case modeDemote:
		sc := mc.GetScheduleConfig().Clone()
		sc.EnableJointConsensus = false
		mc.SetScheduleConfig(sc)
	case modeLegacy:
		mc.DisableFeature(versioninfo.JointConsensus)
	default:
		cancel()
		return nil, nil, nil, fmt.Errorf("unknown mode %q", mode)
	}
	far := time.Now().Add(24 * time.Hour) // a store never drifts into "disconnected" during a run
	var stores []uint64
	for i := 1; i <= nStores; i++ {
		id := uint64(i)
		mc.AddLabelsStore(id, 0, map[string]string{"zone": fmt.Sprintf("z%d", i%3), "host": fmt.Sprintf("h%d", i)})
		mc.PutStore(mc.GetStore(id).Clone(core.SetLastHeartbeatTS(far)))
		// store limits are wall-clock token buckets: out of the way
		if finiteLimits {
			mc.SetStoreLimit(id, storelimit.AddPeer, 0.6)
			mc.SetStoreLimit(id, storelimit.RemovePeer, 0.6)
		} else {
			mc.SetStoreLimit(id, storelimit.AddPeer, storelimit.Unlimited*60)
			mc.SetStoreLimit(id, storelimit.RemovePeer, storelimit.Unlimited*60)
		}
		stores = append(stores, id)
	}
	// ids are cluster-wide unique in a real cluster: keep allocator ids away from store ids, region ids
	// (101..) and the initial peer ids (1001..)
	for i := 0; i < 5000; i++ {
		_, _ = mc.AllocID()
	}
	return mc, cancel, stores, nil
}

func newWorld(r *ev.Run, rng *rand.Rand, wid int, mode string, nStores, nRegions int, layouts []string) (*world, error) {
	mc, cancel, stores, err := newBareCluster(mode, nStores)
	if err != nil {
		return nil, err
	}
	w := &world{r: r, rng: rng, wid: wid, mode: mode, mc: mc, cancel: cancel, stores: stores,
		regs: map[uint64]*reg{}, byOp: map[*operator.Operator]*opTrack{}, running: map[uint64]*opTrack{}, nextPid: 1000}
	ctx, cancel2 := context.WithCancel(context.Background())
	inner := w.cancel
	w.cancel = func() { cancel2(); inner() }
	w.hc = &hookCluster{Cluster: mc}
	w.hc.hook = w.onCacheRead
	w.hb = hbstream.NewTestHeartbeatStreams(ctx, mc.ID, mc, false)
	w.oc = schedule.NewOperatorController(ctx, w.hc, w.hb)
	for k := 0; k < nRegions; k++ {
		rid := uint64(101 + k)
		var sr *sim.Region
		if k < len(layouts) && layouts[k] != "" {
			sr = sim.MustRegion(rid, layouts[k], w.nextPid+1)
			w.nextPid += 20
			// MustRegion computed NextPeerID from the peers: fine
		} else {
			sr = w.randomRegion(rid)
		}
		sr.StartKey, sr.EndKey = key(k), key(k+1)
		g := &reg{id: rid, k: k, sim: sr}
		w.regs[rid] = g
		w.rids = append(w.rids, rid)
		w.putView(g)
		g.logf("init %s", sr.Describe())
	}
	return w, nil
}

// onCacheRead runs on the controller's goroutine right before its n-th region-cache read of the call.
func (w *world) onCacheRead(id uint64, n int) {
	in := w.inj
	if in == nil || in.done || n != in.at {
		return
	}
	in.done = true
	g := in.g
	in.before = g.view
	w.r.Count("cache_update_inside_call_"+in.kind, 1)
	switch in.kind {
	case "conf":
		if _, err := w.foreignConf(g, "add-learner"); err != nil {
			w.foreignVersion(g, false)
		}
		w.putView(g)
		g.logf("#%d ... region cache updated to %s WHILE the controller call is running (before its cache read no. %d)", w.evNo, epochStr(g.view.GetRegionEpoch()), n)
	case "leader":
		if !w.foreignLeader(g, false) {
			w.foreignVersion(g, false)
		}
		w.putView(g)
		g.logf("#%d ... region cache updated (leader %d) WHILE the controller call is running (before its cache read no. %d)", w.evNo, g.view.GetLeader().GetStoreId(), n)
	case "evict":
		w.foreignEvict(g)
		g.logf("#%d ... region evicted from the cache WHILE the controller call is running (before its cache read no. %d)", w.evNo, n)
	}
}

// foreignEvict: the region is merged into a neighbour this world does not track (or the neighbour's
// heartbeat with the wider range arrives): the store no longer has it and pd's cache drops it.
func (w *world) foreignEvict(g *reg) {
	if g.view != nil {
		w.mc.RemoveRegion(g.view)
	}
	g.dead = true
	g.inbox = nil
	for _, t := range g.ops {
		t.foreign = true
		t.ambiguous = true
		t.fkinds["region-merged-away"] = true
	}
	for _, id := range w.rids {
		w.regs[id].view = w.mc.GetRegion(id)
	}
	g.logf("#%d FOREIGN region %d merged away and evicted from pd's cache", w.evNo, g.id)
}

func (w *world) close() {
	w.cancel()
	w.hb.Close()
}

func (w *world) randomRegion(rid uint64) *sim.Region {
	rng := w.rng
	perm := rng.Perm(len(w.stores))
	n := 1 + rng.Intn(4) // 1..4 peers
	if n < 3 && rng.Intn(3) != 0 {
		n = 3
	}
	if n > len(w.stores)-1 {
		n = len(w.stores) - 1
	}
	var peers []*metapb.Peer
	var voters []uint64
	for i := 0; i < n; i++ {
		role := metapb.PeerRole_Voter
		if i > 0 && w.mode != modeLegacy && rng.Intn(5) == 0 {
			role = metapb.PeerRole_Learner
		}
		w.nextPid++
		st := w.stores[perm[i]]
		peers = append(peers, &metapb.Peer{Id: w.nextPid, StoreId: st, Role: role})
		if role == metapb.PeerRole_Voter {
			voters = append(voters, st)
		}
	}
	return sim.NewRegion(rid, peers, voters[rng.Intn(len(voters))])
}

func (g *reg) logf(format string, a ...interface{}) {
	g.log = append(g.log, fmt.Sprintf(format, a...))
}

func (w *world) liveRegions() []*reg {
	var out []*reg
	for _, id := range w.rids {
		if g := w.regs[id]; !g.dead {
			out = append(out, g)
		}
	}
	return out
}

// putView is the region-cache half of a region heartbeat: pd learns the store's current state of g.
func (w *world) putView(g *reg) {
	if g.dead {
		return
	}
	info := g.sim.Info()
	if g.view != nil {
		oe, ne := g.view.GetRegionEpoch(), info.GetRegionEpoch()
		if oe.GetConfVer() != ne.GetConfVer() || oe.GetVersion() != ne.GetVersion() {
			g.oldViews = append(g.oldViews, g.view)
			if len(g.oldViews) > 3 {
				g.oldViews = g.oldViews[1:]
			}
		}
	}
	epochMoved := g.view != nil && (g.view.GetRegionEpoch().GetConfVer() != info.GetRegionEpoch().GetConfVer() ||
		g.view.GetRegionEpoch().GetVersion() != info.GetRegionEpoch().GetVersion())
	w.mc.PutRegion(info)
	g.dirty = false
	for _, t := range g.ops {
		t.ownAtView = t.ownApplied
		if epochMoved && t.waiting && !t.epochChanged && t.op.Status() == operator.CREATED {
			t.epochChanged = true
			w.r.Count("epoch_changes_while_waiting", 1)
			g.logf("#%d (op%d is waiting while pd learns epoch %s)", w.evNo, t.id, epochStr(info.GetRegionEpoch()))
		}
	}
	// a put with a wider range evicts the regions it swallowed (merge)
	for _, id := range w.rids {
		o := w.regs[id]
		o.view = w.mc.GetRegion(id)
		if o.view != nil {
			o.lastView = o.view
		}
	}
}

func epochStr(e *metapb.RegionEpoch) string {
	return fmt.Sprintf("conf_ver:%d version:%d", e.GetConfVer(), e.GetVersion())
}

// ---- footprints ------------------------------------------------------------------------------------------

func absent(store uint64) footprint { return footprint{store: store, id: 0, role: -1} }

func stepFootprints(st operator.OpStep) []footprint {
	var out []footprint
	add := func(store, id uint64, role metapb.PeerRole) {
		out = append(out, footprint{store: store, id: id, role: int32(role)})
	}
	switch s := st.(type) {
	case operator.AddLearner:
		add(s.ToStore, s.PeerID, metapb.PeerRole_Learner)
	case operator.AddLightLearner:
		add(s.ToStore, s.PeerID, metapb.PeerRole_Learner)
	case operator.AddPeer:
		add(s.ToStore, s.PeerID, metapb.PeerRole_Voter)
	case operator.AddLightPeer:
		add(s.ToStore, s.PeerID, metapb.PeerRole_Voter)
	case operator.PromoteLearner:
		add(s.ToStore, s.PeerID, metapb.PeerRole_Voter)
	case operator.DemoteFollower:
		add(s.ToStore, s.PeerID, metapb.PeerRole_Learner)
	case operator.RemovePeer:
		out = append(out, absent(s.FromStore))
	case operator.ChangePeerV2Enter:
		for _, p := range s.PromoteLearners {
			add(p.ToStore, p.PeerID, metapb.PeerRole_IncomingVoter)
		}
		for _, d := range s.DemoteVoters {
			add(d.ToStore, d.PeerID, metapb.PeerRole_DemotingVoter)
		}
	case operator.ChangePeerV2Leave:
		for _, p := range s.PromoteLearners {
			add(p.ToStore, p.PeerID, metapb.PeerRole_Voter)
		}
		for _, d := range s.DemoteVoters {
			add(d.ToStore, d.PeerID, metapb.PeerRole_Learner)
		}
	}
	return out
}

// diffFootprints lists the peer states that differ between two states of a region (the state in b).
func diffFootprints(a, b *sim.Region) []footprint {
	stores := map[uint64]bool{}
	for _, p := range a.Peers {
		stores[p.StoreId] = true
	}
	for _, p := range b.Peers {
		stores[p.StoreId] = true
	}
	var ids []uint64
	for s := range stores {
		ids = append(ids, s)
	}
	sort.Slice(ids, func(i, j int) bool { return ids[i] < ids[j] })
	var out []footprint
	for _, s := range ids {
		pa, pb := a.Peer(s), b.Peer(s)
		switch {
		case pa == nil && pb == nil:
		case pb == nil:
			out = append(out, absent(s))
		case pa == nil || pa.Id != pb.Id || pa.Role != pb.Role:
			out = append(out, footprint{store: s, id: pb.Id, role: int32(pb.Role)})
		}
	}
	return out
}

// afterChange books a change of the store-side region: conf_ver units go to the operator on whose
// behalf the command was executed (owner), for every other operator of the region it is a foreign change.
func (w *world) afterChange(g *reg, before *sim.Region, owner *opTrack, what string) {
	s := g.sim
	d := s.ConfVer - before.ConfVer
	changed := d != 0 || s.Version != before.Version || s.LeaderStore != before.LeaderStore ||
		string(s.StartKey) != string(before.StartKey) || string(s.EndKey) != string(before.EndKey)
	if !changed {
		return
	}
	g.dirty = true
	fps := diffFootprints(before, s)
	for _, t := range g.ops {
		if t == owner {
			t.ownApplied += d
			continue
		}
		t.foreign = true
		t.fkinds[what] = true
		for _, f := range fps {
			if t.coincides(f) {
				t.ambiguous = true
			}
		}
	}
}

// oneField changes exactly one thing a region heartbeat reports besides the configuration: a pending
// mark, a down mark, the approximate size or the raft term. None of them is a configuration change: an
// operator must not be judged stale because of it.
func (w *world) oneField(g *reg, field string) bool {
	s := g.sim
	switch field {
	case "settle-pending":
		if len(s.Pending) == 0 {
			return false
		}
		s.SettlePending(0)
	case "mark-pending":
		var c []uint64
		for _, p := range s.Peers {
			if p.StoreId != s.LeaderStore && !s.Pending[p.Id] {
				c = append(c, p.Id)
			}
		}
		if len(c) == 0 {
			return false
		}
		s.Pending[c[w.rng.Intn(len(c))]] = true
	case "down":
		var c []uint64
		for _, p := range s.Peers {
			if p.StoreId != s.LeaderStore {
				c = append(c, p.Id)
			}
		}
		if len(c) == 0 {
			return false
		}
		id := c[w.rng.Intn(len(c))]
		if s.Down[id] {
			delete(s.Down, id)
		} else {
			s.Down[id] = true
		}
	case "size":
		s.ApproximateSize += 1 << 20
	case "term":
		s.Term++
	default:
		return false
	}
	g.dirty = true
	g.logf("#%d STORE reports a heartbeat that differs in one field: %s -> %s", w.evNo, field, s.Describe())
	w.r.Count("one_field_heartbeat_"+field, 1)
	return true
}

// ---- foreign events --------------------------------------------------------------------------------------

func (w *world) emptyStores(g *reg) []uint64 {
	var out []uint64
	for _, s := range w.stores {
		if g.sim.Peer(s) == nil {
			out = append(out, s)
		}
	}
	return out
}

// foreignConf performs a conf change pd did not ask for through the running operator (another pd
// leader's leftover command, an operator of the past): new peers get ids no allocator of this pd hands out.
func (w *world) foreignConf(g *reg, kind string) (string, error) {
	rng := w.rng
	before := g.sim.Clone()
	var err error
	desc := ""
	switch kind {
	case "add-learner":
		es := w.emptyStores(g)
		if len(es) == 0 {
			return "", fmt.Errorf("no empty store")
		}
		st := es[rng.Intn(len(es))]
		id := g.sim.FreshPeerID()
		desc = fmt.Sprintf("add learner %d on store %d", id, st)
		err = g.sim.AddLearner(st, id)
	case "remove-follower":
		var c []*metapb.Peer
		for _, p := range g.sim.Peers {
			if p.StoreId != g.sim.LeaderStore {
				c = append(c, p)
			}
		}
		if len(c) == 0 {
			return "", fmt.Errorf("no follower")
		}
		p := c[rng.Intn(len(c))]
		desc = fmt.Sprintf("remove peer %d on store %d", p.Id, p.StoreId)
		err = g.sim.Remove(p.StoreId, p.Id)
	case "promote":
		var c []*metapb.Peer
		for _, p := range g.sim.Peers {
			if p.Role == metapb.PeerRole_Learner {
				c = append(c, p)
			}
		}
		if len(c) == 0 {
			return "", fmt.Errorf("no learner")
		}
		p := c[rng.Intn(len(c))]
		desc = fmt.Sprintf("promote learner %d on store %d", p.Id, p.StoreId)
		err = g.sim.Promote(p.StoreId, p.Id)
	case "demote":
		var c []*metapb.Peer
		for _, p := range g.sim.Peers {
			if p.Role == metapb.PeerRole_Voter && p.StoreId != g.sim.LeaderStore {
				c = append(c, p)
			}
		}
		if len(c) == 0 {
			return "", fmt.Errorf("no follower voter")
		}
		p := c[rng.Intn(len(c))]
		desc = fmt.Sprintf("demote voter %d on store %d", p.Id, p.StoreId)
		err = g.sim.Demote(p.StoreId, p.Id)
	default:
		return "", fmt.Errorf("unknown foreign change %q", kind)
	}
	if err != nil {
		return desc, err
	}
	w.afterChange(g, before, nil, "foreign-"+kind)
	g.logf("#%d FOREIGN %s -> %s", w.evNo, desc, g.sim.Describe())
	return desc, nil
}

func (w *world) foreignVersion(g *reg, shrink bool) {
	before := g.sim.Clone()
	if shrink && string(g.sim.EndKey) == string(key(g.k+1)) && string(g.sim.StartKey) == string(key(g.k)) {
		// a split the store decided itself: the right half goes to a region this world does not track
		g.sim.EndKey = append(append([]byte(nil), key(g.k)...), 'm')
		g.sim.Version++
	} else {
		g.sim.BumpVersion(1)
	}
	w.afterChange(g, before, nil, "foreign-version")
	g.logf("#%d FOREIGN version bump -> %s [%s,%s)", w.evNo, g.sim.Describe(), g.sim.StartKey, g.sim.EndKey)
}

// foreignLeader is an election pd did not ask for. toRemoved prefers the peer the running operator is
// about to remove or demote.
func (w *world) foreignLeader(g *reg, toRemoved bool) bool {
	var c []uint64
	if toRemoved {
		if t := w.running[g.id]; t != nil {
			for f := range t.fp {
				if p := g.sim.Peer(f.store); p != nil && p.Role != metapb.PeerRole_Learner && f.store != g.sim.LeaderStore &&
					(f.role == -1 || f.role == int32(metapb.PeerRole_Learner) || f.role == int32(metapb.PeerRole_DemotingVoter)) {
					c = append(c, f.store)
				}
			}
			sort.Slice(c, func(i, j int) bool { return c[i] < c[j] })
		}
	}
	if len(c) == 0 {
		for _, p := range g.sim.Peers {
			if p.Role != metapb.PeerRole_Learner && p.StoreId != g.sim.LeaderStore {
				c = append(c, p.StoreId)
			}
		}
	}
	if len(c) == 0 {
		return false
	}
	before := g.sim.Clone()
	st := c[w.rng.Intn(len(c))]
	if !g.sim.ForceLeader(st) {
		return false
	}
	w.afterChange(g, before, nil, "foreign-leader")
	g.logf("#%d FOREIGN leader -> store %d: %s", w.evNo, st, g.sim.Describe())
	return true
}

// ---- the store executes a command ----------------------------------------------------------------------

func cmdKind(m *pdpb.RegionHeartbeatResponse) string {
	switch {
	case m.GetChangePeer() != nil:
		return "ChangePeer:" + m.GetChangePeer().GetChangeType().String()
	case m.GetChangePeerV2() != nil:
		if len(m.GetChangePeerV2().GetChanges()) == 0 {
			return "ChangePeerV2:leave"
		}
		return "ChangePeerV2:enter"
	case m.GetTransferLeader() != nil:
		return "TransferLeader"
	case m.GetSplitRegion() != nil:
		return "SplitRegion"
	case m.GetMerge() != nil:
		return "Merge"
	}
	return "empty"
}

func sameStores(a, b *sim.Region) bool {
	if len(a.Peers) != len(b.Peers) {
		return false
	}
	for _, p := range a.Peers {
		q := b.Peer(p.StoreId)
		if q == nil || (q.Role == metapb.PeerRole_Learner) != (p.Role == metapb.PeerRole_Learner) {
			return false
		}
	}
	return true
}

// exec lets the leader store of g execute inbox[idx]. remove=false models a duplicated delivery.
func (w *world) exec(g *reg, idx int, remove bool) error {
	c := g.inbox[idx]
	if remove {
		g.inbox = append(g.inbox[:idx:idx], g.inbox[idx+1:]...)
	}
	m := c.m
	if c.snap != nil && !proto.Equal(c.m, c.snap) {
		// a command is a value: once sent, nothing may change it (the stream serialises it later)
		cc := c
		report("command-changed-after-send:"+c.kind, fmt.Sprintf("a %s command for region %d was altered after it had been sent: now %v", c.kind, c.snap.GetRegionId(), c.m),
			w.phase, 0, func() map[string]interface{} {
				return map[string]interface{}{"when_read_from_stream": cc.snap.String(), "when_executed": cc.m.String(), "operator": opID(cc.t), "region_history": append([]string(nil), g.log...)}
			})
		c.snap = proto.Clone(c.m).(*pdpb.RegionHeartbeatResponse)
	}
	before := g.sim.Clone()
	var err error
	owner := c.t
	switch {
	case m.GetSplitRegion() != nil:
		if g.sim.InJoint() {
			err = &sim.Refusal{Code: sim.RefInJoint, Msg: "split in joint state"}
			break
		}
		if err = g.sim.ApplyResponse(m); err == nil { // routing checks + version++
			if ks := m.GetSplitRegion().GetKeys(); len(ks) > 0 && string(ks[0]) > string(g.sim.StartKey) && string(ks[0]) < string(g.sim.EndKey) {
				g.sim.EndKey = append([]byte(nil), ks[0]...)
			} else {
				g.sim.EndKey = append(append([]byte(nil), g.sim.StartKey...), 'm')
			}
		}
	case m.GetMerge() != nil:
		err = w.execMerge(g, c)
	default:
		err = g.sim.ApplyResponse(m)
	}
	w.r.Count("store_exec_"+c.kind, 1)
	if err != nil {
		w.r.Count("store_refused_"+sim.Code(err), 1)
		g.logf("#%d STORE refuses %s (op%d, epoch %s): %v", w.evNo, c.kind, opID(c.t), epochStr(m.GetRegionEpoch()), err)
		return err
	}
	w.r.Count("store_applied", 1)
	if !g.dead {
		w.afterChange(g, before, owner, "command-of-another-operator")
		g.logf("#%d STORE executes %s of op%d -> %s", w.evNo, c.kind, opID(c.t), g.sim.Describe())
	}
	return nil
}

func opID(t *opTrack) int {
	if t == nil {
		return -1
	}
	return t.id
}

func (w *world) execMerge(g *reg, c *cmd) error {
	m := c.m
	if mm := g.sim.HeaderMismatch(m); mm != "" {
		return &sim.Refusal{Code: sim.RefStaleEpoch, Msg: mm}
	}
	tg := w.regs[m.GetMerge().GetTarget().GetId()]
	if tg == nil || tg.dead {
		return &sim.Refusal{Code: sim.RefUnsupported, Msg: "merge target does not exist"}
	}
	if g.sim.InJoint() || tg.sim.InJoint() {
		return &sim.Refusal{Code: sim.RefInJoint, Msg: "merge in joint state"}
	}
	if !sameStores(g.sim, tg.sim) {
		return &sim.Refusal{Code: sim.RefUnsupported, Msg: "merge: peers of source and target do not match"}
	}
	te := m.GetMerge().GetTarget().GetRegionEpoch()
	if te.GetConfVer() != tg.sim.ConfVer || te.GetVersion() != tg.sim.Version {
		return &sim.Refusal{Code: sim.RefStaleEpoch, Msg: "merge: target epoch is stale"}
	}
	beforeT := tg.sim.Clone()
	switch {
	case string(g.sim.EndKey) == string(tg.sim.StartKey):
		tg.sim.StartKey = append([]byte(nil), g.sim.StartKey...)
	case string(tg.sim.EndKey) == string(g.sim.StartKey):
		tg.sim.EndKey = append([]byte(nil), g.sim.EndKey...)
	default:
		return &sim.Refusal{Code: sim.RefUnsupported, Msg: "merge: regions are not adjacent"}
	}
	v := g.sim.Version
	if tg.sim.Version > v {
		v = tg.sim.Version
	}
	tg.sim.Version = v + 1
	g.dead = true
	g.inbox = nil
	g.logf("#%d STORE merges region %d into %d", w.evNo, g.id, tg.id)
	for _, t := range g.ops {
		if t != c.t { // for every operator but the merge itself the disappearance of the region is foreign
			t.foreign = true
			t.fkinds["region-merged-away"] = true
		}
	}
	var owner *opTrack
	if c.t != nil {
		owner = c.t.pair
	}
	w.afterChange(tg, beforeT, owner, "merge-from-neighbour")
	tg.logf("#%d STORE merged region %d into this one -> %s [%s,%s)", w.evNo, g.id, tg.sim.Describe(), tg.sim.StartKey, tg.sim.EndKey)
	return nil
}
