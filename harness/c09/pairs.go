package main

import (
	"fmt"
	"math/rand"
	"runtime"
	"sync"
	"sync/atomic"
	"time"

	"github.com/tikv/pd/server/schedule"
	"verif/harness/lib/ev"
	"verif/harness/lib/hist"
)

// Concurrent dispatch pairs. In a running server the heartbeat handler (Dispatch with source
// "heartbeat") and the push loop (PushOperators -> Dispatch with source "active push"), or two
// heartbeat streams, can work on ONE operator at the same time. Here an operator is executed with its
// own steps only; every time the store has applied a step and the cache holds the new region, two
// goroutines are released together into Dispatch for that region (the moment the step is found
// finished). After both returned the ordinary monitor runs: an operator whose region changed only
// through its own steps must not have been cancelled.

var spinSink uint64

func spin(n int) {
	for i := 0; i < n; i++ {
		atomic.AddUint64(&spinSink, 1)
	}
}

// dispatchPair releases two Dispatch calls for g together. sources[i] is "heartbeat" or "push".
func (w *world) dispatchPair(g *reg, sources [2]string, delay [2]int) (overlapped bool) {
	view := g.view
	if view == nil {
		return false
	}
	name := "Dispatch(" + sources[0] + ")‖Dispatch(" + sources[1] + ")"
	ci := &callInfo{name: name, g: g, pair: true}
	if sources[0] == "heartbeat" || sources[1] == "heartbeat" {
		ci.hbView = view
	}
	g.logf("#%d two concurrent dispatches (%s, %s) with the cached region %s", w.evNo, sources[0], sources[1], epochStr(view.GetRegionEpoch()))
	var callT, retT [2]int64
	hook := w.hc.hook
	w.hc.hook = nil // the cache-read hook is a single-threaded instrument
	w.call(ci, func() {
		var wg sync.WaitGroup
		var ready sync.WaitGroup
		gate := make(chan struct{})
		var panicked atomic.Value
		for i := 0; i < 2; i++ {
			wg.Add(1)
			ready.Add(1)
			go func(i int) {
				defer wg.Done()
				defer func() {
					if p := recover(); p != nil {
						panicked.Store(fmt.Sprint(p))
					}
				}()
				src := schedule.DispatchFromHeartBeat
				if sources[i] == "push" {
					src = schedule.DispatchFromNotifierQueue
				}
				ready.Done()
				<-gate
				spin(delay[i])
				callT[i] = hist.Tick()
				w.oc.Dispatch(view, src)
				retT[i] = hist.Tick()
			}(i)
		}
		ready.Wait()
		runtime.Gosched()
		close(gate)
		wg.Wait()
		if p := panicked.Load(); p != nil {
			panic(p)
		}
	})
	w.hc.hook = hook
	return callT[0] < retT[1] && callT[1] < retT[0]
}

// dispatchTriple: three parties. A third goroutine holds the controller's lock (it is parked inside
// AddWaitingOperator, at its first region-cache read) while the two dispatches arrive and queue on that
// lock; when the holder goes on, both are released together.
func (w *world) dispatchTriple(g, other *reg, sources [2]string) {
	view := g.view
	if view == nil || other.view == nil {
		return
	}
	w.prepareOnly = true
	ts := w.submit(other, other.view, false, false, true, []string{"add-peer", "transfer", "remove-peer"}[w.rng.Intn(3)])
	w.prepareOnly = false
	if len(ts) != 1 {
		return
	}
	hop := ts[0].op
	name := "AddWaitingOperator(holds the lock)‖Dispatch(" + sources[0] + ")‖Dispatch(" + sources[1] + ")"
	ci := &callInfo{name: name, g: g, pair: true, holder: true}
	if sources[0] == "heartbeat" || sources[1] == "heartbeat" {
		ci.hbView = view
	}
	g.logf("#%d two dispatches (%s, %s) queue behind AddWaitingOperator(op%d of region %d) which holds the controller lock", w.evNo, sources[0], sources[1], ts[0].id, other.id)
	hook := w.hc.hook
	var armed int32 = 1
	parked, release := make(chan struct{}), make(chan struct{})
	w.hc.hook = func(id uint64, n int) {
		if atomic.CompareAndSwapInt32(&armed, 1, 0) {
			close(parked)
			<-release
		}
	}
	w.call(ci, func() {
		var wg sync.WaitGroup
		var panicked atomic.Value
		guard := func() {
			if p := recover(); p != nil {
				panicked.Store(fmt.Sprint(p))
			}
		}
		wg.Add(1)
		go func() {
			defer wg.Done()
			defer guard()
			w.oc.AddWaitingOperator(hop)
		}()
		select {
		case <-parked:
		case <-time.After(2 * time.Second): // the call made no cache read: nothing to hold
			atomic.StoreInt32(&armed, 0)
			w.r.Count("triple_holder_did_not_park", 1)
		}
		var started int32
		for i := 0; i < 2; i++ {
			wg.Add(1)
			go func(i int) {
				defer wg.Done()
				defer guard()
				src := schedule.DispatchFromHeartBeat
				if sources[i] == "push" {
					src = schedule.DispatchFromNotifierQueue
				}
				atomic.AddInt32(&started, 1)
				w.oc.Dispatch(view, src) // blocks on the controller lock
			}(i)
		}
		for i := 0; i < 200 && atomic.LoadInt32(&started) < 2; i++ {
			runtime.Gosched()
		}
		for i := 0; i < 20; i++ { // let both reach the lock (exploration only)
			runtime.Gosched()
		}
		close(release)
		wg.Wait()
		if p := panicked.Load(); p != nil {
			panic(p)
		}
	})
	w.hc.hook = hook
	w.r.Count("triple_rounds", 1)
}

func pairPhase(r *ev.Run, rng *rand.Rand) {
	target := r.Pick(40000, 150000) // concurrent rounds
	rounds, wi := 0, 0
	wants := []string{"move-peer", "move-peer", "add-peer", "builder", "demote-k", "swap-roles", "remove-peer", "move-leader", "builder"}
	for rounds < target {
		wi++
		mode := []string{modeJoint, modeJoint, modeDemote, modeLegacy}[rng.Intn(4)]
		w, err := newWorld(r, rng, 200000+wi, mode, 5+rng.Intn(3), 4, nil)
		if err != nil {
			r.Inconclusive("pair phase: %v", err)
			return
		}
		w.phase = "concurrent-dispatch-pairs"
		r.Count("pair_worlds", 1)
		for c := 0; c < 60 && rounds < target && !w.broken; c++ {
			var cand []*reg
			for _, g := range w.liveRegions() {
				if w.running[g.id] == nil && len(g.ops) == 0 && g.view != nil {
					cand = append(cand, g)
				}
			}
			if len(cand) == 0 {
				break
			}
			g := cand[rng.Intn(len(cand))]
			g.inbox = nil
			w.evNo++
			if g.dirty {
				w.putView(g)
			}
			ts := w.submit(g, g.view, false, false, false, wants[rng.Intn(len(wants))])
			if len(ts) != 1 || w.running[g.id] != ts[0] {
				continue
			}
			t := ts[0]
			r.Count("pair_operators", 1)
			for round := 0; round < 14 && !t.done && !w.broken; round++ {
				applied := false
				for len(g.inbox) > 0 {
					w.evNo++
					if w.exec(g, 0, true) == nil {
						applied = true
					}
				}
				w.evNo++
				w.putView(g)
				var src [2]string
				switch rng.Intn(4) {
				case 0:
					src = [2]string{"heartbeat", "heartbeat"}
				case 1:
					src = [2]string{"heartbeat", "push"}
				default:
					src = [2]string{"push", "heartbeat"}
				}
				var delay [2]int
				delay[rng.Intn(2)] = []int{0, 0, 5, 20, 60, 150, 400}[rng.Intn(7)]
				if rng.Intn(5) == 0 {
					var others []*reg
					for _, o := range w.liveRegions() {
						if o != g && w.running[o.id] == nil && o.view != nil && !o.dirty {
							others = append(others, o)
						}
					}
					if len(others) > 0 {
						w.dispatchTriple(g, others[rng.Intn(len(others))], src)
						rounds++
						r.Count("pair_rounds", 1)
						continue
					}
				}
				ov := w.dispatchPair(g, src, delay)
				rounds++
				r.Count("pair_rounds", 1)
				if ov {
					r.Count("pair_rounds_overlapped", 1)
				}
				if applied {
					r.Count("pair_rounds_after_a_step_was_applied", 1)
					if ov {
						r.Count("pair_rounds_overlapped_on_a_newly_finished_step", 1)
					}
				}
			}
			if !t.done && w.running[g.id] == t && !w.broken {
				tt := t
				w.call(&callInfo{name: "RemoveOperator", g: g}, func() {
					if w.oc.RemoveOperator(tt.op) {
						tt.removedBy = "RemoveOperator"
					}
				})
			}
		}
		w.close()
	}
}
