package main

import (
	"fmt"
	"math/rand"
	"runtime"
	"sync"
	"sync/atomic"

	"github.com/tikv/pd/server/schedule"
	"verif/harness/lib/ev"
	"verif/harness/lib/hist"
)

// Concurrent dispatch pairs. In a running server the heartbeat handler (Dispatch with source
// "heartbeat") and the push loop (PushOperators -> Dispatch with source "active push"), or two
// heartbeat streams, can work on ONE operator at the same time. Here an operator is executed with its
// own steps only; every time the store has applied a step and the cache holds the new region, two
// goroutines are released together into Dispatch for that region (the moment the step is found
// finished). After both returned the ordinary monitor runs: an operator whose region changed only
// through its own steps must not have been cancelled.

var spinSink uint64

func spin(n int) {
	for i := 0; i < n; i++ {
		atomic.AddUint64(&spinSink, 1)
	}
}

// dispatchPair releases two Dispatch calls for g together. sources[i] is "heartbeat" or "push".
func (w *world) dispatchPair(g *reg, sources [2]string, delay [2]int) (overlapped bool) {
	view := g.view
	if view == nil {
		return false
	}
	name := "Dispatch(" + sources[0] + ")‖Dispatch(" + sources[1] + ")"
	ci := &callInfo{name: name, g: g, pair: true}
	if sources[0] == "heartbeat" || sources[1] == "heartbeat" {
		ci.hbView = view
	}
	g.logf("#%d two concurrent dispatches (%s, %s) with the cached region %s", w.evNo, sources[0], sources[1], epochStr(view.GetRegionEpoch()))
	var callT, retT [2]int64
	hook := w.hc.hook
	w.hc.hook = nil // the cache-read hook is a single-threaded instrument
	w.call(ci, func() {
		var wg sync.WaitGroup
		var ready sync.WaitGroup
		gate := make(chan struct{})
		var panicked atomic.Value
		for i := 0; i < 2; i++ {
			wg.Add(1)
			ready.Add(1)
			go func(i int) {
				defer wg.Done()
				defer func() {
					if p := recover(); p != nil {
						panicked.Store(fmt.Sprint(p))
					}
				}()
				src := schedule.DispatchFromHeartBeat
				if sources[i] == "push" {
					src = schedule.DispatchFromNotifierQueue
				}
				ready.Done()
				<-gate
				spin(delay[i])
				callT[i] = hist.Tick()
				w.oc.Dispatch(view, src)
				retT[i] = hist.Tick()
			}(i)
		}
		ready.Wait()
		runtime.Gosched()
		close(gate)
		wg.Wait()
		if p := panicked.Load(); p != nil {
			panic(p)
		}
	})
	w.hc.hook = hook
	return callT[0] < retT[1] && callT[1] < retT[0]
}

func pairPhase(r *ev.Run, rng *rand.Rand) {
	target := r.Pick(60000, 150000) // concurrent rounds
	rounds, wi := 0, 0
	wants := []string{"move-peer", "move-peer", "add-peer", "builder", "demote-k", "swap-roles", "remove-peer", "move-leader", "builder"}
	for rounds < target {
		wi++
		mode := []string{modeJoint, modeJoint, modeDemote, modeLegacy}[rng.Intn(4)]
		w, err := newWorld(r, rng, 200000+wi, mode, 5+rng.Intn(3), 4, nil)
		if err != nil {
			r.Inconclusive("pair phase: %v", err)
			return
		}
		w.phase = "concurrent-dispatch-pairs"
		r.Count("pair_worlds", 1)
		for c := 0; c < 60 && rounds < target && !w.broken; c++ {
			var cand []*reg
			for _, g := range w.liveRegions() {
				if w.running[g.id] == nil && len(g.ops) == 0 && g.view != nil {
					cand = append(cand, g)
				}
			}
			if len(cand) == 0 {
				break
			}
			g := cand[rng.Intn(len(cand))]
			g.inbox = nil
			w.evNo++
			if g.dirty {
				w.putView(g)
			}
			ts := w.submit(g, g.view, false, false, false, wants[rng.Intn(len(wants))])
			if len(ts) != 1 || w.running[g.id] != ts[0] {
				continue
			}
			t := ts[0]
			r.Count("pair_operators", 1)
			for round := 0; round < 14 && !t.done && !w.broken; round++ {
				applied := false
				for len(g.inbox) > 0 {
					w.evNo++
					if w.exec(g, 0, true) == nil {
						applied = true
					}
				}
				w.evNo++
				w.putView(g)
				var src [2]string
				switch rng.Intn(4) {
				case 0:
					src = [2]string{"heartbeat", "heartbeat"}
				case 1:
					src = [2]string{"heartbeat", "push"}
				default:
					src = [2]string{"push", "heartbeat"}
				}
				var delay [2]int
				delay[rng.Intn(2)] = []int{0, 0, 5, 20, 60, 150, 400}[rng.Intn(7)]
				ov := w.dispatchPair(g, src, delay)
				rounds++
				r.Count("pair_rounds", 1)
				if ov {
					r.Count("pair_rounds_overlapped", 1)
				}
				if applied {
					r.Count("pair_rounds_after_a_step_was_applied", 1)
					if ov {
						r.Count("pair_rounds_overlapped_on_a_newly_finished_step", 1)
					}
				}
			}
			if !t.done && w.running[g.id] == t && !w.broken {
				tt := t
				w.call(&callInfo{name: "RemoveOperator", g: g}, func() {
					if w.oc.RemoveOperator(tt.op) {
						tt.removedBy = "RemoveOperator"
					}
				})
			}
		}
		w.close()
	}
}
