package main

import (
	"context"
	"fmt"
	"math/rand"
	"sync"
	"sync/atomic"
	"time"

	"github.com/pingcap/kvproto/pkg/metapb"
	"github.com/pingcap/kvproto/pkg/pdpb"
	"github.com/tikv/pd/server/core"
	"github.com/tikv/pd/server/schedule"
	"github.com/tikv/pd/server/schedule/hbstream"
	"github.com/tikv/pd/server/schedule/operator"
	"verif/harness/lib/ev"
	"verif/harness/lib/sim"
)

// Concurrent variant: the same controller calls from 8 goroutines over 4 regions, a HeartbeatStreams
// with its own goroutine (needRun=true) and one bound stream per store which acts as that store:
// it checks that a command arrives on the stream of the store of its target peer and executes it.
// Status sequences are judged by reachability all the time (each sample is taken under the operator's
// own monitor lock, so the samples of one operator are totally ordered); the running-set invariants
// are judged at quiescence. The race detector watches the mechanism functions.

type sOp struct {
	op   *operator.Operator
	rid  uint64
	id   int
	mu   sync.Mutex
	last operator.OpStatus
	seen []string
}

type sReg struct {
	mu  sync.Mutex
	id  uint64
	sim *sim.Region
}

type sWorld struct {
	r     *ev.Run
	round int
	mode  string
	w     *world // used for its generator only (cluster, stores)
	hb    *hbstream.HeartbeatStreams
	oc    *schedule.OperatorController
	regs  map[uint64]*sReg
	rids  []uint64

	mu   sync.Mutex
	ops  []*sOp
	byOp map[*operator.Operator]*sOp

	applied, refused, misrouted, streamErrors int64
}

type storeStream struct {
	sw    *sWorld
	store uint64
	flaky bool
	sent  int64
}

// Send is called by the HeartbeatStreams goroutine: the message is delivered to this store.
func (s *storeStream) Send(m *pdpb.RegionHeartbeatResponse) error {
	sw := s.sw
	if m.GetRegionId() == 0 {
		return nil // keep-alive
	}
	if s.flaky && atomic.AddInt64(&s.sent, 1)%7 == 0 {
		// the connection to this store breaks: HeartbeatStreams drops the stream, the command is lost
		atomic.AddInt64(&sw.streamErrors, 1)
		return fmt.Errorf("stream to store %d broken", s.store)
	}
	if m.GetTargetPeer().GetStoreId() != s.store {
		atomic.AddInt64(&sw.misrouted, 1)
		report("command-routed-to-wrong-store", fmt.Sprintf("a command whose target peer lives on store %d was sent on the stream of store %d", m.GetTargetPeer().GetStoreId(), s.store),
			"stress", 0, func() map[string]interface{} {
				return map[string]interface{}{"command": m.String(), "stream_of_store": s.store}
			})
		return nil
	}
	g := sw.regs[m.GetRegionId()]
	if g == nil {
		return nil
	}
	g.mu.Lock()
	err := g.sim.ApplyResponse(m)
	var info *core.RegionInfo
	if err == nil {
		info = g.sim.Info()
		sw.w.mc.PutRegion(info) // under the region lock: views stay monotone
	}
	g.mu.Unlock()
	if err != nil {
		atomic.AddInt64(&sw.refused, 1)
	} else {
		atomic.AddInt64(&sw.applied, 1)
	}
	return nil
}

func (sw *sWorld) sample(t *sOp, where string) {
	t.mu.Lock()
	s := t.op.Status()
	if s != t.last {
		if !reach[t.last][s] {
			from := t.last
			seen := append([]string(nil), t.seen...)
			report("status-transition-not-allowed:"+sname(from)+"->"+sname(s), fmt.Sprintf("operator status seen as %s and later (%s) as %s", sname(from), where, sname(s)),
				"stress", len(seen), func() map[string]interface{} {
					return map[string]interface{}{"phase": "stress", "round": sw.round, "steps": opSteps(t.op), "status_seen": append(seen, sname(s))}
				})
		}
		sw.r.Count("stress_transition_"+sname(t.last)+"->"+sname(s), 1)
		t.last = s
		t.seen = append(t.seen, sname(s))
	}
	t.mu.Unlock()
}

func (sw *sWorld) sampleAll(where string) {
	sw.mu.Lock()
	ops := append([]*sOp(nil), sw.ops...)
	sw.mu.Unlock()
	for _, t := range ops {
		sw.sample(t, where)
	}
}

func (sw *sWorld) register(ops []*operator.Operator) {
	sw.mu.Lock()
	for _, op := range ops {
		t := &sOp{op: op, rid: op.RegionID(), id: len(sw.ops) + 1, last: operator.CREATED, seen: []string{"created"}}
		sw.ops = append(sw.ops, t)
		sw.byOp[op] = t
	}
	sw.mu.Unlock()
}

func stressRound(r *ev.Run, seed int64, round int) {
	rng := rand.New(rand.NewSource(seed))
	mode := []string{modeJoint, modeJoint, modeDemote}[rng.Intn(3)]
	// the single-threaded world type provides cluster, stores and the operator generator; its own
	// monitor is not used here
	w, err := newWorld(r, rng, 100000+round, mode, 6, 4, nil)
	if err != nil {
		r.Inconclusive("stress: %v", err)
		return
	}
	defer w.close()
	ctx, cancel := context.WithCancel(context.Background())
	defer cancel()
	sw := &sWorld{r: r, round: round, mode: mode, w: w, regs: map[uint64]*sReg{}, byOp: map[*operator.Operator]*sOp{}}
	sw.hb = hbstream.NewTestHeartbeatStreams(ctx, w.mc.ID, w.mc, true)
	defer sw.hb.Close()
	sw.oc = schedule.NewOperatorController(ctx, w.mc, sw.hb)
	for _, st := range w.stores {
		sw.hb.BindStream(st, &storeStream{sw: sw, store: st, flaky: st == w.stores[0]})
	}
	for _, id := range w.rids {
		sw.regs[id] = &sReg{id: id, sim: w.regs[id].sim}
		sw.rids = append(sw.rids, id)
	}
	// pkg/mock/mockcluster reads its store map without the lock BasicCluster.AttachAvailableFunc takes;
	// the controller attaches one function per (store, limit type) on first use: do that before the
	// goroutines start so that the double's shortcut does not show up as a race
	for _, st := range w.stores {
		warm := operator.NewOperator("warm-up", "", sw.rids[0], &metapb.RegionEpoch{}, operator.OpRegion,
			operator.AddLearner{ToStore: st, PeerID: 1}, operator.RemovePeer{FromStore: st})
		_ = sw.oc.ExceedStoreLimit(warm)
	}
	const workers = 8
	t0 := time.Now()
	calls := r.Pick(250, 600)
	var genMu sync.Mutex // the generator shares one PRNG and the world's region list
	var wg sync.WaitGroup
	for k := 0; k < workers; k++ {
		wg.Add(1)
		go func(k int) {
			defer wg.Done()
			defer func() {
				if p := recover(); p != nil {
					report("panic-in-controller:stress", fmt.Sprintf("panic inside OperatorController under concurrent calls: %v", p), "stress", 0,
						func() map[string]interface{} { return map[string]interface{}{"panic": fmt.Sprint(p), "round": round} })
				}
			}()
			lr := rand.New(rand.NewSource(seed*31 + int64(k)))
			for c := 0; c < calls; c++ {
				if k == 0 && round%2 == 1 && c == calls*2/3 {
					cancel() // the server context is cancelled while calls still arrive; Close comes later
					r.Count("stress_context_cancelled_mid_run", 1)
				}
				rid := sw.rids[lr.Intn(len(sw.rids))]
				g := sw.regs[rid]
				x := lr.Intn(100)
				switch {
				case x < 22: // build + add
					view := w.mc.GetRegion(rid)
					if view == nil {
						continue
					}
					genMu.Lock()
					w.regs[rid].view = view
					res := w.generate(w.regs[rid], view, lr.Intn(8) == 0, []string{"", "", "demote-k", "transfer", "add-peer", "remove-peer"}[lr.Intn(6)])
					genMu.Unlock()
					if res.err != nil || len(res.ops) == 0 || res.api == "merge" {
						r.Count("stress_builder_error", 1)
						continue
					}
					sw.register(res.ops)
					if lr.Intn(3) == 0 {
						sw.oc.AddWaitingOperator(res.ops...)
						r.Count("stress_AddWaitingOperator", 1)
					} else {
						sw.oc.AddOperator(res.ops...)
						r.Count("stress_AddOperator", 1)
					}
				case x < 50: // heartbeat: cache update + dispatch
					g.mu.Lock()
					info := g.sim.Info()
					w.mc.PutRegion(info)
					g.mu.Unlock()
					sw.oc.Dispatch(info, schedule.DispatchFromHeartBeat)
					r.Count("stress_Dispatch_heartbeat", 1)
				case x < 62:
					if v := w.mc.GetRegion(rid); v != nil {
						sw.oc.Dispatch(v, schedule.DispatchFromNotifierQueue)
						r.Count("stress_Dispatch_push", 1)
					}
				case x < 68:
					sw.oc.PushOperators()
					r.Count("stress_PushOperators", 1)
				case x < 74:
					sw.oc.PromoteWaitingOperator()
					r.Count("stress_PromoteWaitingOperator", 1)
				case x < 82:
					if op := sw.oc.GetOperator(rid); op != nil {
						sw.oc.RemoveOperator(op)
						r.Count("stress_RemoveOperator", 1)
					}
				case x < 85:
					_ = sw.oc.GetOperatorStatus(rid)
					_ = sw.oc.GetOperators()
					_ = sw.oc.GetWaitingOperators()
					_ = sw.oc.GetOpInfluence(w.mc)
					_ = sw.oc.OperatorCount(operator.OpRegion)
					_ = sw.oc.GetHistory(time.Now().Add(-time.Hour))
					sw.oc.PruneHistory()
					sw.oc.GetFastOpInfluence(w.mc, operator.OpInfluence{StoresInfluence: map[uint64]*operator.StoreInfluence{}})
					if op := sw.oc.GetOperator(rid); op != nil {
						_ = sw.oc.ExceedStoreLimit(op)
					}
					if lr.Intn(4) == 0 { // the broken store reconnects
						sw.hb.BindStream(w.stores[0], &storeStream{sw: sw, store: w.stores[0], flaky: true})
					}
				case x < 88: // one AddWaitingOperator call for every region: one starts, the others queue
					var batch []*operator.Operator
					genMu.Lock()
					for _, id := range sw.rids {
						if v := w.mc.GetRegion(id); v != nil {
							w.regs[id].view = v
							if res := w.generate(w.regs[id], v, false, []string{"add-peer", "transfer", "remove-peer"}[lr.Intn(3)]); res.err == nil && len(res.ops) == 1 {
								res.ops[0].SetDesc("stress-batch")
								batch = append(batch, res.ops[0])
							}
						}
					}
					genMu.Unlock()
					if len(batch) >= 2 {
						sw.register(batch)
						sw.oc.AddWaitingOperator(batch...)
						r.Count("stress_AddWaitingOperator_batch", 1)
					}
				case x < 94: // foreign conf change
					g.mu.Lock()
					var es []uint64
					for _, s := range w.stores {
						if g.sim.Peer(s) == nil {
							es = append(es, s)
						}
					}
					if len(es) > 0 && !g.sim.InJoint() {
						_ = g.sim.AddLearner(es[lr.Intn(len(es))], g.sim.FreshPeerID())
					} else if !g.sim.InJoint() {
						for _, p := range g.sim.Peers {
							if p.StoreId != g.sim.LeaderStore {
								_ = g.sim.Remove(p.StoreId, p.Id)
								break
							}
						}
					}
					g.mu.Unlock()
					r.Count("stress_foreign_conf", 1)
				default: // foreign leader change
					g.mu.Lock()
					for _, p := range g.sim.Peers {
						if p.StoreId != g.sim.LeaderStore && g.sim.ForceLeader(p.StoreId) {
							break
						}
					}
					g.mu.Unlock()
				}
				sw.sampleAll("during the run")
			}
		}(k)
	}
	wg.Wait()
	// quiescence: nothing calls the controller any more; let the stream goroutine drain
	for i := 0; i < 200 && sw.hb.MsgLength() > 0; i++ {
		time.Sleep(5 * time.Millisecond)
	}
	time.Sleep(20 * time.Millisecond)
	sw.sampleAll("at quiescence")

	running := map[uint64]*operator.Operator{}
	for _, op := range sw.oc.GetOperators() {
		if o := running[op.RegionID()]; o != nil && o != op {
			report("two-running-operators-for-one-region", fmt.Sprintf("GetOperators() lists two operators for region %d at quiescence", op.RegionID()), "stress", 0,
				func() map[string]interface{} { return map[string]interface{}{"round": round} })
		}
		running[op.RegionID()] = op
	}
	ended := map[uint64]int{}
	for _, t := range sw.ops {
		s := t.op.Status()
		r.Count("stress_final_"+sname(s), 1)
		switch {
		case s == operator.STARTED && running[t.rid] != t.op:
			tt := t
			report("started-but-not-in-running-set:stress", "at quiescence an operator has status started but GetOperators() does not list it", "stress", len(t.seen),
				func() map[string]interface{} {
					return map[string]interface{}{"round": round, "steps": opSteps(tt.op), "status_seen": tt.seen, "region": tt.rid}
				})
		case s == operator.CREATED && running[t.rid] == t.op:
			report("running-but-never-started:stress", "at quiescence GetOperators() lists an operator whose status is still created", "stress", 0,
				func() map[string]interface{} { return map[string]interface{}{"round": round} })
		}
		if isEndStatus(s) && len(t.seen) > 1 && running[t.rid] != t.op {
			ended[t.rid]++
		}
		if s != operator.CREATED {
			r.Eval(1)
			r.Distinct("stress|" + mode + "|" + opShape(t.op) + "|" + sname(s))
		}
	}
	if time.Since(t0) > 5*time.Minute {
		// operator records live 10 minutes of wall clock: on a machine this slow their absence proves nothing
		r.Count("skipped_record_check_slow_machine", 1)
		ended = nil
	}
	for rid, n := range ended {
		if running[rid] != nil || n == 0 {
			continue
		}
		rec := sw.oc.GetOperatorStatus(rid)
		switch {
		case rec == nil:
			report("left-running-set-not-remembered:stress", fmt.Sprintf("%d operators of region %d have ended, none is running, but GetOperatorStatus(region) is nil", n, rid), "stress", 0,
				func() map[string]interface{} { return map[string]interface{}{"round": round, "region": rid} })
		case sw.byOp[rec.Op] == nil || sw.byOp[rec.Op].rid != rid:
			report("record-holds-foreign-operator:stress", fmt.Sprintf("GetOperatorStatus(%d) returns an operator of another region", rid), "stress", 0,
				func() map[string]interface{} { return map[string]interface{}{"round": round, "region": rid} })
		default:
			if want, ok := rememberedAs(rec.Op.Status()); ok && isEndStatus(rec.Op.Status()) && rec.Status != want {
				report("remembered-with-wrong-status:"+sname(rec.Op.Status()), fmt.Sprintf("operator ended as %s but is remembered as %s", sname(rec.Op.Status()), rec.Status), "stress", 0,
					func() map[string]interface{} { return map[string]interface{}{"round": round, "region": rid} })
			}
			r.Count("stress_record_checked", 1)
		}
	}
	r.Count("stress_commands_applied", atomic.LoadInt64(&sw.applied))
	r.Count("stress_commands_refused", atomic.LoadInt64(&sw.refused))
	r.Count("stress_stream_errors", atomic.LoadInt64(&sw.streamErrors))
	r.Count("stress_rounds", 1)
}

func stress(r *ev.Run, rng *rand.Rand) {
	rounds := r.Pick(6, 30)
	for i := 0; i < rounds; i++ {
		stressRound(r, rng.Int63(), i)
	}
}
