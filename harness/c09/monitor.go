package main

import (
	"fmt"
	"sort"
	"sync"
	"time"

	"github.com/gogo/protobuf/proto"
	"github.com/pingcap/kvproto/pkg/pdpb"
	"github.com/tikv/pd/server/core"
	"github.com/tikv/pd/server/schedule"
	"github.com/tikv/pd/server/schedule/operator"
	"verif/harness/lib/ev"
	"verif/harness/lib/sim"
)

// ---- the allowed status graph, written from the statement ---------------------------------------------
//
//	created -> started -> {success, cancelled, replaced, timeout};  created -> {cancelled, expired}
var statusName = map[operator.OpStatus]string{
	operator.CREATED: "created", operator.STARTED: "started", operator.SUCCESS: "success", operator.CANCELED: "cancelled",
	operator.REPLACED: "replaced", operator.EXPIRED: "expired", operator.TIMEOUT: "timeout",
}

var allowedEdges = map[operator.OpStatus][]operator.OpStatus{
	operator.CREATED: {operator.STARTED, operator.CANCELED, operator.EXPIRED},
	operator.STARTED: {operator.SUCCESS, operator.CANCELED, operator.REPLACED, operator.TIMEOUT},
}

// reach[a][b]: b can be observed after a (zero or more allowed transitions in between).
var reach = func() map[operator.OpStatus]map[operator.OpStatus]bool {
	m := map[operator.OpStatus]map[operator.OpStatus]bool{}
	for s := range statusName {
		m[s] = map[operator.OpStatus]bool{s: true}
	}
	for changed := true; changed; {
		changed = false
		for a := range statusName {
			for b := range m[a] {
				for _, c := range allowedEdges[b] {
					if !m[a][c] {
						m[a][c] = true
						changed = true
					}
				}
			}
		}
	}
	return m
}()

func isEndStatus(s operator.OpStatus) bool {
	return s == operator.SUCCESS || s == operator.CANCELED || s == operator.REPLACED || s == operator.EXPIRED || s == operator.TIMEOUT
}

func sname(s operator.OpStatus) string {
	if n, ok := statusName[s]; ok {
		return n
	}
	return fmt.Sprintf("unknown(%d)", s)
}

// how an end status is reported to clients ("remembered as such")
func rememberedAs(s operator.OpStatus) (pdpb.OperatorStatus, bool) {
	switch s {
	case operator.SUCCESS:
		return pdpb.OperatorStatus_SUCCESS, true
	case operator.CANCELED:
		return pdpb.OperatorStatus_CANCEL, true
	case operator.REPLACED:
		return pdpb.OperatorStatus_REPLACE, true
	case operator.EXPIRED, operator.TIMEOUT:
		return pdpb.OperatorStatus_TIMEOUT, true
	case operator.STARTED:
		return pdpb.OperatorStatus_RUNNING, true
	}
	return 0, false
}

// ---- findings: buffered so that the shortest witness per key is the one written -------------------------

type finding struct {
	key, what string
	size      int
	hits      int
	by        map[string]int
	witness   map[string]interface{}
}

var (
	findMu   sync.Mutex
	findings = map[string]*finding{}
)

func report(key, what, by string, size int, witness func() map[string]interface{}) {
	findMu.Lock()
	defer findMu.Unlock()
	f := findings[key]
	if f == nil {
		f = &finding{key: key, by: map[string]int{}, size: 1 << 30}
		findings[key] = f
	}
	f.hits++
	f.by[by]++
	if size < f.size {
		f.size, f.what, f.witness = size, what, witness()
	}
}

func flushFindings(r *ev.Run) {
	findMu.Lock()
	defer findMu.Unlock()
	var keys []string
	for k := range findings {
		keys = append(keys, k)
	}
	sort.Strings(keys)
	for _, k := range keys {
		f := findings[k]
		f.witness["hits_in_this_run"] = f.hits
		f.witness["found_by"] = f.by
		r.Violation(f.key, f.what, f.witness)
		r.Count("violation_hits:"+f.key, int64(f.hits))
	}
	findings = map[string]*finding{}
}

// ---- witnesses ----------------------------------------------------------------------------------------

func (w *world) opWitness(t *opTrack, extra map[string]interface{}) map[string]interface{} {
	m := map[string]interface{}{
		"world": map[string]interface{}{"mode": w.mode, "stores": w.stores, "phase": w.phase, "world_no": w.wid},
		"operator": map[string]interface{}{
			"no": t.id, "api": t.api, "region": t.g.id, "epoch": epochStr(t.op.RegionEpoch()), "steps": opSteps(t.op),
			"kind": t.op.Kind().String(), "priority": int(t.op.GetPriorityLevel()), "submitted_by": t.call,
			"region_when_built": t.origin, "status_seen": t.trans, "own_applied_conf_ver": t.ownApplied,
			"foreign_changes": keysOf(t.fkinds),
		},
		"region_history_since_operator_was_built": append([]string(nil), t.g.log[t.logAt:]...),
		"region_now_at_store":                     t.g.sim.Describe(),
	}
	if t.g.view != nil {
		m["region_now_at_pd"] = fmt.Sprintf("%v leader=%v", t.g.view.GetMeta(), t.g.view.GetLeader())
	}
	for k, v := range extra {
		m[k] = v
	}
	return m
}

func keysOf(m map[string]bool) []string {
	var out []string
	for k := range m {
		out = append(out, k)
	}
	sort.Strings(out)
	return out
}

// ---- tracking -------------------------------------------------------------------------------------------

func (w *world) track(g *reg, op *operator.Operator, api string, admin bool) *opTrack {
	w.nextOp++
	t := &opTrack{id: w.nextOp, op: op, g: g, api: api, admin: admin, shape: opShape(op), logAt: len(g.log),
		origin: g.sim.Describe(), last: op.Status(), fkinds: map[string]bool{}, fp: map[footprint]bool{}, fpk: map[[2]uint64]bool{}}
	t.trans = []string{sname(t.last)}
	for i := 0; i < op.Len(); i++ {
		for _, f := range stepFootprints(op.Step(i)) {
			t.fp[f] = true
			t.fpk[[2]uint64{f.store, f.id}] = true
		}
	}
	t.planOK = planExecutable(g, op)
	if !t.planOK {
		w.r.Count("operator_plan_not_executable_on_its_own(C08)", 1)
	}
	g.ops = append(g.ops, t)
	w.live = append(w.live, t)
	w.byOp[op] = t
	return t
}

// planExecutable screens an operator the way C08 judges it: executed alone on a copy of the region as
// pd sees it, does every step meet its own safety check at its turn and does the store accept it? An
// operator that fails this is cancelled by the controller for a reason that lies in the plan, not in
// the lifecycle (C08's subject); the own-steps-only oracle does not judge it.
func planExecutable(g *reg, op *operator.Operator) (ok bool) {
	if g.view == nil {
		return false
	}
	defer func() {
		if p := recover(); p != nil {
			ok = false
		}
	}()
	var steps []operator.OpStep
	for i := 0; i < op.Len(); i++ {
		switch op.Step(i).(type) {
		case operator.MergeRegion, operator.SplitRegion:
			i = op.Len()
			continue
		}
		steps = append(steps, op.Step(i))
	}
	ok = true
	tr := sim.Replay(simFrom(g.view), steps, func(i int, st operator.OpStep, before *core.RegionInfo, err error, after *core.RegionInfo, r *sim.Region) bool {
		if st.IsFinish(before) {
			return true // the controller skips steps that are already satisfied
		}
		if st.CheckSafety(before) != nil || err != nil {
			ok = false
			return false
		}
		return true
	})
	_ = tr
	return ok
}

// callInfo describes the controller call that has just returned.
type callInfo struct {
	name    string
	g       *reg             // region the call was about (nil for PushOperators / Promote)
	hbView  *core.RegionInfo // != nil: Dispatch(hbView, "heartbeat") was the call
	push    bool             // PushOperators: several dispatches inside one call
	pair    bool             // two concurrent Dispatch calls for region g
	samples *statusLog       // statuses sampled by the actors and an observer while the call was running
	holder  bool             // ... queued behind a third call (for another region) that held the controller lock
	removed *opTrack         // RemoveOperator(removed) returned true
	wall    time.Duration
	reads   int // region-cache reads the controller made during the call
}

// call runs one controller call, then drains the heartbeat stream and samples everything.
func (w *world) call(ci *callInfo, f func()) {
	if w.broken {
		return // a panic inside the controller may have left its lock held: the world is abandoned
	}
	w.r.Count("call_"+ci.name, 1)
	func() {
		defer func() {
			if p := recover(); p != nil {
				w.broken = true
				rid := uint64(0)
				if ci.g != nil {
					rid = ci.g.id
				}
				report("panic-in-controller:"+ci.name, fmt.Sprintf("panic inside OperatorController during %s: %v", ci.name, p), w.phase, 0,
					func() map[string]interface{} {
						return map[string]interface{}{"call": ci.name, "region": rid, "panic": fmt.Sprint(p), "world": w.mode}
					})
			}
		}()
		t0 := time.Now()
		w.hc.reads = 0
		f()
		ci.wall = time.Since(t0)
		ci.reads = w.hc.reads
	}()
	if w.broken {
		w.r.Count("worlds_abandoned_after_panic", 1)
		return
	}
	w.observe(ci)
	w.lastReads = ci.reads
	if w.inj != nil && w.inj.done {
		w.inj = nil
	}
}

// altView: the region as the cache held it earlier during the running call (a cache update was placed
// inside the call). Either view was "the region at that moment" for some moment of the call.
func (w *world) altView(g *reg) *core.RegionInfo {
	if w.inj != nil && w.inj.done && w.inj.g == g {
		return w.inj.before
	}
	return nil
}

func headerMatches(m *pdpb.RegionHeartbeatResponse, view *core.RegionInfo) string {
	if view == nil {
		return "region"
	}
	e, ve := m.GetRegionEpoch(), view.GetRegionEpoch()
	switch {
	case e.GetConfVer() != ve.GetConfVer() || e.GetVersion() != ve.GetVersion():
		return "epoch"
	case m.GetTargetPeer().GetId() != view.GetLeader().GetId() || m.GetTargetPeer().GetStoreId() != view.GetLeader().GetStoreId():
		return "target-peer"
	}
	return ""
}

// observe: drain commands, sample the running set and every live operator's status, judge.
func (w *world) observe(ci *callInfo) {
	r := w.r
	w.callNo++
	// --- running set now
	cur := map[uint64]*opTrack{}
	for _, op := range w.oc.GetOperators() {
		t := w.byOp[op]
		if t == nil {
			r.Inconclusive("harness: controller runs an operator the harness did not create (region %d)", op.RegionID())
			continue
		}
		if o := cur[op.RegionID()]; o != nil && o != t {
			tt := t
			report("two-running-operators-for-one-region", fmt.Sprintf("GetOperators() lists two operators for region %d after %s", op.RegionID(), ci.name),
				w.phase, len(tt.g.log)-tt.logAt, func() map[string]interface{} {
					return w.opWitness(tt, map[string]interface{}{"other": o.id, "call": ci.name})
				})
		}
		cur[op.RegionID()] = t
	}
	prev := w.running

	// --- commands sent during the call: they stay in the stream until the store side reads them
	w.noteSent(ci, cur, prev)

	// --- statuses (first what was sampled while the call was running, if anything)
	if ci.samples != nil {
		for _, t := range w.live {
			if len(ci.samples.seen[t]) > 0 {
				w.judgeSamples(ci.samples, t, ci.name)
			}
		}
	}
	for _, t := range w.live {
		s := t.op.Status()
		if s != t.last {
			r.Count("transition_"+sname(t.last)+"->"+sname(s), 1)
			if !reach[t.last][s] {
				tt, from := t, t.last
				report("status-transition-not-allowed:"+sname(from)+"->"+sname(s), fmt.Sprintf("operator status seen as %s and, after %s, as %s", sname(from), ci.name, sname(s)),
					w.phase, len(t.g.log)-t.logAt, func() map[string]interface{} { return w.opWitness(tt, map[string]interface{}{"call": ci.name}) })
			}
			t.last = s
			t.changedAt = w.callNo
			t.trans = append(t.trans, sname(s)+"@"+ci.name)
		}
	}

	// --- the waiting queue: operators that were enqueued and not started
	inQueue := map[*operator.Operator]bool{}
	perDesc := map[string]int64{}
	for _, op := range w.oc.GetWaitingOperators() {
		inQueue[op] = true
		perDesc[op.Desc()]++
	}
	if w.populated {
		for _, n := range perDesc {
			noteMax("max_waiting_operators_of_one_description", n)
		}
		noteMax("max_waiting_operators", int64(len(inQueue)))
		noteMax("max_running_operators", int64(len(cur)))
	}
	for _, t := range w.live {
		if t.last == operator.CREATED && inQueue[t.op] && !t.waiting {
			t.waiting = true
			r.Count("operators_left_waiting", 1)
			t.g.logf("#%d PD keeps op%d in the waiting queue after %s", w.evNo, t.id, ci.name)
		}
		if t.waiting && t.epochChanged && t.changedAt == w.callNo && t.last == operator.CANCELED {
			r.Count("waiting_operator_cancelled_after_epoch_change", 1)
		}
	}

	// --- admissions: operators that entered the running set during this call
	for _, rid := range sortedRids(cur) {
		t := cur[rid]
		if prev[rid] == t {
			continue
		}
		t.everRunning = true
		r.Count("admitted_via_"+ci.name, 1)
		if t.waiting {
			// it left the waiting queue for the running set: the admission oracle below is evaluated now
			r.Count("promotions_observed", 1)
			r.Count("promotions_observed_during_"+ci.name, 1)
			if t.epochChanged {
				r.Count("promotions_observed_after_epoch_change", 1)
			}
		}
		g := t.g
		if old := prev[rid]; old != nil && old.removedBy == "" {
			old.removedBy = "replaced-by-op" // our own higher-priority operator
		}
		views := []*core.RegionInfo{}
		if g.view != nil {
			views = append(views, g.view)
		}
		if a := w.altView(g); a != nil {
			views = append(views, a)
		}
		if len(views) == 0 {
			tt := t
			report("admitted-for-region-unknown-to-pd:"+ci.name, fmt.Sprintf("operator admitted by %s for region %d which pd's cache does not hold", ci.name, rid),
				w.phase, len(g.log)-t.logAt, func() map[string]interface{} { return w.opWitness(tt, nil) })
			continue
		}
		oe := t.op.RegionEpoch()
		okEpoch := false
		for _, v := range views {
			ve := v.GetRegionEpoch()
			if oe.GetConfVer() == ve.GetConfVer() && oe.GetVersion() == ve.GetVersion() {
				okEpoch = true
			}
		}
		ve := views[0].GetRegionEpoch()
		g.logf("#%d PD admits op%d [%s] (recorded at %s, region at %s) during %s", w.evNo, t.id, t.shape, epochStr(oe), epochStr(ve), ci.name)
		if !okEpoch {
			tt := t
			report("admitted-with-epoch-mismatch:"+ci.name, fmt.Sprintf("%s admitted an operator recorded at %s while the region is at %s", ci.name, epochStr(oe), epochStr(ve)),
				w.phase, len(g.log)-t.logAt, func() map[string]interface{} { return w.opWitness(tt, map[string]interface{}{"call": ci.name}) })
		}
	}

	// --- operators that left the running set
	for _, rid := range sortedRids(prev) {
		t := prev[rid]
		if cur[rid] == t {
			continue
		}
		s := t.op.Status()
		t.g.logf("#%d PD: op%d left the running set as %s during %s", w.evNo, t.id, sname(s), ci.name)
		if !isEndStatus(s) {
			tt := t
			report("left-running-set-not-ended:"+sname(s)+":"+ci.name, fmt.Sprintf("operator was running, is no longer after %s, but its status is %s", ci.name, sname(s)),
				w.phase, len(t.g.log)-t.logAt, func() map[string]interface{} { return w.opWitness(tt, map[string]interface{}{"call": ci.name}) })
			continue
		}
		if ci.wall > 5*time.Minute {
			r.Count("skipped_record_check_slow_machine", 1) // records are kept 10 minutes of wall clock
			continue
		}
		rec := w.oc.GetOperatorStatus(rid)
		// one record per region: an operator of the same region that was buried later takes its place
		newer := false
		if rec != nil && rec.Op != t.op {
			if o := w.byOp[rec.Op]; o != nil && o.g == t.g && (o.id > t.id || o.changedAt == w.callNo || cur[rid] == o) {
				newer = true
			}
		}
		switch {
		case rec == nil || (rec.Op != t.op && !newer):
			tt := t
			report("left-running-set-not-remembered:"+sname(s)+":"+ci.name, fmt.Sprintf("operator ended as %s during %s but GetOperatorStatus(region) does not return it", sname(s), ci.name),
				w.phase, len(t.g.log)-t.logAt, func() map[string]interface{} {
					return w.opWitness(tt, map[string]interface{}{"call": ci.name, "record": fmt.Sprint(rec)})
				})
		case rec.Op == t.op:
			if want, ok := rememberedAs(s); ok && rec.Status != want {
				tt := t
				report("remembered-with-wrong-status:"+sname(s), fmt.Sprintf("operator ended as %s but is remembered as %s", sname(s), rec.Status), w.phase, len(t.g.log)-t.logAt,
					func() map[string]interface{} { return w.opWitness(tt, map[string]interface{}{"call": ci.name}) })
			}
			r.Count("record_checked", 1)
		default:
			r.Count("record_superseded_by_newer_operator", 1)
		}
	}

	// --- started <=> in the running set
	for _, t := range w.live {
		if t.last == operator.STARTED && cur[t.g.id] != t {
			tt := t
			report("started-but-not-in-running-set:"+ci.name, fmt.Sprintf("after %s an operator has status started but GetOperators() does not list it", ci.name),
				w.phase, len(t.g.log)-t.logAt, func() map[string]interface{} { return w.opWitness(tt, map[string]interface{}{"call": ci.name}) })
		}
		if t.last == operator.CREATED && cur[t.g.id] == t {
			tt := t
			report("running-but-never-started:"+ci.name, fmt.Sprintf("after %s GetOperators() lists an operator whose status is still created", ci.name),
				w.phase, len(t.g.log)-t.logAt, func() map[string]interface{} { return w.opWitness(tt, map[string]interface{}{"call": ci.name}) })
		}
	}

	// --- staleness: judged at a heartbeat dispatch
	if ci.hbView != nil && ci.g != nil {
		if t := prev[ci.g.id]; t != nil {
			w.judgeHeartbeat(ci, t, cur[ci.g.id] == t)
		}
	}

	w.running = cur

	// --- finalise ended operators that are out of the running set
	keep := w.live[:0]
	for _, t := range w.live {
		if isEndStatus(t.last) && cur[t.g.id] != t {
			w.finalise(t, ci)
			continue
		}
		keep = append(keep, t)
	}
	w.live = keep
}

// judgeHeartbeat: Dispatch(view, heartbeat) has just returned; t was the running operator of the region.
func (w *world) judgeHeartbeat(ci *callInfo, t *opTrack, stillRunning bool) {
	r := w.r
	view := ci.hbView
	if view.GetRegionEpoch().GetConfVer() < t.op.RegionEpoch().GetConfVer() {
		r.Inconclusive("harness: view older than a running operator")
		return
	}
	delta := view.GetRegionEpoch().GetConfVer() - t.op.RegionEpoch().GetConfVer()
	stale := delta > t.ownAtView
	active := stillRunning && t.op.Status() == operator.STARTED
	if stale {
		r.Count("hb_dispatch_with_foreign_conf_change", 1)
		switch {
		case t.ambiguous || t.tainted:
			r.Count("skipped_ambiguous_staleness", 1)
		case active:
			step := t.op.Check(view)
			if t.op.Status() != operator.STARTED {
				break // a wall-clock transition (timeout) hit between Dispatch and here
			}
			tt := t
			det := stepDetail(step)
			report("stale-not-cancelled:"+det,
				fmt.Sprintf("after Dispatch(heartbeat) the operator is still running at step %q although conf_ver(region)-conf_ver(operator)=%d and the store applied only %d on its behalf",
					fmt.Sprint(step), delta, t.ownAtView), w.phase, len(t.g.log)-t.logAt,
				func() map[string]interface{} {
					x := map[string]interface{}{"conf_ver_delta": delta, "own_applied": tt.ownAtView, "current_step": fmt.Sprint(step),
						"operator_ConfVerChanged": tt.op.ConfVerChanged(view)}
					return w.opWitness(tt, x)
				})
		default:
			r.Count("stale_operator_ended_as_"+sname(t.op.Status()), 1)
		}
	}
	if active && t.op.Status() == operator.STARTED {
		step := t.op.Check(view)
		if step != nil && t.op.Status() == operator.STARTED {
			var serr error
			func() {
				defer func() {
					if p := recover(); p != nil {
						serr = nil
					}
				}()
				serr = step.CheckSafety(view)
			}()
			if serr != nil {
				tt := t
				report("unsafe-step-not-cancelled:"+stepDetail(step),
					fmt.Sprintf("after Dispatch(heartbeat) the operator is still running although its current step %q fails CheckSafety: %v", fmt.Sprint(step), serr),
					w.phase, len(t.g.log)-t.logAt, func() map[string]interface{} {
						return w.opWitness(tt, map[string]interface{}{"current_step": fmt.Sprint(step), "check_safety": serr.Error()})
					})
			}
		}
	}
}

// finalise: the operator is over. Own-steps-only executions must have succeeded.
func (w *world) finalise(t *opTrack, ci *callInfo) {
	r := w.r
	t.done = true
	g := t.g
	for i, o := range g.ops {
		if o == t {
			g.ops = append(g.ops[:i:i], g.ops[i+1:]...)
			break
		}
	}
	r.Count("operator_ended_"+sname(t.last), 1)
	if !t.everRunning {
		r.Count("operator_never_admitted", 1)
		return
	}
	r.Eval(1)
	r.Distinct(w.mode + "|" + t.shape + "|" + sname(t.last) + "|" + fmt.Sprint(keysOf(t.fkinds)) + "|" + t.removedBy)
	r.Sample(map[string]interface{}{"api": t.api, "steps": opSteps(t.op), "status_seen": t.trans, "foreign_changes": keysOf(t.fkinds),
		"own_applied_conf_ver": t.ownApplied, "region_when_built": t.origin})
	own := !t.foreign && !t.tainted && !t.ambiguous && t.removedBy == ""
	switch {
	case !own:
		r.Count("ended_with_interference", 1)
	case !t.planOK && t.last != operator.SUCCESS:
		r.Count("skipped_plan_not_executable_on_its_own", 1)
	case t.mergeSrc:
		r.Count("skipped_merge_source_own_only", 1) // documented: ends when the region disappears
	case t.last == operator.SUCCESS:
		r.Count("own_steps_only_success", 1)
	case t.last == operator.TIMEOUT || t.last == operator.EXPIRED:
		r.Count("skipped_wall_clock_end", 1)
	default:
		tt := t
		report("own-steps-only-ended-"+sname(t.last)+":"+ci.name+":"+lastStepKind(t),
			fmt.Sprintf("the region changed only through the operator's own steps, yet it ended as %s during %s", sname(t.last), ci.name),
			w.phase, len(g.log)-t.logAt, func() map[string]interface{} { return w.opWitness(tt, map[string]interface{}{"call": ci.name}) })
	}
}

func lastStepKind(t *opTrack) string {
	if t.g.view == nil {
		return "region-gone"
	}
	// first step the region as pd sees it does not satisfy (descriptive only)
	for i := 0; i < t.op.Len(); i++ {
		if !t.op.Step(i).IsFinish(t.g.view) {
			return stepDetail(t.op.Step(i))
		}
	}
	return "all-finished"
}

// commandFits: could m be the command pd derives from one of op's steps? Only used to decide whether an
// attribution is certain (otherwise the operators of the region are not judged for staleness).
func commandFits(m *pdpb.RegionHeartbeatResponse, op *operator.Operator) bool {
	for i := 0; i < op.Len(); i++ {
		switch s := op.Step(i).(type) {
		case operator.TransferLeader:
			if tl := m.GetTransferLeader(); tl != nil && tl.GetPeer().GetStoreId() == s.ToStore {
				return true
			}
			if tl := m.GetTransferLeader(); tl != nil && tl.GetPeer() == nil {
				return true
			}
		case operator.AddPeer:
			if fitsChange(m, "AddNode", s.ToStore, s.PeerID) {
				return true
			}
		case operator.AddLightPeer:
			if fitsChange(m, "AddNode", s.ToStore, s.PeerID) {
				return true
			}
		case operator.PromoteLearner:
			if fitsChange(m, "AddNode", s.ToStore, s.PeerID) {
				return true
			}
		case operator.AddLearner:
			if fitsChange(m, "AddLearnerNode", s.ToStore, s.PeerID) {
				return true
			}
		case operator.AddLightLearner:
			if fitsChange(m, "AddLearnerNode", s.ToStore, s.PeerID) {
				return true
			}
		case operator.DemoteFollower:
			if fitsChange(m, "AddLearnerNode", s.ToStore, s.PeerID) {
				return true
			}
		case operator.RemovePeer:
			if c := m.GetChangePeer(); c != nil && c.GetChangeType().String() == "RemoveNode" && (c.GetPeer() == nil || c.GetPeer().GetStoreId() == s.FromStore) {
				return true
			}
		case operator.ChangePeerV2Enter:
			if v2 := m.GetChangePeerV2(); v2 != nil && len(v2.GetChanges()) == len(s.PromoteLearners)+len(s.DemoteVoters) && len(v2.GetChanges()) > 0 {
				return true
			}
		case operator.ChangePeerV2Leave:
			if v2 := m.GetChangePeerV2(); v2 != nil && len(v2.GetChanges()) == 0 {
				return true
			}
		case operator.MergeRegion:
			if m.GetMerge() != nil {
				return true
			}
		case operator.SplitRegion:
			if m.GetSplitRegion() != nil {
				return true
			}
		}
	}
	return false
}

func fitsChange(m *pdpb.RegionHeartbeatResponse, typ string, store, id uint64) bool {
	c := m.GetChangePeer()
	return c != nil && c.GetChangeType().String() == typ && c.GetPeer().GetStoreId() == store && c.GetPeer().GetId() == id
}

// ---- controller calls ------------------------------------------------------------------------------------

// submit creates operators from `view` and hands them to the controller through AddOperator or
// AddWaitingOperator.
func (w *world) submit(g *reg, view *core.RegionInfo, stale bool, admin bool, waiting bool, want string) []*opTrack {
	res := w.generate(g, view, admin, want)
	if res.err != nil || len(res.ops) == 0 {
		w.r.Count("builder_error_"+res.api, 1)
		return nil
	}
	return w.submitOps(g, res, stale, admin, waiting)
}

func (w *world) submitOps(g *reg, res genResult, stale bool, admin bool, waiting bool) []*opTrack {
	r := w.r
	if res.batch {
		r.Count("built_batch", 1)
	} else {
		r.Count("built_"+res.api, 1)
	}
	var ts []*opTrack
	for i, op := range res.ops {
		tg := w.regs[op.RegionID()]
		t := w.track(tg, op, res.api, admin)
		t.staleView = stale
		if res.api == "merge" {
			t.mergeSrc, t.mergeDst = i == 0, i == 1
		}
		// changes of the region pd has not been told yet are foreign to an operator built from pd's view
		if tg.dirty || stale {
			t.foreign = true
			t.fkinds["unseen-when-built"] = true
			if stale {
				t.ambiguous = true
			} else if tg.view != nil {
				for _, f := range diffFootprints(simFrom(tg.view), tg.sim) {
					if t.coincides(f) {
						t.ambiguous = true
					}
				}
			}
		}
		if tg.dead {
			// the store has already merged this region away; pd's cache has not noticed yet
			t.foreign, t.ambiguous = true, true
			t.fkinds["region-merged-away"] = true
		}
		if len(tg.inbox) > 0 {
			// commands of earlier operators are still in flight
			t.fkinds["commands-in-flight-when-built"] = true
		}
		ts = append(ts, t)
	}
	if len(ts) == 2 && res.api == "merge" {
		ts[0].pair, ts[1].pair = ts[1], ts[0]
	}
	name := "AddOperator"
	if waiting {
		name = "AddWaitingOperator"
	}
	if admin {
		name += "(admin)"
	}
	if res.batch {
		name += "(batch)"
	}
	for _, t := range ts {
		t.call = name
		t.submitted = true
		t.g.logf("#%d HARNESS builds op%d via %s from %s view: %v epoch %s", w.evNo, t.id, t.api, map[bool]string{false: "pd's current", true: "a superseded"}[stale], opSteps(t.op), epochStr(t.op.RegionEpoch()))
	}
	if w.prepareOnly {
		return ts
	}
	ci := &callInfo{name: name, g: g}
	w.call(ci, func() {
		if waiting {
			n := w.oc.AddWaitingOperator(res.ops...)
			r.Count(fmt.Sprintf("AddWaitingOperator_returned_%d", n), 1)
		} else {
			ok := w.oc.AddOperator(res.ops...)
			r.Count(fmt.Sprintf("AddOperator_returned_%v", ok), 1)
		}
	})
	return ts
}

// submitBatch hands one operator per region of gs to AddWaitingOperator in ONE call. The controller
// enqueues all of them and promotes one; the others really sit in the waiting queue.
func (w *world) submitBatch(gs []*reg, sameDesc bool, wants []string) []*opTrack {
	var ops []*operator.Operator
	api := "batch"
	desc := descs[w.rng.Intn(len(descs))]
	for i, g := range gs {
		if g.view == nil {
			continue
		}
		want := ""
		if i < len(wants) {
			want = wants[i]
		}
		res := w.generate(g, g.view, false, want)
		if res.err != nil || len(res.ops) != 1 {
			w.r.Count("builder_error_"+res.api, 1)
			continue
		}
		if sameDesc {
			res.ops[0].SetDesc(desc)
		} else {
			res.ops[0].SetDesc(descs[i%len(descs)])
		}
		ops = append(ops, res.ops[0])
		api += ":" + res.api
	}
	if len(ops) < 2 {
		return nil
	}
	w.r.Count(fmt.Sprintf("batch_size_%d", len(ops)), 1)
	return w.submitOps(gs[0], genResult{api: api, ops: ops, batch: true}, false, false, true)
}

func (w *world) heartbeat(g *reg) {
	if g.dead {
		return
	}
	w.putView(g)
	g.logf("#%d HEARTBEAT region cache updated to %s, then Dispatch(heartbeat)", w.evNo, epochStr(g.view.GetRegionEpoch()))
	ci := &callInfo{name: "Dispatch(heartbeat)", g: g, hbView: g.view}
	v := g.view
	w.call(ci, func() { w.oc.Dispatch(v, schedule.DispatchFromHeartBeat) })
}

func (w *world) dispatchAgain(g *reg) {
	if g.view == nil {
		return
	}
	g.logf("#%d HEARTBEAT (same region state again) Dispatch(heartbeat)", w.evNo)
	ci := &callInfo{name: "Dispatch(heartbeat)", g: g, hbView: g.view}
	v := g.view
	w.call(ci, func() { w.oc.Dispatch(v, schedule.DispatchFromHeartBeat) })
}

func (w *world) dispatchPush(g *reg) {
	if g.view == nil {
		return
	}
	g.logf("#%d PUSH Dispatch(active push) with the cached region %s", w.evNo, epochStr(g.view.GetRegionEpoch()))
	ci := &callInfo{name: "Dispatch(push)", g: g}
	v := g.view
	w.call(ci, func() { w.oc.Dispatch(v, schedule.DispatchFromNotifierQueue) })
}

func (w *world) pushOperators() {
	ci := &callInfo{name: "PushOperators", push: true}
	w.call(ci, func() { w.oc.PushOperators() })
}

func (w *world) promote() {
	ci := &callInfo{name: "PromoteWaitingOperator"}
	w.call(ci, func() { w.oc.PromoteWaitingOperator() })
}

func (w *world) remove(g *reg) {
	t := w.running[g.id]
	var op *operator.Operator
	if t != nil && w.rng.Intn(8) != 0 {
		op = t.op
	} else {
		// an operator that is not running (ended, waiting): must be refused without effect
		var c []*opTrack
		for _, o := range g.ops {
			if o != t {
				c = append(c, o)
			}
		}
		if len(c) == 0 {
			return
		}
		t = c[w.rng.Intn(len(c))]
		op = t.op
	}
	ci := &callInfo{name: "RemoveOperator", g: g}
	tt := t
	w.call(ci, func() {
		if w.oc.RemoveOperator(op) {
			tt.removedBy = "RemoveOperator"
			tt.g.logf("#%d HARNESS RemoveOperator(op%d) -> true", w.evNo, tt.id)
			w.r.Count("RemoveOperator_returned_true", 1)
		} else {
			w.r.Count("RemoveOperator_returned_false", 1)
		}
	})
}

func simFrom(info *core.RegionInfo) *sim.Region { return sim.FromInfo(info) }

func sortedRids(m map[uint64]*opTrack) []uint64 {
	out := make([]uint64, 0, len(m))
	for k := range m {
		out = append(out, k)
	}
	sort.Slice(out, func(i, j int) bool { return out[i] < out[j] })
	return out
}

var maxima = map[string]int64{}

func noteMax(name string, v int64) {
	if v > maxima[name] {
		maxima[name] = v
	}
}

// sentCtx is what the monitor knew when a command was put on the stream: it is judged against this
// when the store side takes it off the stream, which may be several calls later.
type sentCtx struct {
	ci           *callInfo
	callNo       int
	views        map[uint64]*core.RegionInfo
	altG         *reg
	altView      *core.RegionInfo
	cur, prev    map[uint64]*opTrack
	expectRegion uint64
	immediate    bool
	queuedWith   int
}

func (sc *sentCtx) altFor(g *reg) *core.RegionInfo {
	if sc.altG == g {
		return sc.altView
	}
	return nil
}

// noteSent books the commands the call has put on the stream (counted through MsgLength: nothing is
// read yet) and reads the stream when enough of them are queued (at once in the default mode).
func (w *world) noteSent(ci *callInfo, cur, prev map[uint64]*opTrack) {
	n := w.hb.MsgLength() - len(w.queued)
	if n > 0 {
		sc := &sentCtx{ci: ci, callNo: w.callNo, views: map[uint64]*core.RegionInfo{}, cur: cur, prev: prev, immediate: w.lazy == 0}
		for _, id := range w.rids {
			sc.views[id] = w.regs[id].view
		}
		if ci.hbView != nil && ci.g != nil {
			sc.views[ci.g.id] = ci.hbView
		}
		if w.inj != nil && w.inj.done {
			sc.altG, sc.altView = w.inj.g, w.inj.before
		}
		if ci.g != nil && !ci.holder && (ci.hbView != nil || ci.pair || ci.name == "Dispatch(push)") {
			if t := cur[ci.g.id]; t != nil && prev[ci.g.id] == t && t.op.Status() == operator.STARTED {
				sc.expectRegion = ci.g.id
			}
		}
		for i := 0; i < n; i++ {
			w.queued = append(w.queued, sc)
		}
	}
	if len(w.queued) > 0 && (w.lazy == 0 || len(w.queued) >= w.lazy) {
		w.readStream()
	}
}

// readStream: the store side takes everything off the stream; every command is judged as a value now.
func (w *world) readStream() {
	r := w.r
	queued := w.queued
	w.queued = nil
	var msgs []*pdpb.RegionHeartbeatResponse
	for m := w.hb.VerifTryRecv(); m != nil; m = w.hb.VerifTryRecv() {
		msgs = append(msgs, m)
	}
	if len(msgs) != len(queued) {
		r.Inconclusive("harness: %d commands on the stream, %d expected", len(msgs), len(queued))
		return
	}
	if len(msgs) > 1 {
		r.Count("stream_reads_with_several_commands_queued", 1)
	}
	perCallRegion := map[[2]uint64]int{}
	for i, m := range msgs {
		perCallRegion[[2]uint64{uint64(queued[i].callNo), m.GetRegionId()}]++
	}
	for i, m := range msgs {
		sc := queued[i]
		sc.queuedWith = len(msgs)
		perRegion := map[uint64]int{m.GetRegionId(): perCallRegion[[2]uint64{uint64(sc.callNo), m.GetRegionId()}]}
		w.judgeMessage(m, sc, perRegion)
	}
}

func (w *world) judgeMessage(m *pdpb.RegionHeartbeatResponse, sc *sentCtx, perRegion map[uint64]int) {
	r := w.r
	for range []int{0} {
		w.seq++
		kind := cmdKind(m)
		r.Count("command_"+kind, 1)
		g := w.regs[m.GetRegionId()]
		if g == nil {
			report("command-for-unknown-region:"+sc.ci.name, fmt.Sprintf("%s sent a %s command for region %d which does not exist", sc.ci.name, kind, m.GetRegionId()), w.phase, 0,
				func() map[string]interface{} {
					return map[string]interface{}{"command": m.String(), "call": sc.ci.name}
				})
			continue
		}
		if sc.expectRegion != 0 && m.GetRegionId() != sc.expectRegion {
			// the call was a Dispatch for one region whose operator kept running: nothing but that operator's
			// command can have been sent
			mm := m
			report("command-for-wrong-region:"+kind, fmt.Sprintf("%s for region %d (operator still running) produced a %s command that names region %d", sc.ci.name, sc.expectRegion, kind, m.GetRegionId()),
				w.phase, 0, func() map[string]interface{} {
					return map[string]interface{}{"command": mm.String(), "call": sc.ci.name, "dispatched_region": sc.expectRegion, "commands_queued_when_read": sc.queuedWith}
				})
		}
		t := sc.cur[g.id]
		uncertain := false
		if t == nil {
			t = sc.prev[g.id]
			uncertain = true
		}
		if sc.ci.push && (sc.prev[g.id] != sc.cur[g.id] || perRegion[g.id] > 1) {
			uncertain = true
		}
		if sc.ci.pair && sc.cur[g.id] == nil && sc.prev[g.id] != nil && g == sc.ci.g {
			// two concurrent dispatches of ONE region: nothing was admitted for it during the call, so
			// every command for it was sent for the operator that was running
			uncertain = false
		}
		if t != nil && !commandFits(m, t.op) {
			uncertain = true
			r.Count("attribution_command_fits_no_step", 1)
		}
		if uncertain {
			r.Count("attribution_uncertain", 1)
			for _, o := range g.ops {
				o.tainted = true
			}
		}
		// "every command sent for it is addressed to the region's current leader and carries the region's
		// current epoch": the region as pd knows it at send time (the view did not change during the call)
		view := sc.views[g.id]
		if sc.ci.hbView != nil && sc.ci.g == g {
			view = sc.ci.hbView
		}
		alt := sc.altFor(g)
		if view == nil {
			view = alt
		}
		if view == nil {
			report("command-for-region-unknown-to-pd:"+sc.ci.name, fmt.Sprintf("%s sent a %s command for region %d which pd's cache does not hold", sc.ci.name, kind, g.id), w.phase, 0,
				func() map[string]interface{} {
					return map[string]interface{}{"command": m.String(), "call": sc.ci.name}
				})
			continue
		}
		e, ve := m.GetRegionEpoch(), view.GetRegionEpoch()
		bad := headerMatches(m, view)
		if bad != "" && alt != nil && headerMatches(m, alt) == "" {
			bad = "" // stamped from the view the cache held earlier during this call
			r.Count("command_stamped_from_view_before_inside_update", 1)
		}
		if bad == "" && sc.immediate && !g.dirty && !g.dead && alt == nil {
			// pd's view is the store's state: then the command must be acceptable to the store's routing checks
			if mm := g.sim.HeaderMismatch(m); mm != "" {
				r.Inconclusive("harness: view and simulator disagree although in sync: %s", mm)
			}
		}
		g.logf("#%d PD sends %s (op%d) epoch %s to peer %d@store%d during %s", w.evNo, kind, opID(t), epochStr(e), m.GetTargetPeer().GetId(), m.GetTargetPeer().GetStoreId(), sc.ci.name)
		if bad != "" {
			tt, gg, mm := t, g, m
			wit := func() map[string]interface{} {
				x := map[string]interface{}{"command": mm.String(), "call": sc.ci.name, "region_at_pd": fmt.Sprintf("%v leader=%v", view.GetMeta(), view.GetLeader()), "region_history": append([]string(nil), gg.log...)}
				if tt != nil {
					return w.opWitness(tt, x)
				}
				return x
			}
			size := len(g.log)
			if t != nil {
				size = len(g.log) - t.logAt
			}
			report("command-header-mismatch:"+bad+":"+kind, fmt.Sprintf("command %s sent during %s carries %s %v / %v but the region is at %s with leader %v",
				kind, sc.ci.name, bad, epochStr(e), m.GetTargetPeer(), epochStr(ve), view.GetLeader()), w.phase, size, wit)
		}
		g.inbox = append(g.inbox, &cmd{m: m, snap: proto.Clone(m).(*pdpb.RegionHeartbeatResponse), t: t, seq: w.seq, kind: kind})
		if len(g.inbox) > 12 { // the oldest in-flight commands get lost
			g.inbox = g.inbox[1:]
		}
	}
}
