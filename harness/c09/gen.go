package main

import (
	"fmt"
	"math/rand"
	"reflect"
	"strings"

	"github.com/pingcap/kvproto/pkg/metapb"
	"github.com/pingcap/kvproto/pkg/pdpb"
	"github.com/tikv/pd/server/core"
	"github.com/tikv/pd/server/schedule/operator"
)

func stepKind(st operator.OpStep) string {
	if st == nil {
		return "nil"
	}
	return reflect.TypeOf(st).Name()
}

// stepDetail refines the kind of a joint step by what it contains.
func stepDetail(st operator.OpStep) string {
	comp := func(p, d int) string {
		switch {
		case p == 0 && d > 0:
			return "demote-only"
		case d == 0 && p > 0:
			return "promote-only"
		case p == 0 && d == 0:
			return "empty"
		}
		return "promote+demote"
	}
	switch s := st.(type) {
	case operator.ChangePeerV2Enter:
		return "ChangePeerV2Enter:" + comp(len(s.PromoteLearners), len(s.DemoteVoters))
	case operator.ChangePeerV2Leave:
		return "ChangePeerV2Leave:" + comp(len(s.PromoteLearners), len(s.DemoteVoters))
	case operator.MergeRegion:
		if s.IsPassive {
			return "MergeRegion:passive"
		}
		return "MergeRegion:active"
	}
	return stepKind(st)
}

func opShape(op *operator.Operator) string {
	var b []string
	for i := 0; i < op.Len(); i++ {
		b = append(b, stepDetail(op.Step(i)))
	}
	return strings.Join(b, ",")
}

func opSteps(op *operator.Operator) []string {
	var b []string
	for i := 0; i < op.Len(); i++ {
		b = append(b, op.Step(i).String())
	}
	return b
}

// genResult is what one generation attempt produced.
type genResult struct {
	ops   []*operator.Operator
	api   string
	err   error
	batch bool // several independent operators for different regions handed over in one call
}

func pickKind(rng *rand.Rand, admin bool) operator.OpKind {
	k := []operator.OpKind{0, operator.OpRegion, operator.OpLeader, operator.OpRegion | operator.OpLeader}[rng.Intn(4)]
	if admin {
		k |= operator.OpAdmin
	}
	return k
}

var descs = []string{"c09-a", "c09-b", "c09-c", "c09-d"}

// generate builds an operator (a pair for merges) for region g from the snapshot `view`, the way a
// scheduler or checker would: through the real builder and constructors. A panic inside the builder is
// C08's business; it is returned as an error.
func (w *world) generate(g *reg, view *core.RegionInfo, admin bool, want string) (res genResult) {
	rng := w.rng
	desc := descs[rng.Intn(len(descs))]
	kind := pickKind(rng, admin)
	defer func() {
		if p := recover(); p != nil {
			res = genResult{api: res.api, err: fmt.Errorf("panic in builder: %v", p)}
		}
	}()
	one := func(api string, op *operator.Operator, err error) genResult {
		if err != nil || op == nil {
			return genResult{api: api, err: err}
		}
		return genResult{api: api, ops: []*operator.Operator{op}}
	}
	var voters, learners, occupied, empty, followers []uint64
	leader := view.GetLeader().GetStoreId()
	for _, s := range w.stores {
		p := view.GetStorePeer(s)
		switch {
		case p == nil:
			empty = append(empty, s)
		case core.IsLearner(p):
			learners = append(learners, s)
			occupied = append(occupied, s)
		default:
			voters = append(voters, s)
			occupied = append(occupied, s)
			if s != leader {
				followers = append(followers, s)
			}
		}
	}
	pick := func(l []uint64) uint64 {
		if len(l) == 0 {
			return w.stores[rng.Intn(len(w.stores))]
		}
		return l[rng.Intn(len(l))]
	}
	copyPeers := func() map[uint64]*metapb.Peer {
		m := map[uint64]*metapb.Peer{}
		for _, p := range view.GetPeers() {
			role := metapb.PeerRole_Voter
			if core.IsLearner(p) {
				role = metapb.PeerRole_Learner
			}
			// no explicit ids: the builder keeps the id of a kept peer and allocates one for a new peer
			// (an explicit id equal to a removed peer's id is a request no store would accept)
			m[p.GetStoreId()] = &metapb.Peer{StoreId: p.GetStoreId(), Role: role}
		}
		return m
	}
	if core.IsInJointState(view.GetPeers()...) && want == "" {
		switch rng.Intn(4) {
		case 0:
			want = "transfer"
		default:
			want = "leave-joint"
		}
	}
	if want == "" {
		x := rng.Intn(100)
		switch {
		case x < 26:
			want = "builder"
		case x < 40:
			want = "demote-k"
		case x < 48:
			want = "swap-roles"
		case x < 55:
			want = "add-peer"
		case x < 62:
			want = "remove-peer"
		case x < 66:
			want = "promote"
		case x < 73:
			want = "transfer"
		case x < 81:
			want = "move-peer"
		case x < 86:
			want = "move-leader"
		case x < 92:
			want = "split"
		default:
			want = "merge"
		}
	}
	switch want {
	case "builder":
		target := map[uint64]*metapb.Peer{}
		var tv []uint64
		for _, s := range w.stores {
			x := rng.Intn(100)
			has := view.GetStorePeer(s) != nil
			switch {
			case has && x < 20, !has && x < 65:
				continue
			case x >= 85:
				target[s] = &metapb.Peer{StoreId: s, Role: metapb.PeerRole_Learner}
			default:
				target[s] = &metapb.Peer{StoreId: s, Role: metapb.PeerRole_Voter}
				tv = append(tv, s)
			}
		}
		b := operator.NewBuilder(desc, w.mc, view).SetPeers(target)
		if len(tv) > 0 && rng.Intn(3) == 0 {
			b = b.SetLeader(tv[rng.Intn(len(tv))])
		}
		if rng.Intn(4) == 0 {
			b = b.EnableLightWeight()
		}
		op, err := b.Build(kind)
		return one("builder", op, err)
	case "demote-k":
		// demotions only: in joint mode the operator is enter(demote..) + leave(demote..)
		target := copyPeers()
		n := 1 + rng.Intn(2)
		cand := append([]uint64(nil), followers...)
		if rng.Intn(4) == 0 {
			cand = append([]uint64(nil), voters...)
		}
		rng.Shuffle(len(cand), func(i, j int) { cand[i], cand[j] = cand[j], cand[i] })
		for i := 0; i < n && i < len(cand) && i < len(voters)-1; i++ {
			target[cand[i]].Role = metapb.PeerRole_Learner
		}
		if rng.Intn(3) == 0 && len(empty) > 0 {
			s := pick(empty)
			target[s] = &metapb.Peer{StoreId: s, Role: metapb.PeerRole_Learner}
		}
		op, err := operator.NewBuilder(desc, w.mc, view).SetPeers(target).Build(kind)
		return one("demote-k", op, err)
	case "swap-roles":
		target := copyPeers()
		for _, s := range learners {
			if rng.Intn(2) == 0 {
				target[s].Role = metapb.PeerRole_Voter
			}
		}
		for _, s := range followers {
			if rng.Intn(3) == 0 {
				target[s].Role = metapb.PeerRole_Learner
			}
		}
		op, err := operator.NewBuilder(desc, w.mc, view).SetPeers(target).Build(kind)
		return one("swap-roles", op, err)
	case "add-peer":
		role := metapb.PeerRole_Voter
		if rng.Intn(3) == 0 {
			role = metapb.PeerRole_Learner
		}
		op, err := operator.CreateAddPeerOperator(desc, w.mc, view, &metapb.Peer{StoreId: pick(empty), Role: role}, kind)
		return one("add-peer", op, err)
	case "remove-peer":
		op, err := operator.CreateRemovePeerOperator(desc, w.mc, kind, view, pick(occupied))
		return one("remove-peer", op, err)
	case "promote":
		op, err := operator.CreatePromoteLearnerOperator(desc, w.mc, view, &metapb.Peer{StoreId: pick(learners)})
		return one("promote", op, err)
	case "transfer":
		op, err := operator.CreateTransferLeaderOperator(desc, w.mc, view, leader, pick(followers), kind)
		return one("transfer", op, err)
	case "move-peer":
		role := metapb.PeerRole_Voter
		if rng.Intn(4) == 0 {
			role = metapb.PeerRole_Learner
		}
		op, err := operator.CreateMovePeerOperator(desc, w.mc, view, kind, pick(occupied), &metapb.Peer{StoreId: pick(empty), Role: role})
		return one("move-peer", op, err)
	case "move-leader":
		op, err := operator.CreateMoveLeaderOperator(desc, w.mc, view, kind, leader, &metapb.Peer{StoreId: pick(empty), Role: metapb.PeerRole_Voter})
		return one("move-leader", op, err)
	case "leave-joint":
		op, err := operator.CreateLeaveJointStateOperator(desc, w.mc, view)
		return one("leave-joint", op, err)
	case "split":
		mid := append(append([]byte(nil), view.GetStartKey()...), 'm')
		op, err := operator.CreateSplitRegionOperator(desc, view, kind, pdpb.CheckPolicy_USEKEY, [][]byte{mid})
		return one("split", op, err)
	case "merge":
		// a neighbour in the key space as pd sees it
		var nb *core.RegionInfo
		for _, id := range w.rids {
			o := w.regs[id]
			if o == g || o.view == nil {
				continue
			}
			if string(o.view.GetStartKey()) == string(view.GetEndKey()) || string(o.view.GetEndKey()) == string(view.GetStartKey()) {
				nb = o.view
				break
			}
		}
		if nb == nil {
			return genResult{api: "merge", err: fmt.Errorf("no adjacent region")}
		}
		ops, err := operator.CreateMergeRegionOperator(desc, w.mc, view, nb, kind)
		if err != nil || len(ops) != 2 {
			return genResult{api: "merge", err: err}
		}
		return genResult{api: "merge", ops: ops}
	}
	return genResult{api: want, err: fmt.Errorf("unknown api")}
}
