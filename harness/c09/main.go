// C09 — Operator lifecycle: one per region, epoch-checked, stale ones cancelled.
//
// The real schedule.OperatorController runs on pkg/mock/mockcluster with a real hbstream.HeartbeatStreams
// (needRun=false, drained synchronously through VerifTryRecv). lib/sim is the store: it executes the
// commands pd sends, or refuses them like a store does. Operators come from the real builder and
// constructors. A seeded event loop interleaves controller calls, store executions, region-cache
// updates, heartbeat dispatches and foreign changes of the region; after every controller call the
// running set, every operator's status and every command sent are judged by oracles written from the
// property statement (see monitor.go). A second phase runs the same calls from 8 goroutines.
package main

import (
	"encoding/json"
	"fmt"
	"io/ioutil"
	"math/rand"
	"os"
	"time"

	"github.com/pingcap/kvproto/pkg/metapb"
	"github.com/pingcap/log"
	"github.com/tikv/pd/server/core"
	"github.com/tikv/pd/server/core/storelimit"
	"github.com/tikv/pd/server/schedule/operator"
	"go.uber.org/zap"
	"verif/harness/lib/ev"
)

func silence() {
	if os.Getenv("VERIF_LOG") != "" {
		return
	}
	lg, props, err := log.InitLogger(&log.Config{Level: "fatal", File: log.FileLogConfig{Filename: os.DevNull}})
	if err == nil {
		log.ReplaceGlobals(lg, props)
	} else {
		log.ReplaceGlobals(zap.NewNop(), nil)
	}
}

// ---- the canonical script for the demote-only leave accounting (DESIGN §4 D5) --------------------------
//
// 1v* 2v 3v, target 1v 2l 3l  =>  [enter joint (demote 2,3), leave joint (demote 2,3)].
// AddOperator; a foreign learner appears on store 4 (conf_ver+1) before the store has executed
// anything; the region cache learns it; the push loop dispatches (source "active push": no staleness
// check) and re-sends the enter command with the new epoch; the store executes it (conf_ver+2, own);
// the next heartbeat dispatch finds conf_ver(region)-conf_ver(op)=3 with 2 applied on the operator's
// behalf and "leave joint" pending.
func canonical(r *ev.Run) {
	rng := rand.New(rand.NewSource(1))
	w, err := newWorld(r, rng, 0, modeJoint, 5, 1, []string{"1v* 2v 3v"})
	if err != nil {
		r.Inconclusive("canonical script: %v", err)
		return
	}
	defer w.close()
	w.phase = "canonical-script"
	g := w.regs[101]
	target := map[uint64]*metapb.Peer{}
	for _, p := range g.view.GetPeers() {
		role := metapb.PeerRole_Learner
		if p.GetStoreId() == 1 {
			role = metapb.PeerRole_Voter
		}
		target[p.GetStoreId()] = &metapb.Peer{StoreId: p.GetStoreId(), Role: role}
	}
	op, err := operator.NewBuilder("c09-canon", w.mc, g.view).SetPeers(target).Build(0)
	if err != nil || op == nil || opShape(op) != "ChangePeerV2Enter:demote-only,ChangePeerV2Leave:demote-only" {
		r.Count("canonical_script_shape_unexpected", 1)
		return
	}
	w.evNo++
	ts := w.submitOps(g, genResult{api: "builder(1v 2l 3l)", ops: []*operator.Operator{op}}, false, false, false)
	if len(ts) != 1 || !ts[0].everRunning {
		r.Count("canonical_script_not_admitted", 1)
		return
	}
	w.evNo++
	if _, err := w.foreignConf(g, "add-learner"); err != nil {
		r.Inconclusive("canonical script: foreign change refused: %v", err)
		return
	}
	w.evNo++
	w.putView(g)
	g.logf("#%d region cache updated to %s (no dispatch yet)", w.evNo, epochStr(g.view.GetRegionEpoch()))
	w.evNo++
	w.dispatchPush(g)
	for len(g.inbox) > 0 {
		w.evNo++
		_ = w.exec(g, 0, true)
	}
	w.evNo++
	w.heartbeat(g)
	r.Count("canonical_script_runs", 1)
	for i := 0; i < 6 && !ts[0].done; i++ { // let it finish
		for len(g.inbox) > 0 {
			_ = w.exec(g, 0, true)
		}
		w.heartbeat(g)
	}
}

// ---- directed family: operators that wait across an epoch change ------------------------------------
//
// AddWaitingOperator with a batch of 2-4 operators for different regions starts one and leaves the
// others in the waiting queue. While they wait the region of one of them changes (conf change or
// version bump, or nothing as a control) and pd learns the new epoch. Then a promotion is triggered in
// each possible way: explicit PromoteWaitingOperator, another AddWaitingOperator, the running operator
// finishing, the running operator going stale, the running operator being removed. The ordinary
// monitor judges everything (an operator that enters the running set is checked against the region's
// epoch at that moment); the family only makes sure these histories occur whatever the seed.
func directedWaiting(r *ev.Run) {
	triggers := []string{"promote", "add-waiting", "finish", "stale", "remove"}
	changes := []string{"conf", "version", "none"}
	n := 0
	for size := 2; size <= 4; size++ {
		for _, same := range []bool{true, false} {
			for _, change := range changes {
				for _, trig := range triggers {
					n++
					directedWaitingCase(r, n, size, same, change, trig)
				}
			}
		}
	}
}

func directedWaitingCase(r *ev.Run, n, size int, same bool, change, trig string) {
	rng := rand.New(rand.NewSource(int64(7000 + n))) // independent of the run's seed
	layouts := []string{"1v* 2v 3v", "2v* 3v 4v", "3v* 4v 5v", "4v* 5v 6v", "1v* 3v 5v", "2v* 4v 6v"}
	w, err := newWorld(r, rng, -n, modeJoint, 6, 6, layouts)
	if err != nil {
		r.Inconclusive("directed waiting case: %v", err)
		return
	}
	defer w.close()
	w.phase = "directed-waiting"
	r.Count("directed_waiting_cases", 1)
	var gs []*reg
	for i := 0; i < size; i++ {
		gs = append(gs, w.regs[w.rids[i]])
	}
	wants := []string{"add-peer", "transfer", "add-peer", "remove-peer"}
	w.evNo++
	ts := w.submitBatch(gs, same, wants)
	var run *opTrack
	var waiting []*opTrack
	for _, t := range ts {
		switch {
		case w.running[t.g.id] == t:
			run = t
		case t.waiting && t.last == operator.CREATED:
			waiting = append(waiting, t)
		}
	}
	if run == nil || len(waiting) == 0 {
		r.Count("directed_waiting_nothing_left_waiting", 1)
		return
	}
	victim := waiting[0]
	w.evNo++
	switch change {
	case "conf":
		if _, err := w.foreignConf(victim.g, "add-learner"); err != nil {
			r.Count("directed_waiting_change_refused", 1)
			return
		}
		w.putView(victim.g)
	case "version":
		w.foreignVersion(victim.g, false)
		w.putView(victim.g)
	}
	if change != "none" {
		victim.g.logf("#%d region cache updated to %s (no dispatch yet)", w.evNo, epochStr(victim.g.view.GetRegionEpoch()))
	}
	w.evNo++
	switch trig {
	case "promote":
		w.promote()
	case "add-waiting":
		w.submit(w.regs[w.rids[5]], w.regs[w.rids[5]].view, false, false, true, "add-peer")
	case "finish":
		for i := 0; i < 12 && !run.done; i++ {
			for len(run.g.inbox) > 0 {
				_ = w.exec(run.g, 0, true)
			}
			w.evNo++
			w.heartbeat(run.g)
		}
	case "stale":
		if _, err := w.foreignConf(run.g, "add-learner"); err == nil {
			w.heartbeat(run.g)
		}
	case "remove":
		rr := run
		w.call(&callInfo{name: "RemoveOperator", g: run.g}, func() {
			if w.oc.RemoveOperator(rr.op) {
				rr.removedBy = "RemoveOperator"
			}
		})
		w.promote()
	}
	// drain the queue: every waiting operator gets its turn
	for i := 0; i < 8 && len(w.oc.GetWaitingOperators()) > 0; i++ {
		w.evNo++
		w.promote()
	}
	r.Count("directed_waiting_"+change+"_"+trig, 1)
	w.settle()
}

// ---- directed family: a region-cache update lands INSIDE a controller call ------------------------------
//
// A region heartbeat updates the cache under the cluster's lock, the controller works under its own:
// the update can fall between any two cache reads of one controller call. For every scenario below the
// call is first run undisturbed to count its cache reads n, then repeated on an identical world with a
// {conf change, leader change, eviction} of the region placed before read 1..n (a complete grid).
// Judged by the ordinary oracles; "the region at that moment" is either view the cache held during the call.
type raceScenario struct {
	name  string
	setup func(w *world) (target *reg, call func()) // target: the region whose cache entry is updated
}

func raceScenarios() []raceScenario {
	fresh := func(w *world, k int) *reg { return w.regs[w.rids[k]] }
	finishOp := func(w *world, t *opTrack) {
		for i := 0; i < 12 && !t.done && t.last != operator.SUCCESS; i++ {
			for len(t.g.inbox) > 0 {
				_ = w.exec(t.g, 0, true)
			}
			w.putView(t.g)
			if w.stepDone(t) {
				return // the next heartbeat dispatch will find every step finished
			}
			w.heartbeat(t.g)
		}
	}
	return []raceScenario{
		{"AddOperator", func(w *world) (*reg, func()) {
			g := fresh(w, 0)
			return g, func() { w.submit(g, g.view, false, false, false, "add-peer") }
		}},
		{"AddOperator(admin)-replaces", func(w *world) (*reg, func()) {
			g := fresh(w, 0)
			w.submit(g, g.view, false, false, false, "add-peer")
			return g, func() { w.submit(g, g.view, false, true, false, "transfer") }
		}},
		{"AddOperator(merge-pair)", func(w *world) (*reg, func()) {
			g := fresh(w, 0)
			return fresh(w, 1), func() { w.submit(g, g.view, false, false, false, "merge") }
		}},
		{"AddWaitingOperator(batch)", func(w *world) (*reg, func()) {
			gs := []*reg{fresh(w, 0), fresh(w, 1), fresh(w, 2)}
			return gs[1], func() { w.submitBatch(gs, true, []string{"add-peer", "transfer", "add-peer"}) }
		}},
		{"PromoteWaitingOperator", func(w *world) (*reg, func()) {
			gs := []*reg{fresh(w, 0), fresh(w, 1)}
			ts := w.submitBatch(gs, true, []string{"add-peer", "transfer"})
			var run, wait *opTrack
			for _, t := range ts {
				if w.running[t.g.id] == t {
					run = t
				} else if t.waiting {
					wait = t
				}
			}
			if run == nil || wait == nil {
				return nil, nil
			}
			rr := run
			w.call(&callInfo{name: "RemoveOperator", g: run.g}, func() {
				if w.oc.RemoveOperator(rr.op) {
					rr.removedBy = "RemoveOperator"
				}
			})
			return wait.g, func() { w.promote() }
		}},
		{"Dispatch(heartbeat)-finishes-and-promotes", func(w *world) (*reg, func()) {
			gs := []*reg{fresh(w, 0), fresh(w, 1)}
			ts := w.submitBatch(gs, true, []string{"transfer", "add-peer"})
			var run, wait *opTrack
			for _, t := range ts {
				if w.running[t.g.id] == t {
					run = t
				} else if t.waiting {
					wait = t
				}
			}
			if run == nil || wait == nil {
				return nil, nil
			}
			finishOp(w, run)
			return wait.g, func() { w.heartbeat(run.g) }
		}},
		{"Dispatch(heartbeat)-mid-operator", func(w *world) (*reg, func()) {
			g := fresh(w, 0)
			ts := w.submit(g, g.view, false, false, false, "add-peer")
			if len(ts) == 0 {
				return nil, nil
			}
			for len(g.inbox) > 0 {
				_ = w.exec(g, 0, true)
			}
			return g, func() { w.heartbeat(g) }
		}},
		{"Dispatch(push)", func(w *world) (*reg, func()) {
			g := fresh(w, 0)
			w.submit(g, g.view, false, false, false, "add-peer")
			return g, func() { w.dispatchPush(g) }
		}},
		{"PushOperators", func(w *world) (*reg, func()) {
			g := fresh(w, 0)
			w.submit(g, g.view, false, false, false, "add-peer")
			return g, func() { w.pushOperators() }
		}},
	}
}

// stepDone: does the region as pd sees it satisfy every step (so that the next dispatch ends the operator)?
func (w *world) stepDone(t *opTrack) bool {
	if t.g.view == nil {
		return false
	}
	for i := 0; i < t.op.Len(); i++ {
		if !t.op.Step(i).IsFinish(t.g.view) {
			return false
		}
	}
	return true
}

func raceFamily(r *ev.Run) {
	layouts := []string{"1v* 2v 3v", "1v* 2v 3v", "1v* 2v 3v", "2v* 4v 6v"}
	for si, sc := range raceScenarios() {
		for _, kind := range []string{"none", "conf", "leader", "evict"} {
			n := 1
			for at := 1; at <= n && at <= 40; at++ {
				rand.Seed(int64(9000 + si)) // pd's waiting buckets draw from the global source
				rng := rand.New(rand.NewSource(int64(9000 + si)))
				w, err := newWorld(r, rng, -1000-si, modeJoint, 6, 4, layouts)
				if err != nil {
					r.Inconclusive("race family: %v", err)
					return
				}
				w.phase = "cache-update-inside-call:" + sc.name
				w.evNo++
				target, call := sc.setup(w)
				if call == nil {
					r.Count("race_family_setup_failed", 1)
					w.close()
					break
				}
				if kind != "none" {
					w.inj = &injection{at: at, kind: kind, g: target}
				}
				w.evNo++
				call()
				if kind == "none" {
					// reads of the decisive call (helpers make exactly one controller call last)
					r.Count("race_family_scenarios", 1)
					r.Count("race_family_cache_reads_"+sc.name, int64(w.lastReads))
					w.settle()
					w.close()
					break
				}
				fired := w.inj == nil
				w.inj = nil
				if fired {
					r.Count("race_family_cases", 1)
					n = at + 1 // there may be a further read
				}
				w.settle()
				w.close()
			}
		}
	}
}

// ---- directed family: heartbeats that differ from the served region in exactly one field -------------
//
// An operator is executed with its own steps only. After step k has been applied and reported, one more
// heartbeat arrives that differs from the region pd serves in exactly one field (a pending mark, a down
// mark, the size, the term), for every k and every field. The operator must still end in success.
func oneFieldFamily(r *ev.Run) {
	n := 0
	for _, want := range []string{"add-peer", "move-peer", "demote-k", "swap-roles"} {
		for _, field := range []string{"mark-pending", "down", "size", "term"} {
			for k := 0; k < 6; k++ {
				n++
				rng := rand.New(rand.NewSource(int64(11000 + n)))
				w, err := newWorld(r, rng, -2000-n, modeJoint, 6, 1, []string{"1v* 2v 3v 4l"})
				if err != nil {
					r.Inconclusive("one-field family: %v", err)
					return
				}
				w.phase = "one-field-heartbeat"
				g := w.regs[101]
				w.evNo++
				ts := w.submit(g, g.view, false, false, false, want)
				if len(ts) != 1 || w.running[g.id] != ts[0] {
					w.close()
					break
				}
				t := ts[0]
				r.Count("one_field_family_cases", 1)
				for round := 0; round < 16 && !t.done; round++ {
					for len(g.inbox) > 0 {
						_ = w.exec(g, 0, true)
					}
					if len(g.sim.Pending) > 0 && round != k {
						w.oneField(g, "settle-pending")
					}
					w.evNo++
					w.heartbeat(g)
					if round == k && !t.done {
						w.evNo++
						if w.oneField(g, field) {
							w.heartbeat(g)
						}
					}
				}
				w.settle()
				steps := t.op.Len()
				w.close()
				if k >= steps {
					break
				}
			}
		}
	}
}

// ---- directed family: two regions at the same step at the same time, commands kept queued ----------------
//
// Two (or three) regions get the same kind of operator and advance in lockstep; the store side reads
// the stream only after all of them have been dispatched, so several commands of the same kind are
// queued together. Every command is judged as a value when it is read and again when it is executed.
func sameStepFamily(r *ev.Run) {
	n := 0
	for _, want := range []string{"demote-k", "swap-roles", "move-peer", "add-peer", "transfer", "remove-peer", "split"} {
		for _, nreg := range []int{2, 3} {
			for _, immediate := range []bool{false, true} {
				n++
				rng := rand.New(rand.NewSource(int64(12000 + n)))
				w, err := newWorld(r, rng, -3000-n, modeJoint, 6, 3, []string{"1v* 2v 3v 4l", "1v* 2v 3v 4l", "1v* 2v 3v 4l"})
				if err != nil {
					r.Inconclusive("same-step family: %v", err)
					return
				}
				w.phase = "same-step-commands-queued"
				if !immediate {
					w.lazy = 64 // nothing is read until readStream is called
				}
				var ts []*opTrack
				for i := 0; i < nreg; i++ {
					g := w.regs[w.rids[i]]
					w.evNo++
					ts = append(ts, w.submit(g, g.view, false, false, false, want)...)
				}
				r.Count("same_step_family_cases", 1)
				for round := 0; round < 14; round++ {
					alldone := true
					for _, t := range ts {
						if !t.done {
							alldone = false
						}
					}
					if alldone {
						break
					}
					if len(w.queued) > 0 {
						w.readStream()
					}
					if immediate {
						// all commands are read first, then executed one region after the other: a command that
						// is still waiting in a store's inbox must not change when the next one is sent
						for _, t := range ts {
							w.evNo++
							w.dispatchPush(t.g)
						}
					}
					for _, t := range ts {
						for len(t.g.inbox) > 0 {
							_ = w.exec(t.g, 0, true)
						}
					}
					for _, t := range ts {
						w.evNo++
						w.heartbeat(t.g)
					}
				}
				w.lazy = 0
				w.settle()
				w.close()
			}
		}
	}
}

// ---- own steps only -----------------------------------------------------------------------------------------

// ownOnly: each generated operator is executed to completion with nothing else touching its region.
func (w *world) ownOnly(n int) {
	rng := w.rng
	w.phase = "own-steps-only"
	for c := 0; c < n; c++ {
		var cand []*reg
		for _, g := range w.liveRegions() {
			if w.running[g.id] == nil && len(g.ops) == 0 && len(g.inbox) == 0 && g.view != nil {
				cand = append(cand, g)
			}
		}
		if len(cand) == 0 {
			return
		}
		g := cand[rng.Intn(len(cand))]
		w.evNo++
		for _, o := range w.liveRegions() {
			if o.dirty {
				w.putView(o)
			}
		}
		ts := w.submit(g, g.view, false, false, rng.Intn(4) == 0, "")
		if ts == nil {
			continue
		}
		w.r.Count("own_only_cases", 1)
		for round := 0; round < 40; round++ {
			alldone := true
			for _, t := range ts {
				if !t.done && !(t.mergeSrc && t.g.dead) {
					alldone = false
				}
			}
			if alldone {
				break
			}
			if len(w.queued) > 0 && (round > 2 || rng.Intn(2) == 0) {
				w.readStream()
			}
			for _, t := range ts {
				tg := t.g
				for len(tg.inbox) > 0 && !tg.dead {
					w.evNo++
					dup := rng.Intn(10) == 0
					_ = w.exec(tg, 0, !dup)
					if dup && len(tg.inbox) > 0 && !tg.dead {
						_ = w.exec(tg, 0, true)
					}
				}
			}
			for _, t := range ts {
				if !t.g.dead && len(t.g.sim.Pending) > 0 && rng.Intn(2) == 0 {
					w.oneField(t.g, "settle-pending")
				}
			}
			for _, t := range ts {
				if !t.g.dead {
					w.evNo++
					switch rng.Intn(6) {
					case 0:
						w.putView(t.g)
						w.dispatchPush(t.g)
						w.heartbeat(t.g)
					case 1:
						w.heartbeat(t.g)
						w.dispatchAgain(t.g)
					default:
						w.heartbeat(t.g)
					}
				}
			}
			if rng.Intn(8) == 0 {
				w.pushOperators()
			}
		}
		for _, t := range ts {
			if t.done {
				continue
			}
			w.r.Count("own_only_unfinished", 1)
			w.r.Count("own_only_unfinished_"+t.api, 1)
			if w.running[t.g.id] == t {
				tt := t
				w.call(&callInfo{name: "RemoveOperator", g: t.g}, func() {
					if w.oc.RemoveOperator(tt.op) {
						tt.removedBy = "RemoveOperator"
					}
				})
			}
		}
	}
}

// ---- the random event loop -------------------------------------------------------------------------------------

func (w *world) randomLoop(events int) {
	rng, r := w.rng, w.r
	w.phase = "random-loop"
	for i := 0; i < events && !w.broken; i++ {
		w.evNo++
		regs := w.liveRegions()
		if len(regs) == 0 {
			return
		}
		g := regs[rng.Intn(len(regs))]
		run := w.running[g.id]
		hasRun, hasInbox := run != nil, len(g.inbox) > 0
		type choice struct {
			name string
			w    int
		}
		cs := []choice{{"heartbeat", 14}, {"foreign-conf", 5}, {"foreign-leader", 3}, {"foreign-version", 2},
			{"push-operators", 2}, {"promote", 3}, {"add-waiting", 4}, {"add-waiting-batch", 4}, {"status", 1}}
		var waitingRegs []*reg
		for _, o := range regs {
			for _, t := range o.ops {
				if t.waiting && t.last == operator.CREATED {
					waitingRegs = append(waitingRegs, o)
					break
				}
			}
		}
		if len(waitingRegs) > 0 {
			cs = append(cs, choice{"epoch-change-under-waiting", 5})
		}
		if hasRun {
			cs = append(cs, choice{"add", 3}, choice{"add-admin", 2}, choice{"remove", 2}, choice{"dispatch-push", 12}, choice{"dispatch-again", 3})
		} else {
			cs = append(cs, choice{"add", 12}, choice{"add-admin", 1})
		}
		if hasInbox {
			cs = append(cs, choice{"exec", 30}, choice{"exec-dup", 2}, choice{"drop", 1})
		}
		if g.dirty {
			cs = append(cs, choice{"put-only", 8})
		}
		if len(w.queued) > 0 {
			cs = append(cs, choice{"read-stream", 10})
		}
		cs = append(cs, choice{"one-field-heartbeat", 4})
		if len(g.sim.Pending) > 0 {
			cs = append(cs, choice{"settle-pending", 6})
		}
		if len(regs) > 2 {
			cs = append(cs, choice{"foreign-evict", 1})
		}
		if len(regs) < len(w.rids) {
			cs = append(cs, choice{"add-on-gone-region", 1})
		}
		if w.finite {
			cs = append(cs, choice{"store-limit-change", 3})
		}
		total := 0
		for _, c := range cs {
			total += c.w
		}
		x := rng.Intn(total)
		name := ""
		for _, c := range cs {
			if x < c.w {
				name = c.name
				break
			}
			x -= c.w
		}
		r.Count("event_"+name, 1)
		switch name {
		case "add", "add-admin", "add-waiting":
			view, stale := g.view, false
			if len(g.oldViews) > 0 && rng.Intn(12) == 0 {
				view, stale = g.oldViews[rng.Intn(len(g.oldViews))], true
				r.Count("built_from_superseded_view", 1)
			}
			if view == nil {
				continue
			}
			w.submit(g, view, stale, name == "add-admin" || (name == "add-waiting" && rng.Intn(6) == 0), name == "add-waiting", "")
		case "add-waiting-batch":
			// one AddWaitingOperator call with operators for 2-4 regions: one is promoted, the rest wait
			var free []*reg
			for _, o := range regs {
				if w.running[o.id] == nil && o.view != nil {
					free = append(free, o)
				}
			}
			if len(free) < 2 {
				free = regs
			}
			rng.Shuffle(len(free), func(i, j int) { free[i], free[j] = free[j], free[i] })
			n := 2 + rng.Intn(3)
			if len(regs) > 20 {
				n = 2 + rng.Intn(8) // populated worlds: around and beyond the per-description waiting limit (5)
			}
			if n > len(free) {
				n = len(free)
			}
			if n >= 2 {
				w.submitBatch(free[:n], rng.Intn(4) != 0, nil)
			}
		case "epoch-change-under-waiting":
			// the region of a waiting operator changes behind its back and pd learns the new epoch
			o := waitingRegs[rng.Intn(len(waitingRegs))]
			if rng.Intn(3) == 0 {
				w.foreignVersion(o, false)
			} else if _, err := w.foreignConf(o, []string{"add-learner", "remove-follower", "promote"}[rng.Intn(3)]); err != nil {
				w.foreignVersion(o, false)
			}
			if rng.Intn(4) != 0 {
				w.putView(o)
				o.logf("#%d region cache updated to %s (no dispatch yet)", w.evNo, epochStr(o.view.GetRegionEpoch()))
			} else {
				w.heartbeat(o)
			}
		case "remove":
			w.remove(g)
		case "heartbeat":
			w.heartbeat(g)
		case "put-only":
			w.putView(g)
			g.logf("#%d region cache updated to %s (no dispatch yet)", w.evNo, epochStr(g.view.GetRegionEpoch()))
		case "dispatch-push":
			w.dispatchPush(g)
		case "dispatch-again":
			w.dispatchAgain(g)
		case "push-operators":
			w.pushOperators()
		case "promote":
			w.promote()
		case "read-stream":
			w.readStream()
		case "one-field-heartbeat":
			if !g.dirty && w.oneField(g, []string{"mark-pending", "down", "size", "term", "settle-pending"}[rng.Intn(5)]) {
				w.heartbeat(g)
			}
		case "settle-pending":
			if w.oneField(g, "settle-pending") && rng.Intn(2) == 0 {
				w.heartbeat(g)
			}
		case "foreign-evict":
			// the region is swallowed by a neighbour outside this world while operators run / wait on it
			w.foreignEvict(g)
			r.Count("foreign_evictions", 1)
		case "add-on-gone-region":
			// a scheduler still holds the last snapshot of a region pd's cache has dropped
			var gone []*reg
			for _, id := range w.rids {
				if o := w.regs[id]; o.view == nil && o.lastView != nil {
					gone = append(gone, o)
				}
			}
			if len(gone) == 0 {
				continue
			}
			o := gone[rng.Intn(len(gone))]
			w.submit(o, o.lastView, true, rng.Intn(4) == 0, rng.Intn(2) == 0, []string{"add-peer", "transfer", "remove-peer", "split"}[rng.Intn(4)])
			r.Count("operators_built_for_gone_region", 1)
		case "store-limit-change":
			// the store limit configuration changes under the long-lived controller (it caches one bucket per store)
			st := w.stores[rng.Intn(len(w.stores))]
			rate := []float64{0.6, 6, 60, storelimit.Unlimited * 60}[rng.Intn(4)]
			w.mc.SetStoreLimit(st, storelimit.AddPeer, rate)
			w.mc.SetStoreLimit(st, storelimit.RemovePeer, rate)
		case "status":
			// read-only / housekeeping entry points must not disturb anything
			w.call(&callInfo{name: "GetOperatorStatus", g: g}, func() {
				_ = w.oc.GetOperatorStatus(g.id)
				_ = w.oc.GetWaitingOperators()
				_ = w.oc.GetOpInfluence(w.mc)
				_ = w.oc.OperatorCount(operator.OpRegion)
				_ = w.oc.GetHistory(time.Now().Add(-time.Hour))
				w.oc.PruneHistory()
				infl := operator.OpInfluence{StoresInfluence: map[uint64]*operator.StoreInfluence{}}
				w.oc.GetFastOpInfluence(w.mc, infl)
				if t := w.running[g.id]; t != nil {
					_ = w.oc.ExceedStoreLimit(t.op)
				}
			})
		case "exec", "exec-dup":
			idx := 0
			if rng.Intn(6) == 0 {
				idx = rng.Intn(len(g.inbox))
			}
			err := w.exec(g, idx, name == "exec")
			if err == nil && !g.dead && rng.Intn(10) < 6 {
				w.putView(g)
				g.logf("#%d region cache updated to %s (no dispatch yet)", w.evNo, epochStr(g.view.GetRegionEpoch()))
			}
		case "drop":
			idx := rng.Intn(len(g.inbox))
			g.logf("#%d command %s lost", w.evNo, g.inbox[idx].kind)
			g.inbox = append(g.inbox[:idx:idx], g.inbox[idx+1:]...)
		case "foreign-conf":
			kind := []string{"add-learner", "add-learner", "remove-follower", "promote", "demote"}[rng.Intn(5)]
			if w.mode == modeLegacy && (kind == "demote") {
				kind = "remove-follower"
			}
			if _, err := w.foreignConf(g, kind); err != nil {
				r.Count("foreign_conf_not_possible", 1)
				continue
			}
			r.Count("foreign_"+kind, 1)
			if rng.Intn(2) == 0 {
				w.putView(g)
				g.logf("#%d region cache updated to %s (no dispatch yet)", w.evNo, epochStr(g.view.GetRegionEpoch()))
			}
		case "foreign-version":
			w.foreignVersion(g, rng.Intn(3) == 0)
		case "foreign-leader":
			if w.foreignLeader(g, rng.Intn(2) == 0) {
				r.Count("foreign_leader_changes", 1)
			}
		}
	}
}

// finish: let what is still running come to an end (no judgement depends on it, the oracles stay on).
func (w *world) settle() {
	w.phase = "settle"
	for round := 0; round < 12; round++ {
		busy := false
		if len(w.queued) > 0 {
			w.readStream()
		}
		for _, g := range w.liveRegions() {
			for len(g.inbox) > 0 && !g.dead {
				w.evNo++
				_ = w.exec(g, 0, true)
			}
			if len(g.sim.Pending) > 0 {
				w.oneField(g, "settle-pending")
			}
			if !g.dead && (w.running[g.id] != nil || g.dirty) {
				busy = true
				w.evNo++
				w.heartbeat(g)
			}
		}
		w.promote()
		if !busy {
			break
		}
	}
}

// ---- replay ---------------------------------------------------------------------------------------------------------

// A witness is a history, not an input: replaying means re-running the (seed, tier, shard) that produced it.
func applyReplay(r *ev.Run) {
	b, err := ioutil.ReadFile(r.Replay)
	if err != nil {
		r.Inconclusive("replay: %v", err)
		return
	}
	var doc struct {
		Seed   int64  `json:"seed"`
		Tier   string `json:"tier"`
		Shard  int    `json:"shard"`
		Shards int    `json:"shards"`
	}
	if err := json.Unmarshal(b, &doc); err != nil {
		r.Inconclusive("replay: %v", err)
		return
	}
	r.Seed, r.Shard = doc.Seed, doc.Shard
	if doc.Shards > 0 {
		r.Shards = doc.Shards
	}
	if doc.Tier == "quick" || doc.Tier == "thorough" {
		r.Tier = doc.Tier
	}
}

func main() {
	r := ev.New("C09", "exploration")
	silence()
	if r.Replay != "" {
		applyReplay(r)
	}
	seed := r.ShardSeed()
	rng := rand.New(rand.NewSource(seed))
	rand.Seed(seed) // pd's waiting-operator buckets draw from the global source

	r.Rule("directed family: AddWaitingOperator batches of 2-4 operators over different regions (same / different descriptions) x {foreign conf change, version bump, nothing} on the region of an operator that is left waiting x promotion triggered by {PromoteWaitingOperator, another AddWaitingOperator, the running operator finishing, going stale, being removed}; complete grid of a region-cache update (conf change / leader change / eviction) placed before every cache read of 9 controller-call scenarios (AddOperator, admin replace, merge pair, AddWaitingOperator batch, PromoteWaitingOperator, Dispatch finishing and promoting, Dispatch mid-operator, Dispatch(push), PushOperators); populated worlds of 99-160 regions (100+ operators running, waiting buckets at their per-description limit); operators aged past their timeout (running) or expiry (waiting) deadline whose single deadline poll {Dispatch, PushOperators, GetOpInfluence, String} is released together with {RemoveOperator, higher-priority AddOperator, the Dispatch that finds the last step finished}, statuses sampled under one lock while the round runs; one-field heartbeats (pending, down, size, term) at every step; two or three regions at the same step with their commands kept queued; own-steps-only executions in which every newly applied step is met by TWO concurrent Dispatch calls (heartbeat‖push, heartbeat‖heartbeat) released together; then worlds of 4-7 stores and 3-6 adjacent regions (feature modes joint consensus / demotion without joint consensus / legacy); operators from the real builder and constructors over random targets (add/remove/promote/demote/move/transfer, demotion-only joint changes, light peers, leave-joint, split, merge pairs; normal and admin priority; built from pd's current or a superseded view); phase 1 executes each operator with its own steps only; phase 2 is a PRNG loop over {AddOperator, AddWaitingOperator, PromoteWaitingOperator, admin operator (replace), RemoveOperator, store executes / duplicates / loses a pending command, region-cache update, Dispatch(heartbeat), Dispatch(active push), PushOperators, foreign conf change with fresh peer ids (add learner, remove follower, promote, demote), foreign version bump / split, foreign leader change incl. onto the peer about to be removed}; phase 3 issues the same calls from 8 goroutines over 4 regions. evaluations = operators that were admitted and observed until they ended; distinct = distinct (mode, step-kind sequence, end status, kinds of foreign change, ended-by) tuples")
	r.Assume("pkg/mock/mockcluster is the opt.Cluster, lib/sim is the store (conf change v1/v2, refuses stale epochs, commands not addressed to the leader, simple changes in a joint state); all stores are up and store limits are unlimited (wall-clock token buckets)")
	r.Assume("'the region's epoch / leader at send or admission time' is the region as pd's cache holds it during the call; Dispatch is always given the cached region (monotone views)")
	r.Assume("own_applied = conf_ver units the simulator applied while executing commands that were sent for the operator; a foreign change that touches a peer (store, peer id) named by one of the operator's steps, or removes the peer of a store the operator removes from, cannot be told apart from the operator's own progress by pd: such operators are not judged for staleness (skipped_ambiguous_staleness); commands that cannot be attributed with certainty taint the operators of the region the same way")
	r.Assume("a region heartbeat updates the cache under the cluster lock, not the controller lock, so it may fall between two cache reads of one controller call: then either view the cache held during the call counts as 'the region at that moment'; Dispatch is never given a snapshot older than the cache (HandleRegionHeartbeat rejects those before dispatching); some worlds use small store limits and change them (quota refusals are wall-clock dependent and never judged)")
	r.Assume("EXPIRED / TIMEOUT are wall-clock transitions: only their direction is judged; an operator record is looked up right after the call in which the operator left the running set (records live 10 minutes of wall clock); the source half of a merge ends when its region disappears and is not judged by the own-steps-only oracle")

	defer func() {
		if p := recover(); p != nil { // a harness panic must not swallow what was found so far
			flushFindings(r)
			panic(p)
		}
	}()
	tPhase := time.Now()
	lap := func(name string) {
		r.Set("seconds_"+name, int(time.Since(tPhase).Seconds()*10)/10.0)
		tPhase = time.Now()
	}
	canonical(r)
	directedWaiting(r)
	raceFamily(r)
	oneFieldFamily(r)
	sameStepFamily(r)
	lap("directed_families")
	rand.Seed(seed)

	worlds := r.Pick(320, 1400)
	events := r.Pick(560, 700)
	ownN := r.Pick(8, 10)
	modes := []string{modeJoint, modeJoint, modeJoint, modeDemote, modeLegacy}
	for wi := 1; wi <= worlds; wi++ {
		mode := modes[rng.Intn(len(modes))]
		finiteLimits = rng.Intn(6) == 0
		w, err := newWorld(r, rng, wi, mode, 4+rng.Intn(4), 3+rng.Intn(4), nil)
		if w != nil {
			w.finite = finiteLimits
			if w.finite {
				r.Count("worlds_with_finite_store_limits", 1)
			}
		}
		finiteLimits = false
		if err != nil {
			r.Inconclusive("cannot build world: %v", err)
			break
		}
		r.Count("worlds_"+mode, 1)
		if rng.Intn(3) == 0 {
			w.lazy = 2 + rng.Intn(7) // the store side reads the stream only when that many commands are queued
			r.Count("worlds_with_commands_kept_queued", 1)
		}
		if rng.Intn(4) == 0 {
			for _, id := range w.rids {
				w.regs[id].sim.HoldNewPeersPending = true // new peers are reported pending until their snapshot is applied
			}
			w.pendingWorld = true
			r.Count("worlds_with_pending_new_peers", 1)
		}
		w.ownOnly(ownN)
		w.randomLoop(events)
		if rng.Intn(5) == 0 {
			// shutdown order of pd-server: the contexts are cancelled first, calls still arrive, then Close (twice)
			w.cancel()
			r.Count("worlds_cancelled_before_close", 1)
			w.randomLoop(40)
			w.hb.Close()
		}
		w.settle()
		r.Count("events_total", int64(w.evNo))
		w.close()
	}

	lap("worlds")
	// populated worlds: many regions, many operators running and waiting at once (notifier heap, waiting
	// buckets at and beyond their per-description limit, records of many regions)
	for li := 0; li < r.Pick(3, 8); li++ {
		mode := modes[rng.Intn(len(modes))]
		w, err := newWorld(r, rng, 300000+li, mode, 7, []int{99, 101, 160}[li%3], nil)
		if err != nil {
			r.Inconclusive("cannot build populated world: %v", err)
			break
		}
		r.Count("populated_worlds", 1)
		w.populated = true
		w.randomLoop(r.Pick(4000, 8000))
		w.settle()
		r.Count("events_total", int64(w.evNo))
		w.close()
	}
	flushFindings(r)

	lap("populated_worlds")
	pairPhase(r, rng)
	flushFindings(r)
	lap("dispatch_pairs")
	agedFamily(r, rng)
	flushFindings(r)
	lap("aged_operators")

	stress(r, rng)
	flushFindings(r)
	lap("stress")

	for k, v := range maxima {
		r.Set(k, v)
	}
	r.Floor(int64(r.Pick(1500, 10000)))
	r.Finish()
}

var _ = core.NewRegionInfo
var _ = fmt.Sprint
