package main

import (
	"context"
	"encoding/hex"
	"errors"
	"fmt"
	"sync"
	"sync/atomic"
	"time"

	"github.com/pingcap/kvproto/pkg/metapb"
	"github.com/pingcap/kvproto/pkg/pdpb"
	"github.com/tikv/pd/pkg/cache"
	"github.com/tikv/pd/pkg/mock/mockcluster"
	"github.com/tikv/pd/server/config"
	"github.com/tikv/pd/server/core"
	"github.com/tikv/pd/server/core/storelimit"
	"github.com/tikv/pd/server/schedule"
	"github.com/tikv/pd/server/schedule/checker"
	"github.com/tikv/pd/server/schedule/placement"
	"github.com/tikv/pd/server/versioninfo"
)

const gib = uint64(1) << 30

// processStart anchors the generated heartbeat timestamps. It never enters a verdict as a duration:
// a generated store is either "last heartbeat two days in the future" or "at least ten minutes before
// the process started"; the oracle classifies with 24 h / 5 min margins and treats the rest as ambiguous.
var processStart = time.Now()

func heartbeatTS(class string) (time.Time, error) {
	switch class {
	case hbFresh:
		return processStart.Add(48 * time.Hour), nil
	case hbDisconnected:
		return processStart.Add(-10 * time.Minute), nil
	case hbDown:
		return processStart.Add(-3 * time.Hour), nil
	case hbNever:
		return time.Time{}, nil
	}
	return time.Time{}, fmt.Errorf("unknown heartbeat class %q", class)
}

// config.NewTestOptions registers schedulers in a global map: clusters are created one at a time.
var clusterMu sync.Mutex

// faultCluster is the opt.Cluster the checkers see: the mock cluster, with an id allocator that can be
// made to fail (a real AllocID fails when the etcd write of the id window fails).
type faultCluster struct {
	*mockcluster.Cluster
	failAlloc  int32 // != 0: AllocID returns an error
	allocFails int64 // number of failed allocations
}

func (f *faultCluster) AllocID() (uint64, error) {
	if atomic.LoadInt32(&f.failAlloc) != 0 {
		atomic.AddInt64(&f.allocFails, 1)
		return 0, errors.New("injected: id allocation failed")
	}
	return f.Cluster.AllocID()
}

// GetStore of the mock reads the store map without the cluster lock (the real RaftCluster.GetStore takes
// it); a checker call that runs while a store is updated must go through the locked accessor.
func (f *faultCluster) GetStore(id uint64) *core.StoreInfo {
	return f.Cluster.BasicCluster.GetStore(id)
}

type cluster struct {
	*mockcluster.Cluster
	rulesOn      bool
	ctrlCancel   context.CancelFunc
	restarts     int
	fc           *faultCluster
	cancel       context.CancelFunc
	replica      *checker.ReplicaChecker
	rule         *checker.RuleChecker
	controller   *schedule.CheckerController
	rulesDropped int
	defaultKept  bool
}

func (c *cluster) close() {
	if c.ctrlCancel != nil {
		c.ctrlCancel()
	}
	c.cancel()
}

// restartCheckers is what a PD leader change does to the coordinator: the context of the running checker
// controller is cancelled first, then fresh checkers and a fresh controller (empty waiting list, empty
// caches) are built on the same cluster.
func (c *cluster) restartCheckers(first bool) {
	if c.ctrlCancel != nil {
		c.ctrlCancel()
	}
	ctx, cancel := context.WithCancel(context.Background())
	c.ctrlCancel = cancel
	if c.rulesOn {
		c.rule = checker.NewRuleChecker(c.fc, c.RuleManager, cache.NewDefaultCache(schedule.DefaultCacheSize))
	} else {
		c.replica = checker.NewReplicaChecker(c.fc, cache.NewDefaultCache(schedule.DefaultCacheSize))
	}
	oc := schedule.NewOperatorController(ctx, c.fc, nil)
	c.controller = schedule.NewCheckerController(ctx, c.fc, c.RuleManager, oc)
	if !first {
		c.restarts++
	}
}

func newCluster(w *world) (*cluster, error) {
	clusterMu.Lock()
	defer clusterMu.Unlock()
	opts := config.NewTestOptions()
	ctx, cancel := context.WithCancel(context.Background())
	mc := mockcluster.NewCluster(ctx, opts)
	fail := func(format string, a ...interface{}) (*cluster, error) {
		cancel()
		return nil, fmt.Errorf(format, a...)
	}
	switch w.Mode {
	case modeJoint:
	case modeDemote:
		sc := mc.GetScheduleConfig().Clone()
		sc.EnableJointConsensus = false
		mc.SetScheduleConfig(sc)
	case modeLegacy:
		mc.DisableFeature(versioninfo.JointConsensus)
	default:
		return fail("unknown mode %q", w.Mode)
	}
	applyConfig(mc, w, false) // placement rules start off (the default of this pd version is on); switched on below

	for i := range w.Stores {
		if err := putStore(mc, &w.Stores[i]); err != nil {
			return fail("%v", err)
		}
	}

	fc := &faultCluster{Cluster: mc}
	cl := &cluster{Cluster: mc, fc: fc, cancel: cancel}
	if w.Rules != "off" {
		mc.SetEnablePlacementRules(true) // makes sure the rule manager exists (it may have been created with pd's defaults)
		// the default rule: max-replicas voters with the cluster's location labels and isolation level
		def := &placement.Rule{GroupID: "pd", ID: "default", Role: placement.Voter, Count: w.MaxReplicas,
			LocationLabels: append([]string(nil), w.LocationLabels...), IsolationLevel: w.IsolationLevel}
		if err := mc.RuleManager.SetRule(def); err != nil {
			// every store carries an exclusive label: pd refuses an unconstrained rule that matches no store;
			// the default rule the rule manager was initialised with stays (the oracles read the served rules)
			cl.rulesDropped++
		}
		if w.Rules != "default" && w.Rules != "custom" {
			return fail("unknown rules mode %q", w.Rules)
		}
		kept := 0
		var ranged []*placement.Rule
		for i := range w.RuleSet {
			rule := toRule(&w.RuleSet[i])
			if w.RuleSet[i].StartID != 0 || w.RuleSet[i].EndID != 0 {
				ranged = append(ranged, rule)
				continue
			}
			if err := mc.RuleManager.SetRule(rule); err != nil {
				// pd refuses a rule no store can match: the world simply goes without it
				cl.rulesDropped++
				continue
			}
			kept++
		}
		if len(ranged) > 0 {
			// the rules on key ranges go in as one batch; if pd refuses the batch, one by one
			if err := mc.RuleManager.SetRules(ranged); err != nil {
				for _, rule := range ranged {
					if err := mc.RuleManager.SetRule(rule); err != nil {
						cl.rulesDropped++
					}
				}
			}
		}
		for i := range w.RuleSet {
			if w.RuleSet[i].ID == "default" {
				kept = 0 // the description lists the default rule itself: it stays
			}
		}
		if kept > 0 {
			if err := mc.RuleManager.DeleteRule("pd", "default"); err != nil {
				// pd refuses a rule set without a leader / voter rule: the default rule stays next to the custom ones
				cl.defaultKept = true
			}
		}
	}
	cl.rulesOn = w.Rules != "off"
	cl.restartCheckers(true)
	return cl, nil
}

// applyConfig writes the world's replication / schedule settings into the cluster's options
// (rulesOn: whether placement rules are in force; a fresh cluster is built with them off first).
func applyConfig(mc *mockcluster.Cluster, w *world, rulesOn bool) {
	rc := mc.GetReplicationConfig().Clone()
	rc.MaxReplicas = uint64(w.MaxReplicas)
	rc.LocationLabels = append([]string(nil), w.LocationLabels...)
	rc.IsolationLevel = w.IsolationLevel
	rc.StrictlyMatchLabel = w.StrictlyMatchLabel
	rc.EnablePlacementRules = rulesOn
	mc.SetReplicationConfig(rc)
	sc := mc.GetScheduleConfig().Clone()
	sc.EnableMakeUpReplica = w.Switches.MakeUp
	sc.EnableRemoveExtraReplica = w.Switches.RemoveExtra
	sc.EnableLocationReplacement = w.Switches.LocationReplacement
	sc.EnableRemoveDownReplica = w.Switches.RemoveDown
	sc.EnableReplaceOfflineReplica = w.Switches.ReplaceOffline
	sc.LowSpaceRatio = w.LowSpaceRatio
	sc.HighSpaceRatio = w.LowSpaceRatio - 0.1
	sc.ReplicaScheduleLimit = uint64(w.ReplicaScheduleLimit)
	sc.MergeScheduleLimit = 0 // the merge checker is not part of the property
	mc.SetScheduleConfig(sc)
}

// putStore (re)creates the store record from its description.
func putStore(mc *mockcluster.Cluster, s *storeDesc) error {
	meta := &metapb.Store{Id: s.ID, Address: fmt.Sprintf("mock://store-%d", s.ID)}
	switch s.State {
	case stUp:
		meta.State = metapb.StoreState_Up
	case stOffline:
		meta.State = metapb.StoreState_Offline
	case stTombstone:
		meta.State = metapb.StoreState_Tombstone
	default:
		return fmt.Errorf("unknown store state %q", s.State)
	}
	for _, l := range s.Labels {
		meta.Labels = append(meta.Labels, &metapb.StoreLabel{Key: l.K, Value: l.V})
	}
	hb, err := heartbeatTS(s.HB)
	if err != nil {
		return err
	}
	stats := &pdpb.StoreStats{StoreId: s.ID, Capacity: s.CapGiB * gib, Available: s.AvailGiB * gib,
		UsedSize: (s.CapGiB - s.AvailGiB) * gib, IsBusy: s.Busy,
		SendingSnapCount: uint32(s.SendSnap), ReceivingSnapCount: uint32(s.RecvSnap)}
	so := []core.StoreCreateOption{
		core.SetStoreStats(stats),
		core.SetRegionCount(s.RegionCount),
		core.SetRegionSize(s.RegionSizeMiB),
		core.SetPendingPeerCount(s.Pending),
		core.SetLastHeartbeatTS(hb),
	}
	if s.AddLimitOut {
		so = append(so, core.AttachAvailableFunc(storelimit.AddPeer, func() bool { return false }))
	}
	mc.SetStoreLimit(s.ID, storelimit.AddPeer, 60)
	mc.SetStoreLimit(s.ID, storelimit.RemovePeer, 60)
	mc.PutStore(core.NewStoreInfo(meta, so...))
	return nil
}

func toRule(rd *ruleDesc) *placement.Rule {
	rule := &placement.Rule{GroupID: "pd", ID: rd.ID, Role: placement.PeerRoleType(rd.Role), Count: rd.Count,
		LocationLabels: append([]string(nil), rd.Loc...), IsolationLevel: rd.Iso}
	if rd.StartID != 0 {
		rule.StartKeyHex = hex.EncodeToString([]byte(fmt.Sprintf("%20d", rd.StartID)))
	}
	if rd.EndID != 0 {
		rule.EndKeyHex = hex.EncodeToString([]byte(fmt.Sprintf("%20d", rd.EndID)))
	}
	for _, c := range rd.Cons {
		rule.LabelConstraints = append(rule.LabelConstraints, placement.LabelConstraint{Key: c.Key,
			Op: placement.LabelConstraintOp(c.Op), Values: append([]string(nil), c.Values...)})
	}
	return rule
}

func descOfRule(r *placement.Rule) ruleDesc {
	rd := ruleDesc{ID: r.ID, Role: string(r.Role), Count: r.Count, Loc: append([]string(nil), r.LocationLabels...), Iso: r.IsolationLevel}
	if b, err := hex.DecodeString(r.StartKeyHex); err == nil && len(b) > 0 {
		fmt.Sscanf(string(b), "%d", &rd.StartID)
	}
	if b, err := hex.DecodeString(r.EndKeyHex); err == nil && len(b) > 0 {
		fmt.Sscanf(string(b), "%d", &rd.EndID)
	}
	for _, c := range r.LabelConstraints {
		rd.Cons = append(rd.Cons, consDesc{Key: c.Key, Op: string(c.Op), Values: append([]string(nil), c.Values...)})
	}
	return rd
}

// updateStore changes a served store the way the server does: get the record, clone it with options
// (labels, state, heartbeat time, stats through the shared stats object), put it back.
func updateStore(mc *mockcluster.Cluster, s *storeDesc) error {
	old := mc.BasicCluster.GetStore(s.ID)
	if old == nil {
		return putStore(mc, s)
	}
	var labels []*metapb.StoreLabel
	for _, l := range s.Labels {
		labels = append(labels, &metapb.StoreLabel{Key: l.K, Value: l.V})
	}
	hb, err := heartbeatTS(s.HB)
	if err != nil {
		return err
	}
	stats := &pdpb.StoreStats{StoreId: s.ID, Capacity: s.CapGiB * gib, Available: s.AvailGiB * gib,
		UsedSize: (s.CapGiB - s.AvailGiB) * gib, IsBusy: s.Busy,
		SendingSnapCount: uint32(s.SendSnap), ReceivingSnapCount: uint32(s.RecvSnap)}
	so := []core.StoreCreateOption{core.SetStoreLabels(labels), core.SetLastHeartbeatTS(hb), core.SetStoreStats(stats),
		core.SetRegionCount(s.RegionCount), core.SetRegionSize(s.RegionSizeMiB), core.SetPendingPeerCount(s.Pending)}
	switch s.State {
	case stUp:
		so = append(so, core.UpStore())
	case stOffline:
		so = append(so, core.OfflineStore(false))
	case stTombstone:
		so = append(so, core.TombstoneStore())
	default:
		return fmt.Errorf("unknown store state %q", s.State)
	}
	mc.PutStore(old.Clone(so...))
	return nil
}
