package main

import (
	"context"
	"fmt"
	"sync"
	"time"

	"github.com/pingcap/kvproto/pkg/metapb"
	"github.com/pingcap/kvproto/pkg/pdpb"
	"github.com/tikv/pd/pkg/cache"
	"github.com/tikv/pd/pkg/mock/mockcluster"
	"github.com/tikv/pd/server/config"
	"github.com/tikv/pd/server/core"
	"github.com/tikv/pd/server/core/storelimit"
	"github.com/tikv/pd/server/schedule"
	"github.com/tikv/pd/server/schedule/checker"
	"github.com/tikv/pd/server/schedule/placement"
	"github.com/tikv/pd/server/versioninfo"
)

const gib = uint64(1) << 30

// processStart anchors the generated heartbeat timestamps. It never enters a verdict as a duration:
// a generated store is either "last heartbeat two days in the future" or "at least ten minutes before
// the process started"; the oracle classifies with 24 h / 5 min margins and treats the rest as ambiguous.
var processStart = time.Now()

func heartbeatTS(class string) (time.Time, error) {
	switch class {
	case hbFresh:
		return processStart.Add(48 * time.Hour), nil
	case hbDisconnected:
		return processStart.Add(-10 * time.Minute), nil
	case hbDown:
		return processStart.Add(-3 * time.Hour), nil
	case hbNever:
		return time.Time{}, nil
	}
	return time.Time{}, fmt.Errorf("unknown heartbeat class %q", class)
}

// config.NewTestOptions registers schedulers in a global map: clusters are created one at a time.
var clusterMu sync.Mutex

type cluster struct {
	*mockcluster.Cluster
	cancel       context.CancelFunc
	replica      *checker.ReplicaChecker
	rule         *checker.RuleChecker
	controller   *schedule.CheckerController
	rulesDropped int
	defaultKept  bool
}

func (c *cluster) close() { c.cancel() }

func newCluster(w *world) (*cluster, error) {
	clusterMu.Lock()
	defer clusterMu.Unlock()
	opts := config.NewTestOptions()
	ctx, cancel := context.WithCancel(context.Background())
	mc := mockcluster.NewCluster(ctx, opts)
	fail := func(format string, a ...interface{}) (*cluster, error) {
		cancel()
		return nil, fmt.Errorf(format, a...)
	}
	switch w.Mode {
	case modeJoint:
	case modeDemote:
		sc := mc.GetScheduleConfig().Clone()
		sc.EnableJointConsensus = false
		mc.SetScheduleConfig(sc)
	case modeLegacy:
		mc.DisableFeature(versioninfo.JointConsensus)
	default:
		return fail("unknown mode %q", w.Mode)
	}
	applyConfig(mc, w, false) // placement rules start off (the default of this pd version is on); switched on below

	for i := range w.Stores {
		if err := putStore(mc, &w.Stores[i]); err != nil {
			return fail("%v", err)
		}
	}

	cl := &cluster{Cluster: mc, cancel: cancel}
	if w.Rules != "off" {
		mc.SetEnablePlacementRules(true) // makes sure the rule manager exists (it may have been created with pd's defaults)
		// the default rule: max-replicas voters with the cluster's location labels and isolation level
		def := &placement.Rule{GroupID: "pd", ID: "default", Role: placement.Voter, Count: w.MaxReplicas,
			LocationLabels: append([]string(nil), w.LocationLabels...), IsolationLevel: w.IsolationLevel}
		if err := mc.RuleManager.SetRule(def); err != nil {
			// every store carries an exclusive label: pd refuses an unconstrained rule that matches no store;
			// the default rule the rule manager was initialised with stays (the oracles read the served rules)
			cl.rulesDropped++
		}
		switch w.Rules {
		case "default":
		case "custom":
			kept := 0
			for i := range w.RuleSet {
				rule := toRule(&w.RuleSet[i])
				if err := mc.RuleManager.SetRule(rule); err != nil {
					// pd refuses a rule no store can match: the world simply goes without it
					cl.rulesDropped++
					continue
				}
				kept++
			}
			if kept > 0 {
				if err := mc.RuleManager.DeleteRule("pd", "default"); err != nil {
					// pd refuses a rule set without a leader / voter rule: the default rule stays next to the custom ones
					cl.defaultKept = true
				}
			}
		default:
			return fail("unknown rules mode %q", w.Rules)
		}
		cl.rule = checker.NewRuleChecker(mc, mc.RuleManager, cache.NewDefaultCache(schedule.DefaultCacheSize))
	} else {
		cl.replica = checker.NewReplicaChecker(mc, cache.NewDefaultCache(schedule.DefaultCacheSize))
	}
	oc := schedule.NewOperatorController(ctx, mc, nil)
	cl.controller = schedule.NewCheckerController(ctx, mc, mc.RuleManager, oc)
	return cl, nil
}

// applyConfig writes the world's replication / schedule settings into the cluster's options
// (rulesOn: whether placement rules are in force; a fresh cluster is built with them off first).
func applyConfig(mc *mockcluster.Cluster, w *world, rulesOn bool) {
	rc := mc.GetReplicationConfig().Clone()
	rc.MaxReplicas = uint64(w.MaxReplicas)
	rc.LocationLabels = append([]string(nil), w.LocationLabels...)
	rc.IsolationLevel = w.IsolationLevel
	rc.StrictlyMatchLabel = w.StrictlyMatchLabel
	rc.EnablePlacementRules = rulesOn
	mc.SetReplicationConfig(rc)
	sc := mc.GetScheduleConfig().Clone()
	sc.EnableMakeUpReplica = w.Switches.MakeUp
	sc.EnableRemoveExtraReplica = w.Switches.RemoveExtra
	sc.EnableLocationReplacement = w.Switches.LocationReplacement
	sc.EnableRemoveDownReplica = w.Switches.RemoveDown
	sc.EnableReplaceOfflineReplica = w.Switches.ReplaceOffline
	sc.LowSpaceRatio = w.LowSpaceRatio
	sc.HighSpaceRatio = w.LowSpaceRatio - 0.1
	sc.ReplicaScheduleLimit = uint64(w.ReplicaScheduleLimit)
	sc.MergeScheduleLimit = 0 // the merge checker is not part of the property
	mc.SetScheduleConfig(sc)
}

// putStore (re)creates the store record from its description.
func putStore(mc *mockcluster.Cluster, s *storeDesc) error {
	meta := &metapb.Store{Id: s.ID, Address: fmt.Sprintf("mock://store-%d", s.ID)}
	switch s.State {
	case stUp:
		meta.State = metapb.StoreState_Up
	case stOffline:
		meta.State = metapb.StoreState_Offline
	case stTombstone:
		meta.State = metapb.StoreState_Tombstone
	default:
		return fmt.Errorf("unknown store state %q", s.State)
	}
	for _, l := range s.Labels {
		meta.Labels = append(meta.Labels, &metapb.StoreLabel{Key: l.K, Value: l.V})
	}
	hb, err := heartbeatTS(s.HB)
	if err != nil {
		return err
	}
	stats := &pdpb.StoreStats{StoreId: s.ID, Capacity: s.CapGiB * gib, Available: s.AvailGiB * gib,
		UsedSize: (s.CapGiB - s.AvailGiB) * gib, IsBusy: s.Busy,
		SendingSnapCount: uint32(s.SendSnap), ReceivingSnapCount: uint32(s.RecvSnap)}
	so := []core.StoreCreateOption{
		core.SetStoreStats(stats),
		core.SetRegionCount(s.RegionCount),
		core.SetRegionSize(s.RegionSizeMiB),
		core.SetPendingPeerCount(s.Pending),
		core.SetLastHeartbeatTS(hb),
	}
	if s.AddLimitOut {
		so = append(so, core.AttachAvailableFunc(storelimit.AddPeer, func() bool { return false }))
	}
	mc.SetStoreLimit(s.ID, storelimit.AddPeer, 60)
	mc.SetStoreLimit(s.ID, storelimit.RemovePeer, 60)
	mc.PutStore(core.NewStoreInfo(meta, so...))
	return nil
}

func toRule(rd *ruleDesc) *placement.Rule {
	rule := &placement.Rule{GroupID: "pd", ID: rd.ID, Role: placement.PeerRoleType(rd.Role), Count: rd.Count,
		LocationLabels: append([]string(nil), rd.Loc...), IsolationLevel: rd.Iso}
	for _, c := range rd.Cons {
		rule.LabelConstraints = append(rule.LabelConstraints, placement.LabelConstraint{Key: c.Key,
			Op: placement.LabelConstraintOp(c.Op), Values: append([]string(nil), c.Values...)})
	}
	return rule
}

func descOfRule(r *placement.Rule) ruleDesc {
	rd := ruleDesc{ID: r.ID, Role: string(r.Role), Count: r.Count, Loc: append([]string(nil), r.LocationLabels...), Iso: r.IsolationLevel}
	for _, c := range r.LabelConstraints {
		rd.Cons = append(rd.Cons, consDesc{Key: c.Key, Op: string(c.Op), Values: append([]string(nil), c.Values...)})
	}
	return rd
}
