package main

// Concurrent family: the patrol goroutine's checker calls (Check, CheckRegion) run free while another
// goroutine changes the cluster the way the API / heartbeat handlers do: a placement rule rewritten under
// the same id, a store changing labels / state / heartbeat / space, the replication settings changing. The
// update is applied and reverted over and over while the calls run (it ends applied), so every read a
// call makes sees either the value before or the value after. A call that completed before the first
// update began is judged in the "before" view, one that began after the last update ended in the "after"
// view (logical clock, lib/hist); an overlapping call is judged in both views and only what is refuted in
// BOTH is reported (a single changed item: whichever version a read saw, the verdict is one of the two).
// The race detector watches the real code meanwhile. Checker calls themselves are never run concurrently
// with each other: pd has one patrol goroutine.

import (
	"math/rand"
	"runtime"
	"sync"
	"sync/atomic"

	"verif/harness/lib/ev"
	"verif/harness/lib/hist"
)

// inverseOf returns the update that restores what u changes (nil if u has no simple inverse).
func inverseOf(cl *cluster, cur *world, u *updateDesc) *updateDesc {
	switch u.Kind {
	case "store":
		old := *cur.store(u.Store.ID)
		old.Labels = append([]labelKV(nil), old.Labels...)
		return &updateDesc{Kind: "store", What: "revert", Store: &old}
	case "config":
		return &updateDesc{Kind: "config", What: "revert", Config: &configDesc{MaxReplicas: cur.MaxReplicas,
			LocationLabels: append([]string(nil), cur.LocationLabels...), IsolationLevel: cur.IsolationLevel, Switches: cur.Switches}}
	case "rule-set", "rule-get-edit-set":
		var olds []ruleDesc
		for i := range u.Rules {
			r := cl.RuleManager.GetRule("pd", u.Rules[i].ID)
			if r == nil {
				return nil
			}
			olds = append(olds, descOfRule(r))
		}
		return &updateDesc{Kind: "rule-set", What: "revert", Rules: olds}
	}
	return nil
}

func runConcurrentWorld(s *stats, w0 *world, rng *rand.Rand) error {
	cl, err := newCluster(w0)
	if err != nil {
		return err
	}
	defer cl.close()
	s.count("concurrent_worlds", 1)
	cur := cloneWorld(w0)
	nextID := regionBase
	for trial := 0; trial < 3; trial++ {
		var u, inv *updateDesc
		for i := 0; i < 10 && inv == nil; i++ {
			u = genUpdate(rng, cl, cur)
			inv = inverseOf(cl, cur, u)
		}
		if inv == nil {
			continue
		}
		class := u.class()
		// the regions and the "before" view
		views0, snap0 := storeViews(cl, cur), cloneWorld(cur)
		type job struct {
			k      *kase
			before *caseCtx
			res    []callResult
		}
		var jobs []*job
		for i := 0; i < 5; i++ {
			specs := genRegion(rng, cur, class == "rule" && i%2 == 0)
			k := &kase{World: snap0, Region: layoutString(specs), RegionID: nextID, Initial: cloneWorld(cur), Round: 1}
			nextID++
			if rng.Intn(12) == 0 {
				k.FailAlloc = []string{"direct", "controller", "both"}[rng.Intn(3)]
			}
			// sequential replay of the witness: the same region before and after the update
			d := regionDesc{ID: k.RegionID, Layout: k.Region, FailAlloc: k.FailAlloc}
			k.History = []roundDesc{{Regions: []regionDesc{d}}, {Update: u, Regions: []regionDesc{d}}}
			c, err := prepare(cl, views0, k)
			if err != nil {
				continue
			}
			cl.PutRegion(c.info)
			jobs = append(jobs, &job{k: k, before: c})
		}
		total := int32(len(jobs) * 2)
		fireAt := int32(rng.Intn(int(total)))
		var progress, done int32
		var firstStart, lastEnd int64
		bs := newStats()
		var wg sync.WaitGroup
		var uerr error
		wg.Add(2)
		go func() { // the patrol goroutine
			defer wg.Done()
			for _, j := range jobs {
				for _, via := range []string{"direct", "controller"} {
					j.res = append(j.res, invoke(cl, j.before.rulesOn(), j.before.info, via, j.k.FailAlloc == via || j.k.FailAlloc == "both"))
					atomic.AddInt32(&progress, 1)
				}
			}
			atomic.StoreInt32(&done, 1)
		}()
		go func() { // the API / heartbeat goroutine
			defer wg.Done()
			for atomic.LoadInt32(&progress) < fireAt {
				runtime.Gosched()
			}
			firstStart = hist.Tick()
			for flips := 0; ; flips++ {
				if uerr = applyUpdate(bs, cl, cur, u); uerr != nil {
					break
				}
				if atomic.LoadInt32(&done) != 0 || flips >= 400 {
					break
				}
				if uerr = applyUpdate(bs, cl, cur, inv); uerr != nil {
					break
				}
				bs.count("concurrent_update_flips", 1)
			}
			lastEnd = hist.Tick()
		}()
		wg.Wait()
		s.merge(bs)
		if uerr != nil {
			return uerr
		}
		// the "after" view: the cluster is quiescent again
		views1, snap1 := storeViews(cl, cur), cloneWorld(cur)
		for _, j := range jobs {
			ka := *j.k
			ka.World = snap1
			after, err := prepare(cl, views1, &ka)
			if err != nil {
				continue
			}
			for i := range j.res {
				res := &j.res[i]
				s.count("checker_calls", 1)
				switch {
				case res.ret < firstStart:
					s.count("concurrent_calls_completed_before_the_update", 1)
					j.before.suffix = ""
					j.before.judgeCall(s, res)
				case res.call > lastEnd:
					s.count("concurrent_calls_begun_after_the_update", 1)
					after.suffix = ":after-" + class + "-update"
					after.judgeCall(s, res)
				default:
					s.count("concurrent_calls_overlapping_the_update", 1)
					s.count("concurrent_calls_overlapping_"+class+"_update", 1)
					j.before.suffix, after.suffix = ":during-"+class+"-update", ":during-"+class+"-update"
					t0, t1 := newStats(), newStats()
					j.before.judgeCall(t0, res)
					after.judgeCall(t1, res)
					for key, f := range t0.findings {
						if _, both := t1.findings[key]; both {
							f.Witness["concurrent_update"] = u
							f.Witness["view_after"] = snap1
							s.report(f)
						} else {
							s.count("concurrent_findings_in_one_view_only_not_reported", 1)
						}
					}
					for key := range t1.findings {
						if _, both := t0.findings[key]; !both {
							s.count("concurrent_findings_in_one_view_only_not_reported", 1)
						}
					}
					t0.findings, t0.fcount = map[string]*finding{}, map[string]int64{}
					s.merge(t0)
				}
			}
		}
	}
	return nil
}

func concurrentPhase(r *ev.Run, workers int, total *stats, mu *sync.Mutex) {
	worlds := r.Pick(800, 2500)
	// two goroutines per world: half the workers
	if workers = workers / 2; workers < 1 {
		workers = 1
	}
	var wg sync.WaitGroup
	var fatal sync.Once
	for wk := 0; wk < workers; wk++ {
		wg.Add(1)
		go func(wk int) {
			defer wg.Done()
			rng := rand.New(rand.NewSource(r.ShardSeed()*733 + int64(wk)))
			st := newStats()
			for wi := wk; wi < worlds; wi += workers {
				if err := runConcurrentWorld(st, genWorld(rng, wi%60 == 11), rng); err != nil {
					fatal.Do(func() { r.Inconclusive("concurrent phase: %v", err) })
					return
				}
			}
			mu.Lock()
			total.merge(st)
			mu.Unlock()
		}(wk)
	}
	wg.Wait()
}
