package main

// Concurrent family: the patrol goroutine's checker calls (Check, CheckRegion) run free while another
// goroutine changes the cluster the way the API / heartbeat handlers do: a placement rule rewritten under
// the same id, a store changing labels / state / heartbeat / space, the replication settings changing. The
// update is applied and reverted over and over while the calls run (it ends applied), so every read a
// call makes sees either the value before or the value after. A call that completed before the first
// update began is judged in the "before" view, one that began after the last update ended in the "after"
// view (logical clock, lib/hist); an overlapping call is judged in both views and only what is refuted in
// BOTH is reported (a single changed item: whichever version a read saw, the verdict is one of the two).
// The race detector watches the real code meanwhile. Checker calls themselves are never run concurrently
// with each other: pd has one patrol goroutine.

import (
	"math/rand"
	"runtime"
	"sync"
	"sync/atomic"

	"verif/harness/lib/ev"
	"verif/harness/lib/hist"
)

// inverseOf returns the update that restores what u changes (nil if u has no simple inverse).
func inverseOf(cl *cluster, cur *world, u *updateDesc) *updateDesc {
	switch u.Kind {
	case "store":
		old := *cur.store(u.Store.ID)
		old.Labels = append([]labelKV(nil), old.Labels...)
		return &updateDesc{Kind: "store", What: "revert", Store: &old}
	case "config":
		return &updateDesc{Kind: "config", What: "revert", Config: &configDesc{MaxReplicas: cur.MaxReplicas,
			LocationLabels: append([]string(nil), cur.LocationLabels...), IsolationLevel: cur.IsolationLevel, Switches: cur.Switches}}
	case "rule-set", "rule-get-edit-set":
		var olds []ruleDesc
		for i := range u.Rules {
			r := cl.RuleManager.GetRule("pd", u.Rules[i].ID)
			if r == nil {
				return nil
			}
			olds = append(olds, descOfRule(r))
		}
		return &updateDesc{Kind: "rule-set", What: "revert", Rules: olds}
	}
	return nil
}

// initialOf describes the cluster as it is now (settings, stores, and the rules the rule manager serves).
func initialOf(cl *cluster, cur *world) *world {
	w := cloneWorld(cur)
	if w.Rules != "off" {
		w.Rules, w.RuleSet = "custom", nil
		for _, r := range cl.RuleManager.GetAllRules() {
			w.RuleSet = append(w.RuleSet, descOfRule(r))
		}
	}
	return w
}

func runConcurrentWorld(s *stats, w0 *world, rng *rand.Rand) error {
	cl, err := newCluster(w0)
	if err != nil {
		return err
	}
	defer cl.close()
	s.count("concurrent_worlds", 1)
	cur := cloneWorld(w0)
	nextID := regionBase
	for trial := 0; trial < 3; trial++ {
		// one update, or two of different classes (three parties: patrol, rule / settings update, store update)
		var ups, invs []*updateDesc
		for i := 0; i < 10 && len(ups) == 0; i++ {
			u := genUpdate(rng, cl, cur)
			if inv := inverseOf(cl, cur, u); inv != nil {
				ups, invs = append(ups, u), append(invs, inv)
			}
		}
		if len(ups) == 0 {
			continue
		}
		if rng.Intn(3) == 0 {
			for i := 0; i < 10 && len(ups) == 1; i++ {
				u := genStoreUpdate(rng, cur)
				if ups[0].class() == "store" {
					u = genConfigUpdate(rng, cur)
					if cur.Rules != "off" && rng.Intn(2) == 0 {
						u = genRuleUpdate(rng, cl, cur)
					}
				}
				if u.class() == ups[0].class() {
					continue
				}
				if inv := inverseOf(cl, cur, u); inv != nil {
					ups, invs = append(ups, u), append(invs, inv)
				}
			}
		}
		class := ups[0].class()
		if len(ups) == 2 {
			class += "+" + ups[1].class()
			s.count("concurrent_trials_three_parties", 1)
		}
		quiet := newStats()
		// the regions; view[mask]: bit i set = update i applied
		type job struct {
			k    *kase
			view map[int]*caseCtx
			res  []callResult
		}
		var jobs []*job
		for i := 0; i < 5; i++ {
			specs := genRegion(rng, cur, ups[0].class() == "rule" && i%2 == 0)
			k := &kase{Region: layoutString(specs), RegionID: nextID, Initial: initialOf(cl, cur), Round: 1}
			nextID++
			if rng.Intn(12) == 0 {
				k.FailAlloc = []string{"direct", "controller", "both"}[rng.Intn(3)]
			}
			// sequential replay of the witness: the same region before and after the update(s)
			d := regionDesc{ID: k.RegionID, Layout: k.Region, FailAlloc: k.FailAlloc}
			k.History = []roundDesc{{Regions: []regionDesc{d}}}
			for _, u := range ups {
				k.History = append(k.History, roundDesc{Update: u, Regions: []regionDesc{d}})
			}
			jobs = append(jobs, &job{k: k, view: map[int]*caseCtx{}})
		}
		snapshotViews := func(mask int) error {
			views, snap := storeViews(cl, cur), cloneWorld(cur)
			for _, j := range jobs {
				kk := *j.k
				kk.World = snap
				c, err := prepare(cl, views, &kk)
				if err != nil {
					return err
				}
				j.view[mask] = c
			}
			return nil
		}
		if err := snapshotViews(0); err != nil {
			continue
		}
		if len(ups) == 2 { // only the second update applied
			if err := applyUpdate(quiet, cl, cur, ups[1]); err != nil {
				return err
			}
			if err := snapshotViews(2); err != nil {
				return err
			}
			if err := applyUpdate(quiet, cl, cur, invs[1]); err != nil {
				return err
			}
			// pd may refuse to put the old version back (e.g. the old rule no longer matches any store since
			// a store got an exclusive label): the state the calls start from is whatever the cluster holds NOW
			if err := snapshotViews(0); err != nil {
				return err
			}
		}
		for _, j := range jobs {
			cl.PutRegion(j.view[0].info)
		}
		total := int32(len(jobs) * 2)
		fireAt := int32(rng.Intn(int(total)))
		var progress, done int32
		starts, ends := make([]int64, len(ups)), make([]int64, len(ups))
		uerrs := make([]error, len(ups))
		bss := make([]*stats, len(ups))
		var wg sync.WaitGroup
		wg.Add(1 + len(ups))
		go func() { // the patrol goroutine
			defer wg.Done()
			for _, j := range jobs {
				c := j.view[0]
				for _, via := range []string{"direct", "controller"} {
					j.res = append(j.res, invoke(cl, c.rulesOn(), c.info, via, j.k.FailAlloc == via || j.k.FailAlloc == "both"))
					atomic.AddInt32(&progress, 1)
				}
			}
			atomic.StoreInt32(&done, 1)
		}()
		for ui := range ups {
			bss[ui] = newStats()
			go func(ui int) { // an API / heartbeat goroutine
				defer wg.Done()
				for atomic.LoadInt32(&progress) < fireAt {
					runtime.Gosched()
				}
				starts[ui] = hist.Tick()
				for flips := 0; ; flips++ {
					if uerrs[ui] = applyUpdate(bss[ui], cl, cur, ups[ui]); uerrs[ui] != nil {
						break
					}
					if atomic.LoadInt32(&done) != 0 || flips >= 400 {
						break
					}
					if uerrs[ui] = applyUpdate(bss[ui], cl, cur, invs[ui]); uerrs[ui] != nil {
						break
					}
					bss[ui].count("concurrent_update_flips", 1)
				}
				ends[ui] = hist.Tick()
			}(ui)
		}
		wg.Wait()
		firstStart, lastEnd := starts[0], ends[0]
		for ui := range ups {
			s.merge(bss[ui])
			if uerrs[ui] != nil {
				return uerrs[ui]
			}
			if starts[ui] < firstStart {
				firstStart = starts[ui]
			}
			if ends[ui] > lastEnd {
				lastEnd = ends[ui]
			}
		}
		// the cluster is quiescent again, every update applied
		all := 1<<uint(len(ups)) - 1
		if err := snapshotViews(all); err != nil {
			return err
		}
		if len(ups) == 2 { // only the first update applied
			if err := applyUpdate(quiet, cl, cur, invs[1]); err != nil {
				return err
			}
			if err := snapshotViews(1); err != nil {
				return err
			}
			if err := applyUpdate(quiet, cl, cur, ups[1]); err != nil {
				return err
			}
		}
		for _, j := range jobs {
			for i := range j.res {
				res := &j.res[i]
				s.count("checker_calls", 1)
				switch {
				case res.ret < firstStart:
					s.count("concurrent_calls_completed_before_the_update", 1)
					j.view[0].suffix = ""
					j.view[0].judgeCall(s, res)
				case res.call > lastEnd:
					s.count("concurrent_calls_begun_after_the_update", 1)
					j.view[all].suffix = ":after-" + ups[0].class() + "-update"
					j.view[all].judgeCall(s, res)
				default:
					s.count("concurrent_calls_overlapping_the_update", 1)
					s.count("concurrent_calls_overlapping_"+class+"_update", 1)
					if len(ups) == 2 {
						// three parties: the four quiescent views do not always bracket what an overlapping call
						// can have seen (pd may refuse to restore an old rule between the views); such calls are
						// exercised under the race detector and for panics, and counted, not judged
						s.count("concurrent_calls_overlapping_two_updates_not_judged", 1)
						continue
					}
					// every combination of "this update seen / not seen": reported only if refuted in all of them
					var ts []*stats
					for mask := 0; mask <= all; mask++ {
						j.view[mask].suffix = ":during-" + class + "-update"
						t := newStats()
						j.view[mask].judgeCall(t, res)
						ts = append(ts, t)
					}
					for key, f := range ts[0].findings {
						inAll := true
						for _, t := range ts[1:] {
							if _, ok := t.findings[key]; !ok {
								inAll = false
							}
						}
						if inAll {
							f.Witness["concurrent_updates"] = ups
							f.Witness["view_after"] = j.view[all].k.World
							s.report(f)
						} else {
							s.count("concurrent_findings_not_in_every_view_not_reported", 1)
						}
					}
					ts[0].findings, ts[0].fcount = map[string]*finding{}, map[string]int64{}
					s.merge(ts[0])
				}
			}
		}
	}
	return nil
}

func concurrentPhase(r *ev.Run, workers int, total *stats, mu *sync.Mutex) {
	worlds := r.Pick(800, 2500)
	// two goroutines per world: half the workers
	if workers = workers / 2; workers < 1 {
		workers = 1
	}
	var wg sync.WaitGroup
	var fatal sync.Once
	for wk := 0; wk < workers; wk++ {
		wg.Add(1)
		go func(wk int) {
			defer wg.Done()
			rng := rand.New(rand.NewSource(r.ShardSeed()*733 + int64(wk)))
			st := newStats()
			for wi := wk; wi < worlds; wi += workers {
				if err := runConcurrentWorld(st, genWorld(rng, wi%60 == 11), rng); err != nil {
					fatal.Do(func() { r.Inconclusive("concurrent phase: %v", err) })
					return
				}
			}
			mu.Lock()
			total.merge(st)
			mu.Unlock()
		}(wk)
	}
	wg.Wait()
}
