package main

import (
	"fmt"
	"strings"

	"github.com/tikv/pd/server/schedule/operator"
)

// selfTest feeds hand-made operators to the oracles on two fixed clusters: every refuting event of the
// design must be recognised and correct operators must pass. A failure makes the run inconclusive.
func selfTest() error {
	mk := func(id uint64, kind, state, hb, zone, host string) storeDesc {
		s := storeDesc{ID: id, Kind: kind, State: state, HB: hb, CapGiB: 100, AvailGiB: 80, RegionCount: 40, RegionSizeMiB: 3840,
			Labels: []labelKV{{"zone", zone}, {"rack", "r1"}, {"host", host}}}
		return s
	}
	stores := []storeDesc{
		mk(1, "good", stUp, hbFresh, "z1", "h1"),
		mk(2, "good", stUp, hbFresh, "z2", "h1"),
		mk(3, "offline", stOffline, hbFresh, "z3", "h1"),
		mk(4, "disconnected", stUp, hbDisconnected, "z3", "h2"),
		mk(5, "lowspace", stUp, hbFresh, "z1", "h2"),
		mk(6, "special-use", stUp, hbFresh, "z2", "h2"),
		mk(7, "fresh", stUp, hbFresh, "zf", "hf"),
		mk(8, "good", stUp, hbFresh, "z3", "h3"),
		mk(9, "tombstone", stTombstone, hbNever, "z4", "h1"),
	}
	stores[4].AvailGiB = 2
	stores[5].Labels = append(stores[5].Labels, labelKV{"specialUse", "reserved"})
	stores[6].AvailGiB, stores[6].RegionCount, stores[6].RegionSizeMiB = 100, 0, 0
	stores[6].Labels[1].V = "rf"
	stores[7].Labels[0].K = "Zone" // label keys are case-insensitive
	stores[2].Labels[0].K = "ZONE"
	w := &world{Mode: modeLegacy, MaxReplicas: 3, LocationLabels: []string{"zone", "host"}, IsolationLevel: "zone",
		Switches: switches{true, true, true, true, true}, LowSpaceRatio: 0.8, ReplicaScheduleLimit: 64, Rules: "off", Stores: stores}
	cl, err := newCluster(w)
	if err != nil {
		return err
	}
	defer cl.close()
	views := storeViews(cl, w)
	pid := func(store uint64) uint64 { return idBase + store }
	add := func(store uint64) []operator.OpStep {
		return []operator.OpStep{operator.AddLearner{ToStore: store, PeerID: 77}, operator.PromoteLearner{ToStore: store, PeerID: 77}}
	}
	rm := func(store uint64) operator.OpStep { return operator.RemovePeer{FromStore: store, PeerID: pid(store)} }
	type tc struct {
		region string
		steps  []operator.OpStep
		want   string // substring of a finding key, "" = no finding
	}
	run := func(cl *cluster, views map[uint64]*storeView, w *world, name string, cases []tc) error {
		for i, t := range cases {
			c, err := prepare(cl, views, &kase{World: w, Region: t.region})
			if err != nil {
				return err
			}
			s := newStats()
			if t.steps == nil {
				c.judgeNil(s, name, "direct")
			} else {
				c.judgeSteps(s, name, "direct", "selftest", "selftest", t.steps)
			}
			var keys []string
			for k := range s.findings {
				keys = append(keys, k)
			}
			if t.want == "" {
				if len(keys) != 0 {
					return fmt.Errorf("%s case %d (%s): unexpected findings %v", name, i, t.region, keys)
				}
				continue
			}
			found := false
			for _, k := range keys {
				if strings.Contains(k, t.want) {
					found = true
				}
			}
			if !found {
				return fmt.Errorf("%s case %d (%s): expected a finding %q, got %v", name, i, t.region, t.want, keys)
			}
		}
		return nil
	}
	if err := run(cl, views, w, "replica-checker", []tc{
		{"1v* 2v 3v", append(add(8), rm(3)), ""},
		{"1v* 2v", add(7), ""},
		{"1v* 2v", add(3), "adds-peer-on-offline-store"},
		{"1v* 2v", add(9), "adds-peer-on-tombstone-store"},
		{"1v* 2v", add(4), "adds-peer-on-disconnected-store"},
		{"2v* 8v", add(5), "adds-peer-on-low-space-store"},
		{"1v* 8v", add(6), "adds-peer-on-special-use-store"},
		{"1v* 2v", add(2), "adds-peer-on-store-holding-a-peer"},
		{"1v* 3v", add(8), "adds-peer-violating-isolation-level"},
		{"1v* 2v 3v", []operator.OpStep{rm(3)}, "shrinks-region-without-excess"},
		{"1v* 2v 3v", append([]operator.OpStep{rm(3)}, add(8)...), "replacement-removes-before-it-adds"},
		{"1v* 2v 3v 8v", []operator.OpStep{rm(3)}, ""},
		{"1v* 2v 8v!", append(add(7), rm(2)), ""},
		{"1v* 2v", nil, "no-repair-proposed"},
		{"1v* 2v 8v", nil, ""},
	}); err != nil {
		return err
	}

	stores2 := make([]storeDesc, len(stores))
	for i := range stores {
		stores2[i] = stores[i]
		stores2[i].Labels = append([]labelKV(nil), stores[i].Labels...)
	}
	stores2[6].Labels[0].V = "z2" // the fresh store sits in a zone the rule accepts
	w2 := &world{Mode: modeJoint, MaxReplicas: 3, Switches: switches{true, true, true, true, true}, LowSpaceRatio: 0.8,
		ReplicaScheduleLimit: 64, Rules: "custom", Stores: stores2,
		RuleSet: []ruleDesc{{ID: "r1", Role: "voter", Count: 2, Cons: []consDesc{{Key: "zone", Op: "in", Values: []string{"z1", "z2"}}}, Loc: []string{"zone"}, Iso: "zone"}}}
	cl2, err := newCluster(w2)
	if err != nil {
		return err
	}
	defer cl2.close()
	views2 := storeViews(cl2, w2)
	return run(cl2, views2, w2, "rule-checker", []tc{
		{"1v* 2v 8v", []operator.OpStep{rm(8)}, ""},
		{"1v* 2v 8v", []operator.OpStep{rm(2)}, "shrinks-region-without-excess"},
		{"1v* 8v", []operator.OpStep{rm(8)}, "shrinks-region-without-excess"},
		{"1v*", add(2), ""},
		{"1v*", add(8), "adds-peer-violating-label-constraints"},
		{"1v*", add(5), "adds-peer-on-low-space-store"},
		{"1v* 3v", nil, "no-repair-proposed"},
		{"1v* 2v", nil, ""},
	})
}
