package main

// One-field updates under a live checker: every served object (a placement rule, the replication
// settings, a store as of its previous heartbeat) is replaced by a copy that differs in exactly ONE field,
// for every field, through the entry points a server has (SetRule, get-edit-set, SetRules; settings
// update; store heartbeat / label / state update via get-clone-put), and regions are checked before and
// after. Oracles as everywhere: against what is current at the time of the check.

import (
	"fmt"
	"math/rand"
	"sort"
	"strings"
)

var oneFields = []string{
	"rule.count", "rule.role", "rule.cons.key", "rule.cons.op", "rule.cons.values", "rule.cons.add", "rule.cons.drop",
	"rule.location_labels", "rule.isolation_level",
	"cfg.max_replicas", "cfg.location_labels", "cfg.isolation_level",
	"cfg.sw.make_up", "cfg.sw.remove_extra", "cfg.sw.location_replacement", "cfg.sw.remove_down", "cfg.sw.replace_offline",
	"store.state", "store.label.value", "store.label.add", "store.label.drop", "store.available", "store.capacity",
	"store.busy", "store.heartbeat", "store.sending_snap", "store.receiving_snap", "store.region_count",
}

// oddValues: constraint values with the separators of serialised forms, empty, duplicated, case variants.
func oddValues(rng *rand.Rand, zones []string) []string {
	z := "z1"
	if len(zones) > 0 {
		z = zones[rng.Intn(len(zones))]
	}
	switch rng.Intn(6) {
	case 0:
		return []string{z, z} // duplicate
	case 1:
		return []string{"", z} // an empty value next to a real one
	case 2:
		return []string{z + ",z2"} // one value containing a comma: not two values
	case 3:
		return []string{""}
	case 4:
		return []string{z + " ", " " + z, z + "/", z + "=" + z}
	default:
		return []string{strings.ToUpper(z)}
	}
}

func genOneField(rng *rand.Rand, cl *cluster, cur *world, field string) *updateDesc {
	zones := zonesOf(cur)
	switch {
	case strings.HasPrefix(field, "rule."):
		if cur.Rules == "off" {
			return nil
		}
		rules := cl.RuleManager.GetAllRules()
		sort.Slice(rules, func(i, j int) bool { return rules[i].ID < rules[j].ID })
		var global []ruleDesc
		for _, r := range rules {
			if r.StartKeyHex == "" && r.EndKeyHex == "" {
				global = append(global, descOfRule(r))
			}
		}
		if len(global) == 0 {
			return nil
		}
		n := global[rng.Intn(len(global))]
		n.Cons = append([]consDesc(nil), n.Cons...)
		for i := range n.Cons {
			n.Cons[i].Values = append([]string(nil), n.Cons[i].Values...)
		}
		n.Loc = append([]string(nil), n.Loc...)
		switch field {
		case "rule.count":
			if n.Role == "leader" {
				return nil
			}
			n.Count = n.Count%3 + 1
		case "rule.role":
			n.Role = map[string]string{"voter": "follower", "follower": "learner", "learner": "voter", "leader": "voter"}[n.Role]
		case "rule.cons.key":
			if len(n.Cons) == 0 {
				return nil
			}
			i := rng.Intn(len(n.Cons))
			n.Cons[i].Key = map[string]string{"zone": "host", "host": "rack", "rack": "zone"}[strings.ToLower(n.Cons[i].Key)]
			if n.Cons[i].Key == "" {
				n.Cons[i].Key = "zone"
			}
		case "rule.cons.op":
			if len(n.Cons) == 0 {
				return nil
			}
			i := rng.Intn(len(n.Cons))
			n.Cons[i].Op = map[string]string{"in": "notIn", "notIn": "in", "exists": "notExists", "notExists": "exists"}[n.Cons[i].Op]
		case "rule.cons.values":
			if len(n.Cons) == 0 {
				return nil
			}
			i := rng.Intn(len(n.Cons))
			if rng.Intn(2) == 0 {
				n.Cons[i].Values = oddValues(rng, zones)
			} else if len(zones) > 0 {
				n.Cons[i].Values = []string{zones[rng.Intn(len(zones))]}
			}
		case "rule.cons.add":
			c := genConstraints(rng, zones)
			if len(c) == 0 {
				c = []consDesc{{Key: "zone", Op: "in", Values: oddValues(rng, zones)}}
			}
			n.Cons = append(n.Cons, c[0])
		case "rule.cons.drop":
			if len(n.Cons) == 0 {
				return nil
			}
			i := rng.Intn(len(n.Cons))
			n.Cons = append(n.Cons[:i:i], n.Cons[i+1:]...)
		case "rule.location_labels":
			n.Loc = append([]string(nil), labelSets[1+rng.Intn(len(labelSets)-1)]...)
			if n.Iso != "" {
				n.Iso = n.Loc[0] // keep the level valid; the labels are the field that changes
			}
		case "rule.isolation_level":
			if len(n.Loc) == 0 {
				return nil
			}
			if n.Iso == "" {
				n.Iso = n.Loc[rng.Intn(len(n.Loc))]
			} else {
				n.Iso = ""
			}
		}
		kind := []string{"rule-set", "rule-get-edit-set", "rules-batch"}[rng.Intn(3)]
		return &updateDesc{Kind: kind, What: "one field: " + field + " of rule " + n.ID, Rules: []ruleDesc{n}}
	case strings.HasPrefix(field, "cfg."):
		c := &configDesc{MaxReplicas: cur.MaxReplicas, LocationLabels: append([]string(nil), cur.LocationLabels...),
			IsolationLevel: cur.IsolationLevel, Switches: cur.Switches}
		switch field {
		case "cfg.max_replicas":
			c.MaxReplicas = cur.MaxReplicas%5 + 1
		case "cfg.location_labels":
			c.LocationLabels = append([]string(nil), labelSets[1+rng.Intn(len(labelSets)-1)]...)
			if c.IsolationLevel != "" {
				c.IsolationLevel = c.LocationLabels[0]
			}
		case "cfg.isolation_level":
			if len(c.LocationLabels) == 0 {
				return nil
			}
			if c.IsolationLevel == "" {
				c.IsolationLevel = c.LocationLabels[rng.Intn(len(c.LocationLabels))]
			} else {
				c.IsolationLevel = ""
			}
		case "cfg.sw.make_up":
			c.Switches.MakeUp = !c.Switches.MakeUp
		case "cfg.sw.remove_extra":
			c.Switches.RemoveExtra = !c.Switches.RemoveExtra
		case "cfg.sw.location_replacement":
			c.Switches.LocationReplacement = !c.Switches.LocationReplacement
		case "cfg.sw.remove_down":
			c.Switches.RemoveDown = !c.Switches.RemoveDown
		case "cfg.sw.replace_offline":
			c.Switches.ReplaceOffline = !c.Switches.ReplaceOffline
		}
		return &updateDesc{Kind: "config", What: "one field: " + field, Config: c}
	case strings.HasPrefix(field, "store."):
		s := cur.Stores[rng.Intn(len(cur.Stores))]
		s.Labels = append([]labelKV(nil), s.Labels...)
		switch field {
		case "store.state":
			if s.State == stUp {
				s.State = []string{stOffline, stTombstone}[rng.Intn(2)]
			} else {
				s.State = stUp
			}
		case "store.label.value":
			if len(s.Labels) == 0 {
				return nil
			}
			i := rng.Intn(len(s.Labels))
			switch strings.ToLower(s.Labels[i].K) {
			case "zone":
				s.Labels[i].V = zoneNames[rng.Intn(4)]
			case "rack":
				s.Labels[i].V = rackNames[rng.Intn(2)]
			case "host":
				s.Labels[i].V = hostNames[rng.Intn(3)]
			default:
				return nil
			}
		case "store.label.add":
			if s.label("specialUse") == "" {
				s.Labels = append(s.Labels, labelKV{"specialUse", "reserved"})
			} else if s.label("$x") == "" && cur.Rules != "off" {
				s.Labels = append(s.Labels, labelKV{"$x", "a"})
			} else {
				return nil
			}
		case "store.label.drop":
			if len(s.Labels) == 0 {
				return nil
			}
			i := rng.Intn(len(s.Labels))
			s.Labels = append(s.Labels[:i:i], s.Labels[i+1:]...)
		case "store.available":
			if s.AvailGiB*2 >= s.CapGiB {
				s.AvailGiB = s.CapGiB / 50 // 2 %: low; beyond the exemption only with few GiB or many regions
				if s.AvailGiB > 8 && s.RegionCount < 30 {
					s.AvailGiB = 2
				}
			} else {
				s.AvailGiB = s.CapGiB * 3 / 4
			}
		case "store.capacity":
			if s.CapGiB > 4*s.AvailGiB {
				s.CapGiB = s.AvailGiB * 2
				if s.CapGiB == 0 {
					s.CapGiB = 100
				}
			} else if s.AvailGiB <= 8 || s.RegionCount >= 30 {
				s.CapGiB = s.AvailGiB * 50 // the same bytes free, of a much larger disk: low
			} else {
				return nil
			}
		case "store.busy":
			s.Busy = !s.Busy
		case "store.heartbeat":
			if s.HB == hbFresh {
				s.HB = []string{hbDown, hbDisconnected, hbNever}[rng.Intn(3)]
			} else {
				s.HB = hbFresh
			}
		case "store.sending_snap":
			s.SendSnap = (s.SendSnap + 5) % 10
		case "store.receiving_snap":
			s.RecvSnap = (s.RecvSnap + 5) % 10
		case "store.region_count":
			if s.RegionCount >= 30 {
				s.RegionCount = 3
			} else {
				s.RegionCount = 400
			}
			s.RegionSizeMiB = int64(s.RegionCount) * 96
		}
		s.Kind = "updated"
		return &updateDesc{Kind: "store", What: fmt.Sprintf("one field: %s of store %d", field, s.ID), Store: &s}
	}
	return nil
}
