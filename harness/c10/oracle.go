package main

// Oracles of C10, written from the property statement:
//
//   (A) a proposed operator adds peers only on stores that are up, connected, not low on space, not
//       already holding a peer of the region, allowed by the isolation level and by the label constraints;
//   (B) it lowers the number of healthy peers / shrinks the region only when the region has more voters
//       than configured (replica checker) or every rule is satisfied and the removed peer is an orphan
//       (rule checker);
//   (C) a replacement adds the new peer before it removes the old one;
//   (D) fewer peers than required + the repair enabled + a fresh, empty, unconstrained up store with
//       distinct location labels => some operator is proposed.
//
// Store predicates are recomputed here from the plain fields of the StoreInfo the cluster holds
// (state, last heartbeat, capacity / available, region count, raw label list, stats); pd's filters and
// StoreInfo.IsLowSpace / IsDisconnected / GetLabelValue are not called. Every predicate is three-valued:
// where pd documents a special case the statement does not mention (small / young store exemption of the
// low-space test, case-insensitive or empty labels, a store without some location label, exclusive labels
// while placement rules are off) the answer is "unsure" and the case is counted as skipped_ambiguous.

import (
	"fmt"
	"sort"
	"strings"
	"time"

	"github.com/pingcap/kvproto/pkg/metapb"
	"github.com/tikv/pd/server/core"
	"github.com/tikv/pd/server/schedule/operator"
	"github.com/tikv/pd/server/schedule/placement"
	"verif/harness/lib/sim"
)

type tri int

const (
	no tri = iota
	yes
	unsure
)

// storeView is what the oracles know about a store.
type storeView struct {
	ID          uint64
	State       metapb.StoreState
	HB          time.Time
	HasStats    bool
	Cap, Avail  uint64
	Used        uint64
	RegionCount int
	RegionSize  int64
	Labels      map[string]string // lower-cased key -> value (labels with an empty value are not set)
	RawKeys     []string          // keys as stored
	emptyKeys   map[string]bool
	OddLabels   bool // two labels with the same key up to case
	Busy        bool
	Pending     int
	SendSnap    uint32
	RecvSnap    uint32
	LimitOut    bool // from the case description: the add-peer store limit is exhausted
}

func viewOf(s *core.StoreInfo, d *storeDesc) *storeView {
	v := &storeView{ID: s.GetID(), State: s.GetState(), HB: s.GetLastHeartbeatTS(), RegionCount: s.GetRegionCount(),
		RegionSize: s.GetRegionSize(), Labels: map[string]string{}, Pending: s.GetPendingPeerCount()}
	if st := s.GetStoreStats(); st != nil {
		v.HasStats = true
		v.Cap, v.Avail, v.Used = st.GetCapacity(), st.GetAvailable(), st.GetUsedSize()
		v.Busy, v.SendSnap, v.RecvSnap = st.GetIsBusy(), st.GetSendingSnapCount(), st.GetReceivingSnapCount()
	}
	// Documented label semantics: label KEYS are case-insensitive (Zone = zone), the first label with a
	// key wins, an empty value means "not set". Values are kept as they are: whether z1 and Z1 are one
	// location is answered differently inside pd (location comparison folds case, the isolation filter and
	// label constraints do not), so values that differ only in case are never judged as same or different.
	for _, l := range s.GetLabels() {
		k, val := l.GetKey(), l.GetValue()
		v.RawKeys = append(v.RawKeys, k)
		lk := strings.ToLower(k)
		if _, dup := v.Labels[lk]; dup || v.emptyKeys[lk] || k == "" {
			v.OddLabels = true // two labels whose keys differ at most in case: the server never stores that
			continue
		}
		if val == "" {
			if v.emptyKeys == nil {
				v.emptyKeys = map[string]bool{}
			}
			v.emptyKeys[lk] = true
			continue
		}
		v.Labels[lk] = val
	}
	if d != nil {
		v.LimitOut = d.AddLimitOut
	}
	return v
}

func (v *storeView) up() bool { return v.State == metapb.StoreState_Up }

// connected: the store reported recently. Generated heartbeats are two days ahead of the process
// start or at least ten minutes behind it; anything in between is not classified.
func (v *storeView) connected() tri {
	if v.HB.After(processStart.Add(24 * time.Hour)) {
		return yes
	}
	if v.HB.Before(processStart.Add(-5 * time.Minute)) {
		return no
	}
	return unsure
}

// lowSpace: available space below 1 - low-space-ratio of the capacity. Clearly roomy = at least 15
// points above the threshold; clearly low = at most half the threshold and outside the documented
// exemption for small / young stores (fewer than 30 regions and more than 8 GiB available).
func (v *storeView) lowSpace(lowSpaceRatio float64) tri {
	if !v.HasStats || v.Cap == 0 {
		return unsure
	}
	ratio := float64(v.Avail) / float64(v.Cap)
	thr := 1 - lowSpaceRatio
	if ratio >= thr+0.15 {
		return no
	}
	if ratio <= thr/2 {
		if v.RegionCount >= 30 || v.Avail <= 8*gib {
			return yes
		}
	}
	return unsure
}

func isExclusiveKey(k string) bool { return k == "engine" || strings.HasPrefix(k, "$") }

func (v *storeView) exclusiveKeys() []string {
	var out []string
	for _, k := range v.RawKeys {
		if isExclusiveKey(k) {
			out = append(out, k)
		}
	}
	sort.Strings(out)
	return out
}

// matchConstraints: the documented meaning of placement-rule label constraints: in / notIn / exists /
// notExists on the store's label, and a store carrying an exclusive label (engine, $-prefixed) is only
// eligible for a rule that names that label key.
func matchConstraints(v *storeView, cons []placement.LabelConstraint) bool {
	for _, k := range v.exclusiveKeys() {
		named := false
		for _, c := range cons {
			if c.Key == k {
				named = true
			}
		}
		if !named {
			return false
		}
	}
	for _, c := range cons {
		val, has := v.Labels[strings.ToLower(c.Key)]
		in := false
		for _, x := range c.Values {
			if has && x == val {
				in = true
			}
		}
		switch c.Op {
		case placement.In:
			if !in {
				return false
			}
		case placement.NotIn:
			if in {
				return false
			}
		case placement.Exists:
			if !has {
				return false
			}
		case placement.NotExists:
			if has {
				return false
			}
		default:
			return false
		}
	}
	return true
}

// isolationViolated: with location labels L and isolation level L[i], a new store must differ from every
// remaining peer's store in at least one of L[0..i].
func isolationViolated(x *storeView, labels []string, level string, others []*storeView) tri {
	if len(labels) == 0 || level == "" {
		return no
	}
	idx := -1
	for i, l := range labels {
		if l == level {
			idx = i
			break
		}
	}
	if idx < 0 {
		return unsure // pd documents that the level must be one of the location labels
	}
	res := no
	for _, o := range others {
		if o == nil {
			res = unsure
			continue
		}
		same, incomplete := true, x.OddLabels || o.OddLabels
		for _, l := range labels[:idx+1] {
			a, okA := x.Labels[strings.ToLower(l)]
			b, okB := o.Labels[strings.ToLower(l)]
			if !okA || !okB {
				incomplete = true
				continue
			}
			if a != b {
				if strings.EqualFold(a, b) {
					incomplete = true // z1 / Z1: one location or two? not judged
				} else {
					same = false
				}
			}
		}
		switch {
		case !same:
			// differs on a label both carry: isolated from this peer
		case incomplete:
			if res == no {
				res = unsure
			}
		default:
			return yes
		}
	}
	return res
}

// ---- per-case context -----------------------------------------------------------------------------------------

type caseCtx struct {
	k      *kase
	cl     *cluster
	views  map[uint64]*storeView
	origin *sim.Region
	info   *core.RegionInfo
	fit    *placement.RegionFit // placement rules on
	suffix string               // ":after-rule-update" etc.: what changed in this cluster before the check
}

func (c *caseCtx) rulesOn() bool { return c.k.World.Rules != "off" }

func (c *caseCtx) healthy(r *sim.Region) int {
	n := 0
	for _, p := range r.Peers {
		v := c.views[p.StoreId]
		if v != nil && v.up() && !r.Down[p.Id] && !r.Pending[p.Id] {
			n++
		}
	}
	return n
}

func ruleSatisfied(rf *placement.RuleFit) bool {
	return len(rf.Peers) == rf.Rule.Count && len(rf.PeersWithDifferentRole) == 0
}

func (c *caseCtx) allRulesSatisfied() bool {
	if c.fit == nil || len(c.fit.RuleFits) == 0 {
		return false
	}
	for _, rf := range c.fit.RuleFits {
		if !ruleSatisfied(rf) {
			return false
		}
	}
	return true
}

func (c *caseCtx) isOrphan(peerID uint64) bool {
	if c.fit == nil {
		return false
	}
	for _, p := range c.fit.OrphanPeers {
		if p.GetId() == peerID {
			return true
		}
	}
	return false
}

func (c *caseCtx) ruleFitOf(peerID uint64) *placement.RuleFit {
	if c.fit == nil {
		return nil
	}
	for _, rf := range c.fit.RuleFits {
		for _, p := range rf.Peers {
			if p.GetId() == peerID {
				return rf
			}
		}
	}
	return nil
}

// finding is one refuted oracle on one case.
type finding struct {
	Key     string
	What    string
	Size    int
	Witness map[string]interface{}
}

type addEvent struct {
	idx   int
	store uint64
	id    uint64
}

type removeEvent struct {
	idx   int
	store uint64
	id    uint64
}

func stepKind(st operator.OpStep) string {
	switch st.(type) {
	case operator.TransferLeader:
		return "TransferLeader"
	case operator.AddLearner:
		return "AddLearner"
	case operator.AddLightLearner:
		return "AddLightLearner"
	case operator.AddPeer:
		return "AddPeer"
	case operator.AddLightPeer:
		return "AddLightPeer"
	case operator.PromoteLearner:
		return "PromoteLearner"
	case operator.DemoteFollower:
		return "DemoteFollower"
	case operator.RemovePeer:
		return "RemovePeer"
	case operator.ChangePeerV2Enter:
		return "EnterJoint"
	case operator.ChangePeerV2Leave:
		return "LeaveJoint"
	case operator.SplitRegion:
		return "SplitRegion"
	case operator.MergeRegion:
		return "MergeRegion"
	}
	return fmt.Sprintf("%T", st)
}

// judgeSteps evaluates oracles (A), (B), (C) on one proposed operator. checkerName is "replica-checker"
// or "rule-checker"; via is "direct" (Check) or "controller" (CheckRegion).
func (c *caseCtx) judgeSteps(s *stats, checkerName, via, desc, opString string, steps []operator.OpStep) (final *sim.Region) {
	w := c.k.World
	var kinds, stepStrings []string
	for _, st := range steps {
		kinds = append(kinds, stepKind(st))
		stepStrings = append(stepStrings, st.String())
	}
	shape := strings.Join(kinds, ",")
	s.count("operators_judged", 1)
	s.count("operators_"+checkerName+"_"+via, 1)
	s.count("desc_"+desc, 1)
	for _, k := range kinds {
		if k == "SplitRegion" || k == "MergeRegion" {
			// a range fix / merge is not a replica repair: nothing of the statement applies
			s.count("operators_split_or_merge_not_judged", 1)
			return nil
		}
	}

	var trace []string
	size := len(w.Stores)*100 + len(c.origin.Peers)*10 + len(w.RuleSet)*5 + len(steps)
	report := func(kind, what string, extra map[string]interface{}) {
		wit := map[string]interface{}{"case": c.k, "checker": checkerName, "via": via, "origin": c.origin.Describe(),
			"operator": opString, "desc": desc, "steps": stepStrings, "trace": append([]string(nil), trace...)}
		if c.fit != nil {
			wit["fit"] = describeFit(c.fit)
		}
		for k, v := range extra {
			wit[k] = v
		}
		s.report(&finding{Key: checkerName + ":" + kind + ":" + desc + c.suffix, Size: size, Witness: wit,
			What: fmt.Sprintf("%s (%s, %s) proposed %q for region [%s]: %s", checkerName, via, w.Mode, desc, c.k.Region, what)})
	}

	// ---- replay on the store simulator: who is added / removed, in which order, what is the outcome
	reg := c.origin.Clone()
	trace = append(trace, "origin: "+reg.Describe())
	var adds []addEvent
	var removes []removeEvent
	minPeers := len(reg.Peers)
	replayOK := true
	for i, st := range steps {
		var addStore, addID uint64
		promoteOK := false
		switch x := st.(type) {
		case operator.AddLearner:
			addStore, addID = x.ToStore, x.PeerID
		case operator.AddLightLearner:
			addStore, addID = x.ToStore, x.PeerID
		case operator.AddPeer:
			addStore, addID, promoteOK = x.ToStore, x.PeerID, true
		case operator.AddLightPeer:
			addStore, addID, promoteOK = x.ToStore, x.PeerID, true
		case operator.RemovePeer:
			rm := removeEvent{idx: i, store: x.FromStore, id: x.PeerID}
			if p := reg.Peer(x.FromStore); p != nil {
				rm.id = p.Id
			}
			removes = append(removes, rm)
		}
		if addStore != 0 {
			p := reg.Peer(addStore)
			if p != nil && promoteOK && p.Id == addID && p.Role == metapb.PeerRole_Learner {
				// conf change v1 AddNode on the learner with that id = a promotion, nothing is added
			} else {
				adds = append(adds, addEvent{idx: i, store: addStore, id: addID})
				if p != nil {
					report("adds-peer-on-store-holding-a-peer", fmt.Sprintf("step %d (%s) adds a peer on store %d which holds peer %d of the region at that moment", i, st, addStore, p.Id), nil)
				}
			}
		}
		if !replayOK {
			continue // keep collecting adds / removes from the remaining steps
		}
		if lv, isLeave := st.(operator.ChangePeerV2Leave); isLeave && !reg.InJoint() && len(lv.PromoteLearners)+len(lv.DemoteVoters) == 0 {
			// the partner of an empty enter: nothing to leave, pd's controller skips a step that is already finished
			s.count("observed_empty_leave_joint_skipped", 1)
			continue
		}
		if err := reg.ApplyStep(st); err != nil {
			trace = append(trace, fmt.Sprintf("step %d %s: refused by the store: %v", i, st, err))
			s.count("replay_refused_"+sim.Code(err), 1)
			replayOK = false
			continue
		}
		trace = append(trace, fmt.Sprintf("step %d %s => %s", i, st, reg.Describe()))
		if len(reg.Peers) < minPeers {
			minPeers = len(reg.Peers)
		}
	}
	if ierr := reg.Invariant(); ierr != nil && replayOK {
		s.count("harness_simulator_invariant_broken", 1)
		replayOK = false
	}
	removed := map[uint64]bool{}
	for _, rm := range removes {
		removed[rm.store] = true
	}
	s.count(fmt.Sprintf("shape_adds%d_removes%d", len(adds), len(removes)), 1)

	// ---- (A) every add target
	for _, a := range adds {
		s.count("add_targets_judged", 1)
		x := c.views[a.store]
		if x == nil {
			// a store without a record: pd documents "lost the store" handling; nothing to recompute from
			s.count("skipped_ambiguous_add_on_store_without_record", 1)
			continue
		}
		storeWit := map[string]interface{}{"target_store": a.store, "target_store_view": x.describe()}
		switch x.State {
		case metapb.StoreState_Up:
		case metapb.StoreState_Offline:
			report("adds-peer-on-offline-store", fmt.Sprintf("step %d adds a peer on store %d whose state is Offline", a.idx, a.store), storeWit)
		case metapb.StoreState_Tombstone:
			report("adds-peer-on-tombstone-store", fmt.Sprintf("step %d adds a peer on store %d whose state is Tombstone", a.idx, a.store), storeWit)
		default:
			report("adds-peer-on-not-up-store", fmt.Sprintf("step %d adds a peer on store %d whose state is %v", a.idx, a.store, x.State), storeWit)
		}
		switch x.connected() {
		case no:
			report("adds-peer-on-disconnected-store", fmt.Sprintf("step %d adds a peer on store %d whose last heartbeat (%s) is more than 5 minutes before the run started", a.idx, a.store, x.HB.Format(time.RFC3339)), storeWit)
		case unsure:
			s.count("skipped_ambiguous_heartbeat_age", 1)
		}
		switch x.lowSpace(w.LowSpaceRatio) {
		case yes:
			report("adds-peer-on-low-space-store", fmt.Sprintf("step %d adds a peer on store %d which has %d of %d GiB available (low-space-ratio %.2f, %d regions)", a.idx, a.store, x.Avail/gib, x.Cap/gib, w.LowSpaceRatio, x.RegionCount), storeWit)
		case unsure:
			s.count("skipped_ambiguous_low_space_exemption_zone", 1)
		}
		if x.Busy || x.Pending > 16 || x.SendSnap > 3 || x.RecvSnap > 3 || x.LimitOut {
			s.count("observed_add_on_temporarily_loaded_store", 1) // not part of the statement
		}
		// remaining peers: the origin's peers that the operator does not remove
		if !c.rulesOn() {
			if v, has := x.Labels["specialuse"]; has {
				if v == "hotRegion" || v == "reserved" {
					report("adds-peer-on-special-use-store", fmt.Sprintf("step %d adds a peer on store %d which is labelled specialUse=%s", a.idx, a.store, v), storeWit)
				} else {
					s.count("skipped_ambiguous_special_use_value", 1)
				}
			}
			if ex := x.exclusiveKeys(); len(ex) > 0 {
				// engine / $ labels are a placement-rule concept; pd refuses TiFlash stores while rules are off
				s.count("skipped_ambiguous_exclusive_label_rules_off", 1)
			}
			var others []*storeView
			for _, p := range c.origin.Peers {
				if !removed[p.StoreId] && p.StoreId != a.store {
					others = append(others, c.views[p.StoreId])
				}
			}
			switch isolationViolated(x, w.LocationLabels, w.IsolationLevel, others) {
			case yes:
				report("adds-peer-violating-isolation-level", fmt.Sprintf("step %d adds a peer on store %d %v which shares %v down to isolation level %q with a remaining peer's store", a.idx, a.store, x.Labels, w.LocationLabels, w.IsolationLevel), storeWit)
			case unsure:
				s.count("skipped_ambiguous_isolation_labels", 1)
			default:
				if w.IsolationLevel != "" {
					s.count("isolation_level_checks_passed", 1)
				}
			}
			continue
		}
		// rule checker: the rule the peer is meant for = the rule of the peer it replaces, else a rule with a deficit
		var cands []*placement.RuleFit
		for _, rm := range removes {
			if rf := c.ruleFitOf(rm.id); rf != nil {
				cands = append(cands, rf)
			}
		}
		if len(cands) == 0 {
			for _, rf := range c.fit.RuleFits {
				if len(rf.Peers) < rf.Rule.Count {
					cands = append(cands, rf)
				}
			}
		}
		if len(cands) == 0 {
			s.count("observed_add_without_candidate_rule", 1)
			cands = c.fit.RuleFits
		}
		labelsOK, isoOK, isoUnsure := false, false, false
		for _, rf := range cands {
			if !matchConstraints(x, rf.Rule.LabelConstraints) {
				continue
			}
			labelsOK = true
			var others []*storeView
			for _, p := range rf.Peers {
				if !removed[p.GetStoreId()] && p.GetStoreId() != a.store {
					others = append(others, c.views[p.GetStoreId()])
				}
			}
			switch isolationViolated(x, rf.Rule.LocationLabels, rf.Rule.IsolationLevel, others) {
			case no:
				isoOK = true
			case unsure:
				isoUnsure = true
			}
		}
		var candIDs []string
		for _, rf := range cands {
			candIDs = append(candIDs, rf.Rule.ID)
		}
		storeWit["candidate_rules"] = candIDs
		switch {
		case x.OddLabels:
			s.count("skipped_ambiguous_odd_labels", 1)
		case !labelsOK:
			report("adds-peer-violating-label-constraints", fmt.Sprintf("step %d adds a peer on store %d %v which satisfies the label constraints of none of the rules it can be meant for %v", a.idx, a.store, x.Labels, candIDs), storeWit)
		case isoOK:
			s.count("rule_label_and_isolation_checks_passed", 1)
		case isoUnsure:
			s.count("skipped_ambiguous_isolation_labels", 1)
		default:
			report("adds-peer-violating-isolation-level", fmt.Sprintf("step %d adds a peer on store %d %v which shares the location down to the isolation level with a remaining peer of every rule it can be meant for %v", a.idx, a.store, x.Labels, candIDs), storeWit)
		}
	}

	// ---- (C) replacement order
	if len(adds) > 0 && len(removes) > 0 {
		s.count("replacements_judged", 1)
		if removes[0].idx < adds[0].idx {
			oldPeer := c.origin.Peer(removes[0].store)
			newPeer := reg.Peer(adds[0].store)
			if replayOK && oldPeer != nil && oldPeer.Role == metapb.PeerRole_Learner && newPeer != nil && newPeer.Role == metapb.PeerRole_Voter {
				// one root cause whatever the checker: the step planner has no "add voter + remove learner" replace plan
				hl := "unhealthy"
				if v := c.views[oldPeer.StoreId]; v != nil && v.up() && !c.origin.Down[oldPeer.Id] && !c.origin.Pending[oldPeer.Id] {
					hl = "healthy"
				}
				s.count("learner_removed_first_"+checkerName+"_"+desc+"_"+w.Mode+"_"+hl, 1)
				s.report(&finding{Key: "operator-builder:learner-replaced-by-voter-is-removed-before-the-add" + c.suffix, Size: size,
					What:    fmt.Sprintf("%s (%s, %s) proposed %q for region [%s]: step %d removes the learner on store %d before step %d adds its replacement (a voter) on store %d", checkerName, via, w.Mode, desc, c.k.Region, removes[0].idx, removes[0].store, adds[0].idx, adds[0].store),
					Witness: map[string]interface{}{"case": c.k, "checker": checkerName, "via": via, "origin": c.origin.Describe(), "operator": opString, "desc": desc, "steps": stepStrings, "trace": append([]string(nil), trace...)}})
			} else {
				report("replacement-removes-before-it-adds", fmt.Sprintf("step %d removes the peer on store %d before step %d adds its replacement on store %d", removes[0].idx, removes[0].store, adds[0].idx, adds[0].store), nil)
			}
		} else if replayOK && minPeers < len(c.origin.Peers) {
			report("replacement-removes-before-it-adds", fmt.Sprintf("during the replacement the region drops to %d peers (origin %d)", minPeers, len(c.origin.Peers)), nil)
		}
	}

	// ---- (B) shrinking
	if !replayOK {
		s.count("final_state_not_judged_replay_refused", 1)
		return nil
	}
	final = reg
	h0, h1 := c.healthy(c.origin), c.healthy(reg)
	p0, p1 := len(c.origin.Peers), len(reg.Peers)
	if p1 >= p0 && h1 >= h0 {
		s.count("final_states_judged", 1)
		return final
	}
	allowed, why := false, ""
	if !c.rulesOn() {
		v := c.origin.VotersAll()
		allowed = v > w.MaxReplicas
		why = fmt.Sprintf("the region has %d voters, max-replicas is %d", v, w.MaxReplicas)
	} else {
		sat := c.allRulesSatisfied()
		orphans := len(removes) > 0
		for _, rm := range removes {
			if !c.isOrphan(rm.id) {
				orphans = false
			}
		}
		allowed = sat && orphans
		why = fmt.Sprintf("all rules satisfied = %v, every removed peer is an orphan = %v", sat, orphans)
	}
	if allowed {
		s.count("final_states_judged", 1)
		s.count("shrinks_allowed_excess_or_orphan", 1)
		return final
	}
	if p1 < p0 {
		report("shrinks-region-without-excess", fmt.Sprintf("the operator takes the region from %d to %d peers although %s", p0, p1, why), map[string]interface{}{"final": reg.Describe()})
	} else {
		report("lowers-healthy-peers-without-excess", fmt.Sprintf("the operator takes the region from %d to %d healthy peers (on an up store, not down, not pending) although %s", h0, h1, why), map[string]interface{}{"final": reg.Describe()})
	}
	_ = shape
	return final
}

// freshStore: an up, connected, completely empty store without load, without any label besides its
// location, carrying all three location labels with values that differ from those of every store of the
// region, holding no peer of the region, with its add-peer limit available.
func (c *caseCtx) freshStore(v *storeView) tri {
	if !v.up() || v.connected() != yes || !v.HasStats || v.Cap == 0 || v.Avail != v.Cap || v.Used != 0 ||
		v.RegionCount != 0 || v.RegionSize != 0 || v.Busy || v.Pending != 0 || v.SendSnap != 0 || v.RecvSnap != 0 ||
		v.LimitOut || v.OddLabels || len(v.Labels) != 3 {
		return no
	}
	for _, l := range []string{"zone", "rack", "host"} {
		if _, ok := v.Labels[l]; !ok {
			return no
		}
	}
	if c.origin.Peer(v.ID) != nil {
		return no
	}
	res := yes
	for _, p := range c.origin.Peers {
		o := c.views[p.StoreId]
		if o == nil || o.OddLabels {
			res = unsure
			continue
		}
		for _, l := range []string{"zone", "rack", "host"} {
			b, ok := o.Labels[l]
			if !ok {
				res = unsure
				continue
			}
			if strings.EqualFold(b, v.Labels[l]) {
				return no
			}
		}
	}
	return res
}

// repairRequired evaluates the premise of oracle (D): the region has fewer peers than required, the
// repair is enabled and a fresh store exists. yes = clearly; unsure = a fresh store exists only modulo an
// ambiguous location comparison; no = premise not met (reason says why).
func (c *caseCtx) repairRequired(via string) (res tri, reason string, need string, fresh uint64) {
	w := c.k.World
	if c.origin.LeaderStore == 0 {
		return no, "region_without_leader", "", 0
	}
	if strings.HasPrefix(via, "controller") && w.ReplicaScheduleLimit <= 0 {
		return no, "replica_schedule_limit_zero", "", 0
	}
	var cons [][]placement.LabelConstraint
	if !c.rulesOn() {
		if len(c.origin.Peers) >= w.MaxReplicas {
			return no, "enough_peers", "", 0
		}
		if !w.Switches.MakeUp {
			return no, "make_up_switch_off", "", 0
		}
		need = fmt.Sprintf("the region has %d peers, max-replicas is %d, enable-make-up-replica is on", len(c.origin.Peers), w.MaxReplicas)
		cons = [][]placement.LabelConstraint{nil}
	} else {
		var ids []string
		for _, rf := range c.fit.RuleFits {
			if len(rf.Peers) < rf.Rule.Count {
				cons = append(cons, rf.Rule.LabelConstraints)
				ids = append(ids, fmt.Sprintf("%s(%d/%d)", rf.Rule.ID, len(rf.Peers), rf.Rule.Count))
			}
		}
		if len(cons) == 0 {
			return no, "enough_peers", "", 0
		}
		need = fmt.Sprintf("rules with fewer peers than their count: %v", ids)
	}
	var ids []uint64
	for id := range c.views {
		ids = append(ids, id)
	}
	sort.Slice(ids, func(i, j int) bool { return ids[i] < ids[j] })
	res, reason = no, "no_fresh_store"
	for _, id := range ids {
		v := c.views[id]
		f := c.freshStore(v)
		if f == no {
			continue
		}
		match := false
		for _, cs := range cons {
			if matchConstraints(v, cs) {
				match = true
			}
		}
		if !match {
			continue
		}
		if f == yes {
			return yes, "", need, id
		}
		res, reason = unsure, "fresh_store_location_ambiguous"
	}
	return res, reason, need, 0
}

// judgeNil evaluates oracle (D) when a checker proposed nothing.
func (c *caseCtx) judgeNil(s *stats, checkerName, via string) {
	w := c.k.World
	s.count("nil_results_"+checkerName+"_"+via, 1)
	res, reason, need, id := c.repairRequired(via)
	switch res {
	case no:
		s.count("nil_not_judged_"+reason, 1)
		return
	case unsure:
		s.count("skipped_ambiguous_"+reason, 1)
		return
	}
	v := c.views[id]
	kind := "no-repair-proposed-although-fresh-store-exists"
	wit := map[string]interface{}{"case": c.k, "checker": checkerName, "via": via, "origin": c.origin.Describe(),
		"fresh_store": id, "fresh_store_view": v.describe(), "need": need}
	if c.fit != nil {
		wit["fit"] = describeFit(c.fit)
	}
	s.report(&finding{Key: checkerName + ":" + kind + ":" + via + c.suffix, Size: len(w.Stores)*100 + len(c.origin.Peers)*10 + len(w.RuleSet)*5, Witness: wit,
		What: fmt.Sprintf("%s (%s, %s) proposed nothing for region [%s] although %s and store %d %v is up, connected, empty, unloaded, unconstrained and on a location of its own", checkerName, via, w.Mode, c.k.Region, need, id, v.Labels)})
}

func (v *storeView) describe() map[string]interface{} {
	return map[string]interface{}{"id": v.ID, "state": v.State.String(), "last_heartbeat": v.HB.Format(time.RFC3339),
		"capacity_gib": v.Cap / gib, "available_gib": v.Avail / gib, "region_count": v.RegionCount, "labels": v.Labels,
		"busy": v.Busy, "pending_peers": v.Pending, "sending_snap": v.SendSnap, "receiving_snap": v.RecvSnap, "add_limit_exhausted": v.LimitOut}
}

func describeFit(fit *placement.RegionFit) interface{} {
	var out []string
	for _, rf := range fit.RuleFits {
		var ps, loose []string
		for _, p := range rf.Peers {
			ps = append(ps, fmt.Sprintf("%d@%d", p.GetId()-idBase, p.GetStoreId()))
		}
		for _, p := range rf.PeersWithDifferentRole {
			loose = append(loose, fmt.Sprintf("@%d", p.GetStoreId()))
		}
		out = append(out, fmt.Sprintf("rule %s role=%s count=%d constraints=%v loc=%v iso=%q peers=%v loose=%v", rf.Rule.ID, rf.Rule.Role, rf.Rule.Count,
			rf.Rule.LabelConstraints, rf.Rule.LocationLabels, rf.Rule.IsolationLevel, ps, loose))
	}
	var orphans []string
	for _, p := range fit.OrphanPeers {
		orphans = append(orphans, fmt.Sprintf("@%d", p.GetStoreId()))
	}
	out = append(out, fmt.Sprintf("orphans=%v", orphans))
	return out
}
