package main

import (
	"fmt"
	"math/rand"
	"strings"

	"github.com/pingcap/kvproto/pkg/metapb"
	"verif/harness/lib/sim"
)

// ---- plain-data description of one case (serialisable into witnesses / replay files) ---------------------

// Feature / configuration modes of the operator builder the checkers build their operators with.
const (
	modeJoint  = "joint"  // joint consensus supported and enabled
	modeDemote = "demote" // supported (demotion allowed) but enable-joint-consensus = false
	modeLegacy = "legacy" // cluster version below 5.0
)

var allModes = []string{modeJoint, modeDemote, modeLegacy}

// store state / heartbeat / space classes used by the generator. The oracles never look at these
// names: they recompute everything from the StoreInfo the cluster holds (see oracle.go).
const (
	stUp        = "up"
	stOffline   = "offline"
	stTombstone = "tombstone"

	hbFresh        = "fresh"        // last heartbeat far in the future: connected for the whole run
	hbDisconnected = "disconnected" // last heartbeat 10 minutes before the process started
	hbDown         = "down"         // last heartbeat 3 hours before the process started (> max-store-down-time)
	hbNever        = "never"        // zero time
)

type labelKV struct {
	K string `json:"k"`
	V string `json:"v"`
}

type storeDesc struct {
	ID            uint64    `json:"id"`
	Kind          string    `json:"kind"` // what the generator meant (documentation only)
	State         string    `json:"state"`
	HB            string    `json:"heartbeat"`
	CapGiB        uint64    `json:"capacity_gib"`
	AvailGiB      uint64    `json:"available_gib"`
	RegionCount   int       `json:"region_count"`
	RegionSizeMiB int64     `json:"region_size_mib"`
	Labels        []labelKV `json:"labels"`
	Busy          bool      `json:"busy,omitempty"`
	Pending       int       `json:"pending_peers,omitempty"`
	SendSnap      int       `json:"sending_snap,omitempty"`
	RecvSnap      int       `json:"receiving_snap,omitempty"`
	AddLimitOut   bool      `json:"add_peer_limit_exhausted,omitempty"`
}

func (s *storeDesc) label(k string) string {
	for _, l := range s.Labels {
		if strings.EqualFold(l.K, k) {
			return l.V
		}
	}
	return ""
}

type consDesc struct {
	Key    string   `json:"key"`
	Op     string   `json:"op"`
	Values []string `json:"values,omitempty"`
}

type ruleDesc struct {
	ID    string     `json:"id"`
	Role  string     `json:"role"`
	Count int        `json:"count"`
	Cons  []consDesc `json:"constraints,omitempty"`
	Loc   []string   `json:"location_labels,omitempty"`
	Iso   string     `json:"isolation_level,omitempty"`
	// key range in region ids: [StartID, EndID), 0 = unbounded (keys are the "%20d" rendering of an id)
	StartID uint64 `json:"start_region_id,omitempty"`
	EndID   uint64 `json:"end_region_id,omitempty"`
}

type switches struct {
	MakeUp              bool `json:"make_up"`
	RemoveExtra         bool `json:"remove_extra"`
	LocationReplacement bool `json:"location_replacement"`
	RemoveDown          bool `json:"remove_down"`
	ReplaceOffline      bool `json:"replace_offline"`
}

// world is one cluster: configuration, placement rules, stores.
type world struct {
	Mode                 string      `json:"mode"`
	MaxReplicas          int         `json:"max_replicas"`
	LocationLabels       []string    `json:"location_labels"`
	IsolationLevel       string      `json:"isolation_level"`
	StrictlyMatchLabel   bool        `json:"strictly_match_label"`
	Switches             switches    `json:"switches"`
	LowSpaceRatio        float64     `json:"low_space_ratio"`
	ReplicaScheduleLimit int         `json:"replica_schedule_limit"`
	Scale                string      `json:"scale,omitempty"` // "" | large
	Rules                string      `json:"rules"`           // off | default | custom
	RuleSet              []ruleDesc  `json:"rule_set,omitempty"`
	Stores               []storeDesc `json:"stores"`
}

func (w *world) store(id uint64) *storeDesc {
	for i := range w.Stores {
		if w.Stores[i].ID == id {
			return &w.Stores[i]
		}
	}
	return nil
}

// kase is one complete input: a cluster and a region (compact layout, see sim.ParseLayout).
type kase struct {
	World  *world `json:"world"` // the cluster as it is at the time of the check
	Region string `json:"region"`
	// region id (0 = 1), conf_ver (0 = 1), "region loaded without a leader", id-allocation fault armed for which call
	RegionID  uint64 `json:"region_id,omitempty"`
	ConfVer   uint64 `json:"conf_ver,omitempty"`
	NoLeader  bool   `json:"no_leader,omitempty"`
	FailAlloc string `json:"fail_alloc,omitempty"` // "" | direct | controller | both
	Malformed string `json:"malformed,omitempty"`  // "" | dup-store | missing-store: only "no panic" is judged
	// the history that led there (one long-lived checker): the initial cluster and the rounds so far
	Initial *world      `json:"initial_world,omitempty"`
	History []roundDesc `json:"history,omitempty"`
	Round   int         `json:"round"`
}

// ---- generators -------------------------------------------------------------------------------------------

var (
	// small worlds use the first 4 / 2 / 3 names; large worlds many, with names that are prefixes of each other
	zoneNames = numbered("z", 16)
	rackNames = numbered("r", 4)
	hostNames = numbered("h", 120)
	labelSets = [][]string{nil, {"zone"}, {"zone", "host"}, {"zone", "rack", "host"}, {"rack", "host"}, {"host"}, {"zone", "rack"}}
)

func numbered(prefix string, n int) []string {
	var out []string
	for i := 1; i <= n; i++ {
		out = append(out, fmt.Sprintf("%s%d", prefix, i))
	}
	return out
}

func wpickInt(rng *rand.Rand, vals []int, w []int) int {
	t := 0
	for _, x := range w {
		t += x
	}
	v := rng.Intn(t)
	for i, x := range w {
		if v < x {
			return vals[i]
		}
		v -= x
	}
	return vals[len(vals)-1]
}

func wpickStr(rng *rand.Rand, vals []string, w []int) string {
	idx := make([]int, len(vals))
	for i := range idx {
		idx[i] = i
	}
	return vals[wpickInt(rng, idx, w)]
}

func genWorld(rng *rand.Rand, large bool) *world {
	w := &world{Mode: allModes[rng.Intn(len(allModes))]}
	w.MaxReplicas = wpickInt(rng, []int{1, 2, 3, 4, 5}, []int{8, 14, 40, 14, 24})
	w.LocationLabels = append([]string(nil), labelSets[wpickInt(rng, []int{0, 1, 2, 3, 4, 5, 6}, []int{15, 20, 25, 20, 7, 7, 6})]...)
	if len(w.LocationLabels) > 0 && rng.Intn(2) == 0 {
		w.IsolationLevel = w.LocationLabels[rng.Intn(len(w.LocationLabels))]
	}
	w.StrictlyMatchLabel = rng.Intn(2) == 0
	on := func() bool { return rng.Intn(100) < 85 }
	w.Switches = switches{MakeUp: on(), RemoveExtra: on(), LocationReplacement: on(), RemoveDown: on(), ReplaceOffline: on()}
	w.LowSpaceRatio = []float64{0.8, 0.8, 0.8, 0.7, 0.9}[rng.Intn(5)]
	w.ReplicaScheduleLimit = 64
	if rng.Intn(8) == 0 {
		w.ReplicaScheduleLimit = 0
	}
	w.Rules = wpickStr(rng, []string{"off", "default", "custom"}, []int{45, 15, 40})

	// stores
	S := 3 + rng.Intn(7)
	nz, nr, nh := 1+rng.Intn(4), 1+rng.Intn(2), 1+rng.Intn(3)
	if large {
		w.Scale = "large"
		S = []int{30, 64, 100, 129, 257}[wpickInt(rng, []int{0, 1, 2, 3, 4}, []int{30, 25, 20, 15, 10})]
		nz, nr, nh = 5+rng.Intn(12), 1+rng.Intn(4), 10+rng.Intn(111)
	}
	pGood := []int{45, 65, 85, 100}[rng.Intn(4)]
	for i := 1; i <= S; i++ {
		w.Stores = append(w.Stores, genStore(rng, w, uint64(i), nz, nr, nh, rng.Intn(100) < pGood))
	}
	if rng.Intn(100) < 55 {
		// a fresh, empty, unconstrained store; its location values are unique or ordinary
		f := storeDesc{ID: uint64(S + 1), Kind: "fresh", State: stUp, HB: hbFresh}
		f.CapGiB = []uint64{100, 500, 2000}[rng.Intn(3)]
		f.AvailGiB = f.CapGiB
		z, r := "zf", "rf"
		if rng.Intn(2) == 0 {
			z = zoneNames[rng.Intn(nz)]
		}
		if rng.Intn(2) == 0 {
			r = rackNames[rng.Intn(nr)]
		}
		f.Labels = []labelKV{{"zone", z}, {"rack", r}, {"host", fmt.Sprintf("hf%d", S+1)}}
		w.Stores = append(w.Stores, f)
	}
	if w.Rules == "custom" {
		w.RuleSet = genRules(rng, w, nz)
	}
	if large && w.Rules != "off" {
		w.RuleSet = append(w.RuleSet, genRangedRules(rng, nz)...)
	}
	applyCaseVariants(rng, w)
	if rng.Intn(25) == 0 {
		w.Stores[rng.Intn(len(w.Stores))].ID = ^uint64(0) // the largest store id there is
	}
	return w
}

func caseVariant(rng *rand.Rand, k string) string {
	switch rng.Intn(3) {
	case 0:
		return strings.ToUpper(k[:1]) + k[1:]
	case 1:
		return strings.ToUpper(k)
	}
	return k
}

// applyCaseVariants: label keys are case-insensitive in pd (Zone = zone): in a quarter of the worlds the
// stores spell the location label keys in different cases, and / or the replication settings and the rules
// name the location labels in another case than the stores. In a few worlds some location VALUES differ
// only in case from others (z1 / Z1) or are empty (= not set): those comparisons are not judged.
func applyCaseVariants(rng *rand.Rand, w *world) {
	if rng.Intn(4) != 0 {
		return
	}
	mode := rng.Intn(3) // 0: store keys, 1: settings / rules, 2: both
	if mode != 1 {
		for i := range w.Stores {
			for j := range w.Stores[i].Labels {
				k := w.Stores[i].Labels[j].K
				if (k == "zone" || k == "rack" || k == "host") && rng.Intn(100) < 45 {
					w.Stores[i].Labels[j].K = caseVariant(rng, k)
				}
			}
		}
	}
	if mode != 0 {
		ren := map[string]string{"zone": caseVariant(rng, "zone"), "rack": caseVariant(rng, "rack"), "host": caseVariant(rng, "host")}
		re := func(labels []string, iso string) ([]string, string) {
			out := make([]string, len(labels))
			for i, l := range labels {
				out[i] = ren[l]
			}
			if iso != "" {
				iso = ren[iso]
			}
			return out, iso
		}
		w.LocationLabels, w.IsolationLevel = re(w.LocationLabels, w.IsolationLevel)
		for i := range w.RuleSet {
			if len(w.RuleSet[i].Loc) > 0 {
				w.RuleSet[i].Loc, w.RuleSet[i].Iso = re(w.RuleSet[i].Loc, w.RuleSet[i].Iso)
			}
			for j := range w.RuleSet[i].Cons {
				if k := w.RuleSet[i].Cons[j].Key; (k == "zone" || k == "rack" || k == "host") && rng.Intn(3) == 0 {
					w.RuleSet[i].Cons[j].Key = caseVariant(rng, k)
				}
			}
		}
	}
	if rng.Intn(5) == 0 {
		for i := range w.Stores {
			if w.Stores[i].Kind == "fresh" || rng.Intn(100) >= 20 {
				continue
			}
			j := rng.Intn(len(w.Stores[i].Labels))
			if k := strings.ToLower(w.Stores[i].Labels[j].K); k != "zone" && k != "rack" && k != "host" {
				continue
			}
			if rng.Intn(3) == 0 {
				w.Stores[i].Labels[j].V = ""
			} else {
				w.Stores[i].Labels[j].V = strings.ToUpper(w.Stores[i].Labels[j].V)
			}
		}
	}
}

func genStore(rng *rand.Rand, w *world, id uint64, nz, nr, nh int, good bool) storeDesc {
	s := storeDesc{ID: id, Kind: "good", State: stUp, HB: hbFresh}
	s.Labels = []labelKV{{"zone", zoneNames[rng.Intn(nz)]}, {"rack", rackNames[rng.Intn(nr)]}, {"host", hostNames[rng.Intn(nh)]}}
	s.CapGiB = []uint64{100, 500, 2000}[rng.Intn(3)]
	s.RegionCount = []int{0, 3, 40, 400}[rng.Intn(4)]
	s.RegionSizeMiB = int64(s.RegionCount) * 96
	// clearly roomy: 50..100 % available
	s.AvailGiB = s.CapGiB * uint64(50+rng.Intn(51)) / 100
	if s.RegionCount == 0 {
		s.AvailGiB = s.CapGiB
	}
	temp := func() {
		switch rng.Intn(4) {
		case 0:
			s.Busy = true
		case 1:
			if rng.Intn(2) == 0 {
				s.RecvSnap = 4 + rng.Intn(4)
			} else {
				s.SendSnap = 4 + rng.Intn(4)
			}
		case 2:
			s.Pending = 17 + rng.Intn(10)
		case 3:
			s.AddLimitOut = true
		}
	}
	if good {
		if rng.Intn(100) < 8 {
			s.Kind = "good-but-temporarily-unavailable"
			temp()
		}
		return s
	}
	kinds := []string{"offline", "tombstone", "disconnected", "down", "lowspace", "lowspace-exempt", "special-use", "exclusive", "missing-label", "temporarily-unavailable"}
	s.Kind = wpickStr(rng, kinds, []int{15, 8, 14, 14, 18, 3, 8, 8, 3, 9})
	switch s.Kind {
	case "offline":
		s.State = stOffline
		if rng.Intn(4) == 0 {
			s.HB = hbDisconnected
		}
	case "tombstone":
		s.State = stTombstone
		s.HB = []string{hbDown, hbNever, hbFresh}[rng.Intn(3)]
	case "disconnected":
		s.HB = hbDisconnected
	case "down":
		s.HB = []string{hbDown, hbNever}[rng.Intn(2)]
	case "lowspace":
		// clearly low and beyond the small/young store exemption of StoreInfo.IsLowSpace
		if rng.Intn(2) == 0 {
			s.CapGiB, s.AvailGiB = 100, uint64(1+rng.Intn(3))
		} else {
			s.CapGiB, s.AvailGiB = 2000, 40
			s.RegionCount = []int{40, 400}[rng.Intn(2)]
			s.RegionSizeMiB = int64(s.RegionCount) * 96
		}
	case "lowspace-exempt":
		// low ratio but few regions and > 8 GiB available: inside the documented exemption (ambiguous zone)
		s.CapGiB, s.AvailGiB = 2000, 40
		s.RegionCount = rng.Intn(20)
		s.RegionSizeMiB = int64(s.RegionCount) * 96
	case "special-use":
		s.Labels = append(s.Labels, labelKV{"specialUse", []string{"hotRegion", "reserved"}[rng.Intn(2)]})
	case "exclusive":
		if w.Rules != "off" && rng.Intn(2) == 0 {
			s.Labels = append(s.Labels, labelKV{"engine", "tiflash"})
		} else {
			s.Labels = append(s.Labels, labelKV{"$x", []string{"a", "b"}[rng.Intn(2)]})
		}
	case "missing-label":
		i := rng.Intn(len(s.Labels))
		s.Labels = append(s.Labels[:i:i], s.Labels[i+1:]...)
	case "temporarily-unavailable":
		temp()
	}
	return s
}

func genRules(rng *rand.Rand, w *world, nz int) []ruleDesc {
	K := 1 + rng.Intn(3)
	var out []ruleDesc
	hasVoter := false
	for i := 0; i < K; i++ {
		r := ruleDesc{ID: fmt.Sprintf("r%d", i+1)}
		r.Role = wpickStr(rng, []string{"voter", "follower", "leader", "learner"}, []int{50, 12, 10, 28})
		if i == K-1 && !hasVoter && rng.Intn(10) != 0 {
			r.Role = "voter"
		}
		if r.Role == "voter" || r.Role == "leader" {
			hasVoter = true
		}
		r.Count = 1 + rng.Intn(3)
		if r.Role == "leader" {
			r.Count = 1
		}
		zsub := func() []string {
			var vs []string
			for _, z := range zoneNames[:nz] {
				if rng.Intn(2) == 0 {
					vs = append(vs, z)
				}
			}
			if len(vs) == 0 {
				vs = []string{zoneNames[rng.Intn(nz)]}
			}
			if rng.Intn(6) == 0 {
				vs = append(vs, "zf")
			}
			return vs
		}
		switch x := rng.Intn(100); {
		case x < 38:
		case x < 62:
			r.Cons = []consDesc{{Key: "zone", Op: "in", Values: zsub()}}
		case x < 72:
			r.Cons = []consDesc{{Key: "zone", Op: "notIn", Values: []string{zoneNames[rng.Intn(nz)]}}}
		case x < 80:
			r.Cons = []consDesc{{Key: "$x", Op: []string{"exists", "in"}[rng.Intn(2)], Values: []string{"a"}}}
			if r.Cons[0].Op == "exists" {
				r.Cons[0].Values = nil
			}
		case x < 90:
			r.Cons = []consDesc{{Key: "engine", Op: "in", Values: []string{"tiflash"}}}
			if rng.Intn(3) != 0 {
				r.Role = "learner"
			}
		case x < 95:
			r.Cons = []consDesc{{Key: "host", Op: "exists"}, {Key: "zone", Op: "in", Values: zsub()}}
		default:
			r.Cons = []consDesc{{Key: "rack", Op: "notExists"}}
		}
		r.Loc = append([]string(nil), labelSets[wpickInt(rng, []int{0, 1, 2, 3, 4, 5, 6}, []int{25, 20, 25, 20, 4, 3, 3})]...)
		if len(r.Loc) > 0 && rng.Intn(5) < 2 {
			r.Iso = r.Loc[rng.Intn(len(r.Loc))]
		}
		out = append(out, r)
	}
	return out
}

// regionBase: ids of the checked regions start here; rules on key ranges below / far above are unrelated.
const regionBase = uint64(1000)

// genRangedRules: many rules on key ranges (beyond any plausible batch size, ids that are prefixes of each
// other): most of them on ranges no checked region lies in, some on sub-ranges of the checked regions.
func genRangedRules(rng *rand.Rand, nz int) []ruleDesc {
	n := []int{20, 101, 300, 1100}[wpickInt(rng, []int{0, 1, 2, 3}, []int{35, 35, 25, 5})]
	var out []ruleDesc
	for i := 1; i <= n; i++ {
		r := ruleDesc{ID: fmt.Sprintf("k%d", i), Role: wpickStr(rng, []string{"learner", "follower", "voter"}, []int{50, 25, 25}), Count: 1}
		switch rng.Intn(3) {
		case 0:
			r.Cons = []consDesc{{Key: "zone", Op: "in", Values: []string{zoneNames[rng.Intn(nz)], zoneNames[rng.Intn(nz)]}}}
		case 1:
			r.Cons = []consDesc{{Key: "zone", Op: "notIn", Values: []string{zoneNames[rng.Intn(nz)]}}}
		}
		if rng.Intn(2) == 0 {
			r.Loc = []string{"zone", "host"}
		}
		switch x := rng.Intn(100); {
		case x < 45: // below the checked regions
			a := uint64(1 + rng.Intn(990))
			r.StartID, r.EndID = a, a+uint64(1+rng.Intn(9))
		case x < 90: // far above
			a := uint64(1000000 + rng.Intn(1000000))
			r.StartID, r.EndID = a, a+uint64(1+rng.Intn(1000))
		default: // a sub-range of the checked regions
			a := regionBase + uint64(rng.Intn(150))
			r.StartID, r.EndID = a, a+uint64(1+rng.Intn(40))
		}
		out = append(out, r)
	}
	return out
}

const idBase = uint64(1) << 40 // region peer ids live far away from the mock allocator's 1,2,3,...

// genRegion draws a region over the world's stores: peers, learners, leader, down / pending marks.
func genRegion(rng *rand.Rand, w *world, small bool) []sim.PeerSpec {
	S := len(w.Stores)
	maxN := w.MaxReplicas + 2
	if maxN > S {
		maxN = S
	}
	n := 1 + rng.Intn(maxN)
	// bias towards regions around max-replicas
	if small {
		// a region that needs new peers under (almost) any rule
		n = 1 + rng.Intn(2)
		if n > S {
			n = S
		}
	} else if rng.Intn(3) == 0 {
		n = w.MaxReplicas + rng.Intn(3) - 1
		if n < 1 {
			n = 1
		}
		if n > S {
			n = S
		}
	}
	// weighted choice of stores without replacement
	weight := func(s *storeDesc) int {
		switch s.Kind {
		case "fresh":
			return 1
		case "good", "good-but-temporarily-unavailable":
			return 12
		case "tombstone":
			return 2
		default:
			return 5
		}
	}
	chosen := map[uint64]bool{}
	var specs []sim.PeerSpec
	for len(specs) < n {
		t := 0
		for i := range w.Stores {
			if !chosen[w.Stores[i].ID] {
				t += weight(&w.Stores[i])
			}
		}
		if t == 0 {
			break
		}
		v := rng.Intn(t)
		for i := range w.Stores {
			s := &w.Stores[i]
			if chosen[s.ID] {
				continue
			}
			if v < weight(s) {
				chosen[s.ID] = true
				role := metapb.PeerRole_Voter
				pl := 12
				if s.label("engine") == "tiflash" {
					pl = 80
				}
				if rng.Intn(100) < pl {
					role = metapb.PeerRole_Learner
				}
				specs = append(specs, sim.PeerSpec{Store: s.ID, Role: role, ID: idBase + s.ID})
				break
			}
			v -= weight(s)
		}
	}
	// at least one voter; the leader is a voter, preferably on a store that is up and connected
	var voters []int
	for i, p := range specs {
		if p.Role == metapb.PeerRole_Voter {
			voters = append(voters, i)
		}
	}
	if len(voters) == 0 {
		i := rng.Intn(len(specs))
		specs[i].Role = metapb.PeerRole_Voter
		voters = []int{i}
	}
	var fine []int
	for _, i := range voters {
		if s := w.store(specs[i].Store); s.State == stUp && s.HB == hbFresh {
			fine = append(fine, i)
		}
	}
	l := voters[rng.Intn(len(voters))]
	if len(fine) > 0 && rng.Intn(10) != 0 {
		l = fine[rng.Intn(len(fine))]
	}
	specs[l].Leader = true
	for i := range specs {
		if i == l {
			continue
		}
		s := w.store(specs[i].Store)
		pDown, pPend := 4, 6
		switch {
		case s.HB == hbDown || s.HB == hbNever:
			pDown = 80
		case s.HB == hbDisconnected:
			pDown = 25
		case s.State != stUp:
			pDown = 15
		}
		x := rng.Intn(100)
		switch {
		case x < pDown:
			specs[i].Down = true
		case x < pDown+pPend:
			specs[i].Pending = true
		}
	}
	return specs
}

// layoutString renders specs so that sim.ParseLayout reads them back (peer id = idBase + store).
func layoutString(specs []sim.PeerSpec) string {
	var b []string
	for _, s := range specs {
		x := fmt.Sprintf("%d%s", s.Store, map[metapb.PeerRole]string{metapb.PeerRole_Voter: "v", metapb.PeerRole_Learner: "l",
			metapb.PeerRole_IncomingVoter: "i", metapb.PeerRole_DemotingVoter: "d"}[s.Role])
		if s.Leader {
			x += "*"
		}
		if s.Down {
			x += "!"
		}
		if s.Pending {
			x += "?"
		}
		if s.ID != 0 && s.ID != idBase+s.Store {
			x += fmt.Sprintf("#%d", s.ID)
		}
		b = append(b, x)
	}
	return strings.Join(b, " ")
}

// regionDesc is one region handed to the checkers in a round.
type regionDesc struct {
	ID        uint64 `json:"id"`
	ConfVer   uint64 `json:"conf_ver,omitempty"`
	Layout    string `json:"layout"`
	NoLeader  bool   `json:"no_leader,omitempty"`
	FailAlloc string `json:"fail_alloc,omitempty"`
	Malformed string `json:"malformed,omitempty"`
	Revisit   bool   `json:"revisit,omitempty"`
}

// layoutOf renders a simulated region with explicit peer ids.
func layoutOf(r *sim.Region) string {
	var specs []sim.PeerSpec
	for _, p := range r.Peers {
		specs = append(specs, sim.PeerSpec{Store: p.StoreId, Role: p.Role, ID: p.Id, Leader: p.StoreId == r.LeaderStore,
			Down: r.Down[p.Id], Pending: r.Pending[p.Id]})
	}
	return layoutString(specs)
}

func regionFromLayout(layout string) (*sim.Region, error) {
	return regionFromDesc(1, 0, layout)
}

// regionFromDesc builds the simulated region: peers without an explicit id get idBase + store.
func regionFromDesc(id, confVer uint64, layout string) (*sim.Region, error) {
	specs, err := sim.ParseLayout(layout)
	if err != nil {
		return nil, err
	}
	if len(specs) == 0 {
		return nil, fmt.Errorf("empty layout")
	}
	for i := range specs {
		if specs[i].ID == 0 {
			specs[i].ID = idBase + specs[i].Store
		}
	}
	if id == 0 {
		id = 1
	}
	r := sim.BuildRegion(id, specs, idBase)
	if confVer != 0 {
		r.ConfVer = confVer
	}
	return r, nil
}
