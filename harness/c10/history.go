package main

// Histories: one cluster, ONE long-lived ReplicaChecker / RuleChecker / CheckerController, several rounds
// of region checks; between two rounds the cluster changes (a placement rule is rewritten under the same
// group/id, a store changes labels / state / space, the replication settings change). Every oracle is
// evaluated against the rules, stores and settings that are current at the time of the check, so anything
// a checker remembers from an earlier round (per-rule filters, per-store verdicts, settings) shows up as an
// add on a store the current rule does not allow or as a missing repair.

import (
	"encoding/json"
	"fmt"
	"math/rand"
	"sort"
	"strings"

	"github.com/pingcap/kvproto/pkg/metapb"
	"github.com/tikv/pd/server/core"
	"github.com/tikv/pd/server/schedule/placement"
	"verif/harness/lib/sim"
)

type configDesc struct {
	MaxReplicas    int      `json:"max_replicas"`
	LocationLabels []string `json:"location_labels"`
	IsolationLevel string   `json:"isolation_level"`
	Switches       switches `json:"switches"`
}

// updateDesc is one change of the cluster between two rounds.
type updateDesc struct {
	Kind     string      `json:"kind"` // rule-set | rule-get-edit-set | rule-delete-set | rules-batch | rule-delete | store | config
	What     string      `json:"what"` // what the generator meant (documentation only)
	Rules    []ruleDesc  `json:"rules,omitempty"`
	DeleteID string      `json:"delete_rule,omitempty"`
	Store    *storeDesc  `json:"store,omitempty"`
	Config   *configDesc `json:"config,omitempty"`
}

func (u *updateDesc) class() string {
	switch u.Kind {
	case "store":
		return "store"
	case "config":
		return "config"
	case "restart-checkers":
		return "restart"
	}
	return "rule"
}

type roundDesc struct {
	Update  *updateDesc  `json:"update,omitempty"`
	Regions []regionDesc `json:"regions"`
}

func cloneWorld(w *world) *world {
	b, _ := json.Marshal(w)
	n := &world{}
	_ = json.Unmarshal(b, n)
	return n
}

// applyUpdate changes the cluster and the description of its current state. Rule operations pd refuses
// (no store matches, no voter rule left) are counted; the served rules are whatever the rule manager holds.
func applyUpdate(s *stats, cl *cluster, cur *world, u *updateDesc) error {
	s.count("updates_"+u.Kind, 1)
	refused := func(err error) {
		if err != nil {
			s.count("rule_updates_refused_by_pd", 1)
		}
	}
	switch u.Kind {
	case "restart-checkers":
		cl.restartCheckers(false)
	case "rule-set":
		for i := range u.Rules {
			refused(cl.RuleManager.SetRule(toRule(&u.Rules[i])))
		}
	case "rule-get-edit-set":
		// the API handler's pattern: get the served rule, edit the object, set it again
		for i := range u.Rules {
			n := toRule(&u.Rules[i])
			r := cl.RuleManager.GetRule("pd", n.ID)
			if r == nil {
				refused(cl.RuleManager.SetRule(n))
				continue
			}
			r.Role, r.Count, r.LabelConstraints, r.LocationLabels, r.IsolationLevel = n.Role, n.Count, n.LabelConstraints, n.LocationLabels, n.IsolationLevel
			refused(cl.RuleManager.SetRule(r))
		}
	case "rule-delete-set":
		for i := range u.Rules {
			refused(cl.RuleManager.DeleteRule("pd", u.Rules[i].ID))
			refused(cl.RuleManager.SetRule(toRule(&u.Rules[i])))
		}
	case "rules-batch":
		var batch []*placement.Rule
		for i := range u.Rules {
			batch = append(batch, toRule(&u.Rules[i]))
		}
		refused(cl.RuleManager.SetRules(batch))
	case "rule-delete":
		refused(cl.RuleManager.DeleteRule("pd", u.DeleteID))
	case "store":
		found := false
		for i := range cur.Stores {
			if cur.Stores[i].ID == u.Store.ID {
				cur.Stores[i] = *u.Store
				found = true
			}
		}
		if !found {
			return fmt.Errorf("update of unknown store %d", u.Store.ID)
		}
		return updateStore(cl.Cluster, u.Store)
	case "config":
		cur.MaxReplicas = u.Config.MaxReplicas
		cur.LocationLabels = append([]string(nil), u.Config.LocationLabels...)
		cur.IsolationLevel = u.Config.IsolationLevel
		cur.Switches = u.Config.Switches
		applyConfig(cl.Cluster, cur, cur.Rules != "off")
	default:
		return fmt.Errorf("unknown update kind %q", u.Kind)
	}
	return nil
}

func zonesOf(w *world) []string {
	set := map[string]bool{}
	for i := range w.Stores {
		if z := w.Stores[i].label("zone"); z != "" {
			set[z] = true
		}
	}
	var out []string
	for z := range set {
		out = append(out, z)
	}
	sort.Strings(out)
	return out
}

func genConstraints(rng *rand.Rand, zones []string) []consDesc {
	if len(zones) == 0 {
		zones = []string{"z1"}
	}
	sub := func() []string {
		var vs []string
		for _, z := range zones {
			if rng.Intn(2) == 0 {
				vs = append(vs, z)
			}
		}
		if len(vs) == 0 {
			vs = []string{zones[rng.Intn(len(zones))]}
		}
		return vs
	}
	switch x := rng.Intn(100); {
	case x < 30:
		return nil // relaxed to unconstrained
	case x < 56:
		return []consDesc{{Key: "zone", Op: "in", Values: sub()}}
	case x < 62:
		return []consDesc{{Key: "zone", Op: []string{"in", "notIn"}[rng.Intn(2)], Values: oddValues(rng, zones)}}
	case x < 74:
		return []consDesc{{Key: "zone", Op: "notIn", Values: []string{zones[rng.Intn(len(zones))]}}}
	case x < 82:
		return []consDesc{{Key: "$x", Op: "exists"}}
	case x < 88:
		return []consDesc{{Key: "engine", Op: "in", Values: []string{"tiflash"}}}
	case x < 94:
		return []consDesc{{Key: "host", Op: "in", Values: []string{hostNames[rng.Intn(3)], hostNames[rng.Intn(3)]}}}
	default:
		return []consDesc{{Key: "rack", Op: "in", Values: []string{rackNames[rng.Intn(2)]}}}
	}
}

func sameCons(a, b []consDesc) bool {
	x, _ := json.Marshal(a)
	y, _ := json.Marshal(b)
	return string(x) == string(y)
}

// mutateRule returns a new version of the rule under the same id.
func mutateRule(rng *rand.Rand, rd ruleDesc, zones []string) (ruleDesc, string) {
	n := rd
	n.Cons = append([]consDesc(nil), rd.Cons...)
	n.Loc = append([]string(nil), rd.Loc...)
	what := ""
	x := rng.Intn(100)
	if x < 65 || x >= 92 {
		for i := 0; i < 6; i++ {
			c := genConstraints(rng, zones)
			if !sameCons(c, rd.Cons) {
				n.Cons = c
				break
			}
		}
		what += "constraints "
	}
	if (x >= 65 && x < 75) || x >= 92 {
		if n.Role != "leader" {
			n.Count = 1 + rng.Intn(3)
		}
		what += "count "
	}
	if x >= 75 && x < 83 {
		n.Role = []string{"voter", "follower", "learner", "voter"}[rng.Intn(4)]
		what += "role "
	}
	if (x >= 83 && x < 92) || x >= 96 {
		n.Loc = append([]string(nil), labelSets[rng.Intn(len(labelSets))]...)
		n.Iso = ""
		if len(n.Loc) > 0 && rng.Intn(2) == 0 {
			n.Iso = n.Loc[rng.Intn(len(n.Loc))]
		}
		what += "location "
	}
	return n, what
}

func genStoreUpdate(rng *rand.Rand, cur *world) *updateDesc {
	s := cur.Stores[rng.Intn(len(cur.Stores))]
	s.Labels = append([]labelKV(nil), s.Labels...)
	what := ""
	setLabel := func(k, v string) {
		for i := range s.Labels {
			if strings.EqualFold(s.Labels[i].K, k) { // like the server's MergeLabels
				s.Labels[i].V = v
				return
			}
		}
		s.Labels = append(s.Labels, labelKV{k, v})
	}
	dropLabel := func(k string) bool {
		for i := range s.Labels {
			if strings.EqualFold(s.Labels[i].K, k) {
				s.Labels = append(s.Labels[:i:i], s.Labels[i+1:]...)
				return true
			}
		}
		return false
	}
	switch x := rng.Intn(100); {
	case x < 30:
		zs := zonesOf(cur)
		z := zoneNames[rng.Intn(4)]
		if len(zs) > 0 && rng.Intn(4) != 0 {
			z = zs[rng.Intn(len(zs))]
		}
		setLabel("zone", z)
		what = "zone=" + z
	case x < 40:
		h := hostNames[rng.Intn(3)]
		if cur.Scale == "large" {
			h = hostNames[rng.Intn(len(hostNames))]
		}
		setLabel("host", h)
		what = "host=" + h
	case x < 52:
		if s.State == stUp {
			s.State, what = stOffline, "up->offline"
		} else {
			s.State, what = stUp, s.State+"->up"
		}
	case x < 66:
		if s.HB == hbFresh {
			s.HB = []string{hbDown, hbDisconnected, hbNever}[rng.Intn(3)]
		} else {
			s.HB = hbFresh
		}
		what = "heartbeat " + s.HB
	case x < 82:
		if s.AvailGiB*2 >= s.CapGiB {
			s.CapGiB, s.AvailGiB = 100, uint64(1+rng.Intn(3))
			what = "low space"
		} else {
			s.AvailGiB = s.CapGiB * uint64(50+rng.Intn(50)) / 100
			what = "roomy"
		}
	case x < 90:
		if !dropLabel("specialUse") {
			setLabel("specialUse", []string{"hotRegion", "reserved"}[rng.Intn(2)])
			what = "specialUse set"
		} else {
			what = "specialUse dropped"
		}
	default:
		if !dropLabel("$x") {
			setLabel("$x", "a")
			what = "$x set"
		} else {
			what = "$x dropped"
		}
	}
	s.Kind = "updated"
	return &updateDesc{Kind: "store", What: fmt.Sprintf("store %d: %s", s.ID, what), Store: &s}
}

func genConfigUpdate(rng *rand.Rand, cur *world) *updateDesc {
	c := &configDesc{MaxReplicas: cur.MaxReplicas, LocationLabels: append([]string(nil), cur.LocationLabels...),
		IsolationLevel: cur.IsolationLevel, Switches: cur.Switches}
	what := ""
	x := rng.Intn(100)
	if cur.Rules != "off" {
		x = 90 // with placement rules on only the switches matter to the checkers
	}
	switch {
	case x < 30:
		c.MaxReplicas = 1 + rng.Intn(5)
		what = fmt.Sprintf("max-replicas %d", c.MaxReplicas)
	case x < 60:
		c.LocationLabels = append([]string(nil), labelSets[rng.Intn(len(labelSets))]...)
		c.IsolationLevel = ""
		if len(c.LocationLabels) > 0 && rng.Intn(2) == 0 {
			c.IsolationLevel = c.LocationLabels[rng.Intn(len(c.LocationLabels))]
		}
		what = fmt.Sprintf("location-labels %v isolation %q", c.LocationLabels, c.IsolationLevel)
	case x < 80:
		c.IsolationLevel = ""
		if len(c.LocationLabels) > 0 && rng.Intn(4) != 0 {
			c.IsolationLevel = c.LocationLabels[rng.Intn(len(c.LocationLabels))]
		}
		what = fmt.Sprintf("isolation %q", c.IsolationLevel)
	default:
		on := func() bool { return rng.Intn(100) < 75 }
		c.Switches = switches{MakeUp: on(), RemoveExtra: on(), LocationReplacement: on(), RemoveDown: on(), ReplaceOffline: on()}
		what = "switches"
	}
	return &updateDesc{Kind: "config", What: what, Config: c}
}

func genRuleUpdate(rng *rand.Rand, cl *cluster, cur *world) *updateDesc {
	rules := cl.RuleManager.GetAllRules()
	if len(rules) == 0 {
		return genStoreUpdate(rng, cur)
	}
	sort.Slice(rules, func(i, j int) bool { return rules[i].ID < rules[j].ID })
	zones := zonesOf(cur)
	pick := rules[rng.Intn(len(rules))]
	for i := 0; i < 8 && len(pick.StartKeyHex) > 0 && rng.Intn(4) != 0; i++ {
		pick = rules[rng.Intn(len(rules))] // mostly a rule without key range (it applies to every region)
	}
	nd, what := mutateRule(rng, descOfRule(pick), zones)
	switch x := rng.Intn(100); {
	case x < 45:
		return &updateDesc{Kind: "rule-set", What: "rule " + nd.ID + ": " + what, Rules: []ruleDesc{nd}}
	case x < 60:
		return &updateDesc{Kind: "rule-get-edit-set", What: "rule " + nd.ID + ": " + what, Rules: []ruleDesc{nd}}
	case x < 78:
		return &updateDesc{Kind: "rule-delete-set", What: "rule " + nd.ID + ": " + what, Rules: []ruleDesc{nd}}
	case x < 94:
		// SetRules: the new version of every rule (one or two of them changed)
		var all []ruleDesc
		for _, r := range rules {
			if len(rules) > 12 && r.ID != nd.ID && rng.Intn(len(rules)) > 6 {
				continue
			}
			d := descOfRule(r)
			if r.ID == nd.ID {
				d = nd
			} else if rng.Intn(3) == 0 {
				d, _ = mutateRule(rng, d, zones)
			}
			all = append(all, d)
		}
		return &updateDesc{Kind: "rules-batch", What: "SetRules, rule " + nd.ID + ": " + what, Rules: all}
	default:
		return &updateDesc{Kind: "rule-delete", What: "delete rule " + pick.ID, DeleteID: pick.ID}
	}
}

func genUpdate(rng *rand.Rand, cl *cluster, cur *world) *updateDesc {
	x := rng.Intn(100)
	if cur.Rules != "off" {
		switch {
		case x < 62:
			return genRuleUpdate(rng, cl, cur)
		case x < 90:
			return genStoreUpdate(rng, cur)
		default:
			return genConfigUpdate(rng, cur)
		}
	}
	if x < 55 {
		return genStoreUpdate(rng, cur)
	}
	return genConfigUpdate(rng, cur)
}

const (
	roundsPerWorld  = 4
	regionsPerRound = 4
)

// worldRun is one history in progress.
type worldRun struct {
	s         *stats
	cl        *cluster
	w0, cur   *world
	history   []roundDesc
	seen      map[string]bool
	pop       map[uint64]*sim.Region // the regions of the cluster as they are now
	malformed map[uint64]string
	popIDs    []uint64
	nextID    uint64
}

func (h *worldRun) suffix() string {
	switch {
	case h.seen["rule"]:
		return ":after-rule-update"
	case h.seen["store"]:
		return ":after-store-update"
	case h.seen["config"]:
		return ":after-config-update"
	case h.seen["restart"]:
		return ":after-checker-restart"
	}
	return ""
}

func (h *worldRun) setRegion(r *sim.Region) *core.RegionInfo {
	if _, ok := h.pop[r.ID]; !ok {
		h.popIDs = append(h.popIDs, r.ID)
	}
	h.pop[r.ID] = r
	info := r.Info()
	h.cl.PutRegion(info)
	return info
}

func (h *worldRun) kaseOf(r *sim.Region, round int, hist []roundDesc, snapshot *world, failAlloc string) *kase {
	return &kase{World: snapshot, Region: layoutOf(r), RegionID: r.ID, ConfVer: r.ConfVer, NoLeader: r.LeaderStore == 0,
		FailAlloc: failAlloc, Malformed: h.malformed[r.ID], Initial: h.w0, History: hist, Round: round}
}

// genRound draws the regions of a round: new ones and revisits of regions checked before (as they are
// now: possibly changed by the operator proposed for them).
func (h *worldRun) genRound(rng *rand.Rand, round int, afterRuleUpdate bool) []regionDesc {
	nNew, nRev := regionsPerRound, 2
	if h.cur.Scale == "large" {
		nNew, nRev = 24, 8
		if round == roundsPerWorld-1 {
			nNew, nRev = 8, len(h.popIDs) // a full patrol over the population (more than one scan page)
		}
	}
	var out []regionDesc
	for i := 0; i < nNew; i++ {
		specs := genRegion(rng, h.cur, afterRuleUpdate && i%2 == 0)
		d := regionDesc{ID: h.nextID, Layout: layoutString(specs)}
		h.nextID++
		switch x := rng.Intn(100); {
		case x < 2:
			for j := range specs {
				specs[j].Leader = false
			}
			d.Layout, d.NoLeader = layoutString(specs), true
		case x < 3:
			// two peers of the region on one store (a state pd should never produce, but may be handed)
			p := specs[rng.Intn(len(specs))]
			specs = append(specs, sim.PeerSpec{Store: p.Store, Role: p.Role, ID: idBase + 900000 + p.Store%1000})
			d.Layout, d.Malformed = layoutString(specs), "dup-store"
		case x < 4:
			// a peer on a store the cluster has no record of
			specs = append(specs, sim.PeerSpec{Store: 777777, Role: metapb.PeerRole_Voter, ID: idBase + 777777})
			d.Layout, d.Malformed = layoutString(specs), "missing-store"
		}
		out = append(out, d)
	}
	if nRev > len(h.popIDs) {
		nRev = len(h.popIDs)
	}
	for _, i := range rng.Perm(len(h.popIDs))[:nRev] {
		r := h.pop[h.popIDs[i]]
		out = append(out, regionDesc{ID: r.ID, ConfVer: r.ConfVer, Layout: layoutOf(r), NoLeader: r.LeaderStore == 0, Malformed: h.malformed[r.ID], Revisit: true})
	}
	for i := range out {
		if rng.Intn(16) == 0 {
			out[i].FailAlloc = []string{"direct", "controller", "both"}[rng.Intn(3)]
		}
	}
	return out
}

// runHistory runs one world: with rng != nil the rounds are generated on the fly (rule updates are
// derived from the rules the rule manager serves at that moment), otherwise the given rounds are replayed.
func runHistory(s *stats, w0 *world, rng *rand.Rand, fixed []roundDesc, fields []string) error {
	cl, err := newCluster(w0)
	if err != nil {
		return err
	}
	defer cl.close()
	s.count("worlds", 1)
	s.count("worlds_rules_"+w0.Rules, 1)
	s.count("worlds_mode_"+w0.Mode, 1)
	if w0.Scale != "" {
		s.count("worlds_"+w0.Scale, 1)
		s.count(fmt.Sprintf("worlds_large_stores_%d", len(w0.Stores)), 1)
		s.count("rules_served_in_large_worlds", int64(len(cl.RuleManager.GetAllRules())))
	}
	s.count("rules_refused_by_pd_no_store_matches", int64(cl.rulesDropped))
	if cl.defaultKept {
		s.count("worlds_custom_rules_without_voter_default_rule_kept", 1)
	}
	h := &worldRun{s: s, cl: cl, w0: w0, cur: cloneWorld(w0), seen: map[string]bool{}, pop: map[uint64]*sim.Region{}, malformed: map[uint64]string{}, nextID: regionBase}
	n := roundsPerWorld
	if fields != nil {
		n = len(fields) + 1
	}
	if rng == nil {
		n = len(fixed)
	}
	for round := 0; round < n; round++ {
		var rd roundDesc
		if rng == nil {
			rd = fixed[round]
		} else if round > 0 && fields != nil {
			if rd.Update = genOneField(rng, cl, h.cur, fields[round-1]); rd.Update != nil {
				s.count("one_field_updates_"+fields[round-1], 1)
			}
		} else if round > 0 {
			switch x := rng.Intn(100); {
			case x < 6:
				rd.Update = &updateDesc{Kind: "restart-checkers", What: "controller context cancelled, one more pass, checkers and controller rebuilt on the same cluster"}
			default:
				rd.Update = genUpdate(rng, cl, h.cur)
			}
		}
		if rd.Update != nil {
			if err := applyUpdate(s, cl, h.cur, rd.Update); err != nil {
				return err
			}
			h.seen[rd.Update.class()] = true
		}
		if rng != nil {
			rd.Regions = h.genRound(rng, round, rd.Update != nil && rd.Update.class() == "rule")
		}
		h.history = append(h.history, rd)
		suffix := h.suffix()
		s.count("rounds", 1)
		if suffix == "" {
			s.count("rounds_before_any_update", 1)
		} else {
			s.count("rounds"+suffix, 1)
		}
		views := storeViews(cl, h.cur)
		snapshot := cloneWorld(h.cur)
		hist := append([]roundDesc(nil), h.history...)
		for _, d := range rd.Regions {
			r, err := regionFromDesc(d.ID, d.ConfVer, d.Layout)
			if err != nil {
				s.count("harness_bad_layout", 1)
				continue
			}
			if d.Revisit {
				s.count("region_revisits", 1)
			}
			if d.Malformed != "" {
				h.malformed[d.ID] = d.Malformed
			}
			h.setRegion(r)
			k := h.kaseOf(r, round, hist, snapshot, d.FailAlloc)
			final := exec(s, cl, views, k, suffix)
			if rng != nil && final != nil && rng.Intn(2) == 0 {
				// the proposed operator is executed: the region the next rounds see is its outcome
				h.setRegion(final)
				s.count("regions_evolved_by_the_proposed_operator", 1)
			}
		}
		// the patrol loop's pass over the checker's waiting list: ids, looked up again in the cluster
		for _, item := range cl.controller.GetWaitingRegions() {
			info := cl.GetRegion(item.Key)
			r := h.pop[item.Key]
			if info == nil || r == nil {
				continue
			}
			c, err := prepare(cl, views, h.kaseOf(r, round, hist, snapshot, ""))
			if err != nil {
				continue
			}
			c.suffix = suffix
			c.info = info
			res := invoke(cl, c.rulesOn(), info, "controller-waiting-list", false)
			s.count("checker_calls", 1)
			c.judgeCall(s, &res)
			if len(res.ops) > 0 {
				cl.controller.RemoveWaitingRegion(item.Key)
			}
		}
	}
	return nil
}
