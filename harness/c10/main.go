// C10 — Replica repair never targets bad stores nor shrinks healthy replication.
//
// Random clusters (3..10 stores: up / offline / tombstone, connected / disconnected / down, roomy / low
// on space, location labels zone/rack/host, special-use / engine / $-prefixed labels, busy, snapshot and
// pending-peer load, exhausted store limits; max-replicas 1..5, location labels, isolation level,
// strictly-match-label, the replica switches, placement rules off / default / custom rule sets; builder
// modes joint / demote-only / legacy) x random regions (1..max+2 peers, learners, leader, down / pending
// peers). For every (cluster, region) the real ReplicaChecker.Check (placement rules off) or
// RuleChecker.Check (on) and CheckerController.CheckRegion are called; every returned operator is
// replayed step by step on lib/sim and judged by the oracles in oracle.go; a nil result is judged by
// the positive clause when every precondition is clearly met.
package main

import (
	"encoding/json"
	"fmt"
	"io/ioutil"
	"math/rand"
	"os"
	"runtime"
	"runtime/debug"
	"sort"
	"strings"
	"sync"
	"sync/atomic"
	"time"

	"github.com/pingcap/log"
	"github.com/tikv/pd/server/core"
	"github.com/tikv/pd/server/schedule/operator"
	"go.uber.org/zap"
	"verif/harness/lib/ev"
	"verif/harness/lib/hist"
	"verif/harness/lib/sim"
)

// stats are the per-worker observations, merged at the end.
type stats struct {
	counters map[string]int64
	shapes   map[string]struct{}
	findings map[string]*finding // smallest witness per key
	fcount   map[string]int64
	samples  []interface{}
}

func newStats() *stats {
	return &stats{counters: map[string]int64{}, shapes: map[string]struct{}{}, findings: map[string]*finding{}, fcount: map[string]int64{}}
}

func (s *stats) count(k string, n int64) { s.counters[k] += n }

func (s *stats) report(f *finding) {
	s.fcount[f.Key]++
	old := s.findings[f.Key]
	if old == nil || f.Size < old.Size || (f.Size == old.Size && f.What < old.What) {
		s.findings[f.Key] = f
	}
}

func (s *stats) merge(o *stats) {
	for k, v := range o.counters {
		s.counters[k] += v
	}
	for k := range o.shapes {
		s.shapes[k] = struct{}{}
	}
	for k, v := range o.fcount {
		s.fcount[k] += v
	}
	for _, f := range o.findings {
		old := s.findings[f.Key]
		if old == nil || f.Size < old.Size || (f.Size == old.Size && f.What < old.What) {
			s.findings[f.Key] = f
		}
	}
	s.samples = append(s.samples, o.samples...)
}

// callCheck invokes one checker entry point; a panic inside pd on this path is a violation.
func callCheck(f func() []*operator.Operator) (ops []*operator.Operator, panicked interface{}) {
	defer func() {
		if p := recover(); p != nil {
			panicked = fmt.Sprintf("%v\n%s", p, debug.Stack())
		}
	}()
	return f(), nil
}

// prepare builds the per-case context (store views are per cluster).
func prepare(cl *cluster, views map[uint64]*storeView, k *kase) (*caseCtx, error) {
	origin, err := regionFromDesc(k.RegionID, k.ConfVer, k.Region)
	if err != nil {
		return nil, err
	}
	c := &caseCtx{k: k, cl: cl, views: views, origin: origin, info: origin.Info()}
	if c.rulesOn() {
		c.fit = cl.FitRegion(c.info)
	}
	return c, nil
}

func storeViews(cl *cluster, w *world) map[uint64]*storeView {
	views := map[uint64]*storeView{}
	for _, st := range cl.GetStores() {
		views[st.GetID()] = viewOf(st, w.store(st.GetID()))
	}
	return views
}

// badnessClasses summarises the stores outside the region (what the checker can choose from).
func (c *caseCtx) candidateClasses() string {
	set := map[string]bool{}
	w := c.k.World
	for id, v := range c.views {
		if c.origin.Peer(id) != nil {
			continue
		}
		switch {
		case v.State.String() != "Up":
			set[strings.ToLower(v.State.String())] = true
		case v.connected() != yes:
			set["disconnected"] = true
		case v.lowSpace(w.LowSpaceRatio) == yes:
			set["lowspace"] = true
		case v.lowSpace(w.LowSpaceRatio) == unsure:
			set["lowspace?"] = true
		case len(v.Labels) != 3:
			set["labelled"] = true
		case v.Busy || v.Pending > 16 || v.SendSnap > 3 || v.RecvSnap > 3 || v.LimitOut:
			set["loaded"] = true
		case c.freshStore(v) == yes:
			set["fresh"] = true
		default:
			set["good"] = true
		}
	}
	var l []string
	for k := range set {
		l = append(l, k)
	}
	sort.Strings(l)
	return strings.Join(l, "+")
}

// callResult is what one checker call returned.
type callResult struct {
	via        string
	ops        []*operator.Operator
	panicked   interface{}
	allocFired bool  // the injected id-allocation fault was hit during the call
	call, ret  int64 // logical clock (lib/hist) before the call and after its return
}

func checkerName(w *world) string {
	if w.Rules != "off" {
		return "rule-checker"
	}
	return "replica-checker"
}

// invoke performs one checker call (via = "direct": ReplicaChecker / RuleChecker.Check; anything starting
// with "controller": CheckerController.CheckRegion) on the region, optionally with the id allocator failing.
func invoke(cl *cluster, rulesOn bool, info *core.RegionInfo, via string, failAlloc bool) callResult {
	f := func() []*operator.Operator { return cl.controller.CheckRegion(info) }
	if via == "direct" {
		f = func() []*operator.Operator {
			var op *operator.Operator
			if rulesOn {
				op = cl.rule.Check(info)
			} else {
				op = cl.replica.Check(info)
			}
			if op == nil {
				return nil
			}
			return []*operator.Operator{op}
		}
	}
	res := callResult{via: via}
	before := atomic.LoadInt64(&cl.fc.allocFails)
	if failAlloc {
		atomic.StoreInt32(&cl.fc.failAlloc, 1)
	}
	res.call = hist.Tick()
	res.ops, res.panicked = callCheck(f)
	res.ret = hist.Tick()
	if failAlloc {
		atomic.StoreInt32(&cl.fc.failAlloc, 0)
	}
	res.allocFired = atomic.LoadInt64(&cl.fc.allocFails) > before
	return res
}

// judgeCall judges one call result in the view c (rules, stores, settings the call was handed).
// It returns the simulated outcome of the (first) proposed operator, nil if none / not replayable.
func (c *caseCtx) judgeCall(s *stats, res *callResult) (final *sim.Region) {
	k, w := c.k, c.k.World
	name, via := checkerName(w), res.via
	s.count("calls_"+name+"_"+via, 1)
	if res.panicked != nil {
		site := via + c.suffix
		if c.origin.LeaderStore == 0 {
			site = "region-without-leader" // one input class whatever the entry point and the history
		}
		s.report(&finding{Key: name + ":panic-in-check:" + site, Size: len(w.Stores)*100 + len(c.origin.Peers)*10,
			What:    fmt.Sprintf("%s (%s) panicked on region [%s]: %s", name, via, k.Region, strings.SplitN(fmt.Sprint(res.panicked), "\n", 2)[0]),
			Witness: map[string]interface{}{"case": k, "checker": name, "via": via, "panic": fmt.Sprint(res.panicked), "origin": c.origin.Describe(), "alloc_fault_hit": res.allocFired}})
		return nil
	}
	relation := "="
	switch n := len(c.origin.Peers); {
	case n < w.MaxReplicas:
		relation = "<"
	case n > w.MaxReplicas:
		relation = ">"
	}
	if res.allocFired {
		s.count("calls_with_id_allocation_fault_hit", 1)
	}
	if k.Malformed != "" {
		// two peers on one store / a peer on an unknown store: the statement says nothing about such a
		// region; the call must not panic, whatever it returns is only counted
		s.count("calls_on_malformed_region_"+k.Malformed+"_only_panic_judged", 1)
		return nil
	}
	if len(res.ops) == 0 {
		if res.allocFired {
			// the operator could not be created: proposing nothing is what the statement allows
			s.count("nil_not_judged_id_allocation_failed", 1)
		} else {
			c.judgeNil(s, name, via)
		}
		s.shapes[name+"|"+via+"|nil|"+relation+"|"+c.candidateClasses()] = struct{}{}
		return nil
	}
	if r, _, _, _ := c.repairRequired(via); r == yes {
		s.count("repair_clearly_required_and_proposed", 1)
	}
	for i, op := range res.ops {
		steps := sim.Steps(op)
		f := c.judgeSteps(s, name, via, op.Desc(), op.String(), steps)
		if i == 0 {
			final = f
		}
		var kinds []string
		for _, st := range steps {
			kinds = append(kinds, stepKind(st))
		}
		s.shapes[name+"|"+via+"|"+op.Desc()+"|"+strings.Join(kinds, ",")+"|"+relation+"|"+c.candidateClasses()] = struct{}{}
		if len(s.samples) < 2 && len(steps) >= 3 {
			var ss []string
			for _, st := range steps {
				ss = append(ss, st.String())
			}
			s.samples = append(s.samples, map[string]interface{}{"world": w, "region": k.Region, "checker": name, "via": via, "desc": op.Desc(), "steps": ss})
		}
	}
	return final
}

// exec runs one case sequentially: both entry points of the checker that is in force. It returns the
// simulated outcome of what CheckRegion proposed (nil if nothing / not replayable).
func exec(s *stats, cl *cluster, views map[uint64]*storeView, k *kase, suffix string) (final *sim.Region) {
	c, err := prepare(cl, views, k)
	if err != nil {
		s.count("harness_bad_layout", 1)
		return nil
	}
	c.suffix = suffix
	s.count("cases", 1)
	for _, via := range []string{"direct", "controller"} {
		res := invoke(cl, c.rulesOn(), c.info, via, k.FailAlloc == via || k.FailAlloc == "both")
		s.count("checker_calls", 1)
		f := c.judgeCall(s, &res)
		if via == "controller" {
			final = f
		}
	}
	return final
}

func randomPhase(r *ev.Run, workers int, total *stats, mu *sync.Mutex) {
	worlds := r.Pick(4000, 10000)
	var wg sync.WaitGroup
	var fatal sync.Once
	for wk := 0; wk < workers; wk++ {
		wg.Add(1)
		go func(wk int) {
			defer wg.Done()
			rng := rand.New(rand.NewSource(r.ShardSeed()*131 + int64(wk)))
			st := newStats()
			for wi := wk; wi < worlds; wi += workers {
				w := genWorld(rng, wi%100 == 7)
				if err := runHistory(st, w, rng, nil, nil); err != nil {
					fatal.Do(func() { r.Inconclusive("cannot build cluster: %v", err) })
					return
				}
			}
			mu.Lock()
			total.merge(st)
			mu.Unlock()
		}(wk)
	}
	wg.Wait()
}

// oneFieldPhase: worlds in which every field of a served rule / the settings / a store is changed alone,
// one per round, in random order, under one long-lived checker.
func oneFieldPhase(r *ev.Run, workers int, total *stats, mu *sync.Mutex) {
	worlds := r.Pick(160, 500)
	var wg sync.WaitGroup
	var fatal sync.Once
	for wk := 0; wk < workers; wk++ {
		wg.Add(1)
		go func(wk int) {
			defer wg.Done()
			rng := rand.New(rand.NewSource(r.ShardSeed()*977 + int64(wk)))
			st := newStats()
			for wi := wk; wi < worlds; wi += workers {
				w := genWorld(rng, false)
				fields := append([]string(nil), oneFields...)
				rng.Shuffle(len(fields), func(i, j int) { fields[i], fields[j] = fields[j], fields[i] })
				st.count("one_field_worlds", 1)
				if err := runHistory(st, w, rng, nil, fields); err != nil {
					fatal.Do(func() { r.Inconclusive("one-field phase: %v", err) })
					return
				}
			}
			mu.Lock()
			total.merge(st)
			mu.Unlock()
		}(wk)
	}
	wg.Wait()
}

func replayFile(r *ev.Run, path string, total *stats) {
	b, err := ioutil.ReadFile(path)
	if err != nil {
		r.Inconclusive("replay: %v", err)
		return
	}
	var doc struct {
		Witness struct {
			Case *kase `json:"case"`
		} `json:"witness"`
	}
	if err := json.Unmarshal(b, &doc); err != nil || doc.Witness.Case == nil || doc.Witness.Case.World == nil {
		r.Inconclusive("replay: file holds no case (%v)", err)
		return
	}
	k := doc.Witness.Case
	w0, rounds := k.World, []roundDesc{{Regions: []regionDesc{{ID: k.RegionID, ConfVer: k.ConfVer, Layout: k.Region, FailAlloc: k.FailAlloc}}}}
	if k.Initial != nil && len(k.History) > 0 {
		w0, rounds = k.Initial, k.History
	}
	// the checkers read Go maps: run the history a few times
	for i := 0; i < 20; i++ {
		if err := runHistory(total, w0, nil, rounds, nil); err != nil {
			r.Inconclusive("replay: %v", err)
			return
		}
	}
	total.shapes["replay"] = struct{}{}
	total.shapes["replay2"] = struct{}{}
}

func main() {
	r := ev.New("C10", "exploration")
	if os.Getenv("VERIF_LOG") == "" {
		if lg, props, err := log.InitLogger(&log.Config{Level: "fatal", File: log.FileLogConfig{Filename: os.DevNull}}); err == nil {
			log.ReplaceGlobals(lg, props)
		} else {
			log.ReplaceGlobals(zap.NewNop(), nil)
		}
	}
	r.Rule("random worlds: 3..10 stores (state up/offline/tombstone; last heartbeat fresh/disconnected/down/never; clearly roomy, clearly low on space, or inside the small-store exemption; labels zone/rack/host, specialUse, engine, $x, a missing location label; busy, snapshot / pending-peer load, exhausted add-peer limit; optionally one fresh empty store), max-replicas 1..5, location labels a subsequence of zone/rack/host, isolation level, strictly-match-label, the five replica switches, low-space-ratio 0.7/0.8/0.9, replica-schedule-limit 64/0, placement rules off / default / 1..3 custom rules (role, count, label constraints in/notIn/exists/notExists incl. exclusive keys, location labels, isolation level), builder mode joint/demote/legacy. Each world is a HISTORY on one long-lived ReplicaChecker / RuleChecker / CheckerController: 4 rounds x 4 random regions (1..max+2 peers, learners, leader, down / pending peers; after a rule update half of them with 1..2 peers), and between rounds one update: a placement rule rewritten under the same group/id (SetRule, DeleteRule+SetRule, SetRules, DeleteRule; constraints tightened / relaxed / other key, count, role, location labels), a store changing zone/host/special labels, state, heartbeat or space, or the settings changing (max-replicas, location labels, isolation level, switches). All oracles use the rules / stores / settings current at the time of the check; violation keys carry :after-rule-update / :after-store-update / :after-config-update (sequential) or :during-*-update (overlapping). Plus the concurrent family (see assumptions). evaluations = checker calls (Check and CheckRegion per case); distinct = checker x entry point x proposed operator (description + step kinds, or nil) x peers-vs-max-replicas relation x classes of stores outside the region")
	r.Assume("pkg/mock/mockcluster is the cluster (real PersistOptions, real RuleManager, real filters and operator builder); lib/sim replays operator steps like a store would; placement.FitRegion (judged by C12) gives the per-rule peers, orphans and satisfaction used by the rule-checker oracles")
	r.Assume("store predicates are three-valued and recomputed from StoreInfo fields: heartbeat two days ahead = connected, ten minutes or more behind the process start = disconnected; available >= threshold+15 points = roomy, <= threshold/2 and outside the <30 regions & >8GiB exemption = low; anything else is skipped_ambiguous. Labels: KEYS are case-insensitive (Zone = zone, first label wins; a quarter of the worlds spell store keys and / or the configured location labels, rule location labels and constraint keys in other cases), an empty value = not set; location VALUES that differ only in case (z1 / Z1), a store missing a location label down to the isolation level, and exclusive labels with placement rules off are skipped_ambiguous; the isolation domain of a store is computed by the harness from the raw label list, never through pd's filters")
	r.Assume("rule checker: the rule an added peer is meant for is the rule of the peer the operator removes, else any rule with fewer peers than its count; the add is accepted if the target satisfies the label constraints and isolation level of one of them. Busy / snapshot / pending-peer / store-limit load of a target is counted, not judged (not in the statement)")
	r.Assume("histories: regions have unique ids, are put into the cluster, are revisited in later rounds as they are then (half of the proposed operators are executed on the simulator: new epoch), the checker's waiting list is drained like the patrol loop does (ids looked up again in the cluster); ~6% of the calls run with the id allocator failing (a nil result of such a call is not judged, later calls are), 2% of the regions have no leader; 1% of the worlds are large (30..258 stores, up to 16 zones / 120 hosts with prefix-related names, 20..1100 extra rules on key ranges around the checked regions, 100+ regions)")
	r.Assume("concurrent family: one goroutine makes the checker calls (pd has one patrol goroutine; checker calls are never overlapped with each other), another applies and reverts ONE update (rule rewritten under the same id incl. get-edit-set, store labels/state/heartbeat/space through get-clone-put, replication settings) until the calls are done; a call is judged in the view before, after, or - when it overlaps (lib/hist logical clock) - in both, and only findings present in both views are reported (keys :during-<class>-update); data races are attributed by the driver (check.json mechanism)")
	r.Assume("one-field family: 160 (500) worlds in which every field of a served rule (count, role, constraint key / op / values / one more / one less, location labels, isolation level), of the settings (max-replicas, location labels, isolation level, each of the five switches) and of a store as of its previous heartbeat (state, a label value, a label more / less, available, capacity, busy, heartbeat time, sending / receiving snapshots, region count) is changed alone, one per round in random order, under one long-lived checker; constraint values also contain separators, empty strings, duplicates and case variants. Further inputs: a store with id 2^64-1, regions with two peers on one store or a peer on an unknown store (only 'no panic' is judged), checker / controller restart (context cancelled, rebuilt on the same cluster) as an update kind, three-party trials (patrol, rule or settings update, store update) judged in all four views. Operators are read structurally (step types and their store / peer id fields); Operator.String() only appears in witnesses")
	r.Assume("positive clause judged only when the make-up switch is on (replica checker), replica-schedule-limit > 0 (CheckRegion), and a store exists that is up, connected, completely empty, unloaded, labelled with exactly zone/rack/host whose values all differ from those of every store of the region (which all carry the three labels), matching the deficient rule's constraints")

	if err := selfTest(); err != nil {
		r.Inconclusive("self test of the oracles failed: %v", err)
		r.Finish()
	}

	total := newStats()
	var mu sync.Mutex
	workers := runtime.NumCPU()
	if r.Shards > 1 {
		workers = workers / r.Shards
	}
	if workers < 2 {
		workers = 2
	}
	if workers > 16 {
		workers = 16
	}
	if r.Replay != "" {
		replayFile(r, r.Replay, total)
	} else {
		t0 := time.Now()
		randomPhase(r, workers, total, &mu)
		oneFieldPhase(r, workers, total, &mu)
		t1 := time.Now()
		concurrentPhase(r, workers, total, &mu)
		r.Set("phase_seconds_histories", t1.Sub(t0).Seconds()) // information only
		r.Set("phase_seconds_concurrent", time.Since(t1).Seconds())
		r.Floor(int64(r.Pick(100000, 200000)))
	}

	for k, v := range total.counters {
		r.Count(k, v)
	}
	r.Eval(total.counters["checker_calls"])
	for k := range total.shapes {
		r.Distinct(k)
	}
	for i, s := range total.samples {
		if i < 4 {
			r.Sample(s)
		}
	}
	var amb int64
	for k, v := range total.counters {
		if strings.HasPrefix(k, "skipped_ambiguous") {
			amb += v
		}
	}
	r.Set("skipped_ambiguous", amb)
	var keys []string
	for k := range total.findings {
		keys = append(keys, k)
	}
	sort.Strings(keys)
	for _, k := range keys {
		f := total.findings[k]
		f.Witness["occurrences_in_this_run"] = total.fcount[k]
		r.Count("violations_"+k, total.fcount[k])
		r.Violation(k, f.What, f.Witness)
	}
	r.Finish()
}

var _ = core.NewRegionInfo
