// C03 — Only the current leaseholder serves or persists leader-only state.
//
// Level A: several contenders (real member.Member / election.Leadership + TSO allocator + id
// allocator, instrumented etcd clients) per leader key on one embedded etcd, several keys in
// parallel. PRNG event sequences over {campaign, stop/start keep-alive, natural lease expiry,
// resign, owner deletes key, external delete, crash, re-campaign}; between any two events every
// member attempts guarded writes (time window, id window, member priority, dc-location data) and
// timestamp requests. Ground truth = etcd's committed history of the root (revision order).
// Monitors:
//
//	(1) every campaign reported successful created the leader key at its revision while it was absent;
//	(2) at quiescent points at most one live contender has Check()==true and, if so, it is the
//	    stored record's owner (suspended after an external deletion, see DESIGN 2.5);
//	(3) every committed write to a leader-guarded key was issued by the member whose value was the
//	    stored leader record just before that revision;
//	(4) after Resign returned / after the harness saw Check()==false, no timestamp is granted by
//	    that member until it wins a campaign again.
//
// A gate-scheduled sub-scenario parks the old holder's window save while ownership changes.
// Level B: real server: after ResetLeader every metadata RPC answers not-leader and Tso fails.
package main

import (
	"context"
	"fmt"
	"io/ioutil"
	"math/rand"
	"os"
	"path"
	"sort"
	"strings"
	"sync"
	"time"

	"github.com/pingcap/kvproto/pkg/pdpb"
	"github.com/tikv/pd/pkg/encryption"
	"github.com/tikv/pd/pkg/tsoutil"
	"github.com/tikv/pd/pkg/typeutil"
	"github.com/tikv/pd/server/encryptionkm"
	"github.com/tikv/pd/server/id"
	"verif/harness/lib/etcdx"
	"verif/harness/lib/ev"
	"verif/harness/lib/hist"
	"verif/harness/lib/sched"
	"verif/harness/lib/srv"
	"verif/harness/lib/tsochk"
	"verif/harness/lib/tsow"
)

type span struct {
	from, to int64 // ticks: member must not grant for calls in (from, to); to==0 means open
	why      string
}

type wrun struct {
	r       *ev.Run
	e       *etcdx.Etcd
	w       *tsow.World
	rng     *rand.Rand
	ids     []id.Allocator
	kms     []*encryptionkm.KeyManager // encryption key managers (guarded key "encryption_keys")
	events  []string
	noGrant map[int][]span // member idx*1000+gen -> spans
	extDel  bool
	campOK  []campRec
	mu      sync.Mutex
	values  map[string]int // member value -> idx
}

type campRec struct {
	Member int   `json:"member"`
	Call   int64 `json:"call"`
	Ret    int64 `json:"ret"`
}

func (x *wrun) note(f string, a ...interface{}) {
	x.mu.Lock()
	x.events = append(x.events, fmt.Sprintf("t%d ", hist.Now())+fmt.Sprintf(f, a...))
	x.mu.Unlock()
}

func mid(m *tsow.Member) int { return m.Idx*1000 + m.Gen }

func (x *wrun) openSpan(m *tsow.Member, why string) {
	k := mid(m)
	sp := x.noGrant[k]
	if len(sp) > 0 && sp[len(sp)-1].to == 0 {
		return
	}
	x.noGrant[k] = append(sp, span{from: hist.Tick(), why: why})
}

func (x *wrun) closeSpan(m *tsow.Member, at int64) {
	k := mid(m)
	sp := x.noGrant[k]
	if len(sp) > 0 && sp[len(sp)-1].to == 0 {
		sp[len(sp)-1].to = at
	}
}

func (x *wrun) campaign(m *tsow.Member, keep bool) error {
	call := hist.Tick()
	err := m.Campaign(keep)
	ret := hist.Tick()
	if err == nil {
		x.closeSpan(m, call)
		x.campOK = append(x.campOK, campRec{m.Idx, call, ret})
		x.r.Count("campaigns_won", 1)
		x.note("m%d.%d campaign won (keep=%v)", m.Idx, m.Gen, keep)
		if x.rng.Intn(4) != 0 {
			if ierr := m.Alloc.Initialize(0); ierr != nil {
				x.note("m%d initialize failed: %v", m.Idx, ierr)
			}
		}
	} else {
		x.r.Count("campaigns_lost", 1)
	}
	return err
}

// probes: every member attempts guarded writes and timestamp requests.
func (x *wrun) probes() {
	w := x.w
	for _, m := range w.Members {
		switch x.rng.Intn(7) {
		case 6:
			if km := x.kms[m.Idx]; km != nil {
				// rotates / saves the data keys through a leader-guarded transaction
				km.SetLeadership(m.M.GetLeadership())
				x.r.Count("encryption_key_save_attempts", 1)
			}
		case 0:
			m.M.SetMemberLeaderPriority(uint64(1+x.rng.Intn(3)), x.rng.Intn(10))
		case 1:
			m.M.DeleteMemberLeaderPriority(uint64(1 + x.rng.Intn(3)))
		case 2:
			m.M.DeleteMemberDCLocationInfo(uint64(1 + x.rng.Intn(3)))
		case 3:
			x.ids[m.Idx].Rebase()
		case 4:
			for i := 0; i < 3; i++ {
				x.ids[m.Idx].Alloc()
			}
		default:
		}
		x.r.Count("guarded_write_attempts", 1)
		if m.Alloc.IsInitialize() {
			if x.rng.Intn(2) == 0 {
				time.Sleep(2 * time.Millisecond)
				m.Alloc.UpdateTSO()
			} else {
				m.Alloc.SetTSO(tsoutil.GenerateTS(tsoutil.GenerateTimestamp(time.Now().Add(time.Duration(1+x.rng.Intn(100))*time.Millisecond), 0)))
			}
			x.r.Count("guarded_write_attempts", 1)
		}
		// timestamp request; uninitialised allocators of members that believe to be leader would
		// sleep-retry for 2 s inside pd, so only initialised ones (or non-believers) are asked
		if m.Alloc.IsInitialize() || !m.M.GetLeadership().Check() {
			w.TSO(m.Idx, m, 1, 0)
			x.r.Count("tso_requests", 1)
		}
	}
}

func (x *wrun) quiescentInvariant(after string) {
	if x.extDel {
		return
	}
	w := x.w
	var believers []*tsow.Member
	for _, m := range w.Members {
		if m.M.GetLeadership().Check() {
			believers = append(believers, m)
		} else {
			// observed not holding: must not grant until it wins again
			x.openSpan(m, "Check()==false observed")
		}
	}
	x.r.Count("quiescent_points", 1)
	if len(believers) > 1 {
		x.r.Violation("two-leaseholders-at-once", fmt.Sprintf("after %s, %d live contenders report a valid leadership for one key", after, len(believers)),
			map[string]interface{}{"events": x.events, "root": w.Root})
		return
	}
	if len(believers) == 1 {
		resp, err := x.e.Observer.Get(context.Background(), w.LeaderKey())
		if err == nil {
			if len(resp.Kvs) == 0 || string(resp.Kvs[0].Value) != believers[0].M.MemberValue() {
				// the key may legitimately be gone while the local lease has not run out yet only if
				// the harness removed it (owner delete); owner delete resets the lease, so not here
				x.r.Violation("leaseholder-is-not-the-stored-leader", fmt.Sprintf("after %s, member %d reports a valid leadership but the stored leader record is not its own", after, believers[0].Idx),
					map[string]interface{}{"events": x.events, "root": w.Root})
			}
		}
	}
}

func (x *wrun) run(steps int) string {
	w := x.w
	rng := x.rng
	shape := ""
	keepOff := map[int]bool{}
	for s := 0; s < steps && x.r.Violations() == 0; s++ {
		i := rng.Intn(len(w.Members))
		m := w.Members[i]
		evn := ""
		switch k := rng.Intn(20); {
		case k < 7:
			x.campaign(m, rng.Intn(5) != 0)
			evn = "c"
		case k < 10:
			m.Resign()
			x.openSpan(m, "resigned")
			x.note("m%d resigned", i)
			evn = "r"
		case k < 12:
			m.StopKeep()
			keepOff[i] = true
			x.note("m%d keep-alive stopped", i)
			evn = "k"
		case k < 13:
			if keepOff[i] && m.M.GetLeadership().Check() {
				m.StartKeep()
				delete(keepOff, i)
				evn = "K"
			}
		case k < 15:
			// natural expiry: wait longer than the lease (1 s) if somebody stopped renewing
			if len(keepOff) > 0 {
				time.Sleep(1600 * time.Millisecond)
				x.note("waited for lease expiry")
				x.r.Count("expiry_waits", 1)
				keepOff = map[int]bool{}
				evn = "e"
			}
		case k < 16:
			// owner deletes its key (the way CheckLeader does when it finds itself as the leader)
			resp, err := x.e.Observer.Get(context.Background(), w.LeaderKey())
			if err == nil && len(resp.Kvs) > 0 && string(resp.Kvs[0].Value) == m.M.MemberValue() {
				m.M.GetLeadership().DeleteLeaderKey()
				x.openSpan(m, "deleted own key")
				x.note("m%d deleted its own leader key", i)
				evn = "d"
			}
		case k < 18:
			nm, err := w.Restart(i)
			if err == nil {
				x.ids[i] = id.NewAllocator(nm.Cl.Client, w.Root, nm.M.MemberValue())
				x.kms[i] = newKeyManager(nm)
				x.note("m%d crashed, restarted as generation %d", i, nm.Gen)
				delete(keepOff, i)
				evn = "x"
			}
		case k < 19:
			if s > steps*2/3 {
				x.e.Observer.Delete(context.Background(), w.LeaderKey())
				x.extDel = true
				x.note("leader key deleted externally")
				evn = "D"
			}
		default:
		}
		if evn == "" {
			continue
		}
		shape += evn
		x.quiescentInvariant("event " + evn)
		x.probes()
	}
	return shape
}

// judge folds the etcd history and evaluates monitors (1), (3), (4).
func (x *wrun) judge(mode string) {
	r := x.r
	w := x.w
	hs, err := x.e.History(w.Root, w.StartRev)
	if err != nil {
		r.Inconclusive("history: %v", err)
		return
	}
	lk := w.LeaderKey()
	// leader record after each revision
	type st struct {
		rev    int64
		leader string
	}
	var fold []st
	cur := ""
	byRev := map[int64][]etcdx.WatchEvent{}
	for _, h := range hs {
		byRev[h.Rev] = append(byRev[h.Rev], h)
		if h.Key == lk {
			if h.Delete {
				cur = ""
			} else {
				cur = h.Value
			}
		}
		if len(fold) > 0 && fold[len(fold)-1].rev == h.Rev {
			fold[len(fold)-1].leader = cur
		} else {
			fold = append(fold, st{h.Rev, cur})
		}
	}
	before := func(rev int64) string {
		i := sort.Search(len(fold), func(i int) bool { return fold[i].rev >= rev })
		if i == 0 {
			return ""
		}
		return fold[i-1].leader
	}
	wit := func(extra map[string]interface{}) map[string]interface{} {
		m := map[string]interface{}{"mode": mode, "root": w.Root, "events": x.events}
		hh := hs
		if len(hh) > 300 {
			hh = hh[len(hh)-300:]
		}
		m["etcd_history_tail"] = hh
		for k, v := range extra {
			m[k] = v
		}
		return m
	}
	guardedSuffix := func(k string) string {
		if k == encryptionkm.EncryptionKeysPath {
			return "encryption-keys"
		}
		rel := strings.TrimPrefix(k, w.Root)
		switch {
		case rel == "/timestamp":
			return "time-window"
		case rel == "/alloc_id":
			return "id-window"
		case strings.HasSuffix(rel, "/leader_priority"):
			return "member-priority"
		case strings.HasPrefix(rel, "/dc-location/"):
			return "dc-location"
		}
		return ""
	}
	for _, m := range w.Members {
		for _, rpc := range m.Cl.Log() {
			if rpc.Method != "Txn" || !rpc.Succ || len(rpc.Keys) == 0 {
				continue
			}
			key := rpc.Keys[0]
			if key == lk {
				if len(rpc.PutVals) == 0 {
					continue // delete of the leader key
				}
				// (1) a successful campaign must have created the key at this revision
				r.Count("campaign_txns_committed", 1)
				var evs []etcdx.WatchEvent
				for _, h := range byRev[rpc.Rev] {
					if h.Key == lk {
						evs = append(evs, h)
					}
				}
				if len(evs) != 1 || evs[0].Delete || evs[0].Create != rpc.Rev {
					r.Violation("campaign-succeeded-over-live-leader-record:"+mode, fmt.Sprintf("member %d's campaign was reported successful at revision %d but it did not create the leader key there (a live record existed or nothing was written)", m.Idx, rpc.Rev), wit(map[string]interface{}{"rpc": rpc, "events_at_rev": evs}))
					return
				}
				if before(rpc.Rev) != "" {
					r.Violation("campaign-succeeded-over-live-leader-record:"+mode, fmt.Sprintf("member %d's campaign succeeded at revision %d while the leader record %q existed", m.Idx, rpc.Rev, before(rpc.Rev)), wit(map[string]interface{}{"rpc": rpc}))
					return
				}
				continue
			}
			g := guardedSuffix(key)
			if g == "" {
				continue
			}
			// (3) committed guarded write: the writer must own the record just before this revision
			r.Count("guarded_writes_committed", 1)
			owner := before(rpc.Rev)
			mutated := false
			for _, h := range byRev[rpc.Rev] {
				if h.Key == key {
					mutated = true
				}
			}
			if !mutated {
				// e.g. delete of an absent key: no new revision was created, the header carries the
				// store's current revision, so the compare was evaluated on the state AT that revision
				owner = before(rpc.Rev + 1)
				r.Count("guarded_writes_noop", 1)
			}
			if owner != m.M.MemberValue() {
				r.Violation("guarded-write-by-non-owner:"+g+":"+mode, fmt.Sprintf("member %d committed a %s write (%s) at revision %d while the stored leader record was %q", m.Idx, g, key, rpc.Rev, short(owner, x.values)), wit(map[string]interface{}{"rpc": rpc}))
				return
			}
		}
		// rejected guarded writes are counted (the converse direction is not judged)
		for _, rpc := range m.Cl.Log() {
			if rpc.Method == "Txn" && !rpc.Succ && rpc.Err == "" && len(rpc.Keys) > 0 && guardedSuffix(rpc.Keys[0]) != "" {
				r.Count("guarded_writes_rejected", 1)
			}
		}
	}
	// (4) no grant inside a no-grant span
	for _, o := range w.Responses() {
		if o.Err != "" {
			continue
		}
		r.Count("tso_granted", 1)
		for _, sp := range x.noGrant[o.Member] {
			if o.Call > sp.from && (sp.to == 0 || o.Ret < sp.to) {
				r.Violation("timestamp-granted-without-leadership:"+mode, fmt.Sprintf("member %d granted a timestamp although it had %s and had not won a campaign since", o.Member/1000, sp.why), wit(map[string]interface{}{"grant": o, "span": []int64{sp.from, sp.to}}))
				return
			}
		}
	}
	r.Count("etcd_history_events", int64(len(hs)))
}

func short(v string, values map[string]int) string {
	if v == "" {
		return "<absent>"
	}
	if i, ok := values[v]; ok {
		return fmt.Sprintf("member %d", i)
	}
	return "<other>"
}

var masterKeyFile string
var masterKeyOnce sync.Once

// newKeyManager returns an encryption key manager on the member's client (file master key), or nil.
func newKeyManager(m *tsow.Member) *encryptionkm.KeyManager {
	masterKeyOnce.Do(func() {
		f, err := ioutil.TempFile("", "verif_master_key")
		if err == nil {
			f.WriteString("0123456789abcdef0123456789abcdef0123456789abcdef0123456789abcdef\n")
			f.Close()
			masterKeyFile = f.Name()
		}
	})
	if masterKeyFile == "" {
		return nil
	}
	cfg := &encryption.Config{DataEncryptionMethod: "aes128-ctr", DataKeyRotationPeriod: typeutil.NewDuration(time.Hour)}
	cfg.MasterKey.Type = "file"
	cfg.MasterKey.FilePath = masterKeyFile
	km, err := encryptionkm.NewKeyManager(m.Cl.Client, cfg)
	if err != nil {
		return nil
	}
	return km
}

func newRun(r *ev.Run, e *etcdx.Etcd, rng *rand.Rand, root string, n int) (*wrun, error) {
	w, err := tsow.NewWorld(e, root, n, 50*time.Millisecond, 5*time.Millisecond)
	if err != nil {
		return nil, err
	}
	w.Lease = 1
	x := &wrun{r: r, e: e, w: w, rng: rng, noGrant: map[int][]span{}, values: map[string]int{}}
	for _, m := range w.Members {
		x.ids = append(x.ids, id.NewAllocator(m.Cl.Client, w.Root, m.M.MemberValue()))
		x.kms = append(x.kms, newKeyManager(m))
		x.values[m.M.MemberValue()] = m.Idx
		x.openSpan(m, "never campaigned")
	}
	return x, nil
}

// gated: the old holder's window save is parked at the etcd boundary while ownership changes.
func gatedPhase(r *ev.Run, e *etcdx.Etcd, rng *rand.Rand) {
	variants := []string{"revoke-then-campaign", "external-delete-then-campaign", "resign-race"}
	n := 0
	for _, v := range variants {
		for _, perm := range [][]int{{0, 1}, {1, 0}} {
			ex := &sched.Explorer{}
			for {
				ch := ex.Next()
				if ch == nil {
					break
				}
				n++
				x, err := newRun(r, e, rng, fmt.Sprintf("/c03/g%02d_%05d_", r.Shard, n), 2)
				if err != nil {
					r.Inconclusive("world: %v", err)
					return
				}
				x.extDel = true // quiescent invariant (2) is not judged in these scenarios
				old, nw := x.w.Members[0], x.w.Members[1]
				if err := x.campaign(old, true); err != nil {
					x.w.Close()
					r.Inconclusive("campaign: %v", err)
					return
				}
				if !old.Alloc.IsInitialize() {
					old.Alloc.Initialize(0)
				}
				time.Sleep(60 * time.Millisecond) // the next UpdateTSO needs a window save (save interval 50 ms)
				sc := sched.New()
				sc.Stagger = true
				for _, m := range x.w.Members {
					m.Cl.Gate, m.Cl.Done = sc.Gate, sc.Done
				}
				ws := []func(){
					func() {
						old.Alloc.UpdateTSO()
						x.ids[0].Rebase()
						if km := x.kms[0]; km != nil {
							km.SetLeadership(old.M.GetLeadership())
						}
					},
					func() {
						switch v {
						case "revoke-then-campaign":
							x.w.RevokeLeases(0)
						case "external-delete-then-campaign":
							e.Observer.Delete(context.Background(), x.w.LeaderKey())
						case "resign-race":
							old.M.ResetLeader()
						}
						if err := nw.Campaign(false); err == nil {
							x.campOK = append(x.campOK, campRec{1, 0, 0})
						}
					},
				}
				sc.Run([]func(){ws[perm[0]], ws[perm[1]]}, ch)
				for _, m := range x.w.Members {
					m.Cl.Gate, m.Cl.Done = nil, nil
				}
				ex.Advance(sc)
				if sc.Err != nil {
					r.Inconclusive("scheduler: %v", sc.Err)
					x.w.Close()
					return
				}
				x.note("variant %s start order %v schedule %s", v, perm, sc.TraceKey())
				x.noGrant = map[int][]span{} // (4) is not judged here
				x.judge("gated")
				r.Eval(1)
				r.Count("gated_schedules", 1)
				r.Distinct("gated|" + v + fmt.Sprint(perm) + sc.TraceKey())
				if n == 3 {
					r.Sample(map[string]interface{}{"mode": "gated", "variant": v, "start_order": perm, "schedule": sc.Trace})
				}
				old.Resign()
				nw.Resign()
				x.w.Close()
				if ex.Runs > 300 || r.Violations() > 0 {
					break
				}
			}
		}
	}
}

// closeVsKeepAlive: a leadership is given up (Reset / DeleteLeaderKey) while its keep-alive is
// running, the way pd's leader loop does it; afterwards Check() must stay false until the next
// successful campaign (clause: a resigned member grants nothing / is not a leaseholder).
func closeVsKeepAlive(r *ev.Run, e *etcdx.Etcd, rng *rand.Rand) {
	x, err := newRun(r, e, rng, fmt.Sprintf("/c03/k%02d_", r.Shard), 1)
	if err != nil {
		r.Inconclusive("world: %v", err)
		return
	}
	defer x.w.Close()
	m := x.w.Members[0]
	n := r.Pick(150, 1200)
	for i := 0; i < n; i++ {
		if err := m.M.CampaignLeader(1); err != nil {
			time.Sleep(5 * time.Millisecond)
			continue
		}
		ctx, cancel := context.WithCancel(context.Background())
		go m.M.KeepLeader(ctx)
		// around the moment a keep-alive response is in flight (first one right away, then every lease/3)
		d := time.Duration(rng.Intn(3000)) * time.Microsecond
		if rng.Intn(4) == 0 {
			d += 333 * time.Millisecond
		}
		time.Sleep(d)
		how := "Reset"
		if rng.Intn(2) == 0 {
			m.M.ResetLeader()
		} else {
			how = "DeleteLeaderKey"
			m.M.GetLeadership().DeleteLeaderKey()
		}
		bad := false
		for k := 0; k < 8 && !bad; k++ {
			time.Sleep(time.Millisecond)
			if m.M.GetLeadership().Check() {
				bad = true
			}
		}
		cancel()
		r.Count("close_vs_keepalive_rounds", 1)
		if bad {
			r.Violation("leadership-valid-again-after-reset", "after "+how+" returned (keep-alive still running, as in pd's leader loop) Check() reported a valid leadership again without a new campaign",
				map[string]interface{}{"round": i, "delay_before_reset": d.String(), "how": how})
			return
		}
		time.Sleep(time.Millisecond)
	}
	r.Eval(1)
	r.Distinct("close-vs-keepalive")
}

// resignHandOver: member A gives its leadership up while member B campaigns. The acknowledgement
// of A's lease revocation is delayed at the etcd client boundary (an existing suspension point),
// so "revoked in etcd, acknowledgement still in flight" lasts long enough to be observed: as soon
// as B's campaign has succeeded, A must not report a valid leadership nor grant timestamps.
func resignHandOver(r *ev.Run, e *etcdx.Etcd, rng *rand.Rand) {
	rounds := r.Pick(12, 60)
	for i := 0; i < rounds; i++ {
		x, err := newRun(r, e, rng, fmt.Sprintf("/c03/r%02d_%04d_", r.Shard, i), 2)
		if err != nil {
			r.Inconclusive("world: %v", err)
			return
		}
		a, b := x.w.Members[0], x.w.Members[1]
		if err := a.Campaign(true); err != nil {
			x.w.Close()
			continue
		}
		a.Alloc.Initialize(0)
		revoked := make(chan struct{}, 4)
		a.Cl.After = func(rpc *etcdx.RPC) {
			if rpc.Method == "LeaseRevoke" {
				select {
				case revoked <- struct{}{}:
				default:
				}
				time.Sleep(40 * time.Millisecond)
			}
		}
		how := []string{"ResetLeader", "DeleteLeaderKey", "Resign"}[i%3]
		done := make(chan struct{})
		go func() {
			defer close(done)
			switch how {
			case "ResetLeader":
				a.M.ResetLeader()
			case "DeleteLeaderKey":
				a.M.GetLeadership().DeleteLeaderKey()
			default:
				a.Resign()
			}
		}()
		select {
		case <-revoked:
		case <-done:
		case <-time.After(10 * time.Second):
		}
		// the record is gone in etcd now (or will be in a moment): B campaigns until it wins
		won := false
		for k := 0; k < 200 && !won; k++ {
			if b.Campaign(false) == nil {
				won = true
			} else {
				time.Sleep(time.Millisecond)
			}
		}
		if won {
			r.Count("resign_handover_rounds", 1)
			aValid := a.M.GetLeadership().Check()
			_, tsoErr := x.w.TSO(0, a, 1, 0)
			if aValid || tsoErr == nil {
				r.Violation("resigning-member-still-valid-after-successor-elected", fmt.Sprintf("after %s the leader record was revoked and member b won a campaign, yet member a still reported a valid leadership (Check=%v, timestamp granted=%v)", how, aValid, tsoErr == nil),
					map[string]interface{}{"how": how, "round": i, "root": x.w.Root})
				<-done
				x.w.Close()
				return
			}
		}
		<-done
		a.Cl.After = nil
		b.Resign()
		x.w.Close()
		r.Eval(1)
	}
	r.Distinct("resign-hand-over")
}

func levelA(r *ev.Run, e *etcdx.Etcd, seed int64, wi int, out *sync.Mutex) {
	rng := rand.New(rand.NewSource(seed))
	x, err := newRun(r, e, rng, fmt.Sprintf("/c03/w%02d_%05d_", r.Shard, wi), 2+rng.Intn(3))
	if err != nil {
		r.Inconclusive("world: %v", err)
		return
	}
	defer x.w.Close()
	shape := x.run(r.Pick(25, 40))
	for _, m := range x.w.Members {
		m.StopKeep()
	}
	x.judge("levelA")
	r.Eval(1)
	r.Count("worlds", 1)
	r.Distinct("A|" + shape)
	if wi == 0 {
		var g []tsochk.Resp
		for _, o := range x.w.Responses() {
			if o.Err == "" && len(g) < 5 {
				g = append(g, o)
			}
		}
		r.Sample(map[string]interface{}{"mode": "levelA", "events": x.events, "campaigns_won": x.campOK, "some_grants": g})
	}
	for _, m := range x.w.Members {
		m.Resign()
	}
}

func levelB(r *ev.Run, rng *rand.Rand) {
	cfgs := srv.NewConfigs(1, nil)
	m, err := srv.Start(cfgs[0])
	if err != nil {
		r.Inconclusive("server start: %v", err)
		return
	}
	defer m.Close()
	if srv.WaitLeader([]*srv.Member{m}, 30*time.Second) == nil {
		r.Inconclusive("no leader")
		return
	}
	if err := m.Bootstrap(); err != nil {
		r.Inconclusive("bootstrap: %v", err)
		return
	}
	ctx := context.Background()
	type call struct {
		name string
		f    func() (bool, string) // served?, detail
	}
	hdrErr := func(h *pdpb.ResponseHeader, err error) (bool, string) {
		if err != nil {
			return false, err.Error()
		}
		if h.GetError() != nil {
			return false, h.GetError().String()
		}
		return true, ""
	}
	calls := []call{
		{"AllocID", func() (bool, string) {
			resp, err := m.Srv.AllocID(ctx, &pdpb.AllocIDRequest{Header: m.Header()})
			return hdrErr(resp.GetHeader(), err)
		}},
		{"GetStore", func() (bool, string) {
			resp, err := m.Srv.GetStore(ctx, &pdpb.GetStoreRequest{Header: m.Header(), StoreId: 1})
			return hdrErr(resp.GetHeader(), err)
		}},
		{"GetAllStores", func() (bool, string) {
			resp, err := m.Srv.GetAllStores(ctx, &pdpb.GetAllStoresRequest{Header: m.Header()})
			return hdrErr(resp.GetHeader(), err)
		}},
		{"GetRegionByID", func() (bool, string) {
			resp, err := m.Srv.GetRegionByID(ctx, &pdpb.GetRegionByIDRequest{Header: m.Header(), RegionId: 2})
			return hdrErr(resp.GetHeader(), err)
		}},
		{"GetClusterConfig", func() (bool, string) {
			resp, err := m.Srv.GetClusterConfig(ctx, &pdpb.GetClusterConfigRequest{Header: m.Header()})
			return hdrErr(resp.GetHeader(), err)
		}},
		{"GetGCSafePoint", func() (bool, string) {
			resp, err := m.Srv.GetGCSafePoint(ctx, &pdpb.GetGCSafePointRequest{Header: m.Header()})
			return hdrErr(resp.GetHeader(), err)
		}},
		{"Tso", func() (bool, string) {
			_, err := m.Srv.GetTSOAllocatorManager().HandleTSORequest("global", 1)
			return err == nil, ""
		}},
	}
	rounds := r.Pick(4, 12)
	for round := 0; round < rounds; round++ {
		if srv.WaitLeader([]*srv.Member{m}, 30*time.Second) == nil {
			r.Inconclusive("no leader")
			return
		}
		time.Sleep(time.Duration(50+rng.Intn(100)) * time.Millisecond)
		m.Srv.GetMember().ResetLeader()
		r.Count("server_resigns", 1)
		// hammer until the member is leader again
		for k := 0; k < 4000; k++ {
			c := calls[k%len(calls)]
			// metadata RPCs are gated by the member's leader flag; timestamps by the lease itself
			// (a re-campaigned member serves TSO as soon as it holds a new lease and has synchronised)
			holds := func() bool {
				if c.name == "Tso" {
					return m.Srv.GetMember().GetLeadership().Check()
				}
				return m.Srv.GetMember().IsLeader()
			}
			before := holds()
			served, _ := c.f()
			after := holds()
			r.Count("server_calls_while_resigned", 1)
			if served && !before && !after {
				r.Violation("served-while-not-leader:"+c.name, fmt.Sprintf("%s was served although the member was not leader before and after the call (after ResetLeader)", c.name), map[string]interface{}{"round": round, "call": c.name})
				return
			}
			if m.Srv.GetMember().IsLeader() {
				break
			}
		}
		r.Eval(1)
	}
	r.Distinct("B|resign-rounds")
}

func main() {
	r := ev.New("C03", "exploration")
	r.Rule("level A: worlds of 2-4 contenders on one leader key, 25-40 PRNG events from {campaign(+/-keep-alive), resign, stop/start keep-alive, natural expiry wait, owner deletes key, crash+restart, external delete (late)}, guarded writes + timestamp requests by every member after every event; distinct = event string per world. gated: old holder's window save + id window txn parked while the record is revoked / deleted / resigned and a new member campaigns, all release orders x start orders. usurped owner: a's leader record deleted and taken by b (which persists a window far ahead) while a's lease is valid, a's update must be refused and a never grants at or beyond its last owned window. queued behind save: a's reset saves the window with the reply held back, requests issued meanwhile, a's lease expires, b campaigns and serves, reply released. slow grant: member a's LeaseGrant reply delayed by 35/60/80% of the lease, no keep-alive, member b campaigns until it wins, then a is probed. level B: real server resign rounds hammered with metadata RPCs")
	r.Assume("ground truth is etcd's committed history in revision order; external deletion of a live leader key is only used to judge guarded writes (3), never (2)/(4)")
	r.Assume("a member whose lease Grant failed keeps Check()==true until its next campaign (lease.go); Grant failures are not injected, see DESIGN C03 Limits")
	srv.Quiet()
	e, err := etcdx.Start()
	if err != nil {
		r.Inconclusive("etcd: %v", err)
		r.Finish()
	}
	rng := rand.New(rand.NewSource(r.ShardSeed()))
	gatedPhase(r, e, rng)
	closeVsKeepAlive(r, e, rng)
	if r.Violations() == 0 {
		resignHandOver(r, e, rng)
	}
	if r.Violations() == 0 {
		usurpedOwner(r, e, rng.Int63())
	}
	// worlds in parallel so that lease expiry waits overlap
	nworlds := r.Pick(16, 64)
	par := 8
	var wg sync.WaitGroup
	sem := make(chan struct{}, par)
	var out sync.Mutex
	wg.Add(1)
	sgSeed := rng.Int63()
	go func() { defer wg.Done(); slowGrant(r, e, sgSeed) }()
	wg.Add(1)
	go func() { defer wg.Done(); queuedBehindSave(r, e, sgSeed+1000) }()
	for wi := 0; wi < nworlds; wi++ {
		wg.Add(1)
		sem <- struct{}{}
		seed := rng.Int63()
		go func(wi int, seed int64) {
			defer wg.Done()
			defer func() { <-sem }()
			levelA(r, e, seed, wi, &out)
		}(wi, seed)
	}
	wg.Wait()
	e.Close()
	if r.Violations() == 0 {
		levelB(r, rng)
	}
	_ = path.Join
	if masterKeyFile != "" {
		os.Remove(masterKeyFile)
	}
	r.Floor(10)
	r.Finish()
}
