package main

import (
	"context"
	"fmt"
	"math/rand"
	"sync"
	"time"

	"github.com/tikv/pd/pkg/tsoutil"
	"verif/harness/lib/etcdx"
	"verif/harness/lib/ev"
	"verif/harness/lib/hist"
)

// slowGrant: the reply of member A's LeaseGrant is delayed at the etcd client boundary (an existing
// suspension point), A campaigns with that lease and no keep-alive reply ever refreshes it. etcd
// counts the lease from the moment it created it, so A's own idea of the expiry must not be later
// than etcd's: as soon as the leader record has expired in etcd and member B has won a campaign,
// A must not report a valid leadership nor grant timestamps.
// The verdict is an order of events (B's campaign acknowledged, then A probed), not a wall-clock
// value; the sleeps only place the events.
func slowGrant(r *ev.Run, e *etcdx.Etcd, seed int64) {
	fracs := []int{35, 60, 80} // delay of the reply in % of the lease
	rounds := r.Pick(3, 9)
	var wg sync.WaitGroup
	var done int32
	var mu sync.Mutex
	for i := 0; i < rounds; i++ {
		wg.Add(1)
		go func(i int) {
			defer wg.Done()
			rng := rand.New(rand.NewSource(seed + int64(i)))
			x, err := newRun(r, e, rng, fmt.Sprintf("/c03/s%02d_%04d_", r.Shard, i), 2)
			if err != nil {
				r.Inconclusive("world: %v", err)
				return
			}
			defer x.w.Close()
			lease := int64(2 + i/len(fracs)%2)
			x.w.Lease = lease
			a, b := x.w.Members[0], x.w.Members[1]
			delay := time.Duration(lease) * time.Second * time.Duration(fracs[i%len(fracs)]) / 100
			delayed := false
			a.Cl.After = func(rpc *etcdx.RPC) {
				if rpc.Method == "LeaseGrant" && rpc.Err == "" && !delayed {
					delayed = true
					time.Sleep(delay)
				}
			}
			err = a.Campaign(false)
			a.Cl.After = nil
			if err != nil || !delayed {
				r.Count("slow_grant_campaign_failed", 1)
				return
			}
			a.Alloc.Initialize(0)
			// B campaigns until the record has expired in etcd and it wins
			won := false
			for k := 0; k < 800 && !won; k++ {
				if b.Campaign(false) == nil {
					won = true
				} else {
					time.Sleep(10 * time.Millisecond)
				}
			}
			if !won {
				r.Count("slow_grant_no_successor", 1)
				return
			}
			aValid := a.M.GetLeadership().Check()
			_, tsoErr := x.w.TSO(0, a, 1, 0)
			mu.Lock()
			done++
			mu.Unlock()
			r.Count("slow_grant_rounds", 1)
			r.Eval(1)
			r.Distinct(fmt.Sprintf("slow-grant|lease=%d|delay=%d%%", lease, fracs[i%len(fracs)]))
			if aValid || tsoErr == nil {
				r.Violation("expired-member-still-valid-after-successor-elected:slow-lease-grant", fmt.Sprintf("member a's lease grant reply arrived %v late, no keep-alive refreshed it; the leader record expired in etcd and member b won a campaign, yet member a still reported a valid leadership (Check=%v, timestamp granted=%v)", delay, aValid, tsoErr == nil),
					map[string]interface{}{"lease_s": lease, "grant_reply_delay": delay.String(), "round": i, "root": x.w.Root, "events": x.events})
			}
			b.Resign()
		}(i)
	}
	wg.Wait()
	if done == 0 {
		r.Inconclusive("slow-grant phase: no round reached a successor's campaign")
	}
}

// queuedBehindSave: member A (no keep-alive: its lease runs out) resets its timestamp to a far
// target; the acknowledgement of the window transaction of that reset is held back at the etcd
// client boundary (applied in etcd, reply in flight). Timestamp requests issued to A after the
// transaction was applied wait for whatever A holds during the save. Meanwhile A's lease expires,
// member B wins a campaign, initialises and serves; only then is the reply released. A request
// that was issued after the save was applied and is answered successfully after the release was
// granted by a member whose lease had long expired (B's campaign was acknowledged several etcd
// round trips and an explicit pause before the release). The verdict is this order of events.
func queuedBehindSave(r *ev.Run, e *etcdx.Etcd, seed int64) {
	rounds := r.Pick(2, 6)
	var wg sync.WaitGroup
	var mu sync.Mutex
	judged := 0
	for i := 0; i < rounds; i++ {
		wg.Add(1)
		go func(i int) {
			defer wg.Done()
			rng := rand.New(rand.NewSource(seed + int64(i)))
			x, err := newRun(r, e, rng, fmt.Sprintf("/c03/q%02d_%04d_", r.Shard, i), 2)
			if err != nil {
				r.Inconclusive("world: %v", err)
				return
			}
			defer x.w.Close()
			x.w.Lease = int64(2 + i%2)
			a, b := x.w.Members[0], x.w.Members[1]
			if err := a.Campaign(false); err != nil {
				r.Count("queued_campaign_failed", 1)
				return
			}
			if err := a.Alloc.Initialize(0); err != nil {
				r.Count("queued_campaign_failed", 1)
				return
			}
			tsKey := x.w.TimestampKey()
			applied := make(chan struct{})
			release := make(chan struct{})
			var once sync.Once
			var tApp, tRel int64
			a.Cl.After = func(rpc *etcdx.RPC) {
				if rpc.Method != "Txn" || !rpc.Write || rpc.Err != "" {
					return
				}
				hit := false
				for _, k := range rpc.Keys {
					if k == tsKey {
						hit = true
					}
				}
				if !hit {
					return
				}
				mine := false
				once.Do(func() { mine = true })
				if !mine {
					return
				}
				tApp = hist.Tick()
				close(applied)
				select {
				case <-release:
				case <-time.After(60 * time.Second):
				}
			}
			setDone := make(chan error, 1)
			go func() {
				setDone <- a.Alloc.SetTSO(tsoutil.GenerateTS(tsoutil.GenerateTimestamp(time.Now().Add(10*time.Minute), 0)))
			}()
			select {
			case <-applied:
			case err := <-setDone:
				_ = err
				r.Count("queued_reset_did_not_save", 1)
				a.Cl.After = nil
				return
			case <-time.After(20 * time.Second):
				r.Count("queued_reset_did_not_save", 1)
				a.Cl.After = nil
				return
			}
			// requests issued after the save was applied
			type res struct {
				call, ret int64
				err       error
				phys, log int64
			}
			nreq := 3
			results := make(chan res, nreq)
			for k := 0; k < nreq; k++ {
				go func() {
					c := hist.Tick()
					ts, err := x.w.TSO(0, a, 1, 0)
					results <- res{c, hist.Tick(), err, ts.Physical, ts.Logical}
				}()
			}
			// A's lease runs out, B wins, initialises and serves
			won := false
			for k := 0; k < 1200 && !won; k++ {
				if b.Campaign(true) == nil {
					won = true
				} else {
					time.Sleep(10 * time.Millisecond)
				}
			}
			var tB int64
			served := false
			if won {
				tB = hist.Tick()
				if b.Alloc.Initialize(0) == nil {
					if _, err := x.w.TSO(1, b, 1, 0); err == nil {
						served = true
					}
				}
				time.Sleep(300 * time.Millisecond)
			}
			tRel = hist.Tick()
			close(release)
			<-setDone
			a.Cl.After = nil
			var rs []res
			for k := 0; k < nreq; k++ {
				rs = append(rs, <-results)
			}
			if !won || !served {
				r.Count("queued_no_successor", 1)
				return
			}
			mu.Lock()
			judged++
			mu.Unlock()
			r.Count("queued_behind_save_rounds", 1)
			r.Eval(1)
			r.Distinct(fmt.Sprintf("queued-behind-save|lease=%d", x.w.Lease))
			for _, q := range rs {
				if q.call > tApp && q.ret > tRel {
					r.Count("queued_requests_answered_after_release", 1)
					if q.err == nil {
						r.Violation("timestamp-granted-after-lease-expired:queued-behind-window-save",
							fmt.Sprintf("member a answered a timestamp request (%d,%d) that was issued while its reset was saving the window and answered after the save's reply was released; by then a's lease had expired and member b had won a campaign (tick %d), initialised and served, before the release (tick %d)", q.phys, q.log, tB, tRel),
							map[string]interface{}{"lease_s": x.w.Lease, "round": i, "root": x.w.Root, "save_applied_tick": tApp, "b_campaign_tick": tB, "release_tick": tRel, "request_call": q.call, "request_ret": q.ret})
						break
					}
				} else {
					r.Count("queued_requests_answered_before_release", 1)
				}
			}
			b.Resign()
		}(i)
	}
	wg.Wait()
	if judged == 0 {
		r.Inconclusive("queued-behind-save phase: no round reached a serving successor")
	}
}

// usurpedOwner: member A is the leader with a valid lease and a saved window W_A; the leader record
// is taken away behind its back (deleted, member B campaigns and wins) while A's lease is still
// valid locally, and B persists a window far ahead. A's lease check alone cannot stop A from
// granting inside W_A, but A can never save a window again, so nothing A grants may reach W_A: the
// window extension that A needs once the clock arrives there must be refused.
func usurpedOwner(r *ev.Run, e *etcdx.Etcd, seed int64) {
	rounds := r.Pick(3, 12)
	judged := 0
	for i := 0; i < rounds; i++ {
		rng := rand.New(rand.NewSource(seed + int64(i)))
		x, err := newRun(r, e, rng, fmt.Sprintf("/c03/u%02d_%04d_", r.Shard, i), 2)
		if err != nil {
			r.Inconclusive("world: %v", err)
			return
		}
		x.w.Lease = 5
		a, b := x.w.Members[0], x.w.Members[1]
		if a.Campaign(true) != nil || a.Alloc.Initialize(0) != nil {
			x.w.Close()
			continue
		}
		x.w.TSO(0, a, 1, 0)
		wA, berr := x.w.DurableBound()
		if berr != nil || wA == 0 {
			x.w.Close()
			continue
		}
		// the record changes hands behind A's back
		e.Observer.Delete(context.Background(), x.w.LeaderKey())
		if b.Campaign(true) != nil || b.Alloc.Initialize(0) != nil {
			a.Resign()
			x.w.Close()
			continue
		}
		ahead := []time.Duration{10 * time.Minute, 3 * time.Second, 200 * time.Millisecond}[i%3]
		b.Alloc.SetTSO(tsoutil.GenerateTS(tsoutil.GenerateTimestamp(time.Now().Add(ahead), 0)))
		// the clock reaches W_A: A's periodic update has to extend the window now
		time.Sleep(70 * time.Millisecond)
		var updErrs []string
		granted := 0
		for k := 0; k < 4; k++ {
			if uerr := a.Alloc.UpdateTSO(); uerr != nil {
				updErrs = append(updErrs, uerr.Error())
			} else {
				updErrs = append(updErrs, "")
			}
			ts, terr := x.w.TSO(0, a, 1, 0)
			if terr == nil {
				granted++
				if ts.Physical*int64(time.Millisecond) >= wA {
					r.Violation("grant-beyond-last-owned-window-by-member-without-leader-record",
						fmt.Sprintf("member a lost the leader record to member b (deleted, b campaigned) while its lease was valid; the last window a saved as owner ends at %d ns, yet a granted physical %d ms (its window extensions returned %q)", wA, ts.Physical, updErrs),
						map[string]interface{}{"round": i, "root": x.w.Root, "b_moved_ahead_by": ahead.String(), "a_owned_window_ns": wA, "granted_physical_ms": ts.Physical, "update_results": updErrs})
					break
				}
			}
			time.Sleep(20 * time.Millisecond)
		}
		judged++
		r.Eval(1)
		r.Count("usurped_owner_rounds", 1)
		r.Count("usurped_owner_grants_inside_own_window", int64(granted))
		r.Distinct(fmt.Sprintf("usurped-owner|ahead=%s", ahead))
		b.Resign()
		a.Resign()
		x.w.Close()
		if r.Violations() > 0 {
			return
		}
	}
	if judged == 0 {
		r.Inconclusive("usurped-owner phase: no round could be set up")
	}
}
