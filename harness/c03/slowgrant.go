package main

import (
	"fmt"
	"math/rand"
	"sync"
	"time"

	"verif/harness/lib/etcdx"
	"verif/harness/lib/ev"
)

// slowGrant: the reply of member A's LeaseGrant is delayed at the etcd client boundary (an existing
// suspension point), A campaigns with that lease and no keep-alive reply ever refreshes it. etcd
// counts the lease from the moment it created it, so A's own idea of the expiry must not be later
// than etcd's: as soon as the leader record has expired in etcd and member B has won a campaign,
// A must not report a valid leadership nor grant timestamps.
// The verdict is an order of events (B's campaign acknowledged, then A probed), not a wall-clock
// value; the sleeps only place the events.
func slowGrant(r *ev.Run, e *etcdx.Etcd, seed int64) {
	fracs := []int{35, 60, 80} // delay of the reply in % of the lease
	rounds := r.Pick(3, 9)
	var wg sync.WaitGroup
	var done int32
	var mu sync.Mutex
	for i := 0; i < rounds; i++ {
		wg.Add(1)
		go func(i int) {
			defer wg.Done()
			rng := rand.New(rand.NewSource(seed + int64(i)))
			x, err := newRun(r, e, rng, fmt.Sprintf("/c03/s%02d_%04d_", r.Shard, i), 2)
			if err != nil {
				r.Inconclusive("world: %v", err)
				return
			}
			defer x.w.Close()
			lease := int64(2 + i/len(fracs)%2)
			x.w.Lease = lease
			a, b := x.w.Members[0], x.w.Members[1]
			delay := time.Duration(lease) * time.Second * time.Duration(fracs[i%len(fracs)]) / 100
			delayed := false
			a.Cl.After = func(rpc *etcdx.RPC) {
				if rpc.Method == "LeaseGrant" && rpc.Err == "" && !delayed {
					delayed = true
					time.Sleep(delay)
				}
			}
			err = a.Campaign(false)
			a.Cl.After = nil
			if err != nil || !delayed {
				r.Count("slow_grant_campaign_failed", 1)
				return
			}
			a.Alloc.Initialize(0)
			// B campaigns until the record has expired in etcd and it wins
			won := false
			for k := 0; k < 800 && !won; k++ {
				if b.Campaign(false) == nil {
					won = true
				} else {
					time.Sleep(10 * time.Millisecond)
				}
			}
			if !won {
				r.Count("slow_grant_no_successor", 1)
				return
			}
			aValid := a.M.GetLeadership().Check()
			_, tsoErr := x.w.TSO(0, a, 1, 0)
			mu.Lock()
			done++
			mu.Unlock()
			r.Count("slow_grant_rounds", 1)
			r.Eval(1)
			r.Distinct(fmt.Sprintf("slow-grant|lease=%d|delay=%d%%", lease, fracs[i%len(fracs)]))
			if aValid || tsoErr == nil {
				r.Violation("expired-member-still-valid-after-successor-elected:slow-lease-grant", fmt.Sprintf("member a's lease grant reply arrived %v late, no keep-alive refreshed it; the leader record expired in etcd and member b won a campaign, yet member a still reported a valid leadership (Check=%v, timestamp granted=%v)", delay, aValid, tsoErr == nil),
					map[string]interface{}{"lease_s": lease, "grant_reply_delay": delay.String(), "round": i, "root": x.w.Root, "events": x.events})
			}
			b.Resign()
		}(i)
	}
	wg.Wait()
	if done == 0 {
		r.Inconclusive("slow-grant phase: no round reached a successor's campaign")
	}
}
