package main

// "Laundered rules": rule objects may carry hidden derived state computed when a rule passes through
// the RuleManager (validation / adjustment on SetRule, copies made by GetRule / Clone). Hand-built
// Rule literals never have it. In this mode the generated rule list is stored in a real RuleManager,
// fetched back the way real callers do (GetRule, GetAllRules, GetRulesForApplyRegion, GetRulesByKey,
// Clone), edited in place on VISIBLE fields of copies the harness owns (read-modify-write, as
// server.SetReplicationConfig and the HTTP handlers do), optionally written back with SetRule and
// re-fetched, and those very objects are handed to FitRegion. The oracle reads only the exported
// fields of the objects that were passed in.

import (
	"encoding/json"
	"fmt"
	"math/rand"
	"os"

	"github.com/pingcap/kvproto/pkg/metapb"
	"github.com/pingcap/log"
	"github.com/tikv/pd/server/core"
	"github.com/tikv/pd/server/kv"
	"github.com/tikv/pd/server/schedule/placement"
	"go.uber.org/zap"
)

func quietLogs() {
	if os.Getenv("VERIF_LOG") != "" {
		return
	}
	lg, props, err := log.InitLogger(&log.Config{Level: "fatal", File: log.FileLogConfig{Filename: os.DevNull}})
	if err == nil {
		log.ReplaceGlobals(lg, props)
	} else {
		log.ReplaceGlobals(zap.NewNop(), nil)
	}
}

// plan = a directed (non-random) laundering recipe.
type plan struct {
	Fetch   int `json:"fetch"`   // 0 GetRule, 1 GetAllRules+Clone, 2 GetRulesForApplyRegion+Clone, 3 GetRulesByKey+Clone
	Edit    int `json:"edit"`    // see directedEdit
	Persist int `json:"persist"` // 0 no, 1 SetRule + GetRule, 2 SetRule + served objects of GetRulesForApplyRegion
}

type launderResult struct {
	rejected string
	rules    []*placement.Rule
	derived  *Case
	steps    []string
	findings []finding
	fetch    int
	edits    int
	persist  bool
}

var fetchNames = []string{"GetRule", "GetAllRules+Clone", "GetRulesForApplyRegion+Clone", "GetRulesByKey+Clone", "GetRulesForApplyRegion(served,unedited)"}

func plainRules(c *Case) []*placement.Rule {
	var out []*placement.Rule
	for i, r := range c.Rules {
		pr := &placement.Rule{GroupID: "pd", ID: r.ID, Index: i, Role: placement.PeerRoleType(r.Role), Count: r.Count,
			LocationLabels: append([]string(nil), r.Loc...)}
		for _, x := range r.Cons {
			pr.LabelConstraints = append(pr.LabelConstraints, placement.LabelConstraint{Key: x.Key, Op: placement.LabelConstraintOp(x.Op), Values: append([]string(nil), x.Values...)})
		}
		out = append(out, pr)
	}
	return out
}

// specOf reads the visible (exported) fields of a rule object.
func specOf(r *placement.Rule) RuleSpec {
	s := RuleSpec{ID: r.ID, Role: string(r.Role), Count: r.Count, Loc: append([]string(nil), r.LocationLabels...)}
	for _, x := range r.LabelConstraints {
		s.Cons = append(s.Cons, ConsSpec{Key: x.Key, Op: string(x.Op), Values: append([]string(nil), x.Values...)})
	}
	return s
}

func visible(rules []*placement.Rule) string {
	var specs []RuleSpec
	for _, r := range rules {
		specs = append(specs, specOf(r))
	}
	b, _ := json.Marshal(specs)
	return string(b)
}

func cloneAll(rs []*placement.Rule) []*placement.Rule {
	out := make([]*placement.Rule, 0, len(rs))
	for _, r := range rs {
		out = append(out, r.Clone())
	}
	return out
}

func wholeRangeRegion() *core.RegionInfo {
	return core.NewRegionInfo(&metapb.Region{Id: 1, RegionEpoch: &metapb.RegionEpoch{ConfVer: 1, Version: 1}}, nil)
}

// fetch returns rule objects the harness owns (copies), in the order the manager serves them.
func fetch(mgr *placement.RuleManager, method int, keys [][2]string) []*placement.Rule {
	switch method {
	case 0:
		var out []*placement.Rule
		for _, k := range keys {
			if r := mgr.GetRule(k[0], k[1]); r != nil {
				out = append(out, r)
			}
		}
		return out
	case 1:
		return cloneAll(mgr.GetAllRules())
	case 2:
		return cloneAll(mgr.GetRulesForApplyRegion(wholeRangeRegion()))
	case 3:
		return cloneAll(mgr.GetRulesByKey([]byte("a")))
	default:
		return mgr.GetRulesForApplyRegion(wholeRangeRegion()) // served objects: never edited
	}
}

var editKeys = []string{"zone", "zone", "host", "engine", "disk", "$x"}

// randomEdit changes one visible field of an owned rule object in place.
func randomEdit(rng *rand.Rand, r *placement.Rule) string {
	nc := len(r.LabelConstraints)
	kind := rng.Intn(12)
	if nc == 0 && kind < 7 {
		kind = 6
	}
	switch kind {
	case 0, 1: // overwrite one value inside the existing slice
		c := &r.LabelConstraints[rng.Intn(nc)]
		if len(c.Values) == 0 {
			c.Values = []string{pick(rng, alphas[keyOr(c.Key)])}
			return fmt.Sprintf("%s: constraint %s values = %v (was empty)", r.ID, c.Key, c.Values)
		}
		j := rng.Intn(len(c.Values))
		c.Values[j] = pick(rng, alphas[keyOr(c.Key)])
		return fmt.Sprintf("%s: constraint %s Values[%d] = %q (in place)", r.ID, c.Key, j, c.Values[j])
	case 2: // replace the value slice
		c := &r.LabelConstraints[rng.Intn(nc)]
		c.Values = []string{pick(rng, alphas[keyOr(c.Key)])}
		return fmt.Sprintf("%s: constraint %s Values = %v (new slice)", r.ID, c.Key, c.Values)
	case 3: // append a value
		c := &r.LabelConstraints[rng.Intn(nc)]
		c.Values = append(c.Values, pick(rng, alphas[keyOr(c.Key)]))
		return fmt.Sprintf("%s: constraint %s Values append -> %v", r.ID, c.Key, c.Values)
	case 4: // change the op
		c := &r.LabelConstraints[rng.Intn(nc)]
		c.Op = placement.LabelConstraintOp(opNames[rng.Intn(4)])
		if (c.Op == placement.In || c.Op == placement.NotIn) && len(c.Values) == 0 {
			c.Values = []string{pick(rng, alphas[keyOr(c.Key)])}
		}
		return fmt.Sprintf("%s: constraint %s Op = %s values %v", r.ID, c.Key, c.Op, c.Values)
	case 5: // change the key
		c := &r.LabelConstraints[rng.Intn(nc)]
		c.Key = pick(rng, editKeys)
		return fmt.Sprintf("%s: constraint Key = %s", r.ID, c.Key)
	case 6: // add a constraint
		k := pick(rng, editKeys)
		c := placement.LabelConstraint{Key: k, Op: placement.LabelConstraintOp(opNames[rng.Intn(4)])}
		if c.Op == placement.In || c.Op == placement.NotIn {
			c.Values = []string{pick(rng, alphas[k])}
		}
		r.LabelConstraints = append(r.LabelConstraints, c)
		return fmt.Sprintf("%s: add constraint %v", r.ID, c)
	case 7: // remove a constraint
		if nc == 0 {
			return ""
		}
		i := rng.Intn(nc)
		r.LabelConstraints = append(r.LabelConstraints[:i], r.LabelConstraints[i+1:]...)
		return fmt.Sprintf("%s: remove constraint #%d", r.ID, i)
	case 8:
		r.Count = 1 + rng.Intn(3)
		return fmt.Sprintf("%s: Count = %d", r.ID, r.Count)
	case 9:
		r.Role = placement.PeerRoleType(roleNames[rng.Intn(4)])
		return fmt.Sprintf("%s: Role = %s", r.ID, r.Role)
	case 10:
		r.LocationLabels = append([]string(nil), locChoices[[]int{0, 1, 2, 4, 5}[rng.Intn(5)]]...)
		return fmt.Sprintf("%s: LocationLabels = %v (new slice)", r.ID, r.LocationLabels)
	default:
		if len(r.LocationLabels) > 0 {
			j := rng.Intn(len(r.LocationLabels))
			r.LocationLabels[j] = []string{"zone", "host"}[rng.Intn(2)]
			return fmt.Sprintf("%s: LocationLabels[%d] = %s (in place)", r.ID, j, r.LocationLabels[j])
		}
		return ""
	}
}

func keyOr(k string) string {
	if _, ok := alphas[k]; ok {
		return k
	}
	return "nokey"
}

// directedEdit applies edit number e to the directed base rule: exactly one visible field changes.
func directedEdit(e int, r *placement.Rule) string {
	c := &r.LabelConstraints[0]
	switch e {
	case 0, 3:
		c.Values[0] = "z2"
		return "Values[0] = z2 (in place)"
	case 1:
		c.Values = []string{"z2"}
		return "Values = [z2] (new slice)"
	case 2:
		c.Op, c.Values = placement.In, []string{"z2"}
		return "Op = in, Values = [z2]"
	case 4:
		c.Values = append(c.Values, "z2")
		return "Values append z2"
	case 5:
		r.Count = 1
		return "Count = 1"
	case 6:
		r.Count = 3
		return "Count = 3"
	case 7:
		r.Role = placement.Follower
		return "Role = follower"
	case 8:
		r.Role = placement.Learner
		return "Role = learner"
	case 9:
		r.LocationLabels[0] = "host"
		return "LocationLabels[0] = host (in place)"
	case 10:
		r.LocationLabels = []string{"zone", "host"}
		return "LocationLabels = [zone host] (new slice)"
	case 11:
		r.LocationLabels = nil
		return "LocationLabels = nil"
	case 12:
		c.Key = "host"
		return "constraint Key = host"
	case 13:
		c.Op = placement.NotIn
		return "constraint Op = notIn"
	case 14:
		r.LabelConstraints = nil
		return "LabelConstraints = nil"
	default:
		r.LabelConstraints = append(r.LabelConstraints, placement.LabelConstraint{Key: "host", Op: placement.In, Values: []string{"h1"}})
		return "append constraint host in [h1]"
	}
}

// directedCases: five stores, four peers (one learner), a single voter rule with one zone
// constraint and a location label; every fetch method x single-field edit x persistence path.
func directedCases() []job {
	var out []job
	stores := []StoreSpec{plainStore(1, "z1", "h1"), plainStore(2, "z2", "h1"), plainStore(3, "z3", "h1"), plainStore(4, "z1", "h2"), plainStore(5, "z2", "h2")}
	peers := []PeerSpec{{ID: 11, Store: 1}, {ID: 12, Store: 2}, {ID: 13, Store: 3}, {ID: 14, Store: 4, Learner: true}}
	zin := ConsSpec{Key: "zone", Op: "in", Values: []string{"z1"}}
	bases := []ConsSpec{zin, zin, {Key: "zone", Op: "exists"}, {Key: "zone", Op: "notIn", Values: []string{"z1"}}}
	for len(bases) < 16 {
		bases = append(bases, zin)
	}
	idx := 0
	for e, b := range bases {
		for f := 0; f < 4; f++ {
			for p := 0; p < 3; p++ {
				c := &Case{Origin: "directed/laundered", Stores: stores, Peers: peers, Leader: 11,
					Rules: []RuleSpec{{ID: "r0", Role: "voter", Count: 2, Cons: []ConsSpec{{Key: b.Key, Op: b.Op, Values: append([]string(nil), b.Values...)}}, Loc: []string{"zone"}}}}
				out = append(out, job{c: c, tag: "directed_laundered", idx: idx, seed: uint64(idx) + 77, plan: &plan{Fetch: f, Edit: e, Persist: p}})
				idx++
			}
		}
	}
	return out
}

// launder runs the recipe (random from seed, or the directed plan) and returns the rule objects to
// pass to FitRegion together with the case as it is visible in their exported fields.
func launder(base *Case, seed uint64, pl *plan) *launderResult {
	res := &launderResult{}
	rng := rand.New(rand.NewSource(int64(seed)))
	step := func(f string, a ...interface{}) { res.steps = append(res.steps, fmt.Sprintf(f, a...)) }
	mgr := placement.NewRuleManager(core.NewStorage(kv.NewMemoryKV()), nil)
	if err := mgr.Initialize(3, []string{"zone", "host"}); err != nil {
		res.rejected = "initialize"
		return res
	}
	orig := plainRules(base)
	var keys [][2]string
	for _, r := range orig {
		keys = append(keys, r.Key())
	}
	if pl == nil && rng.Intn(2) == 0 {
		for _, r := range orig {
			if err := mgr.SetRule(r); err != nil {
				res.rejected = "set-rule"
				return res
			}
		}
		step("SetRule x%d", len(orig))
	} else {
		if err := mgr.SetRules(orig); err != nil {
			res.rejected = "set-rules"
			return res
		}
		step("SetRules(%d rules)", len(orig))
	}
	if err := mgr.DeleteRule("pd", "default"); err != nil {
		res.rejected = "delete-default"
		return res
	}
	// from here on `orig` belongs to the manager and is not touched again
	method := rng.Intn(5)
	if pl != nil {
		method = pl.Fetch
	}
	res.fetch = method
	rules := fetch(mgr, method, keys)
	step("fetch via %s -> %d rules", fetchNames[method], len(rules))
	if len(rules) == 0 || len(rules) > maxK {
		res.rejected = "fetch-count"
		return res
	}
	if method != 4 {
		served := visible(mgr.GetAllRules())
		nEdits := []int{0, 1, 1, 2, 3}[rng.Intn(5)]
		if pl != nil {
			step("edit %s: %s", rules[0].ID, directedEdit(pl.Edit, rules[0]))
			res.edits++
			nEdits = 0
		}
		for i := 0; i < nEdits; i++ {
			if s := randomEdit(rng, rules[rng.Intn(len(rules))]); s != "" {
				step("edit %s", s)
				res.edits++
			}
		}
		if now := visible(mgr.GetAllRules()); now != served {
			res.findings = append(res.findings, finding{"laundered:editing-a-returned-copy-changes-the-served-rules",
				fmt.Sprintf("after editing copies obtained via %s the manager serves %s, before the edits %s", fetchNames[method], now, served)})
		}
		persist := 0
		if pl != nil {
			persist = pl.Persist
		} else if res.edits > 0 && rng.Intn(5) < 2 {
			persist = 1 + rng.Intn(2)
		}
		if persist > 0 {
			ok := true
			for _, r := range rules {
				if err := mgr.SetRule(r); err != nil {
					step("SetRule(%s) rejected: %v", r.ID, err)
					ok = false
				}
			}
			if ok {
				res.persist = true
				// the objects handed to SetRule now belong to the manager: fetch again
				if persist == 1 {
					rules = fetch(mgr, 0, keys)
					step("SetRule(edited copies); fetch again via GetRule")
					if pl == nil && rng.Intn(3) == 0 {
						if s := randomEdit(rng, rules[rng.Intn(len(rules))]); s != "" {
							step("edit %s", s)
							res.edits++
						}
					}
				} else {
					rules = fetch(mgr, 4, keys)
					step("SetRule(edited copies); use the served objects of GetRulesForApplyRegion")
				}
				if len(rules) == 0 || len(rules) > maxK {
					res.rejected = "refetch-count"
					return res
				}
			} else {
				// rejected copies stay ours; rules accepted in the same loop now belong to the manager and
				// are only read from here on
				step("edited copies passed straight to FitRegion")
			}
		}
	}
	res.rules = rules
	d := &Case{Origin: base.Origin + "+laundered", Stores: base.Stores, Peers: base.Peers, Leader: base.Leader}
	for _, r := range rules {
		d.Rules = append(d.Rules, specOf(r))
	}
	res.derived = d
	return res
}
