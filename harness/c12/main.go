// C12 — Rule fitting partitions peers correctly and picks the best assignment.
//
// For generated (stores with labels, region peers with roles and a leader, ordered rule list) the
// real placement.FitRegion is called and its result is judged by an independent brute force over all
// (K+1)^n peer -> {rule, orphan} maps (n <= 6, K <= 4): partition, constraint satisfaction (incl.
// exclusive labels), role convertibility, count limits, exactness of PeersWithDifferentRole,
// recomputed IsolationScore, IsSatisfied, and optimality under the documented order — by the model's
// own comparison and through the exported placement.CompareRegionFit both ways.
package main

import (
	"encoding/json"
	"fmt"
	"io/ioutil"
	"math/rand"
	"os"
	"runtime/pprof"
	"strings"
	"sync"

	"verif/harness/lib/ev"
)

type runner struct {
	r        *ev.Run
	mu       sync.Mutex
	reported map[string]bool
	jobs     chan job
	wg       sync.WaitGroup
}

type job struct {
	c       *Case
	tag     string
	idx     int
	seed    uint64
	launder uint64 // != 0: pass the rules through a RuleManager first (random recipe from this seed)
	plan    *plan  // directed laundering recipe
	hist    uint64 // != 0: a sequential history on a long-lived world with this seed
}

// start launches the evaluation workers. The list of cases is fixed by seed and tier; the workers
// only share the accounting (ev.Run is internally locked). FitRegion works on per-case objects.
func (x *runner) start(workers int) {
	x.jobs = make(chan job, 256)
	for w := 0; w < workers; w++ {
		x.wg.Add(1)
		go func() {
			defer x.wg.Done()
			lc := newLocal()
			for j := range x.jobs {
				x.handle(lc, j)
			}
			lc.flush(x.r)
		}()
	}
}

// local = per-goroutine accounting, merged into the evidence when the goroutine ends (keeps the
// shared lock out of the hot path).
type local struct {
	counts map[string]int64
	evals  int64
	cache  storeCache
}

func newLocal() *local { return &local{counts: map[string]int64{}} }

func (l *local) count(name string, n int64) { l.counts[name] += n }

func (l *local) flush(r *ev.Run) {
	for k, v := range l.counts {
		r.Count(k, v)
	}
	r.Eval(l.evals)
}

func (x *runner) wait() { close(x.jobs); x.wg.Wait() }

func hasKey(o *outcome, key string) bool {
	for _, f := range o.Findings {
		if f.Key == key {
			return true
		}
	}
	return false
}

// shrink greedily reduces a failing case while the same clause stays refuted (minimal witness).
func shrink(c *Case, key string, seed uint64) *Case {
	cur := c.clone()
	try := func(cand *Case) bool {
		if len(cand.Peers) == 0 || len(cand.Rules) == 0 {
			return false
		}
		o := judge(cand, seed, nil)
		if hasKey(o, key) {
			cur = cand
			return true
		}
		return false
	}
	for round := 0; round < 50; round++ {
		progress := false
		for i := 0; i < len(cur.Rules); i++ { // drop a rule
			n := cur.clone()
			n.Rules = append(n.Rules[:i:i], n.Rules[i+1:]...)
			if try(n) {
				progress = true
				i--
			}
		}
		for i := 0; i < len(cur.Peers); i++ { // drop a peer
			n := cur.clone()
			gone := n.Peers[i]
			n.Peers = append(n.Peers[:i:i], n.Peers[i+1:]...)
			if gone.ID == n.Leader {
				n.Leader = 0
				for _, p := range n.Peers {
					if !p.Learner {
						n.Leader = p.ID
						break
					}
				}
				if n.Leader == 0 {
					continue
				}
			}
			if try(n) {
				progress = true
				i--
			}
		}
		for i := 0; i < len(cur.Stores); i++ { // drop an unused store
			used := false
			for _, p := range cur.Peers {
				if p.Store == cur.Stores[i].ID {
					used = true
				}
			}
			if used {
				continue
			}
			n := cur.clone()
			n.Stores = append(n.Stores[:i:i], n.Stores[i+1:]...)
			if try(n) {
				progress = true
				i--
			}
		}
		for ri := range cur.Rules {
			for i := 0; i < len(cur.Rules[ri].Cons); i++ { // drop a constraint
				n := cur.clone()
				n.Rules[ri].Cons = append(n.Rules[ri].Cons[:i:i], n.Rules[ri].Cons[i+1:]...)
				if try(n) {
					progress = true
					i--
				}
			}
			for i := 0; i < len(cur.Rules[ri].Loc); i++ { // drop a location label
				n := cur.clone()
				n.Rules[ri].Loc = append(n.Rules[ri].Loc[:i:i], n.Rules[ri].Loc[i+1:]...)
				if try(n) {
					progress = true
					i--
				}
			}
			if cur.Rules[ri].Count > 1 { // lower the count
				n := cur.clone()
				n.Rules[ri].Count--
				if try(n) {
					progress = true
				}
			}
		}
		for si := range cur.Stores {
			for i := 0; i < len(cur.Stores[si].Labels); i++ { // drop a store label
				n := cur.clone()
				n.Stores[si].Labels = append(n.Stores[si].Labels[:i:i], n.Stores[si].Labels[i+1:]...)
				if try(n) {
					progress = true
					i--
				}
			}
		}
		for i := range cur.Peers { // learner -> voter
			if cur.Peers[i].Learner {
				n := cur.clone()
				n.Peers[i].Learner = false
				if try(n) {
					progress = true
				}
			}
		}
		if !progress {
			break
		}
	}
	return cur
}

func witnessOf(c *Case, o *outcome) map[string]interface{} {
	return map[string]interface{}{
		"case": c, "fit_region_result": o.Got, "fit_region_orphans": o.GotOrphan, "is_satisfied": o.GotSat,
		"fit_region_vector": o.gotVec(), "brute_force_best": o.best(), "brute_force_vector": o.bestVec(), "findings": o.Findings,
	}
}

// handle evaluates one case and does all the accounting.
const histSteps = 14

// runWorld: sequential history; with conc additionally the three concurrent phases.
func (x *runner) runWorld(lc *local, seed uint64, conc bool) {
	w := newWorld(seed)
	if w == nil {
		lc.count("worlds_not_built", 1)
		return
	}
	if !conc {
		lc.count("worlds_sequential", 1)
		w.runSequential(x, lc, histSteps)
		return
	}
	lc.count("worlds_concurrent", 1)
	w.runSequential(x, lc, 3)
	w.runConcurrent(x, "readers-only", 4, 10, 0)
	w.runConcurrent(x, "rule-updates", 4, 14, 10)
	w.runConcurrent(x, "store-label-updates", 4, 14, 10)
	for i := 0; i < 3; i++ {
		w.runParkedWriter(x, 3)
	}
	// and the long-lived objects once more, sequentially, after the concurrent updates
	for ri := range w.regions {
		w.fit(x, lc, ri, "history_fit", ":only-with-long-lived-objects")
	}
}

// judged accounts for and reports one judged result of the history families. suffix is appended to
// the key when the same visible case fits correctly on fresh objects.
func (x *runner) judged(lc *local, tag string, c *Case, o *outcome, suffix string, seed uint64, wit func() map[string]interface{}) {
	r := x.r
	lc.evals++
	lc.count("cases_"+tag, 1)
	if o == nil || c == nil {
		return
	}
	if o.Skip != "" {
		lc.count("skipped_ambiguous", 1)
		lc.count("skipped_ambiguous:"+o.Skip, 1)
		return
	}
	lc.count("judged", 1)
	if br := o.brute; br != nil {
		lc.count("assignments_examined", int64(br.total))
		lc.count("valid_assignments", int64(br.valid))
		lc.count("comparator_pairs_checked", int64(o.pairs))
		if s, ok := o.GotSat.(bool); ok && s {
			lc.count("cases_satisfied", 1)
		}
		if br.valid >= 2 {
			r.Distinct(o.shape + "|" + tag)
		}
	}
	for _, f := range o.Findings {
		if strings.HasPrefix(f.Key, "harness:") {
			r.Inconclusive("%s: %s (%s)", f.Key, f.What, tag)
			continue
		}
		plainFails := hasKey(judge(c, seed, nil), f.Key)
		key := f.Key
		if !plainFails {
			key += suffix
		}
		lc.count("refuted:"+key, 1)
		x.mu.Lock()
		seen := x.reported[key]
		x.reported[key] = true
		x.mu.Unlock()
		if seen {
			lc.count("refuted_further_cases", 1)
			continue
		}
		w := map[string]interface{}{"tag": tag, "case_seed": seed, "original": witnessOf(c, o), "history": wit()}
		what := f.What
		if plainFails {
			min := shrink(c, f.Key, seed)
			w["minimal"] = witnessOf(min, judge(min, seed, nil))
		} else {
			what += " [the same visible stores / region / rules as fresh objects are fitted correctly: the long-lived objects carry state that differs from what they show; see history.steps]"
		}
		r.Violation(key, what, w)
	}
}

func (x *runner) handle(lc *local, j job) {
	r := x.r
	if j.hist != 0 {
		x.runWorld(lc, j.hist, false)
		return
	}
	c, tag, idx, seed := j.c, j.tag, j.idx, j.seed
	var lr *launderResult
	var o *outcome
	if j.launder != 0 || j.plan != nil {
		lr = launder(c, j.launder, j.plan)
		if lr.rejected != "" {
			lc.count("laundered_rejected_by_manager_judged_plain", 1)
			lc.count("laundered_rejected:"+lr.rejected, 1)
			lr = nil
		}
	}
	if lr != nil {
		c = lr.derived
		o = judgeRules(c, seed, &lc.cache, lr.rules)
		o.Findings = append(o.Findings, lr.findings...)
		o.shape += "|via:" + fetchNames[lr.fetch]
		lc.count("cases_laundered", 1)
		lc.count("laundered_fetch:"+fetchNames[lr.fetch], 1)
		lc.count("laundered_visible_field_edits", int64(lr.edits))
		if lr.edits > 0 {
			lc.count("cases_laundered_with_edits", 1)
		}
		if lr.persist {
			lc.count("cases_laundered_edited_copy_written_back_and_refetched", 1)
		}
	} else {
		o = judge(c, seed, &lc.cache)
	}
	lc.evals++
	lc.count("cases_"+tag, 1)
	if o.Skip != "" {
		lc.count("skipped_ambiguous", 1)
		lc.count("skipped_ambiguous:"+o.Skip, 1)
		if o.partOnly {
			lc.count("skipped_but_checked_for_panic_and_partition", 1)
		}
		if len(o.Findings) == 0 {
			return
		}
	} else {
		lc.count("judged", 1)
	}
	if o.jsonRules {
		lc.count("cases_rule_objects_decoded_from_json", 1)
	}
	if strings.HasSuffix(c.Origin, "+hazard") {
		lc.count("judged_with_hazard_that_does_not_matter", 1)
	}
	if br := o.brute; br != nil {
		lc.count("assignments_examined", int64(br.total))
		lc.count("valid_assignments", int64(br.valid))
		lc.count("comparator_pairs_checked", int64(o.pairs))
		lc.count(fmt.Sprintf("peers_%d", len(c.Peers)), 1)
		lc.count(fmt.Sprintf("rules_%d", len(c.Rules)), 1)
		if br.optimal > 1 {
			lc.count("cases_with_several_optimal_assignments", 1)
		}
		if br.deepTie {
			lc.count("cases_tie_on_rule0_decided_later", 1)
		}
		if o.exclBlock {
			lc.count("cases_exclusive_label_keeps_store_out_of_a_rule", 1)
		}
		if o.exclAdmit {
			lc.count("cases_exclusive_label_store_admitted_by_rule_naming_it", 1)
		}
		if br.bestVec.orphans > 0 {
			lc.count("cases_best_has_orphans", 1)
		}
		mis := false
		for _, m := range br.bestVec.rules[:br.bestVec.k] {
			if m.mis > 0 {
				mis = true
			}
		}
		if mis {
			lc.count("cases_best_has_role_mismatch", 1)
		}
		if s, ok := o.GotSat.(bool); ok && s {
			lc.count("cases_satisfied", 1)
		}
		if br.valid >= 2 {
			// non-trivial: at least one peer can go into at least one rule, i.e. there is a choice
			r.Distinct(o.shape)
		} else {
			lc.count("cases_trivial_only_all_orphan_valid", 1)
		}
		if idx%977 == 3 && br.valid >= 4 {
			r.Sample(map[string]interface{}{"case": c, "fit_region_result": o.Got, "orphans": o.GotOrphan, "is_satisfied": o.GotSat,
				"valid_assignments": br.valid, "optimal_assignments": br.optimal, "best_vector": o.bestVec()})
		}
	}
	for _, f := range o.Findings {
		if strings.HasPrefix(f.Key, "harness:") {
			r.Inconclusive("%s: %s (case %s #%d)", f.Key, f.What, tag, idx)
			continue
		}
		key := f.Key
		plainFails := true
		if lr != nil {
			// does the same visible case fail with hand-built rule objects too?
			plainFails = hasKey(judge(c, seed, nil), f.Key)
			if !plainFails {
				key += ":only-with-rule-objects-from-rule-manager"
			}
		}
		lc.count("refuted:"+key, 1)
		x.mu.Lock()
		seen := x.reported[key]
		x.reported[key] = true
		x.mu.Unlock()
		if seen {
			lc.count("refuted_further_cases", 1) // the first witness of this key is (being) written
			continue
		}
		wit := map[string]interface{}{"tag": tag, "case_index": idx, "case_seed": seed, "original": witnessOf(c, o)}
		what := f.What
		if plainFails {
			min := shrink(c, f.Key, seed)
			mo := judge(min, seed, nil)
			for _, mf := range mo.Findings {
				if mf.Key == f.Key {
					what = mf.What
				}
			}
			wit["minimal"] = witnessOf(min, mo)
		}
		if lr != nil {
			wit["laundered"] = map[string]interface{}{"base_case": j.c, "launder_seed": j.launder, "plan": j.plan, "steps": lr.steps,
				"note": "original.case shows the exported fields of the rule objects that were passed to FitRegion"}
			if !plainFails {
				what += " [the same visible rules built as plain literals are fitted correctly: the rule objects obtained from the RuleManager carry state that differs from their visible fields; steps: " + strings.Join(lr.steps, "; ") + "]"
			}
		}
		r.Violation(key, what, wit)
	}
}

func (x *runner) replay(path string) {
	r := x.r
	b, err := ioutil.ReadFile(path)
	if err != nil {
		r.Inconclusive("replay: %v", err)
		return
	}
	var doc struct {
		Witness struct {
			Seed    uint64 `json:"case_seed"`
			Minimal struct {
				Case *Case `json:"case"`
			} `json:"minimal"`
			Original struct {
				Case *Case `json:"case"`
			} `json:"original"`
			History *struct {
				Seed uint64 `json:"world_seed"`
				Kind string `json:"kind"`
			} `json:"history"`
			Laundered *struct {
				Base *Case  `json:"base_case"`
				Seed uint64 `json:"launder_seed"`
				Plan *plan  `json:"plan"`
			} `json:"laundered"`
		} `json:"witness"`
	}
	if err := json.Unmarshal(b, &doc); err != nil {
		r.Inconclusive("replay: %v", err)
		return
	}
	n := 0
	lc := newLocal()
	defer func() { lc.flush(r) }()
	if h := doc.Witness.History; h != nil && h.Seed != 0 {
		for rep := 0; rep < 5; rep++ { // concurrent phases are not deterministic: a few repetitions
			x.runWorld(lc, h.Seed, strings.HasPrefix(h.Kind, "concurrent"))
			if !strings.HasPrefix(h.Kind, "concurrent") {
				break
			}
		}
		r.Distinct("replay-history")
		n++
	}
	if l := doc.Witness.Laundered; l != nil && l.Base != nil {
		x.handle(lc, job{c: l.Base, tag: "replay", idx: 100, seed: doc.Witness.Seed, launder: l.Seed, plan: l.Plan})
		r.Distinct("replay-laundered")
		n++
	}
	for _, c := range []*Case{doc.Witness.Minimal.Case, doc.Witness.Original.Case} {
		if c != nil {
			x.handle(lc, job{c: c, tag: "replay", idx: n, seed: doc.Witness.Seed})
			r.Distinct(fmt.Sprintf("replay-%d", n))
			n++
		}
	}
	if n == 0 {
		r.Inconclusive("replay: no case in %s", path)
	}
}

func main() {
	r := ev.New("C12", "exploration")
	r.Rule("random: a cluster of 3-8 stores with zone/rack/host/disk/engine/$x/$y/exclusive labels, a region of 1-6 peers on distinct stores (voters/learners, leader among the voters, peer ids unrelated to list order), 1-4 ordered rules (role voter/leader/follower/learner, count 1-4, 0-2 constraints in/notIn/exists/notExists, 0-3 location labels); three profiles (generic, tie-heavy plain clusters, voters+tiflash-learners); 25% of the cases are rewritten with letter-case variants of the same words in label keys / values / rule keys / constraint values (z1/Z1), values that are prefixes of each other (z1/z10) and empty values, 10% additionally get one or two such edits or a dropped label; a complete directed grid of three stores with zone/host values from such variants. exhaustive: every (store subset, learner mask, leader) x every ordered pair of rules from role x count x constraint x location-label options over a fixed small cluster. A case is counted distinct non-trivial when at least two valid assignments exist, keyed by its abstract shape: peer roles + leader, and per rule role/count/#location labels, which peers' stores satisfy the constraints, and the pairwise first-differing location level")
	r.Assume("oracle = independent Go model written from the property statement and the doc comments (constraint ops, exclusive labels '$*'/engine/exclusive, role matching and the only impossible conversion non-learner->learner, isolation score = sum over peer pairs of 100^(L-i-1), order: per rule more peers, fewer mismatches, higher isolation, then fewer orphans); brute force over ALL (K+1)^n maps")
	r.Assume("FitRegion is called with a StoreSet that holds every store of the cluster (GetStores) and resolves every peer's store (GetStore); peers sit on distinct stores, roles are Voter/Learner only (no joint-consensus roles), exactly one leader and it is a voter, counts >= 1, label keys unique per store")
	r.Assume("label conventions mirrored from pd (independently computed): keys looked up ignoring letter case, empty value = label not set, location values compared ignoring letter case, unset location label = same place as anyone, constraint values compared exactly. Still undecided and judged only when all readings agree (else skipped_ambiguous): letter case of exclusive label keys (engine/exclusive/$*) and of their being named in the constraints, an exclusive key with an empty value")
	r.Assume("laundered mode (40% of the random cases + a directed family): the rule list is stored in a real placement.RuleManager (memory kv), fetched back via GetRule / GetAllRules / GetRulesForApplyRegion / GetRulesByKey (+Clone), visible fields of harness-owned copies are edited in place, optionally SetRule + re-fetch, and those objects go to FitRegion; the model reads only their exported fields. Rule lists the manager rejects (e.g. leader rule with count > 1) are judged as plain literals and counted")
	r.Assume("history families: one core.BasicCluster + one RuleManager + three regions live across a history (store labels replaced by Clone(SetStoreLabels)+PutStore, rules by SetRule/SetRules/DeleteRule and get-edit-set incl. injected storage write failures, regions by RegionInfo.Clone(With...)); entry point RuleManager.FitRegion(cluster, region); the case judged is read back from what the objects show. Concurrent phases are free running: a reader's result is judged against the rule objects it reports and the store objects its own call was handed (recording view); calls whose listing and per-peer lookups disagree in a way that triggers the implementation's 'rule matches no store' shortcut are skipped; hidden lazily-written state is left to the race detector")
	quietLogs()
	x := &runner{r: r, reported: map[string]bool{}}
	if r.Replay != "" {
		x.replay(r.Replay)
		r.Floor(1)
		r.Finish()
	}
	rng := rand.New(rand.NewSource(r.ShardSeed()))
	if p := os.Getenv("VERIF_CPUPROFILE"); p != "" { // diagnostics only
		if f, err := os.Create(p); err == nil {
			pprof.StartCPUProfile(f)
			defer pprof.StopCPUProfile()
		}
	}

	// phase 1: exhaustive small layout (quick: 3 peers over 4 stores; thorough: 4 peers over 3 zones x 2 hosts)
	lay := quickLayout()
	if r.Thorough() {
		lay = thoroughLayout()
	}
	workers := 8
	if r.Shards > 1 {
		workers = 2
	}
	x.start(workers)
	if r.Shard == 0 { // directed laundered family first: its witnesses are the small ones
		for _, j := range directedCases() {
			x.jobs <- j
		}
	}
	if r.Shard == 0 {
		oneFieldGrid(func(idx int, c *Case) {
			x.jobs <- job{c: c, tag: "directed_rules_differing_in_one_field", idx: idx, seed: uint64(idx)*5 + uint64(idx%2)} // every other one JSON-decoded
		})
		caseVariantGrid(func(idx int, c *Case) {
			x.jobs <- job{c: c, tag: "directed_case_variants", idx: idx, seed: uint64(idx)*40503 + 9}
		})
	}
	done := 0
	lay.each(r.Shard, r.Shards, func(idx int, c *Case) {
		x.jobs <- job{c: c, tag: "exhaustive", idx: idx, seed: uint64(idx)*2654435761 + 12345}
		done++
	})
	r.Set("exhaustive_layout", lay.name)
	if r.Shard == 0 { // numeric extras are summed over shards by the driver
		r.Set("exhaustive_layout_size", lay.size())
	}
	r.Set("exhaustive_layout_cases_done", done) // summed over shards by the driver
	r.Set("exhaustive_layout_complete", true)   // every shard walks its residue class completely

	// phase 2: random cases
	n := r.Pick(30000, 100000)
	for i := 0; i < n; i++ {
		seed := rng.Uint64()
		c := genCase(rand.New(rand.NewSource(int64(seed))))
		j := job{c: c, tag: "random", idx: i, seed: seed}
		if seed%10 < 4 {
			j.launder = seed>>8 | 1
		}
		x.jobs <- j
	}
	// phase 3: sequential histories on long-lived worlds (jobs), then worlds with concurrent phases
	nh := r.Pick(400, 600)
	for i := 0; i < nh; i++ {
		x.jobs <- job{hist: rng.Uint64() | 1}
	}
	x.wait()
	lc := newLocal()
	nc := r.Pick(40, 60)
	for i := 0; i < nc; i++ {
		x.runWorld(lc, rng.Uint64()|1, true)
	}
	lc.flush(r)
	r.Set("workers_per_process", fmt.Sprint(workers))
	r.Floor(int64(n))
	pprof.StopCPUProfile()
	r.Finish()
}
