package main

import (
	"encoding/json"
	"fmt"
	"sort"
	"strings"

	"github.com/pingcap/kvproto/pkg/metapb"
	"github.com/tikv/pd/server/core"
	"github.com/tikv/pd/server/schedule/placement"
)

// ---- real pd objects ----

type storeSet struct {
	list []*core.StoreInfo
	byID map[uint64]*core.StoreInfo
}

func (s *storeSet) GetStores() []*core.StoreInfo       { return s.list }
func (s *storeSet) GetStore(id uint64) *core.StoreInfo { return s.byID[id] }

type pdInput struct {
	stores *storeSet
	region *core.RegionInfo
	rules  []*placement.Rule
	peers  []*metapb.Peer // parallel to Case.Peers
}

func buildPD(c *Case, cache *storeCache, rules []*placement.Rule) *pdInput {
	in := &pdInput{}
	if cache != nil && len(c.Stores) > 0 && cache.first == &c.Stores[0] && cache.n == len(c.Stores) {
		in.stores = cache.set
	} else {
		in.stores = buildStores(c)
		if cache != nil && len(c.Stores) > 0 {
			cache.first, cache.n, cache.set = &c.Stores[0], len(c.Stores), in.stores
		}
	}
	var leader *metapb.Peer
	for _, p := range c.Peers {
		mp := &metapb.Peer{Id: p.ID, StoreId: p.Store, Role: metapb.PeerRole_Voter}
		if p.Learner {
			mp.Role = metapb.PeerRole_Learner
		}
		switch p.Role {
		case "incoming":
			mp.Role = metapb.PeerRole_IncomingVoter
		case "demoting":
			mp.Role = metapb.PeerRole_DemotingVoter
		}
		if p.ID == c.Leader {
			leader = mp
		}
		in.peers = append(in.peers, mp)
	}
	in.region = core.NewRegionInfo(&metapb.Region{Id: 1, Peers: in.peers, RegionEpoch: &metapb.RegionEpoch{ConfVer: 1, Version: 1}}, leader)
	if rules != nil {
		in.rules = rules // objects obtained from a RuleManager: used as they are
	} else {
		in.rules = plainRules(c)
	}
	return in
}

func buildStores(c *Case) *storeSet {
	set := &storeSet{byID: map[uint64]*core.StoreInfo{}}
	for _, s := range c.Stores {
		ms := &metapb.Store{Id: s.ID, Address: fmt.Sprintf("mock://store-%d", s.ID)}
		for _, l := range s.Labels {
			ms.Labels = append(ms.Labels, &metapb.StoreLabel{Key: l.K, Value: l.V})
		}
		si := core.NewStoreInfo(ms)
		set.list = append(set.list, si)
		set.byID[s.ID] = si
	}
	return set
}

// ---- verdict on one case ----

type finding struct {
	Key  string `json:"key"`
	What string `json:"what"`
}

type ruleOut struct {
	Rule       string   `json:"rule"`
	Peers      []uint64 `json:"peers"`
	Mismatched []uint64 `json:"peers_with_different_role"`
	Isolation  float64  `json:"isolation_score"`
}

type outcome struct {
	Skip      string    // non-empty: not judged (ambiguous zone)
	Findings  []finding // refuted clauses
	Got       []ruleOut // what FitRegion returned
	GotOrphan []uint64
	GotSat    interface{}
	m         *model
	gv        *fitVec // model metrics of FitRegion's assignment (when it is a partition)
	brute     *bruteResult
	shape     string
	pairs     int
	jsonRules bool // the rule objects were decoded from JSON
	partOnly  bool // only the model-free clauses were checked
	exclBlock bool // some peer's store is kept out of some rule only by an exclusive label
	exclAdmit bool // some peer's store carries an exclusive label and is admitted by a rule naming it
}

func ids(ps []*metapb.Peer) []uint64 {
	out := make([]uint64, 0, len(ps))
	for _, p := range ps {
		out = append(out, p.GetId())
	}
	return out
}

func vecString(v *fitVec) string {
	var b strings.Builder
	for i, r := range v.rules[:v.k] {
		fmt.Fprintf(&b, "rule%d(peers=%d mismatch=%d iso=%g) ", i, r.cnt, r.mis, r.iso)
	}
	fmt.Fprintf(&b, "orphans=%d", v.orphans)
	return b.String()
}

// toRegionFit renders a model assignment as a placement.RegionFit (metrics by the model).
func (m *model) toRegionFit(in *pdInput, a []int8) *placement.RegionFit {
	v := m.metricsOf(a)
	f := &placement.RegionFit{}
	for k := 0; k < m.k; k++ {
		rf := &placement.RuleFit{Rule: in.rules[k], IsolationScore: v.rules[k].iso}
		for j := 0; j < m.n; j++ {
			if int(a[j]) == k {
				rf.Peers = append(rf.Peers, in.peers[j])
				if !m.strict[k][j] {
					rf.PeersWithDifferentRole = append(rf.PeersWithDifferentRole, in.peers[j])
				}
			}
		}
		f.RuleFits = append(f.RuleFits, rf)
	}
	for j := 0; j < m.n; j++ {
		if a[j] < 0 {
			f.OrphanPeers = append(f.OrphanPeers, in.peers[j])
		}
	}
	return f
}

func (m *model) assignmentMap(a []int8) map[string][]uint64 {
	out := map[string][]uint64{}
	for j := 0; j < m.n; j++ {
		key := "orphan"
		if a[j] >= 0 {
			key = fmt.Sprintf("%d:%s", a[j], m.c.Rules[a[j]].ID)
		}
		out[key] = append(out[key], m.c.Peers[j].ID)
	}
	return out
}

func (m *model) shapeKey() string {
	var b strings.Builder
	for j := 0; j < m.n; j++ {
		switch {
		case m.leader[j] && m.c.Peers[j].Role != "":
			b.WriteByte('J')
		case m.leader[j]:
			b.WriteByte('L')
		case m.c.Peers[j].Role != "":
			b.WriteByte('j')
		case m.learner[j]:
			b.WriteByte('l')
		default:
			b.WriteByte('v')
		}
	}
	for k := 0; k < m.k; k++ {
		r := &m.c.Rules[k]
		b.WriteByte('|')
		b.WriteString(r.Role[:2])
		b.WriteByte(byte('0' + r.Count))
		b.WriteByte('/')
		b.WriteByte(byte('0' + len(r.Loc)))
		b.WriteByte(':')
		for j := 0; j < m.n; j++ {
			if m.p.sat[k][j] {
				b.WriteByte('1')
			} else {
				b.WriteByte('0')
			}
		}
		for i := 0; i < m.n; i++ {
			for j := i + 1; j < m.n; j++ {
				b.WriteByte(byte('0' + 1 + m.p.lvl[k][i][j]))
			}
		}
	}
	return b.String()
}

func (o *outcome) bestVec() string {
	if o.brute == nil {
		return ""
	}
	return vecString(&o.brute.bestVec)
}

func (o *outcome) gotVec() string {
	if o.gv == nil {
		return ""
	}
	return vecString(o.gv)
}

func (o *outcome) best() map[string][]uint64 {
	if o.brute == nil {
		return nil
	}
	return o.m.assignmentMap(o.brute.best)
}

// storeCache lets one goroutine reuse the StoreInfo objects of a cluster that is shared by many
// consecutive cases (exhaustive layouts). FitRegion only reads stores.
type storeCache struct {
	first *StoreSpec
	n     int
	set   *storeSet
}

// judge runs the real FitRegion on the case and checks every clause of the property against the model.
func judge(c *Case, seed uint64, cache *storeCache) *outcome { return judgeRules(c, seed, cache, nil) }

// judgeRules: rules == nil builds plain Rule literals from the case; otherwise the given objects are
// passed to FitRegion and c.Rules must be what their exported fields show.
func judgeRules(c *Case, seed uint64, cache *storeCache, rules []*placement.Rule) (out *outcome) {
	out = &outcome{}
	m, skip := newModel(c)
	if skip != "" {
		out.Skip = skip
		if skip == "peer-without-store" {
			// only with rule lists the rule manager would accept field-wise (count > 0, known role):
			// anything else cannot reach FitRegion in a server
			ok := true
			for _, r := range c.Rules {
				if r.Count < 1 || (r.Role != "voter" && r.Role != "leader" && r.Role != "follower" && r.Role != "learner") {
					ok = false
				}
			}
			if ok {
				partitionOnly(out, c, buildPD(c, cache, rules))
			}
		}
		return out
	}
	add := func(key, format string, a ...interface{}) {
		for _, f := range out.Findings {
			if f.Key == key {
				return
			}
		}
		out.Findings = append(out.Findings, finding{key, fmt.Sprintf(format, a...)})
	}
	in := buildPD(c, cache, rules)
	if rules == nil && seed%5 == 0 {
		// the same rules as they come out of JSON (HTTP API, storage) instead of Go literals
		if jr := jsonRules(in.rules); jr != nil {
			in.rules = jr
			out.jsonRules = true
		}
	}
	var got *placement.RegionFit
	func() {
		defer func() {
			if p := recover(); p != nil {
				add("panic:FitRegion", "placement.FitRegion panicked: %v", p)
			}
		}()
		got = placement.FitRegion(in.stores, in.region, in.rules)
	}()
	if got == nil {
		if len(out.Findings) == 0 {
			add("result:nil", "FitRegion returned nil")
		}
		return out
	}
	evaluate(out, c, m, in, got, seed)
	return out
}

func jsonRules(rules []*placement.Rule) []*placement.Rule {
	b, err := json.Marshal(rules)
	if err != nil {
		return nil
	}
	var out []*placement.Rule
	if json.Unmarshal(b, &out) != nil || len(out) != len(rules) {
		return nil
	}
	return out
}

// partitionOnly runs FitRegion on a case the model does not judge (joint-consensus roles, a peer
// whose store is unknown) and checks what needs no model: no panic in FitRegion / IsSatisfied, one
// RuleFit per rule, every peer of the region exactly once in a rule or in the orphan list, no
// foreign peer, no more peers than Count, and a peer without a store record in no rule at all
// (MatchLabelConstraints documents "store == nil -> false" and the score would dereference it).
func partitionOnly(out *outcome, c *Case, in *pdInput) {
	out.partOnly = true
	add := func(key, format string, a ...interface{}) {
		out.Findings = append(out.Findings, finding{key, fmt.Sprintf(format, a...)})
	}
	var got *placement.RegionFit
	func() {
		defer func() {
			if p := recover(); p != nil {
				add("panic:FitRegion", "placement.FitRegion panicked: %v", p)
			}
		}()
		got = placement.FitRegion(in.stores, in.region, in.rules)
		_ = got.IsSatisfied()
	}()
	if got == nil || len(out.Findings) > 0 {
		return
	}
	if len(got.RuleFits) != len(c.Rules) {
		add("result:rule-fit-count", "result has %d rule fits for %d rules", len(got.RuleFits), len(c.Rules))
		return
	}
	seen := map[uint64]int{}
	for k, rf := range got.RuleFits {
		if rf == nil {
			add("result:nil-rule-fit", "RuleFits[%d] is nil", k)
			return
		}
		if c.Rules[k].Count >= 0 && len(rf.Peers) > c.Rules[k].Count {
			add("count:more-peers-than-count", "rule %d has %d peers, count is %d", k, len(rf.Peers), c.Rules[k].Count)
		}
		for _, p := range rf.Peers {
			seen[p.GetId()]++
			if c.store(p.GetStoreId()) == nil {
				add("constraint:peer-without-store-record-in-a-rule", "peer %d on unknown store %d is in rule %d", p.GetId(), p.GetStoreId(), k)
			}
		}
	}
	for _, p := range got.OrphanPeers {
		seen[p.GetId()]++
	}
	for _, p := range c.Peers {
		if seen[p.ID] != 1 {
			add("partition:peer-not-exactly-once", "peer %d appears %d times in the result", p.ID, seen[p.ID])
		}
		delete(seen, p.ID)
	}
	for id := range seen {
		add("partition:foreign-peer", "peer %d in the result is not a peer of the region", id)
	}
}

// judgeGot judges a result that was obtained elsewhere (a real entry point such as
// RuleManager.FitRegion on long-lived objects). c must describe what is VISIBLE in the objects the
// call worked on: store labels, region peers / leader, exported fields of the rule objects; peers and
// rules are those objects, parallel to c.Peers / c.Rules.
func judgeGot(c *Case, seed uint64, got *placement.RegionFit, peers []*metapb.Peer, rules []*placement.Rule) *outcome {
	out := &outcome{}
	m, skip := newModel(c)
	if skip != "" {
		out.Skip = skip
		return out
	}
	if got == nil {
		out.Findings = append(out.Findings, finding{"result:nil", "FitRegion returned nil"})
		return out
	}
	evaluate(out, c, m, &pdInput{peers: peers, rules: rules}, got, seed)
	return out
}

// evaluate checks every clause of the property for one result against the model.
func evaluate(out *outcome, c *Case, m *model, in *pdInput, got *placement.RegionFit, seed uint64) {
	add := func(key, format string, a ...interface{}) {
		for _, f := range out.Findings {
			if f.Key == key {
				return
			}
		}
		out.Findings = append(out.Findings, finding{key, fmt.Sprintf(format, a...)})
	}
	out.shape = m.shapeKey()
	for k := 0; k < m.k; k++ {
		for j := 0; j < m.n; j++ {
			if m.exclOnly[k][j] {
				out.exclBlock = true
			}
			if m.p.sat[k][j] {
				for _, l := range m.st[j].Labels {
					if exclusiveName(strings.ToLower(l.K), reading{}) {
						out.exclAdmit = true
					}
				}
			}
		}
	}
	br := m.bruteForce(seed)
	out.brute = br
	out.m = m

	// index of peers by id
	idx := map[uint64]int{}
	for j, p := range c.Peers {
		idx[p.ID] = j
	}
	place := make([]int, m.n) // how many times each peer appears in the result
	a := make([]int8, m.n)    // the result as an assignment
	for j := range a {
		a[j] = -1
	}
	structural := true
	if len(got.RuleFits) != m.k {
		add("result:rule-fit-count", "result has %d rule fits for %d rules", len(got.RuleFits), m.k)
		return
	}
	for k, rf := range got.RuleFits {
		if rf == nil {
			add("result:nil-rule-fit", "RuleFits[%d] is nil", k)
			return
		}
		if rf.Rule != in.rules[k] {
			add("result:rule-fit-of-other-rule", "RuleFits[%d].Rule is not the %d-th rule of the list", k, k)
			return
		}
		out.Got = append(out.Got, ruleOut{Rule: rf.Rule.ID, Peers: ids(rf.Peers), Mismatched: ids(rf.PeersWithDifferentRole), Isolation: rf.IsolationScore})
	}
	out.GotOrphan = ids(got.OrphanPeers)

	// clause 1: every peer in exactly one rule or in the orphan list
	for k, rf := range got.RuleFits {
		for _, p := range rf.Peers {
			j, ok := idx[p.GetId()]
			if !ok {
				add("partition:foreign-peer-in-rule", "rule %d holds peer %d which is not a peer of the region", k, p.GetId())
				structural = false
				continue
			}
			place[j]++
			a[j] = int8(k)
		}
	}
	for _, p := range got.OrphanPeers {
		j, ok := idx[p.GetId()]
		if !ok {
			add("partition:foreign-peer-in-orphans", "orphan list holds peer %d which is not a peer of the region", p.GetId())
			structural = false
			continue
		}
		if place[j] > 0 && a[j] >= 0 {
			add("partition:peer-in-rule-and-orphan", "peer %d is in rule %d and in the orphan list", p.GetId(), a[j])
			structural = false
		}
		place[j]++
	}
	for j := 0; j < m.n; j++ {
		switch {
		case place[j] == 0:
			add("partition:peer-nowhere", "peer %d is neither in a rule nor in the orphan list", c.Peers[j].ID)
			structural = false
		case place[j] > 1:
			add("partition:peer-placed-twice", "peer %d appears %d times in the result", c.Peers[j].ID, place[j])
			structural = false
		}
	}

	// clauses 2-4 per rule: constraints, convertible role, count; mismatch list; isolation score
	validGot := structural
	for k, rf := range got.RuleFits {
		r := &c.Rules[k]
		var members []int
		wantMis := map[uint64]int{}
		for _, p := range rf.Peers {
			j, ok := idx[p.GetId()]
			if !ok {
				continue
			}
			members = append(members, j)
			if !m.p.sat[k][j] {
				validGot = false
				if m.exclOnly[k][j] {
					add("constraint:exclusive-label-store-in-rule-not-naming-it", "peer %d (store %d, labels %v) is in rule %d whose constraints do not name the store's exclusive label", p.GetId(), p.GetStoreId(), m.st[j].Labels, k)
				} else {
					add("constraint:peer-in-rule-its-store-does-not-satisfy", "peer %d (store %d, labels %v) is in rule %d with constraints %v", p.GetId(), p.GetStoreId(), m.st[j].Labels, k, r.Cons)
				}
			}
			if r.Role == "learner" && !m.learner[j] {
				validGot = false
				add("role:non-learner-in-learner-rule", "peer %d is not a learner but was put into learner rule %d (voter->learner is not a possible conversion)", p.GetId(), k)
			}
			if !m.strict[k][j] {
				wantMis[p.GetId()]++
			}
		}
		if len(rf.Peers) > r.Count {
			validGot = false
			add("count:more-peers-than-count", "rule %d has %d peers, count is %d", k, len(rf.Peers), r.Count)
		}
		gotMis := map[uint64]int{}
		for _, p := range rf.PeersWithDifferentRole {
			gotMis[p.GetId()]++
		}
		same := len(gotMis) == len(wantMis)
		for id, n := range wantMis {
			if gotMis[id] != n {
				same = false
			}
		}
		if !same {
			add("mismatch-list:not-the-strict-role-mismatches", "rule %d (%s): PeersWithDifferentRole=%v, peers whose role differs=%v", k, r.Role, ids(rf.PeersWithDifferentRole), keysOf(wantMis))
		}
		if structural {
			var s int64
			for x := 0; x < len(members); x++ {
				for y := x + 1; y < len(members); y++ {
					s += m.weight[k][members[x]][members[y]]
				}
			}
			if rf.IsolationScore != float64(s) {
				add("isolation-score:differs-from-recomputed", "rule %d (location labels %v): IsolationScore=%v, recomputed %d", k, r.Loc, rf.IsolationScore, s)
			}
		}
	}

	// clause: IsSatisfied
	if structural {
		gv := m.metricsOf(a)
		out.gv = &gv
		want := gv.orphans == 0
		for k := 0; k < m.k; k++ {
			if gv.rules[k].cnt != c.Rules[k].Count || gv.rules[k].mis != 0 {
				want = false
			}
		}
		func() {
			defer func() {
				if p := recover(); p != nil {
					add("panic:IsSatisfied", "RegionFit.IsSatisfied panicked: %v", p)
				}
			}()
			s := got.IsSatisfied()
			out.GotSat = s
			if s != want {
				add("is-satisfied:wrong", "IsSatisfied()=%v but (every rule full with matching roles and no orphan)=%v", s, want)
			}
		}()

		// clause: optimality under the documented order (model metrics of pd's assignment vs brute force)
		if validGot {
			if cmp, where := cmpVec(&br.bestVec, &gv); cmp > 0 {
				add("optimality:better-valid-assignment-exists:"+where, "brute force found a valid assignment that is better (decided by %s): best %s ; FitRegion %s", where, vecString(&br.bestVec), vecString(&gv))
			} else if cmp < 0 {
				// cannot happen if got is valid: the brute force covers all maps
				add("harness:brute-force-missed-valid-assignment", "FitRegion's valid assignment beats the brute-force optimum")
			}
		}

		// the same through the exported comparator, both ways, using the metrics as reported
		rep := &fitVec{k: m.k, orphans: len(got.OrphanPeers)}
		for k, rf := range got.RuleFits {
			rep.rules[k] = rmet{len(rf.Peers), len(rf.PeersWithDifferentRole), rf.IsolationScore}
		}
		bf := m.toRegionFit(in, br.best)
		want1, where := cmpVec(&br.bestVec, rep)
		c1, c2 := placement.CompareRegionFit(bf, got), placement.CompareRegionFit(got, bf)
		out.pairs++
		if c1 != want1 || c2 != -want1 {
			add("compare-region-fit:disagrees-with-documented-order", "CompareRegionFit(best,got)=%d CompareRegionFit(got,best)=%d, documented order says %d (%s): best %s ; got(as reported) %s", c1, c2, want1, where, vecString(&br.bestVec), vecString(rep))
		}
		if c1 > 0 && validGot {
			add("optimality:better-valid-assignment-exists:"+where, "CompareRegionFit ranks the brute-force assignment strictly better than FitRegion's result: best %s ; got %s", vecString(&br.bestVec), vecString(rep))
		}
	}

	// last component of the order ("finally fewer orphans"): within one region the orphan count follows
	// from the per-rule counts, so it is exercised with the same rule fits and one more orphan peer
	// (the shape checkers compare: a region before / after dropping a peer no rule wants).
	if len(br.samples) > 0 {
		fa := m.toRegionFit(in, br.samples[0])
		fb := m.toRegionFit(in, br.samples[0])
		fb.OrphanPeers = append(fb.OrphanPeers, &metapb.Peer{Id: 1000, StoreId: 1000})
		c1, c2 := placement.CompareRegionFit(fa, fb), placement.CompareRegionFit(fb, fa)
		out.pairs++
		if c1 != 1 || c2 != -1 {
			add("compare-region-fit:disagrees-with-documented-order", "equal rule fits, %d vs %d orphans: CompareRegionFit(fewer,more)=%d (more,fewer)=%d, documented order says 1 / -1 (orphans)", len(fa.OrphanPeers), len(fb.OrphanPeers), c1, c2)
		}
	}

	// comparator against the documented order on pairs of arbitrary valid assignments
	for x := 0; x < len(br.samples); x++ {
		for y := x + 1; y < len(br.samples); y++ {
			va, vb := m.metricsOf(br.samples[x]), m.metricsOf(br.samples[y])
			fa, fb := m.toRegionFit(in, br.samples[x]), m.toRegionFit(in, br.samples[y])
			want, where := cmpVec(&va, &vb)
			c1, c2 := placement.CompareRegionFit(fa, fb), placement.CompareRegionFit(fb, fa)
			out.pairs++
			if c1 != want || c2 != -want {
				add("compare-region-fit:disagrees-with-documented-order", "CompareRegionFit(A,B)=%d (B,A)=%d, documented order says %d (%s): A %s ; B %s", c1, c2, want, where, vecString(&va), vecString(&vb))
			}
		}
	}
	return
}

func keysOf(m map[uint64]int) []uint64 {
	var out []uint64
	for k := range m {
		out = append(out, k)
	}
	sort.Slice(out, func(i, j int) bool { return out[i] < out[j] })
	return out
}
