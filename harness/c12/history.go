package main

// Long-lived worlds. Everything FitRegion works on lives across a whole history, the way it does in a
// running server: one core.BasicCluster (the StoreSet of RaftCluster) whose stores are replaced by
// old.Clone(core.SetStoreLabels(..)) + PutStore, one placement.RuleManager (over an instrumented
// memory kv) whose served rule objects are fitted again and again and are updated by SetRule /
// SetRules / DeleteRule and by get-edit-set of copies, and regions that evolve by
// RegionInfo.Clone(WithAddPeer / WithRemoveStorePeer / WithReplacePeerStore / WithLeader /
// WithPromoteLearner). The entry point is RuleManager.FitRegion(cluster, region) (what
// RaftCluster.FitRegion and the checkers / filters call).
//
// The oracle is unchanged: after every step the case is read back from what is VISIBLE in the very
// objects the call worked on (store labels, region peers and leader, exported rule fields) and judged
// by the brute force. Any state hidden inside long-lived objects (memoised matches, label indexes
// surviving Clone, pooled workers) that disagrees with the visible state shows up as a refuted clause.
//
// Concurrent phases (free running; FitRegion performs no I/O that could be gated): readers fitting
// on the shared served rule and store objects (a) alone, (b) while a writer updates rules through the
// manager, (c) while a writer updates store labels through the cluster. A reader's result is judged
// against the rule objects it reports (RuleFit.Rule) and the store objects its own call was handed
// (recorded by a per-call view in front of the cluster) — so no timing enters a verdict. Lazily
// written hidden state is the race detector's job (mechanism list in check.json).

import (
	"fmt"
	"math/rand"
	"sort"
	"strings"
	"sync"
	"sync/atomic"
	"time"

	"github.com/pingcap/kvproto/pkg/metapb"
	"github.com/tikv/pd/server/core"
	"github.com/tikv/pd/server/kv"
	"github.com/tikv/pd/server/schedule/placement"
	"verif/harness/lib/kvx"
)

type world struct {
	seed     uint64
	rng      *rand.Rand
	bc       *core.BasicCluster
	kv       *kvx.KV
	mgr      *placement.RuleManager
	regions  []*core.RegionInfo
	steps    []string
	nextRule int
	nextPeer uint64
	fits     int
	lastFit  map[uint64]*placement.RegionFit // last verified fit per region id (possibly under an older rule set)
	variants bool                            // label values / keys come in letter-case variants, prefixes and empty strings
}

func (w *world) step(f string, a ...interface{}) {
	w.steps = append(w.steps, fmt.Sprintf(f, a...))
	if len(w.steps) > 400 {
		w.steps = w.steps[len(w.steps)-300:]
	}
}

func metaLabels(ls []Label) []*metapb.StoreLabel {
	out := make([]*metapb.StoreLabel, 0, len(ls))
	for _, l := range ls {
		out = append(out, &metapb.StoreLabel{Key: l.K, Value: l.V})
	}
	return out
}

func newWorld(seed uint64) *world {
	w := &world{seed: seed, rng: rand.New(rand.NewSource(int64(seed))), nextPeer: 100}
	rng := w.rng
	w.bc = core.NewBasicCluster()
	specs := genStores(rng, 5+rng.Intn(4), rng.Intn(3) == 0, false, 3, 3)
	w.variants = rng.Intn(3) == 0
	if w.variants {
		variantizeStores(rng, specs)
	}
	for _, s := range specs {
		w.bc.PutStore(core.NewStoreInfo(&metapb.Store{Id: s.ID, Address: fmt.Sprintf("mock://store-%d", s.ID), Labels: metaLabels(s.Labels)}))
	}
	w.kv = kvx.New(kv.NewMemoryKV())
	w.kv.SetLogging(false)
	w.mgr = placement.NewRuleManager(core.NewStorage(w.kv), nil)
	if err := w.mgr.Initialize(3, []string{"zone", "host"}); err != nil {
		return nil
	}
	ok := false
	for try := 0; try < 8 && !ok; try++ {
		k := 1 + rng.Intn(3)
		c := &Case{}
		for i := 0; i < k; i++ {
			r := genRule(rng, i, false)
			if i == 0 && r.Role != "voter" && r.Role != "leader" {
				r.Role = "voter"
			}
			if r.Role == "leader" {
				r.Count = 1
			}
			c.Rules = append(c.Rules, r)
		}
		if w.variants {
			variantizeRules(rng, c.Rules)
		}
		if w.mgr.SetRules(plainRules(c)) == nil && w.mgr.DeleteRule("pd", "default") == nil {
			ok = true
			w.nextRule = k
			w.step("SetRules(%s); DeleteRule(pd/default)", visible(w.mgr.GetAllRules()))
		}
	}
	if !ok {
		return nil
	}
	for i := 0; i < 3; i++ {
		tmp := &Case{Stores: specs}
		n := 2 + rng.Intn(4)
		if n > len(specs) {
			n = len(specs)
		}
		genPeers(rng, tmp, n)
		var peers []*metapb.Peer
		var leader *metapb.Peer
		for _, p := range tmp.Peers {
			mp := &metapb.Peer{Id: p.ID + uint64(i)*1000, StoreId: p.Store, Role: metapb.PeerRole_Voter}
			if p.Learner {
				mp.Role = metapb.PeerRole_Learner
			}
			if !p.Learner && rng.Intn(6) == 0 {
				mp.Role = []metapb.PeerRole{metapb.PeerRole_IncomingVoter, metapb.PeerRole_DemotingVoter}[rng.Intn(2)]
			}
			if p.ID == tmp.Leader {
				leader = mp
			}
			peers = append(peers, mp)
		}
		w.regions = append(w.regions, core.NewRegionInfo(&metapb.Region{Id: uint64(i + 1), Peers: peers, RegionEpoch: &metapb.RegionEpoch{ConfVer: 1, Version: 1}}, leader))
	}
	return w
}

// visibleCase reads the case back from the objects themselves.
func visibleCase(origin string, stores []*core.StoreInfo, region *core.RegionInfo, rules []*placement.Rule) (*Case, []*metapb.Peer) {
	c := &Case{Origin: origin}
	ss := append([]*core.StoreInfo(nil), stores...)
	sort.Slice(ss, func(i, j int) bool { return ss[i].GetID() < ss[j].GetID() })
	for _, s := range ss {
		if s == nil {
			continue
		}
		sp := StoreSpec{ID: s.GetID()}
		for _, l := range s.GetLabels() {
			sp.Labels = append(sp.Labels, Label{l.GetKey(), l.GetValue()})
		}
		c.Stores = append(c.Stores, sp)
	}
	peers := region.GetPeers()
	for _, p := range peers {
		switch p.GetRole() {
		case metapb.PeerRole_Voter:
			c.Peers = append(c.Peers, PeerSpec{ID: p.GetId(), Store: p.GetStoreId()})
		case metapb.PeerRole_Learner:
			c.Peers = append(c.Peers, PeerSpec{ID: p.GetId(), Store: p.GetStoreId(), Learner: true})
		case metapb.PeerRole_IncomingVoter:
			c.Peers = append(c.Peers, PeerSpec{ID: p.GetId(), Store: p.GetStoreId(), Role: "incoming"})
		case metapb.PeerRole_DemotingVoter:
			c.Peers = append(c.Peers, PeerSpec{ID: p.GetId(), Store: p.GetStoreId(), Role: "demoting"})
		default:
			return nil, nil
		}
	}
	c.Leader = region.GetLeader().GetId()
	for _, r := range rules {
		c.Rules = append(c.Rules, specOf(r))
	}
	return c, peers
}

func describeRegion(r *core.RegionInfo) string {
	s := fmt.Sprintf("region %d leader=%d peers=", r.GetID(), r.GetLeader().GetId())
	for _, p := range r.GetPeers() {
		s += fmt.Sprintf("[%d@%d %s]", p.GetId(), p.GetStoreId(), p.GetRole())
	}
	return s
}

// fit calls the real entry point on the long-lived objects and judges the result.
func (w *world) fit(x *runner, lc *local, ri int, tag, suffix string) (*placement.RegionFit, *outcome) {
	got, o := w.fitRegion(x, lc, w.regions[ri], tag, suffix)
	if got != nil && o != nil && o.Skip == "" && len(o.Findings) == 0 {
		id := w.regions[ri].GetID()
		if w.lastFit == nil {
			w.lastFit = map[uint64]*placement.RegionFit{}
		}
		if old := w.lastFit[id]; old != nil && old != got {
			w.compareAcross(x, lc, old, got)
		}
		w.lastFit[id] = got
	}
	return got, o
}

func sameRules(a, b *placement.RegionFit) bool {
	if len(a.RuleFits) != len(b.RuleFits) {
		return false
	}
	for i := range a.RuleFits {
		if a.RuleFits[i].Rule != b.RuleFits[i].Rule {
			return false
		}
	}
	return true
}

// compareAcross: CompareRegionFit on two verified fits of one region taken at different moments of
// the history (other rule set, other store labels, other peers) — what a filter holding an old fit
// does. The fits are compared structurally (counts, mismatches, scores, orphans), never as strings.
// Same number of rules: the documented order decides, position by position. Different numbers: the
// documentation says nothing; only antisymmetry is required.
func (w *world) compareAcross(x *runner, lc *local, a, b *placement.RegionFit) {
	var c1, c2 int
	var pan interface{}
	func() {
		defer func() { pan = recover() }()
		c1, c2 = placement.CompareRegionFit(a, b), placement.CompareRegionFit(b, a)
	}()
	wit := func() map[string]interface{} {
		return map[string]interface{}{"world_seed": w.seed, "kind": "history_fit", "steps": w.steps}
	}
	kind := "same-rule-objects"
	if !sameRules(a, b) {
		kind = "different-rule-sets"
	}
	lc.count("comparator_pairs_across_history:"+kind, 1)
	switch {
	case pan != nil:
		x.r.Violation("panic:CompareRegionFit:"+kind, fmt.Sprintf("CompareRegionFit panicked: %v", pan), wit())
	case c1 != -c2:
		x.r.Violation("compare-region-fit:not-antisymmetric:"+kind, fmt.Sprintf("CompareRegionFit(a,b)=%d, (b,a)=%d: a %s ; b %s", c1, c2, vecString(reported(a)), vecString(reported(b))), wit())
	case len(a.RuleFits) == len(b.RuleFits):
		if want, where := cmpVec(reported(a), reported(b)); want != c1 {
			x.r.Violation("compare-region-fit:disagrees-with-documented-order:"+kind, fmt.Sprintf("CompareRegionFit(a,b)=%d, documented order says %d (%s): a %s ; b %s", c1, want, where, vecString(reported(a)), vecString(reported(b))), wit())
		}
	}
}

// reload: a new RuleManager over the same storage, as after a restart: the served rule objects are
// now the ones decoded from the persisted JSON.
func (w *world) reload() bool {
	m := placement.NewRuleManager(core.NewStorage(w.kv), nil)
	if err := m.Initialize(3, []string{"zone", "host"}); err != nil {
		w.step("reload failed: %v", err)
		return false
	}
	w.mgr = m
	w.step("restart: new RuleManager over the same storage, Initialize -> serves %s", visible(m.GetAllRules()))
	return true
}

func (w *world) fitRegion(x *runner, lc *local, region *core.RegionInfo, tag, suffix string) (*placement.RegionFit, *outcome) {
	applied := w.mgr.GetRulesForApplyRegion(region)
	var got *placement.RegionFit
	var pan interface{}
	func() {
		defer func() { pan = recover() }()
		got = w.mgr.FitRegion(w.bc, region)
	}()
	w.fits++
	c, peers := visibleCase("history/"+tag, w.bc.GetStores(), region, applied)
	if c == nil {
		return got, nil
	}
	var o *outcome
	if pan != nil {
		o = &outcome{Findings: []finding{{"panic:FitRegion", fmt.Sprintf("RuleManager.FitRegion panicked: %v", pan)}}}
	} else {
		o = judgeGot(c, w.seed+uint64(w.fits), got, peers, applied)
	}
	x.judged(lc, tag, c, o, suffix, w.seed+uint64(w.fits), func() map[string]interface{} {
		return map[string]interface{}{"world_seed": w.seed, "kind": tag, "fitted": describeRegion(region), "steps": append([]string(nil), w.steps...)}
	})
	return got, o
}

func reported(f *placement.RegionFit) *fitVec {
	v := &fitVec{k: len(f.RuleFits), orphans: len(f.OrphanPeers)}
	for k, rf := range f.RuleFits {
		if k < maxK && rf != nil {
			v.rules[k] = rmet{len(rf.Peers), len(rf.PeersWithDifferentRole), rf.IsolationScore}
		}
	}
	return v
}

func (w *world) usedStores(r *core.RegionInfo) map[uint64]bool {
	u := map[uint64]bool{}
	for _, p := range r.GetPeers() {
		u[p.GetStoreId()] = true
	}
	return u
}

func (w *world) freeStore(r *core.RegionInfo) uint64 {
	u := w.usedStores(r)
	var free []uint64
	for _, s := range w.bc.GetStores() {
		if !u[s.GetID()] {
			free = append(free, s.GetID())
		}
	}
	if len(free) == 0 {
		return 0
	}
	sort.Slice(free, func(i, j int) bool { return free[i] < free[j] })
	return free[w.rng.Intn(len(free))]
}

// filterPattern: what ruleFitFilter / ruleLeaderFitFilter do: fit the region, build the candidate
// region (peer moved to another store, or leader moved to another voter), fit it, compare the fits.
func (w *world) filterPattern(x *runner, lc *local, ri int) {
	region := w.regions[ri]
	oldFit, oo := w.fit(x, lc, ri, "history_filter_old", ":only-with-long-lived-objects")
	var copyPeers []*metapb.Peer
	for _, p := range region.GetPeers() {
		copyPeers = append(copyPeers, &metapb.Peer{Id: p.Id, StoreId: p.StoreId, Role: p.Role})
	}
	copyLeader := &metapb.Peer{Id: region.GetLeader().GetId(), StoreId: region.GetLeader().GetStoreId(), Role: region.GetLeader().GetRole()}
	var opt core.RegionCreateOption
	what := ""
	if w.rng.Intn(2) == 0 {
		dst := w.freeStore(region)
		if dst == 0 {
			return
		}
		src := region.GetPeers()[w.rng.Intn(len(region.GetPeers()))].GetStoreId()
		opt, what = core.WithReplacePeerStore(src, dst), fmt.Sprintf("WithReplacePeerStore(%d,%d)", src, dst)
	} else {
		var cand []*metapb.Peer
		for _, p := range region.GetPeers() {
			if p.GetRole() == metapb.PeerRole_Voter && p.GetId() != region.GetLeader().GetId() {
				cand = append(cand, p)
			}
		}
		if len(cand) == 0 {
			return
		}
		t := cand[w.rng.Intn(len(cand))]
		opt, what = core.WithLeader(t), fmt.Sprintf("WithLeader(peer %d)", t.GetId())
	}
	cand := core.NewRegionInfo(&metapb.Region{Peers: copyPeers}, copyLeader, opt)
	w.step("candidate of region %d: %s", region.GetID(), what)
	newFit, no := w.fitRegion(x, lc, cand, "history_filter_new", ":only-with-long-lived-objects")
	if oldFit == nil || newFit == nil || oo == nil || no == nil || oo.Skip != "" || no.Skip != "" || len(oo.Findings)+len(no.Findings) > 0 ||
		len(oldFit.RuleFits) != len(newFit.RuleFits) {
		return
	}
	// both fits are verified: their reported metrics are right, so the documented order decides
	want, where := cmpVec(reported(oldFit), reported(newFit))
	c1, c2 := placement.CompareRegionFit(oldFit, newFit), placement.CompareRegionFit(newFit, oldFit)
	lc.count("comparator_pairs_across_regions", 1)
	if c1 != want || c2 != -want {
		x.r.Violation("compare-region-fit:disagrees-with-documented-order:fits-of-region-before-and-after-a-move",
			fmt.Sprintf("CompareRegionFit(old,new)=%d (new,old)=%d, documented order says %d (%s): old %s ; new %s", c1, c2, want, where, vecString(reported(oldFit)), vecString(reported(newFit))),
			map[string]interface{}{"world_seed": w.seed, "steps": w.steps, "old": oo.Got, "new": no.Got})
	}
}

// evolveRegion replaces a long-lived region by a clone with one change.
func (w *world) evolveRegion(ri int) {
	r := w.regions[ri]
	peers := r.GetPeers()
	var nr *core.RegionInfo
	switch w.rng.Intn(7) {
	case 5: // enter a joint state: a voter (possibly the leader) starts demoting, or a learner is incoming
		p := peers[w.rng.Intn(len(peers))]
		role := metapb.PeerRole_DemotingVoter
		if p.GetRole() == metapb.PeerRole_Learner {
			role = metapb.PeerRole_IncomingVoter
		} else if p.GetRole() != metapb.PeerRole_Voter {
			break
		}
		nr = r.Clone(withPeerRole(p.GetId(), role), core.WithIncConfVer())
		w.step("region %d: Clone(peer %d role -> %s)", r.GetID(), p.GetId(), role)
	case 6: // leave the joint state: incoming -> voter, demoting -> learner (never the leader)
		for _, p := range peers {
			if p.GetRole() == metapb.PeerRole_IncomingVoter {
				nr = r.Clone(withPeerRole(p.GetId(), metapb.PeerRole_Voter), core.WithIncConfVer())
				w.step("region %d: Clone(peer %d role -> Voter)", r.GetID(), p.GetId())
				break
			}
			if p.GetRole() == metapb.PeerRole_DemotingVoter && p.GetId() != r.GetLeader().GetId() {
				nr = r.Clone(withPeerRole(p.GetId(), metapb.PeerRole_Learner), core.WithIncConfVer())
				w.step("region %d: Clone(peer %d role -> Learner)", r.GetID(), p.GetId())
				break
			}
		}
	case 0:
		if len(peers) < maxN {
			if dst := w.freeStore(r); dst != 0 {
				w.nextPeer++
				p := &metapb.Peer{Id: w.nextPeer, StoreId: dst, Role: metapb.PeerRole_Voter}
				if w.rng.Intn(2) == 0 {
					p.Role = metapb.PeerRole_Learner
				}
				nr = r.Clone(core.WithAddPeer(p), core.WithIncConfVer())
				w.step("region %d: Clone(WithAddPeer(%d@%d %s))", r.GetID(), p.Id, p.StoreId, p.Role)
			}
		}
	case 1:
		if len(peers) > 1 {
			p := peers[w.rng.Intn(len(peers))]
			if p.GetId() != r.GetLeader().GetId() {
				nr = r.Clone(core.WithRemoveStorePeer(p.GetStoreId()), core.WithIncConfVer())
				w.step("region %d: Clone(WithRemoveStorePeer(%d))", r.GetID(), p.GetStoreId())
			}
		}
	case 2:
		for _, p := range peers {
			if p.GetRole() == metapb.PeerRole_Learner {
				nr = r.Clone(core.WithPromoteLearner(p.GetId()), core.WithIncConfVer())
				w.step("region %d: Clone(WithPromoteLearner(%d))", r.GetID(), p.GetId())
				break
			}
		}
	case 3:
		var cand []*metapb.Peer
		for _, p := range peers {
			if p.GetRole() == metapb.PeerRole_Voter && p.GetId() != r.GetLeader().GetId() {
				cand = append(cand, p)
			}
		}
		if len(cand) > 0 {
			t := cand[w.rng.Intn(len(cand))]
			nr = r.Clone(core.WithLeader(t))
			w.step("region %d: Clone(WithLeader(%d))", r.GetID(), t.GetId())
		}
	default:
		if dst := w.freeStore(r); dst != 0 {
			src := peers[w.rng.Intn(len(peers))].GetStoreId()
			nr = r.Clone(core.WithReplacePeerStore(src, dst), core.WithIncConfVer())
			w.step("region %d: Clone(WithReplacePeerStore(%d,%d))", r.GetID(), src, dst)
		}
	}
	if nr != nil {
		w.regions[ri] = nr
	}
}

// withPeerRole rewrites one peer's raft role in the cloned region (Clone deep-copies the meta).
func withPeerRole(peerID uint64, role metapb.PeerRole) core.RegionCreateOption {
	return func(region *core.RegionInfo) {
		for _, p := range region.GetPeers() {
			if p.GetId() == peerID {
				p.Role = role
			}
		}
	}
}

// updateLabels replaces one store by old.Clone(SetStoreLabels(new)) as RaftCluster.putStoreImpl does.
func updateLabels(rng *rand.Rand, bc *core.BasicCluster, variants bool) string {
	stores := bc.GetStores()
	sort.Slice(stores, func(i, j int) bool { return stores[i].GetID() < stores[j].GetID() })
	old := stores[rng.Intn(len(stores))]
	var ls []*metapb.StoreLabel
	for _, l := range old.GetLabels() {
		ls = append(ls, &metapb.StoreLabel{Key: l.Key, Value: l.Value})
	}
	has := func(k string) int {
		for i, l := range ls {
			if strings.EqualFold(l.Key, k) {
				return i
			}
		}
		return -1
	}
	toggle := func(k, v string) {
		if i := has(k); i >= 0 {
			ls = append(ls[:i], ls[i+1:]...)
		} else {
			ls = append(ls, &metapb.StoreLabel{Key: k, Value: v})
		}
	}
	switch rng.Intn(6) {
	case 0, 1:
		if i := has("zone"); i >= 0 {
			ls[i].Value = pick(rng, zones)
		}
	case 2:
		if i := has("host"); i >= 0 {
			ls[i].Value = pick(rng, hosts)
		}
	case 3:
		toggle("engine", "tiflash")
	case 4:
		toggle("$x", pick(rng, alphas["$x"]))
	default:
		if i := has("disk"); i >= 0 {
			ls[i].Value = pick(rng, disks)
		} else {
			ls = append(ls, &metapb.StoreLabel{Key: "disk", Value: pick(rng, disks)})
		}
	}
	if variants {
		for _, l := range ls {
			switch v := rng.Intn(100); {
			case v < 20:
				l.Value = caseVariant(rng, l.Value)
			case v < 25:
				l.Value = strings.ToLower(l.Value)
			case v < 28:
				l.Value += "0"
			}
		}
	}
	bc.PutStore(old.Clone(core.SetStoreLabels(ls)))
	return fmt.Sprintf("store %d: Clone(SetStoreLabels(%v)) + PutStore", old.GetID(), ls)
}

// updateRules performs one rule update through the manager; fail injects a storage write failure.
func updateRules(rng *rand.Rand, mgr *placement.RuleManager, kvw *kvx.KV, nextRule *int, fail bool) string {
	all := mgr.GetAllRules()
	if len(all) == 0 {
		return "no rules"
	}
	inj := ""
	if fail {
		kvw.FailWrite(1, kvx.FailBefore)
		inj = " [storage write fails]"
		defer kvw.ResetFaults()
	}
	switch rng.Intn(6) {
	case 0, 1, 2: // get - edit - set, as the HTTP handlers and SetReplicationConfig do
		t := all[rng.Intn(len(all))]
		r := mgr.GetRule(t.GroupID, t.ID)
		if r == nil {
			return "GetRule nil"
		}
		ed := randomEdit(rng, r)
		if r.Role == placement.Leader {
			r.Count = 1
		}
		err := mgr.SetRule(r)
		return fmt.Sprintf("GetRule(%s); edit %s; SetRule -> %v%s", t.ID, ed, err, inj)
	case 3: // Clone of a served object, edit, set
		t := all[rng.Intn(len(all))]
		r := t.Clone()
		ed := randomEdit(rng, r)
		if r.Role == placement.Leader {
			r.Count = 1
		}
		err := mgr.SetRule(r)
		return fmt.Sprintf("GetAllRules()[%s].Clone(); edit %s; SetRule -> %v%s", t.ID, ed, err, inj)
	case 4: // a new rule (or replace a whole rule by a literal with the same key)
		spec := genRule(rng, *nextRule, false)
		if spec.Role == "leader" {
			spec.Count = 1
		}
		c := &Case{Rules: []RuleSpec{spec}}
		r := plainRules(c)[0]
		if len(all) >= maxK {
			t := all[rng.Intn(len(all))]
			r.ID, r.Index = t.ID, t.Index
		} else {
			r.ID, r.Index = fmt.Sprintf("n%d", *nextRule), rng.Intn(6)
			*nextRule++
		}
		err := mgr.SetRules([]*placement.Rule{r})
		return fmt.Sprintf("SetRules([literal %s]) -> %v%s", visible([]*placement.Rule{r}), err, inj)
	default:
		t := all[rng.Intn(len(all))]
		err := mgr.DeleteRule(t.GroupID, t.ID)
		return fmt.Sprintf("DeleteRule(%s) -> %v%s", t.ID, err, inj)
	}
}

// sequential history on one world.
func (w *world) runSequential(x *runner, lc *local, steps int) {
	const suffix = ":only-with-long-lived-objects"
	for ri := range w.regions {
		w.fit(x, lc, ri, "history_fit", suffix)
	}
	for s := 0; s < steps; s++ {
		switch v := w.rng.Intn(10); {
		case v < 3:
			w.step("%s", updateLabels(w.rng, w.bc, w.variants))
			lc.count("history_store_label_updates", 1)
		case v < 6:
			fail := w.rng.Intn(6) == 0
			w.step("%s", updateRules(w.rng, w.mgr, w.kv, &w.nextRule, fail))
			lc.count("history_rule_updates", 1)
			if fail {
				lc.count("history_rule_updates_with_storage_write_failure", 1)
			}
		case v < 7:
			w.evolveRegion(w.rng.Intn(len(w.regions)))
			lc.count("history_region_clone_updates", 1)
		case v < 8:
			if w.reload() {
				lc.count("history_rule_manager_reloads", 1)
			}
		default:
			w.filterPattern(x, lc, w.rng.Intn(len(w.regions)))
			lc.count("history_filter_patterns", 1)
			continue
		}
		for ri := range w.regions {
			w.fit(x, lc, ri, "history_fit", suffix)
		}
	}
}

// ---- concurrent phases ----

// storeView stands between one FitRegion call and the cluster and records what the call was given.
type storeView struct {
	bc    *core.BasicCluster
	got   map[uint64]*core.StoreInfo
	list  []*core.StoreInfo
	mixed bool
}

func (v *storeView) GetStores() []*core.StoreInfo {
	l := v.bc.GetStores()
	if v.list != nil {
		v.mixed = true // a second listing may differ from the first; the model keeps the last one
	}
	v.list = l
	return l
}

func (v *storeView) GetStore(id uint64) *core.StoreInfo {
	s := v.bc.GetStore(id)
	if old, ok := v.got[id]; ok && old != s {
		v.mixed = true
	}
	v.got[id] = s
	return s
}

func specOfStore(s *core.StoreInfo) *StoreSpec {
	sp := &StoreSpec{ID: s.GetID()}
	for _, l := range s.GetLabels() {
		sp.Labels = append(sp.Labels, Label{l.GetKey(), l.GetValue()})
	}
	return sp
}

// runParkedWriter: the third-party pattern. A writer (SetRule) is parked inside its storage write
// while it holds the manager's write lock; several readers queue on that lock; the writer is then
// released and the readers run together on the freshly published rule objects. Only the storage write
// is gated (readers perform no storage operation). The short sleep only lets the readers reach the
// lock; no verdict depends on it.
func (w *world) runParkedWriter(x *runner, readers int) {
	parked := make(chan struct{})
	release := make(chan struct{})
	var once sync.Once
	w.kv.Gate = func(kind, key string) {
		if kind == "Save" || kind == "Remove" {
			once.Do(func() { close(parked); <-release })
		}
	}
	wdone := make(chan string, 1)
	next := 900
	rng := rand.New(rand.NewSource(w.rng.Int63()))
	go func() { wdone <- updateRules(rng, w.mgr, w.kv, &next, false) }()
	var wlog string
	select {
	case <-parked:
	case wlog = <-wdone: // the update was rejected before any storage write
	}
	var wg sync.WaitGroup
	regions := append([]*core.RegionInfo(nil), w.regions...)
	base := append([]string(nil), w.steps...)
	for rd := 0; rd < readers; rd++ {
		wg.Add(1)
		go func(rd int) {
			defer wg.Done()
			lc := newLocal()
			defer lc.flush(x.r)
			region := regions[rd%len(regions)]
			view := &storeView{bc: w.bc, got: map[uint64]*core.StoreInfo{}}
			var got *placement.RegionFit
			var pan interface{}
			func() {
				defer func() { pan = recover() }()
				got = w.mgr.FitRegion(view, region)
			}()
			lc.count("concurrent_fits:queued-behind-parked-writer", 1)
			witness := func() map[string]interface{} {
				return map[string]interface{}{"world_seed": w.seed, "kind": "concurrent_parked-writer", "fitted": describeRegion(region), "history_before": base}
			}
			seed := w.seed + uint64(rd)*31
			if pan != nil || got == nil {
				if pan != nil {
					c, _ := visibleCase("history/parked", nil, region, nil)
					x.judged(lc, "concurrent_parked-writer", c, &outcome{Findings: []finding{{"panic:FitRegion", fmt.Sprintf("%v", pan)}}}, ":only-under-parked-writer", seed, witness)
				}
				return
			}
			var rules []*placement.Rule
			for _, rf := range got.RuleFits {
				if rf == nil || rf.Rule == nil {
					return
				}
				rules = append(rules, rf.Rule)
			}
			var stores []*core.StoreInfo
			for _, p := range region.GetPeers() {
				if s := view.got[p.GetStoreId()]; s != nil {
					stores = append(stores, s)
				}
			}
			if c, peers := visibleCase("history/parked", stores, region, rules); c != nil {
				x.judged(lc, "concurrent_parked-writer", c, judgeGot(c, seed, got, peers, rules), ":only-under-parked-writer", seed, witness)
			}
		}(rd)
	}
	if wlog == "" {
		time.Sleep(2 * time.Millisecond) // let the readers queue on the lock
		close(release)
		wlog = <-wdone
	}
	wg.Wait()
	w.kv.Gate = nil
	w.step("[parked writer + %d queued readers] %s", readers, wlog)
}

// runConcurrent: readers fit on the shared objects while (kind) nothing / the rules / the store
// labels are being updated. Returns after all goroutines finished.
func (w *world) runConcurrent(x *runner, kind string, readers, fitsEach, updates int) {
	var version int64 // bumped by the writer before and after each update (odd = update in flight)
	var wg sync.WaitGroup
	var logMu sync.Mutex
	var wlog []string
	regions := append([]*core.RegionInfo(nil), w.regions...)
	base := append([]string(nil), w.steps...)
	seeds := make([]int64, readers+1)
	for i := range seeds {
		seeds[i] = w.rng.Int63()
	}
	start := make(chan struct{})
	suffix := ":only-under-" + kind
	for rd := 0; rd < readers; rd++ {
		wg.Add(1)
		go func(rd int) {
			defer wg.Done()
			lc := newLocal()
			defer lc.flush(x.r)
			rng := rand.New(rand.NewSource(seeds[rd]))
			<-start
			for i := 0; i < fitsEach; i++ {
				region := regions[rng.Intn(len(regions))]
				view := &storeView{bc: w.bc, got: map[uint64]*core.StoreInfo{}}
				v0 := atomic.LoadInt64(&version)
				var got *placement.RegionFit
				var pan interface{}
				func() {
					defer func() { pan = recover() }()
					got = w.mgr.FitRegion(view, region)
				}()
				v1 := atomic.LoadInt64(&version)
				tag := "concurrent_" + kind
				lc.count("concurrent_fits:"+kind, 1)
				if v0 != v1 || v0%2 == 1 {
					lc.count("concurrent_fits_overlapping_an_update:"+kind, 1)
				}
				seed := uint64(seeds[rd]) + uint64(i)
				witness := func() map[string]interface{} {
					logMu.Lock()
					defer logMu.Unlock()
					return map[string]interface{}{"world_seed": w.seed, "kind": tag, "fitted": describeRegion(region), "history_before": base,
						"writer_log_so_far": append([]string(nil), wlog...), "update_counter_before_after_call": []int64{v0, v1}}
				}
				if pan != nil {
					c, _ := visibleCase("history/"+tag, nil, region, nil)
					x.judged(lc, tag, c, &outcome{Findings: []finding{{"panic:FitRegion", fmt.Sprintf("RuleManager.FitRegion panicked: %v", pan)}}}, suffix, seed, witness)
					continue
				}
				if got == nil {
					continue
				}
				// the rule objects the call reports, the store objects the call was handed
				var rules []*placement.Rule
				bad := false
				for _, rf := range got.RuleFits {
					if rf == nil || rf.Rule == nil {
						bad = true
						break
					}
					rules = append(rules, rf.Rule)
				}
				var stores []*core.StoreInfo
				for _, p := range region.GetPeers() {
					if s := view.got[p.GetStoreId()]; s != nil {
						stores = append(stores, s)
					}
				}
				c, peers := visibleCase("history/"+tag, stores, region, rules)
				if c == nil {
					continue
				}
				if bad {
					x.judged(lc, tag, c, &outcome{Findings: []finding{{"result:nil-rule-fit", "a RuleFit or its Rule is nil"}}}, suffix, seed, witness)
					continue
				}
				if view.mixed {
					lc.count("skipped_ambiguous", 1)
					lc.count("skipped_ambiguous:store-read-twice-with-different-results", 1)
					lc.evals++
					continue
				}
				// implementation special case outside the statement: a rule that no store of the LISTING
				// satisfies gets no candidates. With a listing and per-peer lookups taken at different
				// moments the two can disagree; such a call is not judged.
				def := docReading
				amb := false
				for k := range c.Rules {
					anyPeer, anyList := false, false
					for si := range c.Stores {
						if ok, _ := storeFitsRule(&c.Stores[si], &c.Rules[k], def); ok {
							anyPeer = true
						}
					}
					for _, s := range view.list {
						if ok, _ := storeFitsRule(specOfStore(s), &c.Rules[k], def); ok {
							anyList = true
						}
					}
					if anyPeer && !anyList {
						amb = true
					}
				}
				if amb {
					lc.count("skipped_ambiguous", 1)
					lc.count("skipped_ambiguous:mixed-store-snapshot-disables-rule", 1)
					lc.evals++
					continue
				}
				x.judged(lc, tag, c, judgeGot(c, seed, got, peers, rules), suffix, seed, witness)
			}
		}(rd)
	}
	if kind != "readers-only" {
		wg.Add(1)
		go func() {
			defer wg.Done()
			rng := rand.New(rand.NewSource(seeds[readers]))
			next := 50
			<-start
			for u := 0; u < updates; u++ {
				atomic.AddInt64(&version, 1)
				var s string
				if kind == "rule-updates" {
					s = updateRules(rng, w.mgr, w.kv, &next, rng.Intn(8) == 0)
				} else {
					s = updateLabels(rng, w.bc, w.variants)
				}
				atomic.AddInt64(&version, 1)
				logMu.Lock()
				wlog = append(wlog, s)
				logMu.Unlock()
			}
		}()
	}
	close(start)
	wg.Wait()
	for _, s := range wlog {
		w.step("[concurrent %s] %s", kind, s)
	}
}
