package main

// Independent reference model for "fit a region against an ordered rule list", written from the
// property statement and the documentation comments of rule.go / label_constraint.go / fit.go /
// core.StoreInfo.CompareLocation. Nothing here calls into pd.
//
// Documented semantics used:
//   - constraint ops: in (false when the label does not exist), notIn (true when it does not exist),
//     exists, notExists;
//   - a store carrying an exclusive label ('$'-prefixed key, or the legacy keys "engine" /
//     "exclusive") can only be selected by a rule that names that label key in its constraints;
//   - roles: voter matches leader or follower, leader matches the leader, follower a non-leader
//     voter, learner a learner; "learner" means raft role Learner only (core.IsLearner): peers in the
//     joint-consensus roles IncomingVoter / DemotingVoter are voting members, i.e. voters; every conversion is possible by scheduling except non-learner ->
//     learner;
//   - isolation score of a rule: sum over unordered pairs of its peers of 100^(L-i-1), i = first
//     location-label level at which the two stores differ (nothing when they do not differ);
//   - order: rule by rule (more peers, fewer role mismatches, higher isolation score), then fewer
//     orphans;
//   - satisfied: every rule has exactly Count peers, none with a mismatching role, no orphan.
//
// pd's conventions for labels are mirrored (independently computed): keys are looked up ignoring
// letter case, an empty value means "label not set", location values compare ignoring letter case
// and an unset location label is "same place as anyone", constraint values compare exactly.
// Where the documentation leaves a choice (letter case of exclusive label keys, an exclusive key with
// an empty value) the model evaluates the primitive predicates under every combination of the
// plausible readings and refuses to judge the case unless all of them agree ("skipped_ambiguous").

import (
	"strings"
)

// reading = one way to resolve the points the statement does not fix. Each aspect is independent
// because an implementation may legitimately resolve them differently in different places.
type reading struct {
	kfLookup   bool // label lookup by key ignores letter case
	kfExclName bool // recognising the legacy exclusive keys ignores letter case
	kfExclSpec bool // "the label is specified in the constraints" ignores letter case
	eaLookup   bool // a label with an empty value counts as not existing (lookup)
	eaExcl     bool // a label with an empty value does not make the store exclusive
	vfCons     bool // constraint values compare ignoring letter case
	vfLoc      bool // location values compare ignoring letter case
	missSame   bool // a store without a location label is "at the same place" as any other at that level
}

// docReading: pd's documented conventions; the three exclusive-label aspects are the values the
// enumeration in newModel starts from.
var docReading = reading{kfLookup: true, eaLookup: true, vfCons: false, vfLoc: true, missSame: true}

func eq(a, b string, fold bool) bool {
	if fold {
		return strings.EqualFold(a, b)
	}
	return a == b
}

func lookup(st *StoreSpec, key string, rd reading) (string, bool) {
	for _, l := range st.Labels {
		if eq(l.K, key, rd.kfLookup) {
			if l.V == "" && rd.eaLookup {
				return "", false
			}
			return l.V, true
		}
	}
	return "", false
}

func consMatch(st *StoreSpec, c *ConsSpec, rd reading) bool {
	v, ok := lookup(st, c.Key, rd)
	in := false
	if ok {
		for _, x := range c.Values {
			if eq(x, v, rd.vfCons) {
				in = true
			}
		}
	}
	switch c.Op {
	case "in":
		return ok && in
	case "notIn":
		return !ok || !in
	case "exists":
		return ok
	case "notExists":
		return !ok
	}
	return false
}

func exclusiveName(key string, rd reading) bool {
	return strings.HasPrefix(key, "$") || eq(key, "engine", rd.kfExclName) || eq(key, "exclusive", rd.kfExclName)
}

// storeFitsRule: (satisfies, blocked only by an exclusive label)
func storeFitsRule(st *StoreSpec, r *RuleSpec, rd reading) (bool, bool) {
	blocked := false
	for _, l := range st.Labels {
		if l.V == "" && rd.eaExcl {
			continue
		}
		if !exclusiveName(l.K, rd) {
			continue
		}
		named := false
		for i := range r.Cons {
			if eq(r.Cons[i].Key, l.K, rd.kfExclSpec) {
				named = true
			}
		}
		if !named {
			blocked = true
		}
	}
	all := true
	for i := range r.Cons {
		if !consMatch(st, &r.Cons[i], rd) {
			all = false
		}
	}
	return all && !blocked, all && blocked
}

// diffLevel returns the first location level at which the two stores differ, -1 if none.
func diffLevel(a, b *StoreSpec, labels []string, rd reading) int {
	for i, k := range labels {
		va, oka := lookup(a, k, rd)
		vb, okb := lookup(b, k, rd)
		switch {
		case oka && okb:
			if !eq(va, vb, rd.vfLoc) {
				return i
			}
		case oka != okb:
			if !rd.missSame {
				return i
			}
		}
	}
	return -1
}

// prims = the primitive facts every clause of the property is built from.
type prims struct {
	sat [maxK][maxN]bool       // store of peer j satisfies the constraints of rule k (incl. exclusive labels)
	lvl [maxK][maxN][maxN]int8 // first differing location level of peers i<j for rule k (both fitting), else -1
}

type model struct {
	c        *Case
	n, k     int
	order    []int // indexes into c.Peers (as listed)
	st       [maxN]*StoreSpec
	learner  [maxN]bool
	leader   [maxN]bool
	p        prims
	exclOnly [maxK][maxN]bool
	allowed  [maxK][maxN]bool // sat && role convertible
	strict   [maxK][maxN]bool // role already matches
	weight   [maxK][maxN][maxN]int64
}

func hasUpper(s string) bool { return s != strings.ToLower(s) }

func computePrims(m *model, rd reading) (prims, [maxK][maxN]bool) {
	var p prims
	var ex [maxK][maxN]bool
	for k := 0; k < m.k; k++ {
		r := &m.c.Rules[k]
		for j := 0; j < m.n; j++ {
			p.sat[k][j], ex[k][j] = storeFitsRule(m.st[j], r, rd)
		}
		for i := 0; i < m.n; i++ {
			for j := 0; j < m.n; j++ {
				p.lvl[k][i][j] = -1
			}
		}
		for i := 0; i < m.n; i++ {
			for j := i + 1; j < m.n; j++ {
				if p.sat[k][i] && p.sat[k][j] {
					p.lvl[k][i][j] = int8(diffLevel(m.st[i], m.st[j], r.Loc, rd))
				}
			}
		}
	}
	return p, ex
}

// newModel builds the model of a case; skip != "" means the case lies in a zone the statement does
// not decide (or is malformed) and must not be judged.
func newModel(c *Case) (m *model, skip string) {
	m = &model{c: c, n: len(c.Peers), k: len(c.Rules)}
	if m.n < 1 || m.n > maxN || m.k < 1 || m.k > maxK {
		return nil, "out-of-bounds"
	}
	// Shapes the statement does not speak about but a server can meet: they are not judged against the
	// model; the caller still runs FitRegion on them for the clauses that need no model (no panic,
	// every peer exactly once).
	seenPeer := map[uint64]bool{}
	for j := range c.Peers {
		p := &c.Peers[j]
		if seenPeer[p.ID] || p.ID == 0 {
			return nil, "malformed-duplicate-or-zero-peer-id"
		}
		seenPeer[p.ID] = true
	}
	// Joint-consensus roles: pd's convention (core.IsLearner) is that only PeerRole_Learner is a
	// learner; IncomingVoter and DemotingVoter are voting members and fit voter / follower / leader
	// rules like voters. PeerSpec.Learner is false for them, so nothing else changes.
	for j := range c.Peers {
		if r := c.Peers[j].Role; r != "" && r != "incoming" && r != "demoting" {
			return nil, "unknown-peer-role"
		}
		if c.Peers[j].Role != "" && c.Peers[j].Learner {
			return nil, "malformed-joint-role-and-learner"
		}
	}
	for j := range c.Peers {
		if c.store(c.Peers[j].Store) == nil {
			return nil, "peer-without-store" // does an unknown store satisfy an empty constraint list? undocumented
		}
	}
	// Two peers on one store are two peers at the same place. A region without a leader (leader id 0 or
	// not among the peers) simply has no peer that matches the leader role.
	for j := range c.Peers {
		p := &c.Peers[j]
		m.st[j], m.learner[j] = c.store(p.Store), p.Learner
		if p.ID == c.Leader {
			m.leader[j] = true
			if p.Learner {
				return nil, "leader-is-learner"
			}
		}
	}
	for _, r := range c.Rules {
		if r.Count < 0 {
			return nil, "count-negative" // rejected by the rule manager; "never more peers than count" is void
		}
	}
	// Fixed by pd's documented conventions (mirrored here, computed independently):
	//   - a label is looked up by key ignoring letter case (StoreInfo.GetLabelValue);
	//   - a label whose value is empty does not exist (GetLabelValue returns "", MergeLabels drops it);
	//   - location values are compared ignoring letter case, and a store without the label is at the
	//     same place as any other store at that level (StoreInfo.CompareLocation);
	//   - constraint values are compared exactly ('in' / 'notIn' list the values literally).
	// Left open (judged only if all readings agree): whether the legacy exclusive keys and the
	// "named in the constraints" test ignore letter case, and whether an exclusive key with an empty
	// value still makes the store exclusive.
	caseHaz, emptyHaz := false, false
	for _, s := range c.Stores {
		keys := map[string]bool{}
		for _, l := range s.Labels {
			if hasUpper(l.K) {
				caseHaz = true
			}
			if l.V == "" {
				emptyHaz = true
			}
			lk := strings.ToLower(l.K)
			if keys[lk] {
				return nil, "duplicate-label-key"
			}
			keys[lk] = true
		}
	}
	for _, r := range c.Rules {
		for _, x := range r.Cons {
			if hasUpper(x.Key) {
				caseHaz = true
			}
		}
	}
	var bits []func(rd *reading, v bool)
	if caseHaz {
		bits = append(bits, func(rd *reading, v bool) { rd.kfExclName = v }, func(rd *reading, v bool) { rd.kfExclSpec = v })
	}
	if emptyHaz {
		bits = append(bits, func(rd *reading, v bool) { rd.eaExcl = v })
	}
	for mask := 0; mask < 1<<uint(len(bits)); mask++ {
		rd := docReading
		for b, set := range bits {
			set(&rd, mask&(1<<uint(b)) != 0)
		}
		p, ex := computePrims(m, rd)
		if mask == 0 {
			m.p, m.exclOnly = p, ex
		} else if p == m.p {
			// same verdict under this reading; remember if it attributes a refusal to an exclusive label
			// (only used to name the violation key)
			for k := 0; k < m.k; k++ {
				for j := 0; j < m.n; j++ {
					m.exclOnly[k][j] = m.exclOnly[k][j] || ex[k][j]
				}
			}
		} else {
			switch {
			case caseHaz && emptyHaz:
				return nil, "exclusive-label-key-letter-case+empty-value"
			case caseHaz:
				return nil, "exclusive-label-key-letter-case"
			default:
				return nil, "exclusive-label-with-empty-value"
			}
		}
	}
	for k := 0; k < m.k; k++ {
		r := &c.Rules[k]
		l := len(r.Loc)
		for j := 0; j < m.n; j++ {
			var strict, loose bool
			switch r.Role {
			case "voter":
				strict, loose = !m.learner[j], true
			case "leader":
				strict, loose = m.leader[j], true
			case "follower":
				strict, loose = !m.learner[j] && !m.leader[j], true
			case "learner":
				strict, loose = m.learner[j], m.learner[j]
			default:
				return nil, "unknown-role"
			}
			m.strict[k][j] = strict
			m.allowed[k][j] = m.p.sat[k][j] && loose
		}
		for i := 0; i < m.n; i++ {
			for j := i + 1; j < m.n; j++ {
				if lv := int(m.p.lvl[k][i][j]); lv >= 0 {
					w := int64(1)
					for e := 0; e < l-lv-1; e++ {
						w *= 100
					}
					m.weight[k][i][j], m.weight[k][j][i] = w, w
				}
			}
		}
	}
	return m, ""
}

// ---- metrics and the documented order ----

type rmet struct {
	cnt, mis int
	iso      float64
}

type fitVec struct {
	k       int
	rules   [maxK]rmet
	orphans int
}

// cmpVec: 1 when a is better than b under the documented order, -1 when worse, 0 when equal;
// where names the deciding component.
func cmpVec(a, b *fitVec) (int, string) {
	for i := 0; i < a.k; i++ {
		x, y := a.rules[i], b.rules[i]
		switch {
		case x.cnt != y.cnt:
			if x.cnt > y.cnt {
				return 1, "peers"
			}
			return -1, "peers"
		case x.mis != y.mis:
			if x.mis < y.mis {
				return 1, "role-mismatches"
			}
			return -1, "role-mismatches"
		case x.iso != y.iso:
			if x.iso > y.iso {
				return 1, "isolation"
			}
			return -1, "isolation"
		}
	}
	switch {
	case a.orphans < b.orphans:
		return 1, "orphans"
	case a.orphans > b.orphans:
		return -1, "orphans"
	}
	return 0, ""
}

// metricsOf evaluates an assignment (a[j] = rule index or -1 for orphan) by the model.
func (m *model) metricsOf(a []int8) fitVec {
	v := fitVec{k: m.k}
	for j := 0; j < m.n; j++ {
		k := a[j]
		if k < 0 {
			v.orphans++
			continue
		}
		v.rules[k].cnt++
		if !m.strict[k][j] {
			v.rules[k].mis++
		}
		var s int64
		for i := 0; i < j; i++ {
			if a[i] == k {
				s += m.weight[k][i][j]
			}
		}
		v.rules[k].iso += float64(s)
	}
	return v
}

func (m *model) valid(a []int8) bool {
	var cnt [maxK]int
	for j := 0; j < m.n; j++ {
		k := a[j]
		if k < 0 {
			continue
		}
		if !m.allowed[k][j] {
			return false
		}
		cnt[k]++
		if cnt[k] > m.c.Rules[k].Count {
			return false
		}
	}
	return true
}

type bruteResult struct {
	total   int    // maps examined: (K+1)^n
	valid   int    // of which valid assignments
	optimal int    // valid assignments that attain the best vector
	best    []int8 // one of them
	bestVec fitVec //
	samples [][]int8
	deepTie bool // some valid assignment equals the best one on rule 0 and loses only on a later component
}

// bruteForce walks over ALL (K+1)^n peer -> {rule, orphan} maps, filters the valid ones and keeps the
// best under the documented order. A few valid assignments are kept (reservoir) for comparator tests.
func (m *model) bruteForce(seed uint64) *bruteResult {
	res := &bruteResult{}
	a := make([]int8, m.n)
	x := seed | 1
	next := func() uint64 { x ^= x << 13; x ^= x >> 7; x ^= x << 17; return x }
	var rec func(j int)
	rec = func(j int) {
		if j == m.n {
			res.total++
			if !m.valid(a) {
				return
			}
			res.valid++
			v := m.metricsOf(a)
			// deepTie is maintained incrementally: whenever the best changes its rule-0 metrics no earlier
			// assignment can share them (it would have been better than the best of its time).
			if res.best == nil {
				res.best, res.bestVec, res.optimal = append([]int8(nil), a...), v, 1
			} else if c, _ := cmpVec(&v, &res.bestVec); c > 0 {
				res.deepTie = v.rules[0] == res.bestVec.rules[0]
				res.best, res.bestVec, res.optimal = append(res.best[:0], a...), v, 1
			} else if c == 0 {
				res.optimal++
			} else if v.rules[0] == res.bestVec.rules[0] {
				res.deepTie = true
			}
			if len(res.samples) < 3 {
				res.samples = append(res.samples, append([]int8(nil), a...))
			} else if r := next() % uint64(res.valid); r < 3 {
				res.samples[r] = append(res.samples[r][:0], a...)
			}
			return
		}
		for k := -1; k < m.k; k++ {
			a[j] = int8(k)
			rec(j + 1)
		}
	}
	rec(0)
	return res
}
