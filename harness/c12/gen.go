package main

import (
	"fmt"
	"math/rand"
	"strings"
)

// ---- case description (plain data: serialisable into witnesses / replay files) ----

const (
	maxN = 6 // peers
	maxK = 4 // rules
)

type Label struct {
	K string `json:"k"`
	V string `json:"v"`
}

type StoreSpec struct {
	ID     uint64  `json:"id"`
	Labels []Label `json:"labels"`
}

type PeerSpec struct {
	ID      uint64 `json:"id"`
	Store   uint64 `json:"store"`
	Learner bool   `json:"learner,omitempty"`
	Role    string `json:"joint_role,omitempty"` // "incoming" / "demoting": joint-consensus roles (never judged by the model)
}

type ConsSpec struct {
	Key    string   `json:"key"`
	Op     string   `json:"op"`
	Values []string `json:"values,omitempty"`
}

type RuleSpec struct {
	ID    string     `json:"id"`
	Role  string     `json:"role"`
	Count int        `json:"count"`
	Cons  []ConsSpec `json:"constraints,omitempty"`
	Loc   []string   `json:"location_labels,omitempty"`
}

// Case is one input of FitRegion: the cluster's stores, the region's peers (in the order they are
// listed in the region), the leader's peer id and the ordered rule list.
type Case struct {
	Origin string      `json:"origin"`
	Stores []StoreSpec `json:"stores"`
	Peers  []PeerSpec  `json:"peers"`
	Leader uint64      `json:"leader_peer"`
	Rules  []RuleSpec  `json:"rules"`
}

func (c *Case) clone() *Case {
	n := &Case{Origin: c.Origin, Leader: c.Leader}
	for _, s := range c.Stores {
		n.Stores = append(n.Stores, StoreSpec{ID: s.ID, Labels: append([]Label(nil), s.Labels...)})
	}
	n.Peers = append([]PeerSpec(nil), c.Peers...)
	for _, r := range c.Rules {
		nr := RuleSpec{ID: r.ID, Role: r.Role, Count: r.Count, Loc: append([]string(nil), r.Loc...)}
		for _, k := range r.Cons {
			nr.Cons = append(nr.Cons, ConsSpec{Key: k.Key, Op: k.Op, Values: append([]string(nil), k.Values...)})
		}
		n.Rules = append(n.Rules, nr)
	}
	return n
}

func (c *Case) store(id uint64) *StoreSpec {
	for i := range c.Stores {
		if c.Stores[i].ID == id {
			return &c.Stores[i]
		}
	}
	return nil
}

// ---- random generators ----

var (
	zones  = []string{"z1", "z2", "z3"}
	racks  = []string{"r1", "r2"}
	hosts  = []string{"h1", "h2", "h3"}
	disks  = []string{"ssd", "hdd"}
	alphas = map[string][]string{
		"zone": zones, "rack": racks, "host": hosts, "disk": disks,
		"engine": {"tiflash", "tikv"}, "$x": {"a", "b"}, "$y": {"a"}, "exclusive": {"yes"}, "nokey": {"v"},
	}
)

func pick(rng *rand.Rand, l []string) string { return l[rng.Intn(len(l))] }

// weighted choice over parallel slices
func wpick(rng *rand.Rand, items []string, w []int) string {
	t := 0
	for _, x := range w {
		t += x
	}
	v := rng.Intn(t)
	for i, x := range w {
		if v < x {
			return items[i]
		}
		v -= x
	}
	return items[len(items)-1]
}

func genStores(rng *rand.Rand, s int, plain bool, useRack bool, nz, nh int) []StoreSpec {
	var out []StoreSpec
	for i := 0; i < s; i++ {
		st := StoreSpec{ID: uint64(i + 1)}
		st.Labels = append(st.Labels, Label{"zone", zones[rng.Intn(nz)]})
		if useRack {
			st.Labels = append(st.Labels, Label{"rack", pick(rng, racks)})
		}
		st.Labels = append(st.Labels, Label{"host", hosts[rng.Intn(nh)]})
		if !plain {
			if rng.Intn(2) == 0 {
				st.Labels = append(st.Labels, Label{"disk", pick(rng, disks)})
			}
			switch v := rng.Intn(100); {
			case v < 22:
				st.Labels = append(st.Labels, Label{"engine", "tiflash"})
			case v < 27:
				st.Labels = append(st.Labels, Label{"engine", "tikv"})
			}
			if rng.Intn(10) == 0 {
				st.Labels = append(st.Labels, Label{"$x", pick(rng, alphas["$x"])})
			}
			if rng.Intn(30) == 0 {
				st.Labels = append(st.Labels, Label{"$y", "a"})
			}
			if rng.Intn(30) == 0 {
				st.Labels = append(st.Labels, Label{"exclusive", "yes"})
			}
			rng.Shuffle(len(st.Labels), func(a, b int) { st.Labels[a], st.Labels[b] = st.Labels[b], st.Labels[a] })
		}
		out = append(out, st)
	}
	return out
}

func hasLabel(st *StoreSpec, k, v string) bool {
	for _, l := range st.Labels {
		if l.K == k && l.V == v {
			return true
		}
	}
	return false
}

func genPeers(rng *rand.Rand, c *Case, n int) {
	perm := rng.Perm(len(c.Stores))[:n]
	ids := rng.Perm(40)[:n] // distinct peer ids; list order is unrelated to id order
	voters := 0
	for i, si := range perm {
		st := &c.Stores[si]
		p := PeerSpec{ID: uint64(ids[i] + 1), Store: st.ID}
		pl := 20
		if hasLabel(st, "engine", "tiflash") {
			pl = 70
		}
		p.Learner = rng.Intn(100) < pl
		if !p.Learner {
			voters++
		}
		c.Peers = append(c.Peers, p)
	}
	if voters == 0 {
		c.Peers[rng.Intn(n)].Learner = false
	}
	var vs []uint64
	for _, p := range c.Peers {
		if !p.Learner {
			vs = append(vs, p.ID)
		}
	}
	c.Leader = vs[rng.Intn(len(vs))]
}

var (
	roleNames = []string{"voter", "leader", "follower", "learner"}
	opNames   = []string{"in", "notIn", "exists", "notExists"}
)

func genCons(rng *rand.Rand, keys []string, w []int) ConsSpec {
	k := wpick(rng, keys, w)
	c := ConsSpec{Key: k, Op: opNames[rng.Intn(4)]}
	if c.Op == "in" || c.Op == "notIn" {
		al := alphas[k]
		nv := 1 + rng.Intn(2)
		if rng.Intn(25) == 0 {
			nv = 0 // empty value list: 'in' never matches, 'notIn' always matches
		}
		for _, i := range rng.Perm(len(al)) {
			if len(c.Values) >= nv {
				break
			}
			c.Values = append(c.Values, al[i])
		}
		if rng.Intn(12) == 0 {
			c.Values = append(c.Values, "zz") // a value no store carries
		}
	}
	return c
}

var locChoices = [][]string{nil, {"zone"}, {"zone", "host"}, {"zone", "rack", "host"}, {"host"}, {"host", "zone"}, {"rack"}, {"zone", "rack"}, {"disk"}}

func genRule(rng *rand.Rand, i int, useRack bool) RuleSpec {
	r := RuleSpec{ID: fmt.Sprintf("r%d", i)}
	r.Role = wpick(rng, roleNames, []int{8, 3, 4, 5})
	r.Count = 1 + rng.Intn(3)
	if rng.Intn(10) == 0 {
		r.Count = 4
	}
	nc := []int{0, 0, 1, 1, 2}[rng.Intn(5)]
	keys := []string{"zone", "host", "engine", "$x", "disk", "rack", "exclusive", "$y", "nokey"}
	w := []int{8, 4, 6, 3, 4, 1, 1, 1, 1}
	if useRack {
		w[5] = 3
	}
	for j := 0; j < nc; j++ {
		r.Cons = append(r.Cons, genCons(rng, keys, w))
	}
	lw := []int{4, 5, 8, 0, 2, 2, 0, 0, 1}
	if useRack {
		lw[3], lw[6], lw[7] = 6, 1, 2
	}
	t := 0
	for _, x := range lw {
		t += x
	}
	v := rng.Intn(t)
	for j, x := range lw {
		if v < x {
			r.Loc = append([]string(nil), locChoices[j]...)
			break
		}
		v -= x
	}
	return r
}

func upperFirst(s string) string {
	if s == "" {
		return s
	}
	return strings.ToUpper(s[:1]) + s[1:]
}

// jointize puts one or two voting peers (possibly the leader) into the joint-consensus roles
// IncomingVoter / DemotingVoter: a region in the middle of a membership change.
func jointize(rng *rand.Rand, c *Case) {
	var vs []int
	for i, p := range c.Peers {
		if !p.Learner {
			vs = append(vs, i)
		}
	}
	if len(vs) == 0 {
		return
	}
	rng.Shuffle(len(vs), func(a, b int) { vs[a], vs[b] = vs[b], vs[a] })
	n := 1 + rng.Intn(2)
	if rng.Intn(3) == 0 { // make sure the leader is often among them
		for i, j := range vs {
			if c.Peers[j].ID == c.Leader {
				vs[0], vs[i] = vs[i], vs[0]
			}
		}
	}
	for i := 0; i < n && i < len(vs); i++ {
		c.Peers[vs[i]].Role = []string{"incoming", "demoting"}[rng.Intn(2)]
	}
	c.Origin += "+joint"
}

// caseVariant returns the same word in another letter case.
func caseVariant(rng *rand.Rand, s string) string {
	switch rng.Intn(3) {
	case 0:
		return upperFirst(s)
	case 1:
		return strings.ToUpper(s)
	default:
		if len(s) < 2 {
			return strings.ToUpper(s)
		}
		return s[:len(s)-1] + strings.ToUpper(s[len(s)-1:])
	}
}

// variantizeStores rewrites label values (and a few keys) into letter-case variants of the same word
// (z1 / Z1 / ZONE), into values that are prefixes of each other (z1 / z10) and, rarely, into the empty
// string. pd looks labels up by key ignoring case, treats an empty value as "not set", compares
// location values ignoring case and constraint values exactly; the model mirrors that.
func variantizeStores(rng *rand.Rand, stores []StoreSpec) {
	for si := range stores {
		ls := stores[si].Labels
		for i := range ls {
			switch v := rng.Intn(100); {
			case v < 30:
				ls[i].V = caseVariant(rng, ls[i].V)
			case v < 38:
				ls[i].V += "0"
			case v < 41:
				ls[i].V = ""
			}
			if rng.Intn(10) == 0 {
				ls[i].K = caseVariant(rng, ls[i].K)
			}
		}
	}
}

func variantizeRules(rng *rand.Rand, rules []RuleSpec) {
	for ri := range rules {
		r := &rules[ri]
		for i := range r.Loc {
			if rng.Intn(7) == 0 {
				r.Loc[i] = caseVariant(rng, r.Loc[i])
			}
		}
		for i := range r.Cons {
			if rng.Intn(8) == 0 {
				r.Cons[i].Key = caseVariant(rng, r.Cons[i].Key)
			}
			for j := range r.Cons[i].Values {
				switch v := rng.Intn(100); {
				case v < 25:
					r.Cons[i].Values[j] = caseVariant(rng, r.Cons[i].Values[j])
				case v < 30:
					r.Cons[i].Values[j] += "0"
				}
			}
		}
	}
}

// caseVariantGrid: three voters on three stores whose zone / host values are drawn from letter-case
// variants and prefixes of the same words, one rule with location labels; complete grid.
func caseVariantGrid(fn func(idx int, c *Case)) {
	zv := []string{"z1", "Z1", "z2", "z10"}
	hv := []string{"h1", "H1"}
	locs := [][]string{{"zone"}, {"zone", "host"}, {"ZONE", "host"}}
	cons := [][]ConsSpec{nil, {{Key: "zone", Op: "in", Values: []string{"z1", "z2"}}}, {{Key: "Zone", Op: "notIn", Values: []string{"Z1"}}}}
	idx := 0
	for z := 0; z < 64; z++ {
		for h := 0; h < 8; h++ {
			for kc := 0; kc < 2; kc++ {
				var stores []StoreSpec
				for i := 0; i < 3; i++ {
					zk := "zone"
					if kc == 1 && i == 0 {
						zk = "Zone"
					}
					stores = append(stores, StoreSpec{ID: uint64(i + 1), Labels: []Label{{zk, zv[(z>>uint(2*i))&3]}, {"host", hv[(h>>uint(i))&1]}}})
				}
				peers := []PeerSpec{{ID: 1, Store: 1}, {ID: 2, Store: 2}, {ID: 3, Store: 3}}
				for _, cnt := range []int{2, 3} {
					for _, loc := range locs {
						for _, cs := range cons {
							fn(idx, &Case{Origin: "directed/case-variants", Stores: stores, Peers: peers, Leader: 1,
								Rules: []RuleSpec{{ID: "r0", Role: "voter", Count: cnt, Cons: cs, Loc: loc}}})
							idx++
						}
					}
				}
			}
		}
	}
}

// injectHazard puts the case into one of the zones where the property statement is silent and the
// implementation has its own conventions (letter case of keys / values, empty label values, stores
// without a location label). The oracle decides whether the hazard matters for the case.
func injectHazard(rng *rand.Rand, c *Case) {
	for k := 1 + rng.Intn(2); k > 0; k-- {
		st := &c.Stores[rng.Intn(len(c.Stores))]
		if len(c.Peers) > 0 && rng.Intn(3) != 0 {
			st = c.store(c.Peers[rng.Intn(len(c.Peers))].Store)
		}
		switch rng.Intn(7) {
		case 0: // drop a label (possibly a location label)
			if len(st.Labels) > 1 {
				i := rng.Intn(len(st.Labels))
				st.Labels = append(st.Labels[:i:i], st.Labels[i+1:]...)
			}
		case 1:
			i := rng.Intn(len(st.Labels))
			st.Labels[i].K = upperFirst(st.Labels[i].K)
		case 2:
			i := rng.Intn(len(st.Labels))
			st.Labels[i].V = upperFirst(st.Labels[i].V)
		case 3:
			st.Labels[rng.Intn(len(st.Labels))].V = ""
		case 4:
			r := &c.Rules[rng.Intn(len(c.Rules))]
			if len(r.Cons) > 0 {
				x := &r.Cons[rng.Intn(len(r.Cons))]
				x.Key = upperFirst(x.Key)
			}
		case 5:
			r := &c.Rules[rng.Intn(len(c.Rules))]
			if len(r.Cons) > 0 {
				x := &r.Cons[rng.Intn(len(r.Cons))]
				if len(x.Values) > 0 {
					j := rng.Intn(len(x.Values))
					x.Values[j] = upperFirst(x.Values[j])
				}
			}
		case 6:
			r := &c.Rules[rng.Intn(len(c.Rules))]
			if len(r.Loc) > 0 {
				j := rng.Intn(len(r.Loc))
				r.Loc[j] = upperFirst(r.Loc[j])
			}
		}
	}
}

// genCase draws one random case. Profiles:
//
//	generic  : mixed stores (zone/rack/host/disk/engine/$x/$y/exclusive), random rules
//	ties     : plain zone/host stores, few label values, unconstrained or zone-constrained rules with
//	           location labels: many equally good choices for early rules that differ for later rules
//	tiflash  : voters rule + learner rule restricted to engine=tiflash (+ optional extra rules)
func genCase(rng *rand.Rand) *Case {
	c := &Case{}
	prof := rng.Intn(10)
	switch {
	case prof < 5:
		c.Origin = "random/generic"
		useRack := rng.Intn(3) == 0
		s := 3 + rng.Intn(6)
		c.Stores = genStores(rng, s, false, useRack, 3, 3)
		n := []int{1, 2, 3, 3, 4, 4, 5, 5, 6, 6}[rng.Intn(10)]
		if n > s {
			n = s
		}
		genPeers(rng, c, n)
		k := []int{1, 2, 2, 3, 3, 4}[rng.Intn(6)]
		for i := 0; i < k; i++ {
			c.Rules = append(c.Rules, genRule(rng, i, useRack))
		}
	case prof < 8:
		c.Origin = "random/ties"
		s := 4 + rng.Intn(4)
		c.Stores = genStores(rng, s, true, false, 2+rng.Intn(2), 2)
		n := 3 + rng.Intn(4)
		if n > s {
			n = s
		}
		genPeers(rng, c, n)
		k := 2 + rng.Intn(3)
		for i := 0; i < k; i++ {
			r := RuleSpec{ID: fmt.Sprintf("r%d", i), Role: wpick(rng, roleNames, []int{6, 3, 4, 4}), Count: 1 + rng.Intn(3)}
			if rng.Intn(3) == 0 {
				r.Cons = []ConsSpec{{Key: "zone", Op: opNames[rng.Intn(2)], Values: []string{zones[rng.Intn(3)]}}}
			}
			r.Loc = append([]string(nil), [][]string{{"zone", "host"}, {"zone"}, {"host"}, nil}[[]int{0, 0, 0, 1, 1, 2, 3}[rng.Intn(7)]]...)
			c.Rules = append(c.Rules, r)
		}
	default:
		c.Origin = "random/tiflash"
		s := 4 + rng.Intn(5)
		c.Stores = genStores(rng, s, false, false, 3, 3)
		n := 3 + rng.Intn(4)
		if n > s {
			n = s
		}
		genPeers(rng, c, n)
		c.Rules = append(c.Rules, RuleSpec{ID: "voters", Role: wpick(rng, roleNames, []int{8, 1, 2, 0}), Count: 2 + rng.Intn(2), Loc: []string{"zone", "host"}})
		c.Rules = append(c.Rules, RuleSpec{ID: "tiflash", Role: wpick(rng, roleNames, []int{1, 0, 1, 8}), Count: 1 + rng.Intn(2),
			Cons: []ConsSpec{{Key: "engine", Op: "in", Values: []string{"tiflash"}}}, Loc: []string{"zone"}})
		if rng.Intn(2) == 0 {
			c.Rules = append(c.Rules, genRule(rng, 2, false))
		}
		if rng.Intn(3) == 0 {
			rng.Shuffle(len(c.Rules), func(a, b int) { c.Rules[a], c.Rules[b] = c.Rules[b], c.Rules[a] })
		}
	}
	if rng.Intn(8) == 0 {
		if nc := genNearSatisfied(rng); nc != nil {
			c = nc
		}
	}
	if rng.Intn(4) == 0 {
		jointize(rng, c)
	}
	if rng.Intn(4) == 0 {
		variantizeStores(rng, c.Stores)
		variantizeRules(rng, c.Rules)
		c.Origin += "+variants"
	}
	if rng.Intn(10) == 0 {
		injectHazard(rng, c)
		c.Origin += "+hazard"
	}
	if rng.Intn(8) == 0 {
		oddize(rng, c)
		c.Origin += "+odd"
	}
	return c
}

// oddize: unusual but possible spellings and shapes. What the statement (plus pd's documented
// conventions) decides is judged: values given to exists / notExists (ignored), values containing
// separators, empty or duplicated values, label values with separators, a location label containing a
// separator, count 0 and huge counts, two peers on one store, a region without leader. What it does
// not decide is only checked for panics and for the partition clause, or skipped: negative counts,
// roles spelled in another case, a peer whose store is unknown. Joint-consensus peer roles are judged (voting members).
func oddize(rng *rand.Rand, c *Case) {
	for n := 1 + rng.Intn(2); n > 0; n-- {
		r := &c.Rules[rng.Intn(len(c.Rules))]
		switch rng.Intn(12) {
		case 0:
			r.Cons = append(r.Cons, ConsSpec{Key: pick(rng, []string{"zone", "host", "engine", "disk"}), Op: opNames[2+rng.Intn(2)], Values: []string{pick(rng, zones), "tiflash"}})
		case 1:
			if len(r.Cons) > 0 {
				x := &r.Cons[rng.Intn(len(r.Cons))]
				switch rng.Intn(4) {
				case 0:
					x.Values = append(x.Values, "")
				case 1:
					if len(x.Values) > 0 {
						x.Values = append(x.Values, x.Values[0])
					}
				case 2:
					x.Values = []string{strings.Join(append(append([]string(nil), x.Values...), "z2"), ",")}
				default:
					x.Values = append(x.Values, "z1 z2", "z1;z2")
				}
			}
		case 2:
			st := &c.Stores[rng.Intn(len(c.Stores))]
			if len(st.Labels) > 0 {
				i := rng.Intn(len(st.Labels))
				st.Labels[i].V = st.Labels[i].V + "," + pick(rng, zones)
				if rng.Intn(2) == 0 {
					r.Cons = append(r.Cons, ConsSpec{Key: st.Labels[i].K, Op: opNames[rng.Intn(2)], Values: []string{st.Labels[i].V}})
				}
			}
		case 3:
			r.Loc = []string{"zone,host"}
			if rng.Intn(2) == 0 {
				r.Loc = []string{"zone", "zone,host", "host"}
			}
		case 4:
			r.Count = []int{0, 0, 1 << 40, int(^uint(0) >> 1), -1, -5}[rng.Intn(6)]
		case 5:
			r.Role = pick(rng, []string{"Voter", "LEADER", "Learner", "follower ", ""})
		case 6:
			p := &c.Peers[rng.Intn(len(c.Peers))]
			p.Role, p.Learner = pick(rng, []string{"incoming", "demoting"}), false
		case 7:
			if len(c.Peers) > 1 {
				i, j := rng.Intn(len(c.Peers)), rng.Intn(len(c.Peers))
				c.Peers[i].Store = c.Peers[j].Store
			}
		case 8:
			c.Leader = []uint64{0, 9999}[rng.Intn(2)]
		case 9:
			gone := c.Peers[rng.Intn(len(c.Peers))].Store
			var keep []StoreSpec
			for _, s := range c.Stores {
				if s.ID != gone {
					keep = append(keep, s)
				}
			}
			c.Stores = keep
		default:
			if len(r.Cons) > 0 {
				r.Cons = append(r.Cons, r.Cons[0]) // the same constraint twice
			}
		}
	}
}

// oneFieldGrid: two rules that differ in exactly one field (every field, several values) compete for
// the same peers, in both orders, over three regions of one small cluster.
func oneFieldGrid(fn func(idx int, c *Case)) {
	stores := []StoreSpec{plainStore(1, "z1", "h1"), plainStore(2, "z1", "h2"), plainStore(3, "z2", "h1"), plainStore(4, "z3", "h1"),
		{ID: 5, Labels: []Label{{"zone", "z2"}, {"host", "h2"}, {"engine", "tiflash"}}}}
	regions := [][]PeerSpec{
		{{ID: 1, Store: 1}, {ID: 2, Store: 2}, {ID: 3, Store: 3}, {ID: 4, Store: 4}},
		{{ID: 4, Store: 1}, {ID: 3, Store: 2, Learner: true}, {ID: 2, Store: 3}, {ID: 1, Store: 5, Learner: true}},
		{{ID: 7, Store: 3}, {ID: 8, Store: 4}, {ID: 9, Store: 5, Learner: true}},
		{{ID: 1, Store: 1, Role: "demoting"}, {ID: 2, Store: 2}, {ID: 3, Store: 3, Role: "incoming"}, {ID: 4, Store: 4}},
		{{ID: 1, Store: 1}, {ID: 2, Store: 2, Role: "demoting"}, {ID: 3, Store: 4, Role: "incoming"}, {ID: 5, Store: 5, Learner: true}},
	}
	leaders := []uint64{1, 4, 8, 1, 1}
	zc := func(op string, vs ...string) []ConsSpec { return []ConsSpec{{Key: "zone", Op: op, Values: vs}} }
	bases := []RuleSpec{
		{Role: "voter", Count: 2, Cons: zc("in", "z1", "z2"), Loc: []string{"zone", "host"}},
		{Role: "follower", Count: 1, Loc: []string{"zone"}},
		{Role: "learner", Count: 1, Cons: []ConsSpec{{Key: "engine", Op: "in", Values: []string{"tiflash"}}}},
	}
	idx := 0
	for _, b := range bases {
		var vars []RuleSpec
		for _, role := range roleNames {
			if role != b.Role {
				v := b
				v.Role = role
				vars = append(vars, v)
			}
		}
		for _, cnt := range []int{1, 2, 3} {
			if cnt != b.Count {
				v := b
				v.Count = cnt
				vars = append(vars, v)
			}
		}
		for _, loc := range [][]string{nil, {"zone"}, {"host"}, {"zone", "host"}, {"host", "zone"}} {
			if strings.Join(loc, ",") != strings.Join(b.Loc, ",") {
				v := b
				v.Loc = loc
				vars = append(vars, v)
			}
		}
		if len(b.Cons) > 0 {
			for _, op := range opNames {
				if op != b.Cons[0].Op {
					v := b
					v.Cons = []ConsSpec{{Key: b.Cons[0].Key, Op: op, Values: b.Cons[0].Values}}
					vars = append(vars, v)
				}
			}
			for _, vs := range [][]string{{"z1"}, {"z3"}, {"z2", "z1"}, nil} {
				v := b
				v.Cons = []ConsSpec{{Key: b.Cons[0].Key, Op: b.Cons[0].Op, Values: vs}}
				vars = append(vars, v)
			}
			v := b
			v.Cons = []ConsSpec{{Key: "host", Op: b.Cons[0].Op, Values: b.Cons[0].Values}}
			vars = append(vars, v)
			v = b
			v.Cons = nil
			vars = append(vars, v)
		} else {
			v := b
			v.Cons = zc("in", "z1")
			vars = append(vars, v)
		}
		vars = append(vars, b) // and the identical twin (only the id differs)
		for _, v := range vars {
			for ri, reg := range regions {
				for order := 0; order < 2; order++ {
					r0, r1 := b, v
					if order == 1 {
						r0, r1 = v, b
					}
					r0.ID, r1.ID = "a", "b"
					fn(idx, &Case{Origin: "directed/one-field", Stores: stores, Peers: reg, Leader: leaders[ri], Rules: []RuleSpec{r0, r1}})
					idx++
				}
			}
		}
	}
}

// genNearSatisfied builds the rules first and then a region that fills them (right stores, right
// roles, exactly Count peers each) and perturbs it by at most one edit, so that satisfied regions and
// their near misses (one role off, one peer too many / too few) are well represented.
func genNearSatisfied(rng *rand.Rand) *Case {
	c := &Case{Origin: "random/near-satisfied"}
	plain := rng.Intn(2) == 0
	c.Stores = genStores(rng, 5+rng.Intn(4), plain, false, 3, 3)
	k := 1 + rng.Intn(3)
	for i := 0; i < k; i++ {
		r := genRule(rng, i, false)
		if r.Count > 3 {
			r.Count = 3
		}
		c.Rules = append(c.Rules, r)
	}
	def := docReading
	used := map[uint64]bool{}
	ids := rng.Perm(40)
	haveLeader := false
	for ri := range c.Rules {
		r := &c.Rules[ri]
		need := r.Count
		for _, si := range rng.Perm(len(c.Stores)) {
			st := &c.Stores[si]
			if need == 0 || len(c.Peers) >= maxN {
				break
			}
			if ok, _ := storeFitsRule(st, r, def); !ok || used[st.ID] {
				continue
			}
			if r.Role == "leader" && haveLeader {
				break
			}
			p := PeerSpec{ID: uint64(ids[len(c.Peers)] + 1), Store: st.ID, Learner: r.Role == "learner"}
			if r.Role == "leader" {
				haveLeader = true
				c.Leader = p.ID
			}
			used[st.ID] = true
			c.Peers = append(c.Peers, p)
			need--
		}
	}
	if len(c.Peers) == 0 {
		return nil
	}
	if !haveLeader {
		var vs []int
		for i, p := range c.Peers {
			if !p.Learner {
				vs = append(vs, i)
			}
		}
		if len(vs) == 0 {
			c.Peers[0].Learner = false
			vs = []int{0}
		}
		c.Leader = c.Peers[vs[rng.Intn(len(vs))]].ID
	}
	switch rng.Intn(5) {
	case 0: // flip one role (never the leader)
		i := rng.Intn(len(c.Peers))
		if c.Peers[i].ID != c.Leader {
			c.Peers[i].Learner = !c.Peers[i].Learner
		}
	case 1: // one more peer on a free store
		for _, si := range rng.Perm(len(c.Stores)) {
			if st := &c.Stores[si]; !used[st.ID] && len(c.Peers) < maxN {
				c.Peers = append(c.Peers, PeerSpec{ID: uint64(ids[len(c.Peers)] + 1), Store: st.ID, Learner: rng.Intn(3) == 0})
				break
			}
		}
	case 2: // one peer fewer (never the leader)
		i := rng.Intn(len(c.Peers))
		if c.Peers[i].ID != c.Leader {
			c.Peers = append(c.Peers[:i:i], c.Peers[i+1:]...)
		}
	}
	rng.Shuffle(len(c.Peers), func(a, b int) { c.Peers[a], c.Peers[b] = c.Peers[b], c.Peers[a] })
	return c
}

// ---- exhaustive small layouts ----

// layout describes a bounded space that is enumerated completely: a fixed cluster, every choice of
// `peers` distinct stores, every voter/learner pattern with every choice of leader among the voters,
// and every ordered pair of rules built from the option lists.
type layout struct {
	name   string
	stores []StoreSpec
	peers  int
	counts []int
	cons   [][]ConsSpec
	locs   [][]string
}

func plainStore(id uint64, z, h string) StoreSpec {
	return StoreSpec{ID: id, Labels: []Label{{"zone", z}, {"host", h}}}
}

func quickLayout() *layout {
	return &layout{
		name:   "exhaustive/3peers-2rules-4stores",
		stores: []StoreSpec{plainStore(1, "z1", "h1"), plainStore(2, "z1", "h2"), plainStore(3, "z2", "h1"), plainStore(4, "z3", "h1")},
		peers:  3,
		counts: []int{1, 2, 3},
		cons:   [][]ConsSpec{nil, {{Key: "zone", Op: "in", Values: []string{"z1"}}}, {{Key: "zone", Op: "notIn", Values: []string{"z1"}}}},
		locs:   [][]string{nil, {"zone", "host"}},
	}
}

func thoroughLayout() *layout {
	return &layout{
		name: "exhaustive/4peers-2rules-3zones-6stores",
		stores: []StoreSpec{plainStore(1, "z1", "h1"), plainStore(2, "z1", "h2"), plainStore(3, "z2", "h1"),
			plainStore(4, "z2", "h2"), plainStore(5, "z3", "h1"), plainStore(6, "z3", "h2")},
		peers:  4,
		counts: []int{1, 2, 3},
		cons: [][]ConsSpec{nil, {{Key: "zone", Op: "in", Values: []string{"z1"}}}, {{Key: "zone", Op: "notIn", Values: []string{"z1"}}},
			{{Key: "zone", Op: "in", Values: []string{"z1", "z2"}}}},
		locs: [][]string{nil, {"zone"}, {"zone", "host"}},
	}
}

func (l *layout) ruleOptions() []RuleSpec {
	var out []RuleSpec
	for _, role := range roleNames {
		for _, cnt := range l.counts {
			for _, cs := range l.cons {
				for _, loc := range l.locs {
					out = append(out, RuleSpec{Role: role, Count: cnt, Cons: cs, Loc: loc})
				}
			}
		}
	}
	return out
}

// regions enumerates (store subset, learner mask, leader) combinations.
func (l *layout) regions() [][]PeerSpec {
	var out [][]PeerSpec
	s := len(l.stores)
	var subsets [][]int
	var rec func(start int, cur []int)
	rec = func(start int, cur []int) {
		if len(cur) == l.peers {
			subsets = append(subsets, append([]int(nil), cur...))
			return
		}
		for i := start; i < s; i++ {
			rec(i+1, append(cur, i))
		}
	}
	rec(0, nil)
	for _, sub := range subsets {
		for mask := 0; mask < 1<<uint(l.peers); mask++ { // bit set = learner
			for lead := 0; lead < l.peers; lead++ {
				if mask&(1<<uint(lead)) != 0 {
					continue
				}
				var ps []PeerSpec
				for i, si := range sub {
					ps = append(ps, PeerSpec{ID: uint64(10 + i), Store: l.stores[si].ID, Learner: mask&(1<<uint(i)) != 0})
				}
				// leader marker: encoded by moving the leader's id to 99 would change id order; keep ids and
				// return the leader through a trailing pseudo entry instead.
				ps = append(ps, PeerSpec{ID: ps[lead].ID})
				out = append(out, ps)
			}
		}
	}
	return out
}

func (l *layout) size() int {
	ro := len(l.ruleOptions())
	return len(l.regions()) * ro * ro
}

// each calls fn for every case with index%shards == shard.
func (l *layout) each(shard, shards int, fn func(idx int, c *Case)) {
	opts := l.ruleOptions()
	regs := l.regions()
	idx := 0
	for _, reg := range regs {
		peers := reg[:len(reg)-1]
		leader := reg[len(reg)-1].ID
		for a := range opts {
			for b := range opts {
				if idx%shards == shard {
					r0, r1 := opts[a], opts[b]
					r0.ID, r1.ID = "r0", "r1"
					fn(idx, &Case{Origin: l.name, Stores: l.stores, Peers: peers, Leader: leader, Rules: []RuleSpec{r0, r1}})
				}
				idx++
			}
		}
	}
}
