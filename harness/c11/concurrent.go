package main

import (
	"fmt"
	"math/rand"
	"sync"
	"time"

	"github.com/tikv/pd/server/core"
	"github.com/tikv/pd/server/schedule"
	"github.com/tikv/pd/server/schedule/hbstream"
	"verif/harness/lib/sim"
)

// Family "concurrent entry points": what a running server really overlaps.
//
//   - the scatter RPCs of several clients run Scatter on the ONE shared RegionScatterer at the same time;
//   - the coordinator runs every scheduler in a goroutine of its own (a scheduler is never entered twice at
//     once), all of them on the one cluster and the one OperatorController;
//   - region and store heartbeats replace the RegionInfo / StoreInfo objects meanwhile.
//
// The world is static here (no store state, label or placement change; heartbeats re-report the same
// placement with new flow numbers), so every operator can be judged soundly against the one description
// whatever the interleaving was. Races inside pd are left to the race detector (listed in the evidence);
// what this family decides is whether the operators that come out of overlapped calls are still right.
func concurrentWorld(s *stats, rng *rand.Rand, scatterCalls, schedCalls int) error {
	w := randomWorld(rng, 0)
	var plain []uint64
	for i := range w.Stores {
		if w.plainUp(&w.Stores[i]) {
			plain = append(plain, w.Stores[i].ID)
		}
	}
	if len(plain) >= 3 && rng.Intn(2) == 0 {
		w.Evict = plain[0]
	}
	if len(plain) >= 3 && rng.Intn(3) == 0 {
		w.Grant = plain[1]
	}
	cl, err := newCluster(w)
	if err != nil {
		return fmt.Errorf("concurrent: cannot build cluster: %v", err)
	}
	defer cl.close()
	regions := randomRegions(rng, cl, 60, 1, []int{0, 15}[rng.Intn(2)], 0)
	if len(regions) == 0 {
		return nil
	}
	feedHot(rng, cl, regions, 20)
	cl.refreshStores()
	stream := hbstream.NewTestHeartbeatStreams(cl.ctx, cl.ID, cl, false)
	oc := schedule.NewOperatorController(cl.ctx, cl, stream)
	insts, err := createSchedulers(cl, oc, len(regions), rng)
	if err != nil {
		return err
	}
	sc := schedule.NewRegionScatterer(cl.ctx, cl)
	// One sequential call per region shape first: the scatterer creates its per-engine context lazily in a plain
	// map; two first-ever calls for a tiflash region at the very same moment could abort the process ("concurrent
	// map writes") instead of giving a verdict. See the report: that lazy creation is not synchronised in pd.
	for _, r := range regions[:minInt(len(regions), 12)] {
		callScatter(sc, cl.GetRegion(r.GetID()), "warm-up")
	}
	s.count("concurrent_worlds", 1)
	countProps(s, w)

	ids := make([]uint64, 0, len(regions))
	for _, r := range regions {
		ids = append(ids, r.GetID())
	}
	var wg sync.WaitGroup
	var mu sync.Mutex
	finish := func(t *stats) {
		mu.Lock()
		s.absorbAll(t)
		mu.Unlock()
	}
	seed := rng.Int63()
	// scatter clients
	groups := []string{"", "g1", "g2"}
	for g := 0; g < 3; g++ {
		wg.Add(1)
		go func(g int) {
			defer wg.Done()
			t := newStats()
			defer finish(t)
			lr := rand.New(rand.NewSource(seed + int64(g)))
			for k := 0; k < scatterCalls; k++ {
				region := cl.Cluster.GetRegion(ids[lr.Intn(len(ids))])
				group := groups[lr.Intn(len(groups))]
				t.count("concurrent_scatter_calls", 1)
				op, err, panicked := callScatter(sc, region, group)
				if panicked != nil {
					t.report(&finding{Key: "panic-in-scatter:concurrent", What: fmt.Sprintf("RegionScatterer.Scatter panicked while other Scatter / Schedule calls were running: %v", panicked), Size: len(w.Stores) * 1000,
						Witness: map[string]interface{}{"world": w.clone(), "region": originSummary(region), "group": group, "panic": fmt.Sprint(panicked)}})
					continue
				}
				if err != nil || op == nil {
					continue
				}
				t.count("concurrent_scatter_operators", 1)
				if op.RegionID() != region.GetID() {
					t.report(&finding{Key: "scatter-operator-for-another-region", What: fmt.Sprintf("Scatter(region %d) returned an operator for region %d while other Scatter calls were running", region.GetID(), op.RegionID()), Size: len(w.Stores) * 1000,
						Witness: map[string]interface{}{"world": w.clone(), "region": originSummary(region), "group": group, "operator": op.String()}})
					continue
				}
				judgeOp(t, &opCase{Src: "scatter", W: w, Origin: region, Op: op,
					LossKey: func() (string, string) {
						return "scatter-loses-peer:concurrent-calls", "; other Scatter calls ran on the same scatterer at the same time"
					},
					Extra: map[string]interface{}{"group": group, "concurrent": "3 scatter clients, 4 scheduler goroutines, 1 heartbeat goroutine on one cluster"}})
			}
		}(g)
	}
	// scheduler goroutines: each scheduler belongs to exactly one of them
	const schedWorkers = 4
	for g := 0; g < schedWorkers; g++ {
		var mine []*schedInst
		for i, in := range insts {
			if i%schedWorkers == g {
				mine = append(mine, in)
			}
		}
		wg.Add(1)
		go func(g int, mine []*schedInst) {
			defer wg.Done()
			t := newStats()
			defer finish(t)
			lr := rand.New(rand.NewSource(seed + 100 + int64(g)))
			for k := 0; k < schedCalls; k++ {
				in := mine[lr.Intn(len(mine))]
				if !in.s.IsScheduleAllowed(cl) {
					continue
				}
				t.count("concurrent_sched_calls_"+in.typ, 1)
				ops, panicked := callSchedule(in.s, cl)
				if panicked != nil {
					t.report(&finding{Key: "panic-in-schedule:concurrent:" + in.typ, What: fmt.Sprintf("%s.Schedule panicked while other Schedule / Scatter calls were running: %v", in.typ, panicked), Size: len(w.Stores) * 1000,
						Witness: map[string]interface{}{"world": w.clone(), "panic": fmt.Sprint(panicked)}})
					continue
				}
				for _, op := range ops {
					origin := cl.Cluster.GetRegion(op.RegionID())
					if origin == nil {
						continue
					}
					t.count("concurrent_sched_operators", 1)
					t.count("sched_operators_"+in.typ, 1)
					judgeOp(t, &opCase{Src: in.typ, W: w, Origin: origin, Op: op,
						Extra: map[string]interface{}{"concurrent": "3 scatter clients, 4 scheduler goroutines, 1 heartbeat goroutine on one cluster", "region_layout_now": sim.Layout(origin)}})
				}
			}
		}(g, mine)
	}
	// heartbeats: same placement, new flow numbers; store counters refreshed
	stop := make(chan struct{})
	var hb sync.WaitGroup
	hb.Add(1)
	go func() {
		defer hb.Done()
		lr := rand.New(rand.NewSource(seed + 999))
		n := int64(0)
		for {
			select {
			case <-stop:
				mu.Lock()
				s.count("concurrent_heartbeats", n)
				mu.Unlock()
				return
			default:
			}
			if r := cl.Cluster.GetRegion(ids[lr.Intn(len(ids))]); r != nil {
				cl.PutRegion(r.Clone(core.SetApproximateKeys(r.GetApproximateKeys() + 1)))
			}
			if st := cl.Cluster.GetStore(w.Stores[lr.Intn(len(w.Stores))].ID); st != nil {
				cl.PutStore(st.Clone()) // a store heartbeat that reports nothing new (pause flags are set before the goroutines start)
			}
			n++
			time.Sleep(200 * time.Microsecond)
		}
	}()
	wg.Wait()
	close(stop)
	hb.Wait()
	for _, in := range insts {
		in.s.Cleanup(cl)
	}
	return nil
}

func minInt(a, b int) int {
	if a < b {
		return a
	}
	return b
}
