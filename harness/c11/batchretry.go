package main

import (
	"fmt"
	"math/rand"
	"time"

	"github.com/pingcap/kvproto/pkg/metapb"
	"github.com/tikv/pd/pkg/mock/mockcluster"
	"github.com/tikv/pd/server/core"
	"github.com/tikv/pd/server/schedule"
	"github.com/tikv/pd/server/schedule/operator"
	"github.com/tikv/pd/server/schedule/placement"
	"verif/harness/lib/sim"
)

// Scenario family "scatter-batch-retry": the batch API (ScatterRegions / ScatterRegionsByID /
// ScatterRegionsByRange with retryLimit 1..3) retries a region whose first attempt failed after a back-off
// sleep. Between the two attempts the cluster may change. The harness injects exactly that at the existing
// suspension point: a double of the cluster makes the first attempt of one region of the batch fail (the
// region is reported hot once, or not fully replicated once) and at that very moment takes the store that
// the scatterer's selection history makes the preferred target out of service (offline / tombstone / down /
// disconnected). Every operator the batch returns is judged against the store states at the time the batch
// returns. No wall-clock value enters a verdict: the state change is tied to the failing query, not to time.
const (
	srcBatchRetry  = "scatter-batch-retry"
	stTombstone    = "tombstone"
	stDisconnected = "disconnected" // state Up but no heartbeat for 5 minutes (only generated in this family)
)

// flipCluster is the harness' own opt.Cluster: the mockcluster plus two intercepted queries.
type flipCluster struct {
	*mockcluster.Cluster
	target   uint64 // region whose first attempt is made to fail
	trigger  string // "hot-once" | "unreplicated-once"
	fired    bool
	hotCalls int
	fitCalls int
	onFire   func()
}

// IsRegionHot reports the target region hot exactly once (its first attempt fails with "region is hot").
func (f *flipCluster) IsRegionHot(region *core.RegionInfo) bool {
	if region.GetID() == f.target {
		f.hotCalls++
		if f.trigger == "hot-once" && !f.fired {
			f.fired = true
			f.onFire()
			return true
		}
	}
	return f.Cluster.IsRegionHot(region)
}

// FitRegion reports the target region as matching no rule exactly once ("not fully replicated").
func (f *flipCluster) FitRegion(region *core.RegionInfo) *placement.RegionFit {
	if region.GetID() == f.target && region.GetID() != 0 {
		f.fitCalls++
		if f.trigger == "unreplicated-once" && !f.fired {
			f.fired = true
			f.onFire()
			return &placement.RegionFit{}
		}
	}
	return f.Cluster.FitRegion(region)
}

type retryScenario struct {
	API        string   `json:"api"`
	RetryLimit int      `json:"retry_limit"`
	Trigger    string   `json:"first_attempt_fails_because"`
	FlipStore  uint64   `json:"preferred_target_store"`
	FlipTo     string   `json:"store_taken_out_of_service_as"` // "" = control: nothing changes
	Group      string   `json:"group"`
	HistoryN   int      `json:"history_every_other_store_selected_n_times"`
	Target     string   `json:"retried_region"`
	Fillers    []string `json:"other_regions_in_batch"`
}

// batchRetryScenario runs one scenario in a world of its own.
func batchRetryScenario(s *stats, rng *rand.Rand) error {
	w := &world{Mode: allModes[rng.Intn(len(allModes))], Rules: "off", MaxReplicas: 3}
	if rng.Intn(2) == 0 {
		w.Rules = "default"
	}
	w.LocationLabels = rng.Intn(3) == 0
	S := 4 + rng.Intn(4)
	for i := 1; i <= S; i++ {
		sd := storeDesc{ID: uint64(i), State: stUp} // all plainly up: the known scatter-leader findings cannot occur here
		if w.LocationLabels {
			sd.Zone, sd.Host = fmt.Sprintf("z%d", i), fmt.Sprintf("h%d", i) // all distinct: any replacement keeps the isolation
		}
		w.Stores = append(w.Stores, sd)
	}
	cl, err := newCluster(w)
	if err != nil {
		return fmt.Errorf("batch-retry: cannot build cluster: %v", err)
	}
	defer cl.close()

	perm := rng.Perm(S)
	T := uint64(perm[0] + 1) // preferred target: holds no peer of the retried region
	var others []uint64
	for _, p := range perm[1:] {
		others = append(others, uint64(p+1))
	}
	sc := &retryScenario{
		API:        []string{"ScatterRegions", "ScatterRegionsByID", "ScatterRegionsByRange"}[rng.Intn(3)],
		RetryLimit: 1 + rng.Intn(3),
		Trigger:    "hot-once",
		FlipStore:  T,
		FlipTo:     []string{stOffline, stTombstone, stDown, stDisconnected}[rng.Intn(4)],
		Group:      []string{"", "g1"}[rng.Intn(2)],
		HistoryN:   4,
	}
	if w.Rules != "off" && rng.Intn(2) == 0 {
		sc.Trigger = "unreplicated-once"
	}
	control := rng.Intn(6) == 0
	if control {
		sc.FlipTo = ""
	}
	// the retried region lives on three stores other than T; fillers hold a peer on T (so that no first-attempt
	// operator can legitimately add a peer there while T is still up)
	target := cl.putRegionDesc(&regionDesc{ID: 1, Voters: []uint64{others[0], others[1], others[2]}, Leader: rng.Intn(3), SizeMB: 96})
	regions := []*core.RegionInfo{target}
	for i := 0; i < rng.Intn(3); i++ {
		a, b := others[rng.Intn(len(others))], others[rng.Intn(len(others))]
		if a == b {
			continue
		}
		voters := []uint64{T, a, b}
		f := cl.putRegionDesc(&regionDesc{ID: uint64(2 + i), Voters: voters, Leader: 1 + rng.Intn(2), SizeMB: 96})
		regions = append(regions, f)
		sc.Fillers = append(sc.Fillers, sim.Layout(f))
	}
	cl.refreshStores()
	sc.Target = sim.Layout(target)

	fc := &flipCluster{Cluster: cl.Cluster, target: target.GetID(), trigger: sc.Trigger}
	fc.onFire = func() {
		if sc.FlipTo == "" {
			return
		}
		st := cl.GetStore(T)
		switch sc.FlipTo {
		case stOffline:
			st = st.Clone(core.OfflineStore(false))
		case stTombstone:
			st = st.Clone(core.TombstoneStore())
		case stDown:
			st = st.Clone(core.SetLastHeartbeatTS(time.Time{}))
		case stDisconnected:
			st = st.Clone(core.SetLastHeartbeatTS(time.Now().Add(-5 * time.Minute)))
		}
		cl.PutStore(st)
		w.store(T).State = sc.FlipTo // from now on the oracle knows the store is out of service
	}

	scatterer := schedule.NewRegionScatterer(cl.ctx, fc)
	// selection history: every store but T was part of HistoryN earlier placements of this group
	hist := map[uint64]*metapb.Peer{}
	for _, o := range others {
		hist[o] = &metapb.Peer{StoreId: o}
	}
	for k := 0; k < sc.HistoryN; k++ {
		scatterer.Put(hist, others[0], sc.Group)
	}

	byID := map[uint64]*core.RegionInfo{}
	var ids []uint64
	for _, r := range regions {
		byID[r.GetID()] = r
		ids = append(ids, r.GetID())
	}
	var ops []*operator.Operator
	var failures map[uint64]error
	var panicked interface{}
	func() {
		defer func() {
			if p := recover(); p != nil {
				panicked = p
			}
		}()
		switch sc.API {
		case "ScatterRegions":
			in := map[uint64]*core.RegionInfo{}
			for id, r := range byID {
				in[id] = r
			}
			failures = map[uint64]error{}
			ops, err = scatterer.ScatterRegions(in, failures, sc.Group, sc.RetryLimit)
		case "ScatterRegionsByID":
			ops, failures, err = scatterer.ScatterRegionsByID(ids, sc.Group, sc.RetryLimit)
		default:
			ops, failures, err = scatterer.ScatterRegionsByRange([]byte(""), []byte(""), sc.Group, sc.RetryLimit)
		}
	}()
	s.count("batch_retry_scenarios", 1)
	s.count("batch_retry_api_"+sc.API, 1)
	s.count("batch_retry_trigger_"+sc.Trigger, 1)
	if panicked != nil {
		s.report(&finding{Key: "panic-in-scatter:" + srcBatchRetry, What: fmt.Sprintf("%s panicked: %v", sc.API, panicked), Size: len(w.Stores) * 1000,
			Witness: map[string]interface{}{"world": w.clone(), "scenario": sc, "panic": fmt.Sprint(panicked)}})
		return nil
	}
	if err != nil {
		s.inconclusive("batch-retry: %s returned %v", sc.API, err)
		return nil
	}
	if !fc.fired {
		s.inconclusive("batch-retry: the failing query (%s) was never asked for the retried region", sc.Trigger)
		return nil
	}
	s.count("batch_retry_first_attempt_failed_and_store_changed", 1)
	// hot-once: both attempts ask "is it hot"; unreplicated-once: only the second attempt gets that far
	retried := fc.hotCalls >= 2
	if sc.Trigger == "unreplicated-once" {
		retried = fc.hotCalls >= 1
	}
	if !retried {
		s.inconclusive("batch-retry: the region was not retried (hot calls %d, fit calls %d, failures %v)", fc.hotCalls, fc.fitCalls, failures)
		return nil
	}
	s.count("batch_retry_second_attempt_observed", 1)
	if sc.FlipTo != "" {
		s.count("batch_retry_store_flipped_to_"+sc.FlipTo, 1)
	}
	for _, op := range ops {
		origin := byID[op.RegionID()]
		if origin == nil {
			s.report(&finding{Key: "scatter-operator-for-unrequested-region", What: fmt.Sprintf("%s returned an operator for region %d which was not in the request %v", sc.API, op.RegionID(), ids), Size: 1,
				Witness: map[string]interface{}{"world": w.clone(), "scenario": sc, "operator": op.String()}})
			continue
		}
		s.count("batch_retry_operators", 1)
		c := &opCase{Src: srcBatchRetry, W: w, Origin: origin, Op: op,
			Extra: map[string]interface{}{"scenario": sc, "note": "store states in 'world' are those at the time the batch returned; the preferred target store changed state when the first attempt of the retried region failed"}}
		v := judgeOp(s, c)
		if op.RegionID() != target.GetID() || !v.Complete {
			continue
		}
		s.count("batch_retry_operators_for_retried_region", 1)
		if v.Final.Peer(T) != nil {
			if control {
				s.count("batch_retry_control_retry_moved_a_peer_to_the_preferred_store", 1)
			}
		} else if !v.Failed {
			s.count("batch_retry_retry_avoided_the_store_out_of_service", 1)
		}
	}
	if control {
		s.count("batch_retry_control_scenarios", 1)
	}
	return nil
}
