package main

import (
	"fmt"
	"hash/fnv"
	"math/rand"

	"github.com/tikv/pd/server/core"
	"github.com/tikv/pd/server/schedule"
	"github.com/tikv/pd/server/schedule/hbstream"
	"github.com/tikv/pd/server/schedule/operator"
	"verif/harness/lib/sched"
)

// Family "gated overlap": THREE scatter requests and one scheduler call run at the same time on the one
// scatterer / cluster, but not free-running: every query they make to the cluster (the harness' own double) is a
// gate of lib/sched. The workers are started one after the other in a drawn order, each runs until it parks at
// its first query; then a PRNG decides which parked query is released next. An execution is thus one explicit
// interleaving at the granularity of cluster queries (several hundred steps), including the ones in which a
// third request slips between two steps of the second while the first is parked in the middle of filtering the
// stores for one peer. No lock is held at a gate (the queries are reads of the locked BasicCluster), so nobody
// queues behind a parked worker. The world is static: every operator is judged against the one description.
func overlapWorld(s *stats, rng *rand.Rand, executions int) error {
	w := randomWorld(rng, 0)
	cl, err := newCluster(w)
	if err != nil {
		return fmt.Errorf("overlap: cannot build cluster: %v", err)
	}
	defer cl.close()
	regions := randomRegions(rng, cl, 40, 1, 0, 0)
	if len(regions) < 6 {
		return nil
	}
	stream := hbstream.NewTestHeartbeatStreams(cl.ctx, cl.ID, cl, false)
	oc := schedule.NewOperatorController(cl.ctx, cl, stream)
	insts, err := createSchedulers(cl, oc, len(regions), rng)
	if err != nil {
		return err
	}
	sc := schedule.NewRegionScatterer(cl.ctx, cl)
	groups := []string{"", "g1", "g2"}
	// a history first (sequential; also creates the scatterer's lazily built per-engine contexts)
	for k := 0; k < 60; k++ {
		callScatter(sc, cl.GetRegion(regions[rng.Intn(len(regions))].GetID()), groups[rng.Intn(len(groups))])
	}
	s.count("overlap_worlds", 1)
	type result struct {
		src      string
		region   *core.RegionInfo
		group    string
		ops      []*operator.Operator
		panicked interface{}
	}
	for e := 0; e < executions; e++ {
		perm := rng.Perm(len(regions))
		res := make([]*result, 4)
		var workers []func()
		for i := 0; i < 3; i++ {
			r := &result{src: "scatter", region: cl.Cluster.GetRegion(regions[perm[i]].GetID()), group: groups[rng.Intn(len(groups))]}
			res[i] = r
			workers = append(workers, func() {
				op, err, p := callScatter(sc, r.region, r.group)
				r.panicked = p
				if err == nil && op != nil {
					r.ops = []*operator.Operator{op}
				}
			})
		}
		in := insts[rng.Intn(len(insts))]
		sr := &result{src: in.typ}
		res[3] = sr
		workers = append(workers, func() {
			if !in.s.IsScheduleAllowed(cl) {
				return
			}
			sr.ops, sr.panicked = callSchedule(in.s, cl)
		})
		// explicit start order
		order := rng.Perm(len(workers))
		started := make([]func(), len(workers))
		for i, o := range order {
			started[i] = workers[o]
		}
		g := sched.New()
		g.Stagger = true
		cl.gate = g
		g.Run(started, func(step int, opts []sched.Info) int { return rng.Intn(len(opts)) })
		cl.gate = nil
		s.count("overlap_executions", 1)
		s.count("overlap_gate_steps", int64(len(g.Trace)))
		if g.Err != nil {
			s.inconclusive("overlap: %v", g.Err)
			return nil
		}
		if g.Blocked > 0 {
			s.count("overlap_executions_with_a_blocked_worker", 1)
		}
		h := fnv.New64a()
		h.Write([]byte(g.TraceKey()))
		s.shapes[fmt.Sprintf("overlap-schedule|%x", h.Sum64())] = struct{}{}
		// how interleaved was it: switches between workers along the released sequence
		sw := 0
		for i := 1; i < len(g.Trace); i++ {
			if g.Trace[i].Worker != g.Trace[i-1].Worker {
				sw++
			}
		}
		s.count("overlap_worker_switches", int64(sw))
		for _, r := range res {
			if r.panicked != nil {
				s.report(&finding{Key: "panic-in-overlapping-calls:" + r.src, What: fmt.Sprintf("%s panicked while three Scatter calls and a Schedule call were interleaved: %v", r.src, r.panicked), Size: len(w.Stores) * 1000,
					Witness: map[string]interface{}{"world": w.clone(), "panic": fmt.Sprint(r.panicked), "start_order": order}})
				continue
			}
			for _, op := range r.ops {
				origin := r.region
				if origin == nil {
					origin = cl.Cluster.GetRegion(op.RegionID())
				}
				if origin == nil {
					continue
				}
				if r.src == "scatter" && op.RegionID() != origin.GetID() {
					s.report(&finding{Key: "scatter-operator-for-another-region", What: fmt.Sprintf("Scatter(region %d) returned an operator for region %d while other Scatter calls were interleaved", origin.GetID(), op.RegionID()), Size: len(w.Stores) * 1000,
						Witness: map[string]interface{}{"world": w.clone(), "region": originSummary(origin), "operator": op.String()}})
					continue
				}
				s.count("overlap_operators", 1)
				judgeOp(s, &opCase{Src: r.src, W: w, Origin: origin, Op: op,
					LossKey: func() (string, string) {
						return "scatter-loses-peer:overlapping-calls", "; three Scatter calls and a Schedule call were interleaved at their cluster queries"
					},
					Extra: map[string]interface{}{"group": r.group, "start_order_of_workers(0-2 scatter, 3 scheduler)": order, "gate_steps": len(g.Trace), "worker_switches": sw}})
			}
		}
	}
	for _, in := range insts {
		in.s.Cleanup(cl)
	}
	return nil
}
