package main

import (
	"context"
	"fmt"
	"math/rand"
	"sort"

	"github.com/pingcap/kvproto/pkg/metapb"
	"github.com/tikv/pd/server/core"
	"github.com/tikv/pd/server/schedule"
	"github.com/tikv/pd/server/schedule/operator"
	"verif/harness/lib/sim"
)

// Violation keys for "scatter left the region with fewer peers".
//
// keyLossCollide: at the time of the call the stores eligible as scatter targets (in service, right
// engine, not at the top of the scatterer's own selection counters) could run out while the peers of the
// region were placed one after the other - a peer then has to "stay", possibly on a store that was just
// handed to another peer (hypothesis D6 of the design).
// keyLossSufficient: there were at least as many eligible stores as peers and no location / rule
// safeguard in force; every peer could get a store of its own, so running out of candidates cannot be
// the explanation.
const (
	keyLossCollide    = "scatter-loses-peer:stay-peer-collides"
	keyLossSufficient = "scatter-loses-peer:candidates-sufficient"
)

// shadow mirrors, from observable outputs only, what the scatterer remembers about earlier decisions:
// per engine class and group, how often each store was part of a final placement, and how often it was
// the chosen leader. It is used for witnesses and to classify losses, never to decide a violation.
type shadow struct {
	w      *world
	peers  map[string]map[string]map[uint64]int // engine class -> group -> store -> count
	leader map[string]map[uint64]int            // group -> store -> count
	calls  int
	exact  bool
	log    []string // compact call log (bounded)
}

func newShadow(w *world) *shadow {
	return &shadow{w: w, peers: map[string]map[string]map[uint64]int{}, leader: map[string]map[uint64]int{}, exact: true}
}

func (sh *shadow) put(stores []uint64, leader uint64, group string) {
	for _, s := range stores {
		eng := ""
		if sd := sh.w.store(s); sd != nil {
			eng = sd.Engine
		}
		if sh.peers[eng] == nil {
			sh.peers[eng] = map[string]map[uint64]int{}
		}
		if sh.peers[eng][group] == nil {
			sh.peers[eng][group] = map[uint64]int{}
		}
		sh.peers[eng][group][s]++
	}
	if sh.leader[group] == nil {
		sh.leader[group] = map[uint64]int{}
	}
	sh.leader[group][leader]++
}

// noOperatorMeansNoChange: when Scatter returns neither an operator nor an error, the scatterer remembers the
// placement it had planned plus the current one. Only in a world where every store is plainly up, without
// labels and rules, and for a healthy region is it certain that the plan was "everything stays" (the
// builder's only reason to refuse is then "no step to do"); elsewhere the plan is unknown to the harness.
func (sh *shadow) noOperatorMeansNoChange(region *core.RegionInfo) bool {
	if !sh.w.safeguardVacuous() {
		return false
	}
	for _, sd := range sh.w.Stores {
		if !sh.w.plainUp(&sd) {
			return false
		}
	}
	return len(region.GetPendingPeers())+len(region.GetDownPeers())+len(region.GetLearners()) == 0
}

func (sh *shadow) total(eng string, store uint64) int {
	n := 0
	for _, g := range sh.peers[eng] {
		n += g[store]
	}
	return n
}

func (sh *shadow) note(format string, a ...interface{}) {
	if len(sh.log) >= 400 {
		sh.log = append(sh.log[:0], sh.log[200:]...)
	}
	sh.log = append(sh.log, fmt.Sprintf(format, a...))
}

// eligible lists the stores that the statement allows as a scatter target for a peer of the given engine
// class and that are not at the top of the selection counters ("scatter prefers stores selected less often").
func (sh *shadow) eligible(eng string) []uint64 {
	max, min := 0, int(^uint(0)>>1)
	for _, sd := range sh.w.Stores {
		t := sh.total(eng, sd.ID)
		if t > max {
			max = t
		}
		if t < min {
			min = t
		}
	}
	var out []uint64
	for _, sd := range sh.w.Stores {
		if !sd.isUp() || sd.Engine != eng {
			continue
		}
		if t := sh.total(eng, sd.ID); t < max || max == min {
			out = append(out, sd.ID)
		}
	}
	return out
}

// snapshot renders the remembered history for a witness.
func (sh *shadow) snapshot(group string) map[string]interface{} {
	tot := map[string]map[string]int{}
	grp := map[string]map[string]int{}
	for eng, groups := range sh.peers {
		name := eng
		if name == "" {
			name = "ordinary"
		}
		tot[name] = map[string]int{}
		grp[name] = map[string]int{}
		for _, sd := range sh.w.Stores {
			if t := sh.total(eng, sd.ID); t > 0 {
				tot[name][fmt.Sprint(sd.ID)] = t
			}
			if n := groups[group][sd.ID]; n > 0 {
				grp[name][fmt.Sprint(sd.ID)] = n
			}
		}
	}
	ld := map[string]int{}
	for s, n := range sh.leader[group] {
		ld[fmt.Sprint(s)] = n
	}
	n := len(sh.log)
	from := 0
	if n > 40 {
		from = n - 40
	}
	return map[string]interface{}{
		"scatter_calls_before":             sh.calls,
		"selected_peer_total_by_store":     tot,
		"selected_peer_in_group_by_store":  grp,
		"selected_leader_in_group":         ld,
		"history_is_exact":                 sh.exact,
		"last_calls(region layout, group)": append([]string(nil), sh.log[from:]...),
	}
}

// lossClassifier builds the LossKey function for one Scatter call (state at call time).
func (sh *shadow) lossClassifier(origin *core.RegionInfo, single bool) func() (string, string) {
	w := sh.w
	exact := sh.exact
	elig := sh.eligible("")
	n := len(origin.GetPeers())
	return func() (string, string) {
		if single && exact && w.safeguardVacuous() && len(elig) >= n {
			return keyLossSufficient, fmt.Sprintf("; %d stores were eligible targets (%v) for %d peers, no location labels, no placement rules", len(elig), elig, n)
		}
		return keyLossCollide, fmt.Sprintf("; eligible target stores at call time: %v for %d peers", elig, n)
	}
}

func peerStores(info *core.RegionInfo) []uint64 {
	var out []uint64
	for _, p := range info.GetPeers() {
		out = append(out, p.GetStoreId())
	}
	sort.Slice(out, func(i, j int) bool { return out[i] < out[j] })
	return out
}

// callScatter invokes pd; a panic on this path is a violation of the property's mechanism.
func callScatter(sc *schedule.RegionScatterer, region *core.RegionInfo, group string) (op *operator.Operator, err error, panicked interface{}) {
	defer func() {
		if p := recover(); p != nil {
			panicked = p
		}
	}()
	op, err = sc.Scatter(region, group)
	return
}

// scatterOne scatters one region, judges the operator and keeps the shadow history in step.
func scatterOne(s *stats, cl *cluster, sc *schedule.RegionScatterer, sh *shadow, region *core.RegionInfo, group string, rng *rand.Rand, applyPct int) {
	s.count("scatter_calls", 1)
	layout := sim.Layout(region)
	classify := sh.lossClassifier(region, true)
	hist := sh.snapshot(group)
	op, err, panicked := callScatter(sc, region, group)
	sh.calls++
	if panicked != nil {
		s.report(&finding{Key: "panic-in-scatter", What: fmt.Sprintf("RegionScatterer.Scatter panicked: %v", panicked), Size: len(cl.w.Stores) * 1000,
			Witness: map[string]interface{}{"world": cl.w.clone(), "region": originSummary(region), "group": group, "scatter_history": hist, "panic": fmt.Sprint(panicked)}})
		sh.exact = false
		return
	}
	if err != nil {
		s.count("scatter_refused", 1)
		return
	}
	if op == nil {
		// the scatterer found nothing to do or could not build the operator; it remembers the region's own stores
		s.count("scatter_no_operator", 1)
		if !sh.noOperatorMeansNoChange(region) {
			sh.exact = false // the build may have failed for a placement different from the current one, which is remembered too
		}
		sh.put(peerStores(region), region.GetLeader().GetStoreId(), group)
		sh.note("%s group=%q -> no operator", layout, group)
		return
	}
	s.count("scatter_operators", 1)
	if op.RegionID() != region.GetID() {
		s.report(&finding{Key: "scatter-operator-for-another-region", What: fmt.Sprintf("Scatter(region %d) returned an operator for region %d", region.GetID(), op.RegionID()), Size: len(cl.w.Stores) * 1000,
			Witness: map[string]interface{}{"world": cl.w.clone(), "region": originSummary(region), "group": group, "operator": op.String()}})
		sh.exact = false
		return
	}
	c := &opCase{Src: "scatter", W: cl.judgeWorld(), Origin: region, Op: op, LossKey: classify,
		Extra: map[string]interface{}{"group": group, "scatter_history": hist}}
	v := judgeOp(s, c)
	if !v.Complete {
		sh.exact = false
		sh.note("%s group=%q -> operator not replayable", layout, group)
		return
	}
	sh.put(v.Final.Stores(), v.Final.LeaderStore, group)
	sh.note("%s group=%q -> %s", layout, group, v.Final.String())
	moved := false
	adds := 0
	for _, st := range sim.Steps(op) {
		switch st.(type) {
		case operator.TransferLeader:
		case operator.AddLearner, operator.AddLightLearner, operator.AddPeer, operator.AddLightPeer:
			adds++
			moved = true
		default:
			moved = true
		}
	}
	if len(cl.w.Stores) >= 50 {
		s.count(fmt.Sprintf("scatter_at_scale_operators_with_%d_additions", adds), 1)
	}
	if adds >= 5 {
		s.count("scatter_operators_moving_5_or_more_peers_at_once", 1)
	}
	if len(region.GetPeers()) >= 7 {
		s.count("scatter_operators_for_regions_of_7_or_more_peers", 1)
	}
	if v.Failed {
		return
	}
	if moved {
		s.count("scatter_operators_moving_peers", 1)
	} else {
		s.count("scatter_operators_leader_only", 1)
	}
	if len(s.samples) < 2 && op.Len() >= 4 {
		var ss []string
		for _, st := range sim.Steps(op) {
			ss = append(ss, st.String())
		}
		s.samples = append(s.samples, map[string]interface{}{"producer": "scatter", "world": cl.w.class(), "region": layout, "group": group, "steps": ss, "final": v.Final.String()})
	}
	if rng.Intn(100) < applyPct {
		// the stores execute the operator: the region now lives where scatter put it
		cl.PutRegion(v.Final.Info())
		s.count("scatter_operators_applied_to_world", 1)
	}
}

// scatterBatch drives ScatterRegions / ScatterRegionsByID over a few regions at once.
func scatterBatch(s *stats, cl *cluster, sc *schedule.RegionScatterer, sh *shadow, regions []*core.RegionInfo, group string, byID bool) {
	s.count("scatter_batch_calls", 1)
	byRegion := map[uint64]*core.RegionInfo{}
	var ids []uint64
	for _, r := range regions {
		byRegion[r.GetID()] = r
		ids = append(ids, r.GetID())
	}
	hist := sh.snapshot(group)
	var ops []*operator.Operator
	var failures map[uint64]error
	var err error
	var panicked interface{}
	func() {
		defer func() {
			if p := recover(); p != nil {
				panicked = p
			}
		}()
		if byID {
			ops, failures, err = sc.ScatterRegionsByID(ids, group, 0)
		} else {
			in := map[uint64]*core.RegionInfo{}
			for id, r := range byRegion {
				in[id] = r
			}
			failures = map[uint64]error{}
			ops, err = sc.ScatterRegions(in, failures, group, 0)
		}
	}()
	sh.calls += len(regions)
	if panicked != nil {
		s.report(&finding{Key: "panic-in-scatter", What: fmt.Sprintf("RegionScatterer.ScatterRegions panicked: %v", panicked), Size: len(cl.w.Stores) * 1000,
			Witness: map[string]interface{}{"world": cl.w.clone(), "regions": ids, "group": group, "scatter_history": hist, "panic": fmt.Sprint(panicked)}})
		sh.exact = false
		return
	}
	if err != nil {
		s.count("scatter_batch_error", 1)
		return
	}
	got := map[uint64]bool{}
	for _, op := range ops {
		origin := byRegion[op.RegionID()]
		if origin == nil {
			s.report(&finding{Key: "scatter-operator-for-unrequested-region", What: fmt.Sprintf("ScatterRegions returned an operator for region %d which was not in the request %v", op.RegionID(), ids), Size: 1,
				Witness: map[string]interface{}{"world": cl.w.clone(), "regions": ids, "operator": op.String()}})
			continue
		}
		if got[op.RegionID()] {
			s.count("observed_scatter_batch_two_operators_for_one_region", 1)
		}
		got[op.RegionID()] = true
		s.count("scatter_operators", 1)
		c := &opCase{Src: "scatter", W: cl.judgeWorld(), Origin: origin, Op: op, LossKey: sh.lossClassifier(origin, false),
			Extra: map[string]interface{}{"group": group, "scatter_history": hist, "batch": ids}}
		v := judgeOp(s, c)
		if !v.Complete {
			sh.exact = false
			continue
		}
		sh.put(v.Final.Stores(), v.Final.LeaderStore, group)
		sh.note("%s group=%q (batch) -> %s", sim.Layout(origin), group, v.Final.String())
	}
	for id, r := range byRegion {
		if got[id] {
			continue
		}
		if failures[id] != nil {
			s.count("scatter_refused", 1)
			continue
		}
		s.count("scatter_no_operator", 1)
		if !sh.noOperatorMeansNoChange(r) {
			sh.exact = false
		}
		sh.put(peerStores(r), r.GetLeader().GetStoreId(), group)
		sh.note("%s group=%q (batch) -> no operator", sim.Layout(r), group)
	}
}

// scatterWorld: one world, one scatterer kept alive over all calls. In a dynamic world stores, labels, the
// reject-leader property list, placement rules and max-replicas change between (and sometimes inside) calls,
// and the id allocator may fail. scale > 0: hundreds of stores, dozens of groups, regions with 5-7 peers.
func scatterWorld(s *stats, rng *rand.Rand, nRegions, rounds int, scale int) error {
	w := randomWorld(rng, scale)
	cl, err := newCluster(w)
	if err != nil {
		return fmt.Errorf("cannot build cluster: %v (%+v)", err, w)
	}
	defer cl.close()
	pBad := []int{0, 0, 15, 30}[rng.Intn(4)]
	pUnhealthy := []int{0, 0, 5}[rng.Intn(3)]
	regions := randomRegions(rng, cl, nRegions, 1, pBad, pUnhealthy)
	if len(regions) == 0 {
		s.count("scatter_worlds_without_regions", 1)
		return nil
	}
	s.count("scatter_worlds", 1)
	countProps(s, w)
	s.count("scatter_worlds_rules_"+w.Rules, 1)
	if w.safeguardVacuous() {
		s.count("scatter_worlds_without_labels_and_rules", 1)
	}
	// the scatterer belongs to an owner with a context of its own (the running cluster); see the lifecycle below
	var cancels []context.CancelFunc
	defer func() {
		for _, c := range cancels {
			c()
		}
	}()
	newOwner := func() *schedule.RegionScatterer {
		ctx, cancel := context.WithCancel(cl.ctx)
		cancels = append(cancels, cancel)
		return schedule.NewRegionScatterer(ctx, cl)
	}
	sc := newOwner()
	restartIn := -1
	sh := newShadow(w)
	groups := []string{"", "g1", "g2", "g3"}[:1+rng.Intn(4)]
	if scale > 0 {
		s.count("scatter_worlds_at_scale", 1)
		s.count("scatter_stores_in_worlds_at_scale", int64(len(w.Stores)))
		groups = nil
		for g := 0; g < 30+rng.Intn(40); g++ {
			groups = append(groups, fmt.Sprintf("table-%d", g))
		}
	}
	dynamic := rng.Intn(100) < 60
	if dynamic {
		s.count("scatter_worlds_dynamic", 1)
	}
	if rng.Intn(100) < 15 {
		cl.allocFailPct = 10
		sh.exact = false // a build may fail for a placement the harness does not see
		s.count("scatter_worlds_with_id_allocation_faults", 1)
	}
	applyPct := []int{0, 30, 60}[rng.Intn(3)]
	calls := len(regions) * rounds
	for k := 0; k < calls; k++ {
		if dynamic && rng.Intn(100) < 4 {
			cl.mutate(rng, s, true)
		}
		// lifecycle: the owner stops (its context is cancelled first, as pd-server does), requests already on their
		// way still reach the old scatterer; then the owner starts again with a new scatterer on the same cluster
		if dynamic && restartIn < 0 && rng.Intn(100) < 1 {
			cancels[len(cancels)-1]()
			restartIn = rng.Intn(5)
			s.count("lifecycle_scatterer_owner_stopped", 1)
		} else if restartIn == 0 {
			sc = newOwner()
			sh = newShadow(w)
			sh.exact = cl.allocFailPct == 0
			restartIn = -1
			s.count("lifecycle_scatterer_owner_started_again", 1)
		} else if restartIn > 0 {
			restartIn--
			s.count("lifecycle_scatter_calls_on_a_stopped_owner", 1)
		}
		id := regions[rng.Intn(len(regions))].GetID()
		region := cl.GetRegion(id)
		if region == nil {
			continue
		}
		group := groups[int(id)%len(groups)]
		if rng.Intn(10) == 0 {
			group = groups[rng.Intn(len(groups))]
		}
		if scale > 0 && rng.Intn(100) < 70 {
			group = groups[rng.Intn(3)] // a few busy tables among dozens of idle ones
		}
		if dynamic && rng.Intn(100) < 3 {
			cl.armMidCallChange(rng, s)
			sh.exact = false
		}
		if k%40 == 39 {
			var batch []*core.RegionInfo
			seen := map[uint64]bool{}
			for len(batch) < 4 && len(batch) < len(regions) {
				r := cl.GetRegion(regions[rng.Intn(len(regions))].GetID())
				if r != nil && !seen[r.GetID()] {
					seen[r.GetID()] = true
					batch = append(batch, r)
				}
			}
			scatterBatch(s, cl, sc, sh, batch, group, rng.Intn(2) == 0)
		} else {
			scatterOne(s, cl, sc, sh, region, group, rng, applyPct)
		}
		cl.disarm()
	}
	s.count("id_allocation_faults_injected", int64(cl.allocFaults))
	if sh.exact {
		s.count("scatter_worlds_history_exact", 1)
	}
	return nil
}

// canonicalD6 replays the minimal witness of the "stay peer collides" loss: four plain stores, all up, no
// labels, no rules, 3 replicas. Two earlier regions living on stores 1,3,4 were scattered in group "a"
// and stayed (the scatterer remembers 1,3,4 twice); now region {1*,2,3} is scattered in group "b".
// Only store 2 is below the maximum of the selection counters, so the first peer that is looked at moves
// to store 2 - unless that peer is the one on store 2. Go's map iteration decides (2 out of 3): the peer on
// store 2 finds no candidate, "stays", and overwrites the entry of the peer that was sent there.
func canonicalD6(s *stats) {
	w := &world{Mode: modeJoint, Rules: "off", MaxReplicas: 3}
	for i := 1; i <= 4; i++ {
		w.Stores = append(w.Stores, storeDesc{ID: uint64(i), State: stUp})
	}
	cl, err := newCluster(w)
	if err != nil {
		s.inconclusive("canonical witness: %v", err)
		return
	}
	defer cl.close()
	region := cl.putRegionDesc(&regionDesc{ID: 1, Voters: []uint64{1, 2, 3}, Leader: 0, SizeMB: 96})
	cl.refreshStores()
	s.count("canonical_witness_runs", 1)
	for try := 0; try < 60; try++ {
		sc := schedule.NewRegionScatterer(cl.ctx, cl)
		sh := newShadow(w)
		for k := 0; k < 2; k++ {
			sc.Put(map[uint64]*metapb.Peer{1: {StoreId: 1}, 3: {StoreId: 3}, 4: {StoreId: 4}}, 1, "a")
			sh.put([]uint64{1, 3, 4}, 1, "a")
			sh.note("1v* 3v 4v group=\"a\" -> no operator (every peer stayed)")
		}
		before := s.fcount[keyLossCollide] + s.fcount[keyLossSufficient]
		scatterOne(s, cl, sc, sh, region, "b", rand.New(rand.NewSource(1)), 0)
		s.count("canonical_witness_attempts", 1)
		if s.fcount[keyLossCollide]+s.fcount[keyLossSufficient] > before {
			s.count("canonical_witness_reproduced", 1)
			// prefer this witness: it is the smallest one by construction
			if f := s.findings[keyLossCollide]; f != nil {
				f.Size = 0
				f.Witness["canonical"] = "stores 1-4 up, no labels, no rules, 3 replicas; history: stores 1,3,4 selected twice in group a; scatter region {1*,2,3} in group b; map iteration order must look at the peer on store 1 or 3 before the one on store 2 (2 out of 3 runs)"
				f.Witness["attempts_until_reproduced"] = try + 1
			}
			return
		}
	}
}
