package main

import (
	"context"
	"fmt"
	"math/rand"
	"sort"
	"strings"
	"sync"
	"time"

	"github.com/gogo/protobuf/proto"
	"github.com/pingcap/kvproto/pkg/metapb"
	"github.com/pingcap/kvproto/pkg/pdpb"
	"github.com/tikv/pd/pkg/mock/mockcluster"
	"github.com/tikv/pd/server/config"
	"github.com/tikv/pd/server/core"
	"github.com/tikv/pd/server/core/storelimit"
	"github.com/tikv/pd/server/schedule/opt"
	"github.com/tikv/pd/server/schedule/placement"
	"github.com/tikv/pd/server/versioninfo"
	"verif/harness/lib/sched"
)

// Feature modes of the operator builder (as in C08).
const (
	modeJoint  = "joint"  // joint consensus supported and enabled
	modeDemote = "demote" // supported but enable-joint-consensus = false
	modeLegacy = "legacy" // cluster version without joint consensus
)

var allModes = []string{modeJoint, modeJoint, modeDemote, modeLegacy}

// Store states. Only states on which the statement is unambiguous are generated: a store is either
// plainly up (heartbeat far in the future, so no wall-clock drift can make it "disconnected"), or
// offline, or down (no heartbeat ever). A paused-leader store is up. Whether a store refuses leaders because of
// a reject-leader label property is not a state: it follows from the configured property list and the store's
// labels (world.rejects).
const (
	stUp      = "up"
	stOffline = "offline"
	stDown    = "down"
	stPaused  = "paused-leader" // up, leader transfer paused
)

const engineTiFlash = "tiflash"

type storeDesc struct {
	ID     uint64 `json:"id"`
	State  string `json:"state"`
	Engine string `json:"engine,omitempty"`
	Zone   string `json:"zone,omitempty"`
	Host   string `json:"host,omitempty"`
	// EngineKey: how the engine label key is spelled on this store ("" = "engine"; pd reads label values by
	// key case-insensitively, so "Engine" names the same label for its engine filters)
	EngineKey string `json:"engine_label_key,omitempty"`
	// Labels are further store labels (disk=..., noleader=...); they take no part in placement.
	Labels map[string]string `json:"labels,omitempty"`
	// set by lenient(): the store accepted leaders before or after a change made in the middle of the judged call
	acceptsLeadersLeniently bool
}

// labelProp is one entry of the reject-leader label property list.
type labelProp struct {
	Key   string `json:"key"`
	Value string `json:"value"`
}

type ruleDesc struct {
	ID     string   `json:"id"`
	Role   string   `json:"role"`
	Count  int      `json:"count"`
	Engine string   `json:"engine,omitempty"` // label constraint "engine in (...)"
	Zones  []string `json:"zones,omitempty"`  // label constraint "zone in (...)"
}

// world describes one cluster configuration (everything a witness needs to rebuild it).
type world struct {
	Stores         []storeDesc `json:"stores"`
	Mode           string      `json:"mode"`
	Rules          string      `json:"rules"` // off | default | tiflash | custom
	RuleSet        []ruleDesc  `json:"rule_set,omitempty"`
	MaxReplicas    int         `json:"max_replicas"`
	LocationLabels bool        `json:"location_labels,omitempty"`
	// RejectLeader is the list of reject-leader label properties in the order they are configured
	// (several entries may share a key; an entry may be configured twice).
	RejectLeader []labelProp `json:"reject_leader_properties,omitempty"`
	Evict        uint64      `json:"evict_leader_store,omitempty"` // evict-leader scheduler configured (pauses the store)
	Grant        uint64      `json:"grant_leader_store,omitempty"` // grant-leader scheduler configured (pauses the store)
	// EvictMore: stores added to the evict-leader scheduler later, through its HTTP handler
	EvictMore []uint64 `json:"evict_leader_stores_added_later,omitempty"`
	// Changes: the most recent changes applied to the running world (the description is the state after them)
	Changes []string `json:"recent_changes,omitempty"`

	rulesToggled    bool
	replicasChanged bool
}

func (w *world) store(id uint64) *storeDesc {
	for i := range w.Stores {
		if w.Stores[i].ID == id {
			return &w.Stores[i]
		}
	}
	return nil
}

// isUp: the store is in service (state Up, heartbeating). Written from the world description only.
func (s *storeDesc) isUp() bool {
	return s.State == stUp || s.State == stPaused
}

// allLabels returns every label the store carries.
func (s *storeDesc) allLabels() map[string]string {
	labels := map[string]string{}
	if s.Zone != "" {
		labels["zone"] = s.Zone
	}
	if s.Host != "" {
		labels["host"] = s.Host
	}
	if s.Engine != "" {
		key := s.EngineKey
		if key == "" {
			key = "engine"
		}
		labels[key] = s.Engine
	}
	for k, v := range s.Labels {
		labels[k] = v
	}
	return labels
}

// rejects: the store refuses leaders because of the reject-leader label property. Written from the
// documented meaning of the property list - ANY configured (key, value) that equals one of the store's
// labels - on the world description only; pd's CheckLabelProperty is not consulted.
func (w *world) rejects(s *storeDesc) (bool, string) {
	if s == nil {
		return false, ""
	}
	labels := s.allLabels()
	for i, p := range w.RejectLeader {
		if v, ok := labels[p.Key]; ok && v == p.Value {
			return true, fmt.Sprintf("property #%d of %d (%s=%s)", i+1, len(w.RejectLeader), p.Key, p.Value)
		}
	}
	return false, ""
}

// rejectsAmbiguously: no configured property equals a label of the store exactly, but one does when letter case
// is ignored. pd compares the property exactly while it reads store labels by key case-insensitively elsewhere:
// whether such a store "has the reject-leader property" is not defined, a leader sent there is counted, not judged.
func (w *world) rejectsAmbiguously(s *storeDesc) bool {
	if s == nil {
		return false
	}
	if rej, _ := w.rejects(s); rej {
		return false
	}
	for k, v := range s.allLabels() {
		for _, p := range w.RejectLeader {
			if p.Key != "" && p.Value != "" && strings.EqualFold(k, p.Key) && strings.EqualFold(v, p.Value) {
				return true
			}
		}
	}
	return false
}

// plainUp: up, ordinary engine, accepts leaders (beyond doubt).
func (w *world) plainUp(s *storeDesc) bool {
	rej, _ := w.rejects(s)
	return s.State == stUp && s.Engine == "" && !rej && !w.rejectsAmbiguously(s)
}

func (w *world) class() string {
	ll := ""
	if w.LocationLabels {
		ll = "+labels"
	}
	return w.Rules + ll + "/" + w.Mode
}

// safeguardVacuous: no location labels and no placement rules, i.e. the only conditions on a scatter
// target are "up", "right engine" and the scatterer's own selection counters.
func (w *world) safeguardVacuous() bool { return w.Rules == "off" && !w.LocationLabels }

// config.NewTestOptions registers schedulers in a global map: clusters are created one at a time.
var clusterMu sync.Mutex

type cluster struct {
	*mockcluster.Cluster
	w      *world
	ctx    context.Context
	cancel context.CancelFunc
	nextID uint64

	// interception (dyn.go)
	injectIn int
	inject   func()
	injected bool
	before   *world // description when the injection was armed
	// regions as they were before a region change injected in the middle of the current call
	regionBefore map[uint64]*core.RegionInfo

	// gate scheduler of the overlap family (overlap.go); nil elsewhere
	gate *sched.Sched

	// scheduler lifecycle (sched.go)
	schedStorage *core.Storage
	insts        []*schedInst

	allocMu      sync.Mutex
	allocFailPct int
	allocRng     *rand.Rand
	allocFaults  int
}

func (c *cluster) close() { c.cancel() }

const storeCapacity = 100 * (1 << 30)

func newCluster(w *world) (*cluster, error) {
	clusterMu.Lock()
	defer clusterMu.Unlock()
	opts := config.NewTestOptions()
	// the default configuration enables placement rules (and the mock would build the rule manager from the default
	// 3 replicas before the world's own settings are applied): start without, switch on below where the world says so
	opts.SetPlacementRuleEnabled(false)
	ctx, cancel := context.WithCancel(context.Background())
	mc := mockcluster.NewCluster(ctx, opts)
	// the list is configured entry by entry, in order, through the call the server's SetLabelProperty uses
	mc.SetLabelPropertyConfig(config.LabelPropertyConfig{})
	for _, p := range w.RejectLeader {
		mc.SetLabelProperty(opt.RejectLeader, p.Key, p.Value)
	}
	mc.SetMaxReplicas(w.MaxReplicas)
	if w.LocationLabels {
		mc.SetLocationLabels([]string{"zone", "host"})
	} else {
		mc.SetLocationLabels(nil)
	}
	mc.SetHotRegionCacheHitsThreshold(0)
	switch w.Mode {
	case modeJoint:
	case modeDemote:
		sc := mc.GetScheduleConfig().Clone()
		sc.EnableJointConsensus = false
		mc.SetScheduleConfig(sc)
	case modeLegacy:
		mc.DisableFeature(versioninfo.JointConsensus)
	default:
		cancel()
		return nil, fmt.Errorf("unknown mode %q", w.Mode)
	}
	far := time.Now().Add(24 * time.Hour)
	for _, s := range w.Stores {
		labels := s.allLabels()
		mc.AddLabelsStore(s.ID, 0, labels)
		st := mc.GetStore(s.ID)
		switch s.State {
		case stUp:
			st = st.Clone(core.SetLastHeartbeatTS(far))
		case stPaused:
			st = st.Clone(core.PauseLeaderTransfer(), core.SetLastHeartbeatTS(far))
		case stOffline:
			st = st.Clone(core.OfflineStore(false), core.SetLastHeartbeatTS(far))
		case stDown:
			st = st.Clone(core.SetLastHeartbeatTS(time.Time{}))
		default:
			cancel()
			return nil, fmt.Errorf("unknown store state %q", s.State)
		}
		mc.PutStore(st)
		mc.SetStoreLimit(s.ID, storelimit.AddPeer, 1000)
		mc.SetStoreLimit(s.ID, storelimit.RemovePeer, 1000)
	}
	if w.Rules != "off" {
		mc.SetEnablePlacementRules(true)
		switch w.Rules {
		case "default":
		case "tiflash", "custom":
			for _, rd := range w.RuleSet {
				rule := &placement.Rule{GroupID: "pd", ID: rd.ID, Role: placement.PeerRoleType(rd.Role), Count: rd.Count}
				if rd.Engine != "" {
					rule.LabelConstraints = append(rule.LabelConstraints, placement.LabelConstraint{Key: "engine", Op: placement.In, Values: []string{rd.Engine}})
				}
				if len(rd.Zones) > 0 {
					rule.LabelConstraints = append(rule.LabelConstraints, placement.LabelConstraint{Key: "zone", Op: placement.In, Values: rd.Zones})
				}
				if w.LocationLabels {
					rule.LocationLabels = []string{"zone", "host"}
				}
				if err := mc.RuleManager.SetRule(rule); err != nil {
					cancel()
					return nil, fmt.Errorf("SetRule: %v", err)
				}
			}
			if err := mc.RuleManager.DeleteRule("pd", "default"); err != nil {
				cancel()
				return nil, fmt.Errorf("DeleteRule: %v", err)
			}
		default:
			cancel()
			return nil, fmt.Errorf("unknown rules mode %q", w.Rules)
		}
	}
	return &cluster{Cluster: mc, w: w, ctx: ctx, cancel: cancel, nextID: 1 << 20, allocRng: rand.New(rand.NewSource(int64(len(w.Stores))))}, nil
}

// regionDesc is the generated shape of one region.
type regionDesc struct {
	ID       uint64
	Voters   []uint64 // stores; Voters[Leader] leads
	Learners []uint64
	Leader   int
	SizeMB   int64
	Pending  uint64 // store whose peer is reported pending (0 = none)
	Down     uint64 // store whose peer is reported down (0 = none)
}

func (c *cluster) allocPeerID() uint64 {
	c.nextID++
	return c.nextID
}

// putRegionDesc builds the RegionInfo and stores it in the cluster.
func (c *cluster) putRegionDesc(d *regionDesc) *core.RegionInfo {
	meta := &metapb.Region{
		Id:          d.ID,
		StartKey:    []byte(fmt.Sprintf("%20d", d.ID)),
		EndKey:      []byte(fmt.Sprintf("%20d", d.ID+1)),
		RegionEpoch: &metapb.RegionEpoch{ConfVer: 1, Version: 1},
	}
	var leader *metapb.Peer
	var pending []*metapb.Peer
	var down []*pdpb.PeerStats
	add := func(store uint64, role metapb.PeerRole) *metapb.Peer {
		p := &metapb.Peer{Id: c.allocPeerID(), StoreId: store, Role: role}
		meta.Peers = append(meta.Peers, p)
		if store == d.Pending {
			pending = append(pending, p)
		}
		if store == d.Down {
			down = append(down, &pdpb.PeerStats{Peer: p, DownSeconds: 3600})
		}
		return p
	}
	for i, s := range d.Voters {
		p := add(s, metapb.PeerRole_Voter)
		if i == d.Leader {
			leader = p
		}
	}
	for _, s := range d.Learners {
		add(s, metapb.PeerRole_Learner)
	}
	info := core.NewRegionInfo(meta, leader, core.SetApproximateSize(d.SizeMB), core.SetApproximateKeys(d.SizeMB*1000),
		core.WithPendingPeers(pending), core.WithDownPeers(down))
	c.PutRegion(info)
	return info
}

// refreshStores recomputes the per-store counters from the regions (what store heartbeats would report)
// without touching the heartbeat time that encodes the store state.
func (c *cluster) refreshStores() {
	for _, sd := range c.w.Stores {
		c.refreshStore(sd.ID)
	}
}

func (c *cluster) refreshStore(id uint64) {
	st := c.GetStore(id)
	if st == nil {
		return
	}
	regionSize := c.Regions.GetStoreRegionSize(id)
	stats := &pdpb.StoreStats{}
	if old := st.GetStoreStats(); old != nil {
		stats = proto.Clone(old).(*pdpb.StoreStats)
	}
	stats.StoreId = id
	stats.Capacity = storeCapacity
	stats.UsedSize = uint64(regionSize) << 20
	stats.Available = stats.Capacity - stats.UsedSize
	c.PutStore(st.Clone(
		core.SetStoreStats(stats),
		core.SetLeaderCount(c.Regions.GetStoreLeaderCount(id)),
		core.SetRegionCount(c.Regions.GetStoreRegionCount(id)),
		core.SetPendingPeerCount(c.Regions.GetStorePendingPeerCount(id)),
		core.SetLeaderSize(c.Regions.GetStoreLeaderRegionSize(id)),
		core.SetRegionSize(regionSize),
	))
}

// ---- generators ---------------------------------------------------------------------------------------------

// randomWorld generates a world of 3..8 stores. At least max(2, replicas) ordinary stores are plainly up.
func randomWorld(rng *rand.Rand, scale int) *world {
	w := &world{Mode: allModes[rng.Intn(len(allModes))]}
	S := 3 + rng.Intn(6)
	if scale == 1 {
		S = 100 + rng.Intn(201) // around and beyond any plausible batch size of store lists
	} else if scale > 1 {
		S = 95 + rng.Intn(40) // schedulers are quadratic in the number of stores: around 100
	}
	switch x := rng.Intn(100); {
	case x < 40:
		w.Rules = "off"
	case x < 62:
		w.Rules = "default"
	case x < 88:
		w.Rules = "tiflash"
	default:
		w.Rules = "custom"
	}
	if w.Rules == "tiflash" && S < 4 {
		S = 4 + rng.Intn(5)
	}
	if scale > 0 && w.Rules == "custom" {
		w.Rules = "tiflash"
	}
	nFlash := 0
	if w.Rules == "tiflash" {
		nFlash = 1
		if S >= 6 && rng.Intn(2) == 0 {
			nFlash = 2
		}
		if S >= 8 && rng.Intn(3) == 0 {
			nFlash = 3
		}
		if scale > 0 {
			nFlash = 3 + rng.Intn(4)
		}
	}
	nOrd := S - nFlash
	// location labels: never in the "vacuous" class that classifies scatter losses (see scatter.go)
	w.LocationLabels = rng.Intn(100) < 45
	pHostile := []int{0, 10, 25, 40}[rng.Intn(4)]
	if scale > 0 {
		pHostile = []int{5, 15}[rng.Intn(2)]
	}
	for i := 1; i <= S; i++ {
		sd := storeDesc{ID: uint64(i), State: stUp}
		if i > nOrd {
			sd.Engine = engineTiFlash
		}
		if rng.Intn(100) < pHostile {
			if sd.Engine == "" {
				sd.State = []string{stOffline, stDown, stPaused}[rng.Intn(3)]
			} else {
				sd.State = []string{stOffline, stDown}[rng.Intn(2)]
			}
		}
		if w.LocationLabels || w.Rules == "custom" {
			sd.Zone = fmt.Sprintf("z%d", 1+rng.Intn(3))
			sd.Host = fmt.Sprintf("h%d", i) // every store carries all location labels
		}
		// labels outside placement: a disk class on most stores, a "noleader" mark on a few
		if rng.Intn(100) < 75 {
			sd.Labels = map[string]string{spell(rng, "disk"): spell(rng, []string{"hdd", "ssd", "nvme"}[rng.Intn(3)])}
		}
		if sd.Engine != "" && rng.Intn(5) == 0 {
			sd.EngineKey = "Engine"
		}
		if sd.Engine == "" && w.Rules == "tiflash" && rng.Intn(25) == 0 {
			if sd.Labels == nil {
				sd.Labels = map[string]string{}
			}
			sd.Labels["engine"] = "TiFlash" // not the value pd's engine filters look for: an ordinary store to them
		}
		if rng.Intn(100) < 12 {
			if sd.Labels == nil {
				sd.Labels = map[string]string{}
			}
			sd.Labels["noleader"] = "true"
		}
		w.Stores = append(w.Stores, sd)
	}
	w.RejectLeader = randomRejectLeaderProperties(rng, w)
	// replicas
	switch w.Rules {
	case "off":
		w.MaxReplicas = []int{2, 3, 3, 3, 3, 4, 5}[rng.Intn(7)]
	default:
		w.MaxReplicas = []int{3, 3, 3, 2, 5}[rng.Intn(5)]
	}
	if scale > 0 {
		w.MaxReplicas = []int{5, 5, 7}[rng.Intn(3)] // with two tiflash learners: regions of 7-9 peers
	}
	if w.MaxReplicas > nOrd {
		w.MaxReplicas = nOrd
	}
	// keep enough ordinary stores plainly up: the leader must live somewhere and a move needs a target
	need := 2
	up := 0
	for i := range w.Stores {
		if w.Stores[i].Engine == "" && w.Stores[i].isUp() {
			up++
		}
	}
	for i := range w.Stores {
		if up >= need {
			break
		}
		if w.Stores[i].Engine == "" && !w.Stores[i].isUp() {
			w.Stores[i].State = stUp
			up++
		}
	}
	switch w.Rules {
	case "tiflash":
		cnt := 1
		if nFlash >= 2 && (rng.Intn(2) == 0 || scale > 0) {
			cnt = 2
		}
		w.RuleSet = []ruleDesc{
			{ID: "voters", Role: "voter", Count: w.MaxReplicas},
			{ID: "flash", Role: "learner", Count: cnt, Engine: engineTiFlash},
		}
	case "custom":
		switch rng.Intn(3) {
		case 0: // leader + followers
			w.RuleSet = []ruleDesc{{ID: "leader", Role: "leader", Count: 1}, {ID: "followers", Role: "follower", Count: w.MaxReplicas - 1}}
			if w.MaxReplicas < 2 {
				w.RuleSet = []ruleDesc{{ID: "voters", Role: "voter", Count: w.MaxReplicas}}
			}
		case 1: // voters + an ordinary learner
			w.RuleSet = []ruleDesc{{ID: "voters", Role: "voter", Count: w.MaxReplicas}}
			if nOrd > w.MaxReplicas {
				w.RuleSet = append(w.RuleSet, ruleDesc{ID: "learner", Role: "learner", Count: 1})
			}
		default: // voters restricted to two zones
			w.RuleSet = []ruleDesc{{ID: "voters", Role: "voter", Count: w.MaxReplicas, Zones: []string{"z1", "z2", "z3"}}}
		}
	}
	return w
}

// randomRejectLeaderProperties draws the reject-leader property LIST: 0..4 entries in random insertion order,
// frequently several values of one key (so that stores match the first, a later or no entry), sometimes
// the same entry twice, sometimes different keys, sometimes a value no store carries.
func randomRejectLeaderProperties(rng *rand.Rand, w *world) []labelProp {
	n := []int{0, 0, 1, 1, 2, 2, 2, 3, 3, 4}[rng.Intn(10)]
	if n == 0 {
		return nil
	}
	values := map[string][]string{"disk": {"hdd", "ssd", "nvme", "tape"}, "noleader": {"true", "yes"}}
	keys := []string{"disk", "disk", "noleader"}
	if w.LocationLabels || w.Rules == "custom" {
		values["zone"] = []string{"z1", "z2", "z3", "z9"}
		keys = append(keys, "zone", "zone")
	}
	var out []labelProp
	shared := keys[rng.Intn(len(keys))]
	shareKey := rng.Intn(100) < 65
	for len(out) < n {
		k := shared
		if !shareKey || rng.Intn(5) == 0 {
			k = keys[rng.Intn(len(keys))]
		}
		if len(out) > 0 && rng.Intn(8) == 0 {
			out = append(out, out[rng.Intn(len(out))]) // the same entry configured twice
			continue
		}
		vs := values[k]
		out = append(out, labelProp{Key: spell(rng, k), Value: spell(rng, vs[rng.Intn(len(vs))])})
	}
	if rng.Intn(4) == 0 {
		// entries no store label can equal: empty parts, separators of the serialised forms
		odd := []labelProp{{"", ""}, {"disk", ""}, {"", "hdd"}, {"disk,zone", "hdd"}, {"disk", "hdd,ssd"}, {"disk/ssd", "x"}, {"disk=hdd", "true"}}
		out = append(out, odd[rng.Intn(len(odd))])
	}
	rng.Shuffle(len(out), func(i, j int) { out[i], out[j] = out[j], out[i] })
	return out
}

// spell returns the word as it is, or (rarely) in another letter case.
func spell(rng *rand.Rand, word string) string {
	switch rng.Intn(12) {
	case 0:
		return strings.ToUpper(word)
	case 1:
		return strings.ToUpper(word[:1]) + word[1:]
	}
	return word
}

func (w *world) ordinaryStores() []uint64 {
	var out []uint64
	for _, s := range w.Stores {
		if s.Engine == "" {
			out = append(out, s.ID)
		}
	}
	return out
}

func (w *world) flashStores() []uint64 {
	var out []uint64
	for _, s := range w.Stores {
		if s.Engine == engineTiFlash {
			out = append(out, s.ID)
		}
	}
	return out
}

// wantedLearners returns how many learners on (ordinary, tiflash) stores a replicated region has.
func (w *world) wantedLearners() (ord, flash int) {
	for _, rd := range w.RuleSet {
		if rd.Role == "learner" {
			if rd.Engine == engineTiFlash {
				flash += rd.Count
			} else {
				ord += rd.Count
			}
		}
	}
	return
}

// pickWeighted picks n distinct stores; weight[store] biases the choice (skewed distributions make the
// balance schedulers and the scatterer's counters interesting).
func pickWeighted(rng *rand.Rand, stores []uint64, weight map[uint64]int, n int, exclude map[uint64]bool) []uint64 {
	var out []uint64
	used := map[uint64]bool{}
	for len(out) < n {
		total := 0
		for _, s := range stores {
			if !used[s] && !exclude[s] {
				total += weight[s]
			}
		}
		if total == 0 {
			return out
		}
		x := rng.Intn(total)
		for _, s := range stores {
			if used[s] || exclude[s] {
				continue
			}
			x -= weight[s]
			if x < 0 {
				out = append(out, s)
				used[s] = true
				break
			}
		}
	}
	return out
}

// randomRegions fills the cluster with n replicated regions. Peers prefer up stores; with pBad percent
// a peer may live on an offline / down store (the situation the repair and scatter code meets in
// practice). The leader is always on a store in service.
func randomRegions(rng *rand.Rand, c *cluster, n int, firstID uint64, pBad int, pUnhealthy int) []*core.RegionInfo {
	w := c.w
	ord := w.ordinaryStores()
	flash := w.flashStores()
	weight := map[uint64]int{}
	for _, s := range w.Stores {
		wt := []int{1, 2, 4, 8, 16}[rng.Intn(5)]
		if !s.isUp() {
			if pBad == 0 {
				wt = 0
			} else {
				wt = 1
			}
		}
		weight[s.ID] = wt
	}
	if len(w.Stores) >= 50 {
		// at scale everything starts on a dozen stores: scatter and the balance schedulers then have hundreds of
		// empty targets and move many peers of one region at once
		keep := map[uint64]bool{}
		for _, i := range rng.Perm(len(ord))[:minInt(len(ord), 10+rng.Intn(5))] {
			keep[ord[i]] = true
		}
		for _, id := range ord {
			if !keep[id] {
				weight[id] = 0
			} else if weight[id] == 0 {
				weight[id] = 1
			}
		}
	}
	lOrd, lFlash := w.wantedLearners()
	uniform := map[uint64]int{}
	for _, sd := range w.Stores {
		uniform[sd.ID] = 1
	}
	var out []*core.RegionInfo
	for i := 0; i < n; i++ {
		d := &regionDesc{ID: firstID + uint64(i), SizeMB: int64(8 + rng.Intn(180))}
		exclude := map[uint64]bool{}
		if pBad == 0 || rng.Intn(100) >= pBad {
			for _, s := range w.Stores {
				if !s.isUp() {
					exclude[s.ID] = true
				}
			}
		}
		d.Voters = pickWeighted(rng, ord, weight, w.MaxReplicas, exclude)
		if len(d.Voters) < w.MaxReplicas {
			d.Voters = pickWeighted(rng, ord, uniform, w.MaxReplicas, nil)
		}
		used := map[uint64]bool{}
		for _, s := range d.Voters {
			used[s] = true
		}
		if lOrd > 0 {
			d.Learners = append(d.Learners, pickWeighted(rng, ord, uniform, lOrd, used)...)
		}
		if lFlash > 0 {
			d.Learners = append(d.Learners, pickWeighted(rng, flash, uniform, lFlash, nil)...)
		}
		// leader: a voter on a store in service
		var cand []int
		for vi, s := range d.Voters {
			if w.store(s).isUp() {
				cand = append(cand, vi)
			}
		}
		if len(cand) == 0 {
			continue // no store in service holds a voter: nobody could lead, not a region pd would schedule
		}
		d.Leader = cand[rng.Intn(len(cand))]
		if pUnhealthy > 0 && rng.Intn(100) < pUnhealthy && len(d.Voters) > 1 {
			vi := rng.Intn(len(d.Voters))
			if vi != d.Leader {
				if rng.Intn(2) == 0 {
					d.Pending = d.Voters[vi]
				} else {
					d.Down = d.Voters[vi]
				}
			}
		}
		out = append(out, c.putRegionDesc(d))
	}
	c.refreshStores()
	return out
}

func sortedU64(m map[uint64]bool) []uint64 {
	var out []uint64
	for k := range m {
		out = append(out, k)
	}
	sort.Slice(out, func(i, j int) bool { return out[i] < out[j] })
	return out
}

// countProps records what the reject-leader property list of a world looks like (evidence).
func countProps(s *stats, w *world) {
	s.count(fmt.Sprintf("worlds_with_%d_reject_leader_properties", len(w.RejectLeader)), 1)
	perKey := map[string]map[string]bool{}
	first := map[string]string{}
	dup := false
	for _, p := range w.RejectLeader {
		if perKey[p.Key] == nil {
			perKey[p.Key] = map[string]bool{}
			first[p.Key] = p.Value
		} else if perKey[p.Key][p.Value] {
			dup = true
		}
		perKey[p.Key][p.Value] = true
	}
	shared := false
	for _, vs := range perKey {
		if len(vs) > 1 {
			shared = true
		}
	}
	if shared {
		s.count("worlds_with_reject_leader_properties_sharing_a_key", 1)
	}
	if dup {
		s.count("worlds_with_a_reject_leader_property_configured_twice", 1)
	}
	if len(perKey) > 1 {
		s.count("worlds_with_reject_leader_properties_on_different_keys", 1)
	}
	for i := range w.Stores {
		sd := &w.Stores[i]
		rej, _ := w.rejects(sd)
		if !rej {
			continue
		}
		s.count("stores_refusing_leaders_by_label_property", 1)
		labels := sd.allLabels()
		later := true
		for k, v := range first {
			if labels[k] == v {
				later = false // matches the first configured value of some key
			}
		}
		if later {
			s.count("stores_refusing_leaders_only_by_a_later_value_of_a_shared_key", 1)
		}
	}
}
