// C11 - Scatter and balance moves preserve a region's replica count and roles.
//
// Worlds are pkg/mock/mockcluster clusters of 3..8 stores (some engine=tiflash, some offline / down /
// carrying the reject-leader label / with leader transfer paused, location labels on or off, placement
// rules off / default / with tiflash learners / custom, three operator-builder feature modes) filled with
// replicated regions in a skewed distribution.
//
//   - scatter phase: ONE schedule.RegionScatterer per world is kept alive over hundreds of Scatter /
//     ScatterRegions / ScatterRegionsByID calls in up to four groups, so that its memory of earlier
//     decisions biases later ones; regions are scattered repeatedly (Go's map iteration order inside the
//     scatterer is a hidden input), a part of the operators is executed on the world.
//   - scheduler phase: balance-region, balance-leader, hot-region, shuffle-leader, shuffle-region,
//     shuffle-hot-region, evict-leader, grant-leader, label and scatter-range schedulers are created through
//     schedule.CreateScheduler with the real OperatorController (real HotCache statistics are fed); calls
//     are interleaved, operators are executed on the world or left running in the controller.
//
// Every returned operator is replayed step by step on lib/sim (an independent model of how a store applies
// a command) and judged by oracles written from the property statement (judge.go).
package main

import (
	"fmt"
	"math/rand"
	"os"
	"runtime"
	"sort"
	"strings"
	"sync"
	"time"

	"github.com/pingcap/log"
	"github.com/tikv/pd/server/statistics"
	"go.uber.org/zap"
	"verif/harness/lib/ev"
)

func quiet() {
	if os.Getenv("VERIF_LOG") != "" {
		return
	}
	lg, props, err := log.InitLogger(&log.Config{Level: "fatal", File: log.FileLogConfig{Filename: os.DevNull}})
	if err == nil {
		log.ReplaceGlobals(lg, props)
	} else {
		log.ReplaceGlobals(zap.NewNop(), nil)
	}
}

func main() {
	r := ev.New("C11", "exploration")
	quiet()
	statistics.Denoising = false // as the scheduler tests do: flow reported by the harness is taken at face value

	r.Rule("worlds: 3-8 stores (ordinary / engine=tiflash; up, offline, down, reject-leader label, leader transfer paused), location labels on/off, placement rules off/default/tiflash-learner/custom, builder modes joint/demote/legacy, 2-5 replicas, regions placed with a skewed store distribution (some peers on stores out of service, some pending/down peers). scatter: one RegionScatterer per world over regions x rounds calls in 1-4 groups (Scatter, ScatterRegions, ScatterRegionsByID), regions scattered repeatedly, part of the operators executed on the world. schedulers: the ten built-in types created by schedule.CreateScheduler on the real OperatorController, interleaved calls, hot statistics fed through the real HotCache, operators executed on the world or left running. evaluations = operators replayed on the store simulator and judged; batch-retry: 48 (quick) / 96 per shard (thorough) scenarios where the preferred target store leaves service between the failed first attempt and the retry of a batch. distinct = distinct (producer, rules mode, step-kind sequence) shapes")
	r.Assume("pkg/mock/mockcluster is the cluster (real PersistOptions, RuleManager, filters, HotCache, BasicCluster); lib/sim is the store; an operator is judged against the region the cluster held when it was produced")
	r.Assume("store states are those of the world description: a store is in service (up; reject-leader and paused stores are up), offline, or down (never heartbeated); busy / disconnected / low-space stores are not generated (the statement does not say whether they are 'up')")
	r.Assume("'refuses leaders' = some entry of the configured reject-leader property list (0-4 entries set one by one through PersistOptions.SetLabelProperty, often several values of one key, duplicates, different keys) equals one of the store's labels - computed by the harness from the world description, not through pd's CheckLabelProperty -, leader transfer paused, evict-leader configured, or paused by a grant-leader scheduler (a transfer by the grant-leader scheduler to its own store is the documented exception); a leader transfer to an offline/down store is only counted")
	r.Assume("a step that the simulated store refuses (other than a second peer on a store) is reported as operator-step-refused: the operator cannot complete, so it cannot preserve anything; origins in a joint state or without leader are not generated")
	r.Assume("batch-retry family: a double of the cluster (embedding the mockcluster) reports one region of a ScatterRegions / ByID / ByRange batch (retryLimit 1-3) hot or not fully replicated exactly once and at that moment sets the store preferred by the seeded selection history offline / tombstone / down / disconnected (no heartbeat for 5 minutes); operators are judged against the store states at the time the batch returns; the other regions of the batch already hold a peer on that store, so no first-attempt operator can legitimately add one there")
	r.Assume("dynamic worlds (60%): between two calls of the long-lived scatterer / schedulers a store leaves or re-enters service or is paused, store labels change, reject-leader properties are set / deleted, placement rules are switched on / off, max-replicas changes, stores are added to / removed from the evict-leader scheduler through its HTTP handler; operators are judged against the description at the time of the call. The same store / label / property changes and region changes (leader moved, follower moved) are also injected in the MIDDLE of a call at a cluster query of the harness' own cluster double: then only what is wrong under both the description before and after is held against the operator, and an operator for a region that changed mid-call is accepted if it is right for either version")
	r.Assume("faults: in 15% of the worlds the id allocator fails for 10% of the requests while operators are built; scale: a few worlds of 100-300 stores, dozens of scatter groups, regions of 5-9 peers that start on a dozen stores; concurrency: worlds where 3 scatter clients share one scatterer, 4 goroutines own the schedulers (one goroutine per scheduler, one OperatorController) and heartbeats re-report unchanged placements - the world is static there, so every operator is judged against one description; data races are left to the race detector (listed, not judged). The scatterer gets one sequential warm-up call per region shape first (its lazy per-engine context map is not synchronised)")
	r.Assume("an operator that hands the leader back to the store that led the region when the operator was built is not held against 'leaders only to stores that accept leaders' (counted as skipped_ambiguous)")
	r.Assume("the scatterer forgets a group after 3 minutes without use (TTL cache); a world lives for about a second, the loss classifier assumes nothing was forgotten")

	var mu sync.Mutex
	total := newStats()
	merge := func(s *stats) {
		mu.Lock()
		defer mu.Unlock()
		for k, v := range s.counters {
			total.counters[k] += v
		}
		for k := range s.shapes {
			total.shapes[k] = struct{}{}
		}
		for k, v := range s.fcount {
			total.fcount[k] += v
		}
		for k, f := range s.findings {
			if old := total.findings[k]; old == nil || f.Size < old.Size {
				total.findings[k] = f
			}
		}
		total.samples = append(total.samples, s.samples...)
		total.incon = append(total.incon, s.incon...)
	}

	workers := runtime.NumCPU()
	if r.Shards > 1 {
		workers = workers / r.Shards
	}
	if workers < 2 {
		workers = 2
	}
	if workers > 8 {
		workers = 8
	}

	scatterWorlds := r.Pick(300, 400)
	scatterRegions := r.Pick(60, 120)
	scatterRounds := r.Pick(2, 4)
	schedWorlds := r.Pick(120, 220)
	schedRegions := r.Pick(60, 90)
	schedCalls := r.Pick(60, 120)

	var fatal sync.Once
	phaseSeconds := map[string]float64{} // diagnostics only, never part of a verdict
	only := os.Getenv("VERIF_C11_ONLY")  // e.g. "7" or "1,6": run only these phases (diagnosis and mutation runs)
	run := func(n int, phase int64, f func(s *stats, rng *rand.Rand) error) {
		if only != "" && !strings.Contains(","+only+",", fmt.Sprintf(",%d,", phase)) {
			return
		}
		t0 := time.Now()
		defer func() { phaseSeconds[fmt.Sprintf("phase_%d", phase)] = time.Since(t0).Seconds() }()
		var wg sync.WaitGroup
		for wk := 0; wk < workers; wk++ {
			wg.Add(1)
			go func(wk int) {
				defer wg.Done()
				st := newStats()
				defer merge(st)
				for wi := wk; wi < n; wi += workers {
					rng := rand.New(rand.NewSource(r.ShardSeed()*7907 + phase*1000003 + int64(wi)))
					if err := f(st, rng); err != nil {
						fatal.Do(func() { r.Inconclusive("%v", err) })
						return
					}
				}
			}(wk)
		}
		wg.Wait()
	}

	// the canonical witness of the predicted scatter defect (replayed in every run)
	cs := newStats()
	canonicalD6(cs)
	merge(cs)

	run(scatterWorlds, 1, func(s *stats, rng *rand.Rand) error {
		return scatterWorld(s, rng, scatterRegions, scatterRounds, 0)
	})
	run(schedWorlds, 2, func(s *stats, rng *rand.Rand) error {
		return schedWorld(s, rng, schedRegions, schedCalls, 0)
	})
	// worlds at scale: hundreds of stores, dozens of scatter groups, regions of 5-9 peers
	run(r.Pick(3, 4), 4, func(s *stats, rng *rand.Rand) error {
		return scatterWorld(s, rng, r.Pick(80, 150), 2, 1)
	})
	run(r.Pick(2, 4), 5, func(s *stats, rng *rand.Rand) error {
		return schedWorld(s, rng, r.Pick(120, 250), r.Pick(30, 80), 2)
	})
	// overlapped entry points on one cluster: scatter clients, scheduler goroutines, heartbeats
	run(r.Pick(6, 12), 6, func(s *stats, rng *rand.Rand) error {
		return concurrentWorld(s, rng, r.Pick(100, 300), r.Pick(80, 250))
	})
	// three scatter requests and a scheduler call interleaved at their cluster queries by a gate scheduler
	run(r.Pick(12, 24), 7, func(s *stats, rng *rand.Rand) error {
		return overlapWorld(s, rng, r.Pick(8, 16))
	})
	// batch API with retries: the cluster changes between the failed first attempt and the retry
	run(r.Pick(48, 96), 3, func(s *stats, rng *rand.Rand) error {
		return batchRetryScenario(s, rng)
	})

	// publish
	for k, v := range total.counters {
		r.Count(k, v)
	}
	r.Eval(total.counters["operators_judged"])
	for k := range total.shapes {
		r.Distinct(k)
	}
	for i, s := range total.samples {
		if i < 4 {
			r.Sample(s)
		}
	}
	r.Set("phase_wall_seconds_diagnostic", phaseSeconds)
	r.Set("scatter_worlds", scatterWorlds)
	r.Set("scheduler_worlds", schedWorlds)
	for _, m := range total.incon {
		r.Inconclusive("%s", m)
	}
	var missing []string
	for _, typ := range allSchedTypes {
		if total.counters["sched_operators_"+typ] == 0 {
			missing = append(missing, typ)
		}
	}
	if len(missing) > 0 {
		r.Inconclusive("no operator was observed from: %v", missing)
	}
	if total.counters["scatter_operators_moving_peers"] == 0 {
		r.Inconclusive("no scatter operator that moves a peer was observed")
	}
	if r.Replay == "" && only == "" {
		if total.counters["batch_retry_second_attempt_observed"] < 10 {
			r.Inconclusive("batch-retry scenarios: the retry after a failed first attempt was observed only %d times", total.counters["batch_retry_second_attempt_observed"])
		}
		if total.counters["batch_retry_control_retry_moved_a_peer_to_the_preferred_store"] == 0 {
			r.Inconclusive("batch-retry scenarios: in no control scenario did the retry move a peer to the store the seeded history prefers (the scenarios would be vacuous)")
		}
	}
	r.Floor(int64(r.Pick(8000, 20000)))

	var keys []string
	for k := range total.findings {
		keys = append(keys, k)
	}
	sort.Strings(keys)
	for _, k := range keys {
		f := total.findings[k]
		f.Witness["occurrences_in_this_run"] = total.fcount[k]
		r.Count("violations_"+k, total.fcount[k])
		r.Violation(k, fmt.Sprintf("%s (%d occurrences in this run)", f.What, total.fcount[k]), f.Witness)
	}
	r.Finish()
}
