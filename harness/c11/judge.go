package main

import (
	"fmt"
	"strings"

	"github.com/pingcap/kvproto/pkg/metapb"
	"github.com/tikv/pd/server/core"
	"github.com/tikv/pd/server/schedule/operator"
	"verif/harness/lib/sim"
)

// finding is one refuted oracle on one operator.
type finding struct {
	Key     string
	What    string
	Size    int // smallest witness per key is kept
	Witness map[string]interface{}
}

// stats are per-worker observations, merged at the end.
type stats struct {
	counters map[string]int64
	shapes   map[string]struct{}
	findings map[string]*finding
	fcount   map[string]int64
	samples  []interface{}
	incon    []string
}

func newStats() *stats {
	return &stats{counters: map[string]int64{}, shapes: map[string]struct{}{}, findings: map[string]*finding{}, fcount: map[string]int64{}}
}

func (s *stats) count(k string, n int64) { s.counters[k] += n }

func (s *stats) report(f *finding) {
	s.fcount[f.Key]++
	old := s.findings[f.Key]
	if old == nil || f.Size < old.Size {
		s.findings[f.Key] = f
	}
}

// absorb adds the observations of t (a trial judgement that was accepted).
func (s *stats) absorb(t *stats) {
	for k, v := range t.counters {
		s.counters[k] += v
	}
	for k := range t.shapes {
		s.shapes[k] = struct{}{}
	}
	s.incon = append(s.incon, t.incon...)
}

// absorbAll merges everything a worker goroutine observed.
func (s *stats) absorbAll(t *stats) {
	s.absorb(t)
	for k, v := range t.fcount {
		s.fcount[k] += v
	}
	for k, f := range t.findings {
		if old := s.findings[k]; old == nil || f.Size < old.Size {
			s.findings[k] = f
		}
	}
	s.samples = append(s.samples, t.samples...)
}

func (s *stats) inconclusive(format string, a ...interface{}) {
	if len(s.incon) < 5 {
		s.incon = append(s.incon, fmt.Sprintf(format, a...))
	}
}

func stepKind(st operator.OpStep) string {
	switch st.(type) {
	case operator.TransferLeader:
		return "TransferLeader"
	case operator.AddLearner:
		return "AddLearner"
	case operator.AddLightLearner:
		return "AddLightLearner"
	case operator.AddPeer:
		return "AddPeer"
	case operator.AddLightPeer:
		return "AddLightPeer"
	case operator.PromoteLearner:
		return "PromoteLearner"
	case operator.DemoteFollower:
		return "DemoteFollower"
	case operator.RemovePeer:
		return "RemovePeer"
	case operator.ChangePeerV2Enter:
		return "EnterJoint"
	case operator.ChangePeerV2Leave:
		return "LeaveJoint"
	}
	return fmt.Sprintf("%T", st)
}

// opCase is everything the oracle knows about one produced operator.
type opCase struct {
	Src    string           // "scatter" or the scheduler type
	W      *world           // store layout (the oracle reads store states from here, never from pd's filters)
	Origin *core.RegionInfo // the region the operator was built for
	Op     *operator.Operator
	Extra  map[string]interface{} // producer specific witness parts (scatter history, scheduler call log, ...)
	// LossKey, when set, names the violation key for "fewer peers than before" (scatter classifies its losses).
	LossKey func() (key string, note string)
}

// verdict of one operator.
type verdict struct {
	Judged   bool
	Failed   bool
	Final    *sim.Region
	Complete bool // every step was executed
}

func roleCounts(r *sim.Region) (voters, learners, joint int) {
	for _, p := range r.Peers {
		switch p.Role {
		case metapb.PeerRole_Voter:
			voters++
		case metapb.PeerRole_Learner:
			learners++
		default:
			joint++
		}
	}
	return
}

func originSummary(info *core.RegionInfo) string {
	return sim.FromInfo(info).Describe()
}

// refusal: does the store refuse leaders according to the property statement: reject-leader label property,
// leader transfer paused (by an operator, by an evict-leader or grant-leader scheduler). "" = it accepts them.
// The grant-leader scheduler pauses the very store it is told to fill; a transfer *by that scheduler to
// that store* is the one documented exception.
func (w *world) refusal(store uint64, src string) string {
	sd := w.store(store)
	if sd == nil || sd.acceptsLeadersLeniently {
		return ""
	}
	if rej, _ := w.rejects(sd); rej {
		return "reject-leader-label"
	}
	why := ""
	switch {
	case sd.State == stPaused:
		return "leader-transfer-paused"
	case w.Evict == store:
		why = "evict-leader-store"
	case w.Grant == store && src != "grant-leader":
		why = "grant-leader-store-paused"
	}
	for _, e := range w.EvictMore {
		if e == store {
			why = "evict-leader-store"
		}
	}
	if why != "" && src == "scatter" {
		// for the scatterer there is one flag, "leader transfer paused", whoever set it (one known finding, one key)
		why = "leader-transfer-paused"
	}
	return why
}

// judgeOp replays the operator on the store simulator and evaluates the oracles of C11, all written from
// the property statement:
//
//	(a) the region ends with the same number of voters and of learners as before, no joint role left;
//	(b) never two peers on one store (at any step: the simulator refuses such an add);
//	(c) a peer is added only on a store that is in service (up) and did not hold the region before;
//	(d) leadership goes only to a voter peer, on a store that accepts leaders;
//	(e) source and target differ (transfer to the current leader / a store named as its own source).
func judgeOp(s *stats, c *opCase) verdict {
	v := verdict{}
	origin := sim.FromInfo(c.Origin)
	if origin.InJoint() || origin.Leader() == nil {
		s.count("skipped_ambiguous_origin_in_joint_or_leaderless", 1)
		return v
	}
	v.Judged = true
	steps := sim.Steps(c.Op)
	origV, origL, _ := roleCounts(origin)
	s.count("operators_judged", 1)
	s.count("operators_from_"+c.Src, 1)

	reg := origin.Clone()
	var trace []string
	trace = append(trace, "origin: "+origin.Describe())
	var shape []string

	size := len(c.W.Stores)*1000 + len(origin.Peers)*100 + len(steps)
	for _, sd := range c.W.Stores {
		if sd.State != stUp {
			size += 300
		}
		size += 20 * len(sd.Labels)
		if sd.Engine != "" {
			size += 200
		}
	}
	if c.W.Rules != "off" {
		size += 2000
	}
	if c.W.LocationLabels {
		size += 500
	}
	size += 150 * len(c.W.RejectLeader)
	fail := func(key, what string, at int) {
		v.Failed = true
		if old := s.findings[key]; old != nil && old.Size <= size {
			s.fcount[key]++ // a witness at least as small is already kept
			return
		}
		var ss []string
		for _, st := range steps {
			ss = append(ss, st.String())
		}
		w := map[string]interface{}{
			"source": c.Src, "world": c.W.clone(), "region": origin.Describe(), "region_layout": origin.String(),
			"operator": c.Op.String(), "steps": ss, "failed_at_step": at, "trace": append([]string(nil), trace...),
		}
		for k, x := range c.Extra {
			w[k] = x
		}
		s.report(&finding{Key: key, What: fmt.Sprintf("%s [producer=%s region=%q world=%s]", what, c.Src, origin.String(), c.W.class()), Size: size, Witness: w})
	}

	for i, st := range steps {
		kind := stepKind(st)
		shape = append(shape, kind)
		s.count("step_"+kind, 1)
		switch x := st.(type) {
		case operator.TransferLeader:
			s.count("leader_transfers_checked", 1)
			cur := reg.LeaderStore
			if x.FromStore == x.ToStore || x.ToStore == cur {
				fail("leader-transfer-source-equals-target:"+c.Src, fmt.Sprintf("step %d (%s) transfers leadership to store %d which is the leader at that moment (step says from %d)", i, st, x.ToStore, x.FromStore), i)
				return v
			}
			p := reg.Peer(x.ToStore)
			switch {
			case p == nil:
				fail("leader-transfer-to-store-without-peer:"+c.Src, fmt.Sprintf("step %d (%s): store %d holds no peer of the region", i, st, x.ToStore), i)
				return v
			case p.Role == metapb.PeerRole_Learner:
				fail("leader-transfer-to-learner:"+c.Src, fmt.Sprintf("step %d (%s): the peer on store %d is a learner", i, st, x.ToStore), i)
				return v
			case p.Role == metapb.PeerRole_DemotingVoter:
				fail("leader-transfer-to-demoting-voter:"+c.Src, fmt.Sprintf("step %d (%s): the peer on store %d is leaving the voter set", i, st, x.ToStore), i)
				return v
			}
			sd := c.W.store(x.ToStore)
			if sd == nil {
				fail("leader-transfer-to-unknown-store:"+c.Src, fmt.Sprintf("step %d (%s): store %d does not exist", i, st, x.ToStore), i)
				return v
			}
			if why := c.W.refusal(x.ToStore, c.Src); why != "" && x.ToStore == origin.LeaderStore {
				// The operator moved the leader away for a while and hands it back to the store that led the region
				// when the operator was built (the other voters refuse leaders too, or are being removed). Nothing
				// gets worse than it was; the statement does not say whether this counts as "moving a leader to".
				s.count("skipped_ambiguous_leader_handed_back_to_its_refusing_origin_store", 1)
			} else if why == "" && c.W.rejectsAmbiguously(sd) {
				s.count("skipped_ambiguous_leader_to_store_matching_a_reject_property_only_ignoring_case", 1)
			} else if why != "" {
				// not blocking: the store executes the transfer, the replay goes on
				detail := why
				if _, which := c.W.rejects(sd); which != "" {
					detail += ": store labels " + fmt.Sprint(sd.allLabels()) + " match reject-leader " + which
				}
				fail("leader-to-store-refusing-leaders:"+why+":"+c.Src, fmt.Sprintf("step %d (%s) moves the leader to store %d which refuses leaders (%s)", i, st, x.ToStore, detail), i)
			}
			if !sd.isUp() {
				// the statement lists what "refuses leaders" means; a store out of service is not in that list: counted only
				s.count("observed_leader_transfer_to_"+sd.State+"_store_from_"+c.Src, 1)
			}
			if c.W.Grant == x.ToStore && c.Src == "grant-leader" {
				s.count("grant_leader_transfers_to_own_paused_store", 1)
			}
		case operator.AddLearner:
			if !judgeAdd(s, c, reg, origin, i, st, x.ToStore, x.PeerID, false, fail) {
				return v
			}
		case operator.AddLightLearner:
			if !judgeAdd(s, c, reg, origin, i, st, x.ToStore, x.PeerID, false, fail) {
				return v
			}
		case operator.AddPeer:
			if !judgeAdd(s, c, reg, origin, i, st, x.ToStore, x.PeerID, true, fail) {
				return v
			}
		case operator.AddLightPeer:
			if !judgeAdd(s, c, reg, origin, i, st, x.ToStore, x.PeerID, true, fail) {
				return v
			}
		case operator.ChangePeerV2Leave:
			if len(x.PromoteLearners)+len(x.DemoteVoters) == 0 && !reg.InJoint() {
				// partner of an empty enter: nothing to leave; pd's controller never sends it
				s.count("observed_empty_leave_skipped", 1)
				trace = append(trace, fmt.Sprintf("step %d %s: empty, skipped", i, kind))
				continue
			}
		case operator.MergeRegion, operator.SplitRegion:
			s.count("skipped_ambiguous_merge_or_split_step", 1)
			v.Judged = false
			return v
		}
		if err := reg.ApplyStep(st); err != nil {
			trace = append(trace, fmt.Sprintf("step %d %s: refused by the store: %v", i, st, err))
			switch sim.Code(err) {
			case sim.RefStoreHasPeer:
				fail("two-peers-on-one-store:"+c.Src, fmt.Sprintf("step %d (%s) puts a second peer on a store: %v", i, st, err), i)
			case sim.RefUnsupported:
				s.inconclusive("step %T of an operator from %s is not modelled by the simulator", st, c.Src)
			default:
				fail("operator-step-refused:"+kind+":"+sim.Code(err)+":"+c.Src, fmt.Sprintf("step %d (%s) cannot be executed by a store in the state it meets, the operator cannot complete: %v", i, st, err), i)
			}
			return v
		}
		if ierr := reg.Invariant(); ierr != nil {
			s.inconclusive("simulator invariant broken: %v", ierr)
			return v
		}
		trace = append(trace, fmt.Sprintf("step %d %s => %s", i, st, reg.Describe()))
		s.count("steps_executed", 1)
	}
	v.Complete = true
	v.Final = reg
	s.shapes[c.Src+"|"+c.W.Rules+"|"+strings.Join(shape, ",")] = struct{}{}

	finV, finL, finJ := roleCounts(reg)
	trace = append(trace, fmt.Sprintf("final: %s (voters %d->%d, learners %d->%d)", reg.String(), origV, finV, origL, finL))
	switch {
	case finJ > 0:
		fail("final-state-in-joint-state:"+c.Src, fmt.Sprintf("the completed operator leaves %d peer(s) in a joint role: %s", finJ, reg.String()), len(steps))
	case finV+finL < origV+origL:
		key, note := c.Src+"-loses-peer", ""
		if c.LossKey != nil {
			key, note = c.LossKey()
		}
		fail(key, fmt.Sprintf("the completed operator leaves the region with fewer peers: %q -> %q (voters %d->%d, learners %d->%d)%s", origin.String(), reg.String(), origV, finV, origL, finL, note), len(steps))
	case finV+finL > origV+origL:
		fail(c.Src+"-gains-peer", fmt.Sprintf("the completed operator leaves the region with more peers: %q -> %q (voters %d->%d, learners %d->%d)", origin.String(), reg.String(), origV, finV, origL, finL), len(steps))
	case finV != origV || finL != origL:
		fail("changes-role-counts:"+c.Src, fmt.Sprintf("the completed operator changes the number of peers per role: %q -> %q (voters %d->%d, learners %d->%d)", origin.String(), reg.String(), origV, finV, origL, finL), len(steps))
	}
	if !v.Failed {
		s.count("final_states_judged", 1)
	}
	return v
}

// judgeAdd: oracles (b) and (c) for a step that creates a peer. Returns false when the replay cannot go on.
func judgeAdd(s *stats, c *opCase, reg *sim.Region, origin *sim.Region, i int, st operator.OpStep, store, id uint64, voter bool,
	fail func(key, what string, at int)) bool {
	s.count("peer_additions_checked", 1)
	addRole := metapb.PeerRole_Learner
	if voter {
		addRole = metapb.PeerRole_Voter
	}
	op := origin.Peer(store) // the peer this store held before the operator
	if p := reg.Peer(store); p != nil {
		if voter && p.Id == id && p.Role == metapb.PeerRole_Learner {
			return true // conf change v1 AddNode on an existing learner = promotion, no new peer
		}
		class := "other"
		if op != nil && op.Id == p.Id && p.Role != addRole {
			// the store keeps a peer but with another role, and the new one is created before the old one is gone
			class = "in-place-role-change"
		}
		fail("two-peers-on-one-store:"+class+":"+c.W.Mode+":"+c.Src, fmt.Sprintf("step %d (%s) adds a peer on store %d which holds peer %d (%s) at that moment", i, st, store, p.Id, p.Role), i)
		return false
	}
	if op != nil {
		if op.Role != addRole {
			// A cluster without demotion support changes voter -> learner on a kept store by removing the voter and
			// creating a learner on the same store. Nothing moves; the statement does not speak about this case.
			s.count("skipped_ambiguous_in_place_role_change_by_remove_and_add", 1)
			return true
		}
		fail("peer-moved-to-store-that-held-region:"+c.Src, fmt.Sprintf("step %d (%s) adds a %s on store %d from which the operator removed the %s the region had there: source and target of the move are the same store", i, st, addRole, store, op.Role), i)
		return true // not blocking
	}
	sd := c.W.store(store)
	if sd == nil {
		fail("peer-moved-to-unknown-store:"+c.Src, fmt.Sprintf("step %d (%s): store %d does not exist", i, st, store), i)
		return false
	}
	if !sd.isUp() {
		fail("peer-moved-to-store-not-up:"+sd.State+":"+c.Src, fmt.Sprintf("step %d (%s) adds a peer on store %d which is %s", i, st, store, sd.State), i)
		return true // not blocking
	}
	return true
}
