package main

import (
	"errors"
	"fmt"
	"math/rand"
	"time"

	"github.com/pingcap/kvproto/pkg/metapb"
	"github.com/tikv/pd/server/config"
	"github.com/tikv/pd/server/core"
	"github.com/tikv/pd/server/schedule/opt"
	"github.com/tikv/pd/server/schedule/placement"
)

// This file makes the worlds DYNAMIC. Three things a running server does to the code under test that a static
// world never shows:
//
//   - updates under long-lived consumers: between two calls of a scheduler / of the scatterer (which live for
//     the whole world, with their counters, filters and caches) a store leaves or re-enters service, its labels
//     change, the reject-leader property list changes, placement rules are switched on or off, max-replicas
//     changes, an evict-leader scheduler gets another store through its own HTTP handler;
//   - the same changes in the MIDDLE of a call, injected at a cluster query the call makes (the program holds no
//     lock there, a heartbeat or a config request can really be served at that point);
//   - faults: the id allocator fails while an operator is being built.
//
// The cluster handed to pd is *cluster itself (it embeds the mockcluster and so implements opt.Cluster); the
// methods below shadow the mock's and are the interception points.

// ---- interception -------------------------------------------------------------------------------------------

// tick is called at the start of every intercepted query.
func (c *cluster) tick(name string) {
	if g := c.gate; g != nil {
		g.Gate("query", name) // parks a registered worker until the gate scheduler releases it
		g.Done("query", name)
	}
	if c.injectIn > 0 {
		c.injectIn--
		if c.injectIn == 0 && c.inject != nil {
			f := c.inject
			c.inject = nil
			c.injected = true
			f()
		}
	}
}

// armInjection lets f run at the n-th intercepted query from now (inside the next pd call).
func (c *cluster) armInjection(n int, f func()) { c.injectIn, c.inject, c.injected = n, f, false }

// disarm removes a pending injection; reports whether it had fired.
func (c *cluster) disarm() bool {
	fired := c.injected
	c.injectIn, c.inject, c.injected, c.before, c.regionBefore = 0, nil, false, nil, nil
	return fired
}

// armMidCallChange: at some cluster query inside the next pd call a store / label / property change happens.
func (c *cluster) armMidCallChange(rng *rand.Rand, s *stats) {
	c.before = c.w.clone()
	c.armInjection(1+rng.Intn(40), func() {
		c.mutate(rng, s, false)
		s.count("dynamic_changes_in_the_middle_of_a_call", 1)
	})
}

// judgeWorld: the description an operator returned by the call just made is judged against.
func (c *cluster) judgeWorld() *world {
	if c.before != nil && c.injected {
		return lenient(c.before, c.w)
	}
	return c.w
}

func (c *cluster) GetStores() []*core.StoreInfo { c.tick("GetStores"); return c.Cluster.GetStores() }
func (c *cluster) GetStore(id uint64) *core.StoreInfo {
	c.tick("GetStore")
	return c.BasicCluster.GetStore(id) // the mock reads the store map without the cluster lock
}

// ScanRegions / GetStoreRegionCount: the mock reads the region tree without the cluster lock (harmless in its
// single-threaded tests, a crash when heartbeats run beside schedulers); the locked BasicCluster calls are used.
func (c *cluster) ScanRegions(startKey, endKey []byte, limit int) []*core.RegionInfo {
	return c.BasicCluster.ScanRange(startKey, endKey, limit)
}
func (c *cluster) GetStoreRegionCount(storeID uint64) int {
	return c.BasicCluster.GetStoreRegionCount(storeID)
}
func (c *cluster) GetRegion(id uint64) *core.RegionInfo {
	c.tick("GetRegion")
	return c.Cluster.GetRegion(id)
}
func (c *cluster) GetOpts() *config.PersistOptions { c.tick("GetOpts"); return c.Cluster.GetOpts() }
func (c *cluster) IsRegionHot(r *core.RegionInfo) bool {
	c.tick("IsRegionHot")
	return c.Cluster.IsRegionHot(r)
}
func (c *cluster) FitRegion(r *core.RegionInfo) *placement.RegionFit {
	c.tick("FitRegion")
	return c.Cluster.FitRegion(r)
}
func (c *cluster) GetFollowerStores(r *core.RegionInfo) []*core.StoreInfo {
	c.tick("GetFollowerStores")
	return c.Cluster.GetFollowerStores(r)
}
func (c *cluster) GetRegionStores(r *core.RegionInfo) []*core.StoreInfo {
	c.tick("GetRegionStores")
	return c.Cluster.GetRegionStores(r)
}
func (c *cluster) RandLeaderRegion(storeID uint64, ranges []core.KeyRange, opts ...core.RegionOption) *core.RegionInfo {
	c.tick("RandLeaderRegion")
	return c.Cluster.RandLeaderRegion(storeID, ranges, opts...)
}
func (c *cluster) RandFollowerRegion(storeID uint64, ranges []core.KeyRange, opts ...core.RegionOption) *core.RegionInfo {
	c.tick("RandFollowerRegion")
	return c.Cluster.RandFollowerRegion(storeID, ranges, opts...)
}

var errAllocFault = errors.New("injected: id allocator unavailable")

// AllocID fails when the harness says so (a fault while an operator is being built).
func (c *cluster) AllocID() (uint64, error) {
	c.tick("AllocID")
	c.allocMu.Lock()
	fail := c.allocFailPct > 0 && c.allocRng.Intn(100) < c.allocFailPct
	if fail {
		c.allocFaults++
	}
	c.allocMu.Unlock()
	if fail {
		return 0, errAllocFault
	}
	return c.Cluster.AllocID()
}

// AddSuspectRegions: the mock keeps a plain map; concurrent scatter calls reach it.
func (c *cluster) AddSuspectRegions(ids ...uint64) {
	c.allocMu.Lock()
	defer c.allocMu.Unlock()
	c.Cluster.AddSuspectRegions(ids...)
}

// ---- world description under change ----------------------------------------------------------------------------

func (w *world) clone() *world {
	c := *w
	c.Stores = nil
	for _, sd := range w.Stores {
		d := sd
		if sd.Labels != nil {
			d.Labels = map[string]string{}
			for k, v := range sd.Labels {
				d.Labels[k] = v
			}
		}
		c.Stores = append(c.Stores, d)
	}
	c.RuleSet = append([]ruleDesc(nil), w.RuleSet...)
	c.RejectLeader = append([]labelProp(nil), w.RejectLeader...)
	c.EvictMore = append([]uint64(nil), w.EvictMore...)
	c.Changes = append([]string(nil), w.Changes...)
	return &c
}

// lenient merges the descriptions before and after a change that happened in the middle of a call: the call may
// have looked at either, so only what is wrong under BOTH is held against it.
func lenient(before, after *world) *world {
	m := after.clone()
	for i := range m.Stores {
		a := &m.Stores[i]
		b := before.store(a.ID)
		if b == nil {
			continue
		}
		if b.isUp() && !a.isUp() {
			a.State = stUp
		}
		if before.refusal(b.ID, "") == "" || after.refusal(a.ID, "") == "" {
			a.acceptsLeadersLeniently = true
		}
	}
	return m
}

func (w *world) note(format string, a ...interface{}) {
	if len(w.Changes) >= 12 {
		w.Changes = append(w.Changes[:0], w.Changes[6:]...)
	}
	w.Changes = append(w.Changes, fmt.Sprintf(format, a...))
}

// ---- the changes ---------------------------------------------------------------------------------------------

func (c *cluster) setStoreState(id uint64, state string) {
	st := c.Cluster.GetStore(id)
	sd := c.w.store(id)
	if st == nil || sd == nil {
		return
	}
	far := time.Now().Add(24 * time.Hour)
	switch state {
	case stUp:
		st = st.Clone(core.UpStore(), core.ResumeLeaderTransfer(), core.SetLastHeartbeatTS(far))
	case stPaused:
		st = st.Clone(core.UpStore(), core.PauseLeaderTransfer(), core.SetLastHeartbeatTS(far))
	case stOffline:
		st = st.Clone(core.ResumeLeaderTransfer(), core.OfflineStore(false), core.SetLastHeartbeatTS(far))
	case stDown:
		st = st.Clone(core.UpStore(), core.ResumeLeaderTransfer(), core.SetLastHeartbeatTS(time.Time{}))
	default:
		return
	}
	c.PutStore(st)
	c.w.note("store %d: %s -> %s", id, sd.State, state)
	sd.State = state
}

func (c *cluster) setStoreLabels(id uint64, extra map[string]string) {
	st := c.Cluster.GetStore(id)
	sd := c.w.store(id)
	if st == nil || sd == nil {
		return
	}
	c.w.note("store %d: labels %v -> %v", id, sd.Labels, extra)
	sd.Labels = extra
	var labels []*metapb.StoreLabel
	for k, v := range sd.allLabels() {
		labels = append(labels, &metapb.StoreLabel{Key: k, Value: v})
	}
	c.PutStore(st.Clone(core.SetStoreLabels(labels)))
}

// usedByAdminScheduler: stores whose pause flag belongs to an evict-/grant-leader scheduler are left alone.
func (w *world) usedByAdminScheduler(id uint64) bool {
	if w.Evict == id || w.Grant == id {
		return true
	}
	for _, e := range w.EvictMore {
		if e == id {
			return true
		}
	}
	return false
}

// mutate applies one random change to the running cluster and to its description. allowShape: changes that
// alter what "replicated" means (rules on/off, max-replicas) are allowed.
func (c *cluster) mutate(rng *rand.Rand, s *stats, allowShape bool) {
	w := c.w
	switch x := rng.Intn(100); {
	case x < 45: // a store leaves or re-enters service / gets paused
		sd := &w.Stores[rng.Intn(len(w.Stores))]
		if w.usedByAdminScheduler(sd.ID) {
			return
		}
		var next []string
		switch sd.State {
		case stUp:
			next = []string{stOffline, stDown, stPaused}
		case stPaused, stOffline, stDown:
			next = []string{stUp, stUp, stOffline, stDown}
		}
		if sd.Engine != "" {
			next = []string{stUp, stOffline, stDown}
		}
		to := next[rng.Intn(len(next))]
		if to == sd.State {
			return
		}
		// keep two ordinary stores in service
		if sd.Engine == "" && sd.isUp() && (to == stOffline || to == stDown) {
			up := 0
			for _, o := range w.Stores {
				if o.Engine == "" && o.isUp() {
					up++
				}
			}
			if up <= 2 {
				return
			}
		}
		c.setStoreState(sd.ID, to)
		s.count("dynamic_store_state_changes", 1)
	case x < 60: // store labels outside placement
		sd := &w.Stores[rng.Intn(len(w.Stores))]
		if w.usedByAdminScheduler(sd.ID) {
			return // a label change may make a granted store refuse leaders: contradictory setup
		}
		extra := map[string]string{}
		if rng.Intn(4) != 0 {
			extra[spell(rng, "disk")] = spell(rng, []string{"hdd", "ssd", "nvme"}[rng.Intn(3)])
		}
		if rng.Intn(6) == 0 {
			extra["noleader"] = "true"
		}
		c.setStoreLabels(sd.ID, extra)
		s.count("dynamic_store_label_changes", 1)
	case x < 85: // the reject-leader property list
		if len(w.RejectLeader) > 0 && (len(w.RejectLeader) >= 4 || rng.Intn(2) == 0) {
			i := rng.Intn(len(w.RejectLeader))
			p := w.RejectLeader[i]
			c.DeleteLabelProperty(opt.RejectLeader, p.Key, p.Value)
			var rest []labelProp
			for _, q := range w.RejectLeader {
				if q != p { // pd removes every copy of the pair (there is only one: set de-duplicates)
					rest = append(rest, q)
				}
			}
			w.RejectLeader = rest
			w.note("reject-leader property %s=%s deleted", p.Key, p.Value)
		} else {
			add := randomRejectLeaderProperties(rng, w)
			if len(add) == 0 {
				return
			}
			p := add[0]
			if w.Grant != 0 {
				trial := w.clone()
				trial.RejectLeader = append(trial.RejectLeader, p)
				g := trial.store(w.Grant)
				if rej, _ := trial.rejects(g); rej || trial.rejectsAmbiguously(g) {
					return // would make the granted store refuse leaders: contradictory setup
				}
			}
			c.SetLabelProperty(opt.RejectLeader, p.Key, p.Value)
			dup := false
			for _, q := range w.RejectLeader {
				if q == p {
					dup = true
				}
			}
			if !dup {
				w.RejectLeader = append(w.RejectLeader, p)
			}
			w.note("reject-leader property %s=%s set", p.Key, p.Value)
		}
		s.count("dynamic_label_property_changes", 1)
	case x < 93: // placement rules on / off (default rule = max-replicas voters: the regions fit both)
		if !allowShape || (w.Rules != "off" && w.Rules != "default") || w.replicasChanged {
			return
		}
		if w.Rules == "off" {
			c.SetEnablePlacementRules(true)
			w.Rules = "default"
		} else {
			c.SetEnablePlacementRules(false)
			w.Rules = "off"
		}
		w.rulesToggled = true
		w.note("placement rules -> %s", w.Rules)
		s.count("dynamic_placement_rules_toggles", 1)
	default: // max-replicas (without rules): regions are "not replicated" until it is set back
		if !allowShape || w.Rules != "off" || w.rulesToggled {
			return
		}
		if w.replicasChanged {
			c.SetMaxReplicas(w.MaxReplicas)
			w.replicasChanged = false
			w.note("max-replicas back to %d", w.MaxReplicas)
		} else {
			c.SetMaxReplicas(w.MaxReplicas + 1 + rng.Intn(2))
			w.replicasChanged = true
			w.note("max-replicas raised above %d", w.MaxReplicas)
		}
		s.count("dynamic_max_replicas_changes", 1)
	}
}
