package main

import (
	"fmt"
	"math/rand"
	"net/http/httptest"
	"strings"

	"github.com/pingcap/kvproto/pkg/metapb"

	"github.com/tikv/pd/server/core"
	"github.com/tikv/pd/server/kv"
	"github.com/tikv/pd/server/schedule"
	"github.com/tikv/pd/server/schedule/hbstream"
	"github.com/tikv/pd/server/schedule/operator"
	"github.com/tikv/pd/server/schedulers"
	"github.com/tikv/pd/server/statistics"
	"verif/harness/lib/sim"
)

// schedInst is one scheduler created through schedule.CreateScheduler.
type schedInst struct {
	typ string
	s   schedule.Scheduler
}

var allSchedTypes = []string{
	schedulers.BalanceRegionType, schedulers.BalanceLeaderType, schedulers.HotRegionType,
	schedulers.ShuffleLeaderType, schedulers.ShuffleRegionType, schedulers.ShuffleHotRegionType,
	schedulers.EvictLeaderType, schedulers.GrantLeaderType, schedulers.LabelType, schedulers.ScatterRangeType,
}

func createSchedulers(cl *cluster, oc *schedule.OperatorController, nRegions int, rng *rand.Rand) ([]*schedInst, error) {
	storage := core.NewStorage(kv.NewMemoryKV())
	cl.schedStorage = storage
	var out []*schedInst
	mk := func(typ string, dec schedule.ConfigDecoder) error {
		clusterMu.Lock() // CreateScheduler touches process-wide registries
		s, err := schedule.CreateScheduler(typ, oc, storage, dec)
		clusterMu.Unlock()
		if err != nil {
			return fmt.Errorf("CreateScheduler(%s): %v", typ, err)
		}
		if err := s.Prepare(cl); err != nil {
			return fmt.Errorf("%s.Prepare: %v", typ, err)
		}
		out = append(out, &schedInst{typ: typ, s: s})
		return nil
	}
	plain := []string{"", ""}
	steps := []func() error{
		func() error {
			return mk(schedulers.BalanceRegionType, schedule.ConfigSliceDecoder(schedulers.BalanceRegionType, plain))
		},
		func() error {
			return mk(schedulers.BalanceLeaderType, schedule.ConfigSliceDecoder(schedulers.BalanceLeaderType, plain))
		},
		func() error { return mk(schedulers.HotRegionType, schedule.ConfigJSONDecoder([]byte("null"))) },
		func() error {
			return mk(schedulers.ShuffleLeaderType, schedule.ConfigSliceDecoder(schedulers.ShuffleLeaderType, plain))
		},
		func() error {
			return mk(schedulers.ShuffleRegionType, schedule.ConfigSliceDecoder(schedulers.ShuffleRegionType, plain))
		},
		func() error {
			return mk(schedulers.ShuffleHotRegionType, schedule.ConfigSliceDecoder(schedulers.ShuffleHotRegionType, []string{"8"}))
		},
		func() error {
			return mk(schedulers.LabelType, schedule.ConfigSliceDecoder(schedulers.LabelType, plain))
		},
		func() error {
			end := ""
			if rng.Intn(2) == 0 {
				end = fmt.Sprintf("%20d", 1+nRegions/2+rng.Intn(nRegions/2+1))
			}
			return mk(schedulers.ScatterRangeType, schedule.ConfigSliceDecoder(schedulers.ScatterRangeType, []string{"", end, "t"}))
		},
	}
	for _, f := range steps {
		if err := f(); err != nil {
			return nil, err
		}
	}
	if cl.w.Evict != 0 {
		if err := mk(schedulers.EvictLeaderType, schedule.ConfigSliceDecoder(schedulers.EvictLeaderType, []string{fmt.Sprint(cl.w.Evict)})); err != nil {
			return nil, err
		}
	}
	if cl.w.Grant != 0 {
		if err := mk(schedulers.GrantLeaderType, schedule.ConfigSliceDecoder(schedulers.GrantLeaderType, []string{fmt.Sprint(cl.w.Grant)})); err != nil {
			return nil, err
		}
	}
	return out, nil
}

const (
	kb = 1024
)

// feedHot reports write / read flow for some regions the way the scheduler tests do (real HotCache).
func feedHot(rng *rand.Rand, cl *cluster, regions []*core.RegionInfo, pct int) int {
	type load struct{ wb, wk, rb, rk float64 }
	loads := map[uint64]*load{}
	for _, sd := range cl.w.Stores {
		loads[sd.ID] = &load{}
	}
	n := 0
	for _, r0 := range regions {
		if rng.Intn(100) >= pct {
			continue
		}
		r := cl.GetRegion(r0.GetID())
		if r == nil {
			continue
		}
		n++
		byteRate := float64((256 + rng.Intn(4096)) * kb)
		keyRate := float64(256 + rng.Intn(4096))
		if rng.Intn(2) == 0 {
			iv := uint64(statistics.WriteReportInterval)
			rr := r.Clone(core.SetWrittenBytes(uint64(byteRate)*iv), core.SetWrittenKeys(uint64(keyRate)*iv), core.SetReportInterval(iv))
			for i := 0; i < cl.HotCache.GetFilledPeriod(statistics.WriteFlow); i++ {
				for _, item := range cl.CheckRegionWrite(rr) {
					cl.HotCache.Update(item)
				}
			}
			cl.PutRegion(rr)
			for _, p := range rr.GetPeers() {
				loads[p.GetStoreId()].wb += byteRate
				loads[p.GetStoreId()].wk += keyRate
			}
		} else {
			iv := uint64(statistics.ReadReportInterval)
			rr := r.Clone(core.SetReadBytes(uint64(byteRate)*iv), core.SetReadKeys(uint64(keyRate)*iv), core.SetReportInterval(iv))
			for i := 0; i < cl.HotCache.GetFilledPeriod(statistics.ReadFlow); i++ {
				var items []*statistics.HotPeerStat
				if rng.Intn(2) == 0 {
					items = cl.CheckRegionRead(rr)
				} else {
					items = cl.CheckRegionLeaderRead(rr)
				}
				for _, item := range items {
					cl.HotCache.Update(item)
				}
			}
			cl.PutRegion(rr)
			l := loads[rr.GetLeader().GetStoreId()]
			l.rb += byteRate
			l.rk += keyRate
		}
	}
	iv := float64(statistics.StoreHeartBeatReportInterval)
	for id, l := range loads {
		cl.UpdateStorageWrittenStats(id, uint64((l.wb+64*kb)*iv), uint64((l.wk+16)*iv))
		cl.UpdateStorageReadStats(id, uint64((l.rb+64*kb)*iv), uint64((l.rk+16)*iv))
	}
	return n
}

func callSchedule(s schedule.Scheduler, cl *cluster) (ops []*operator.Operator, panicked interface{}) {
	defer func() {
		if p := recover(); p != nil {
			panicked = p
		}
	}()
	return s.Schedule(cl), nil
}

func drain(stream *hbstream.HeartbeatStreams) {
	for stream.VerifTryRecv() != nil {
	}
}

// schedWorld: one world, every built-in scheduler of the property created through schedule.CreateScheduler
// with the real OperatorController; calls are interleaved, operators are judged, some are executed on the
// world (the region moves), some are left running in the controller (their influence biases later calls).
func schedWorld(s *stats, rng *rand.Rand, nRegions, calls int, scale int) error {
	w := randomWorld(rng, scale)
	// admin schedulers that pause a store: only plain up stores, distinct (anything else is a contradictory setup)
	var plainUp []uint64
	for _, sd := range w.Stores {
		if w.plainUp(&sd) {
			plainUp = append(plainUp, sd.ID)
		}
	}
	rng.Shuffle(len(plainUp), func(i, j int) { plainUp[i], plainUp[j] = plainUp[j], plainUp[i] })
	if len(plainUp) >= 3 && rng.Intn(100) < 45 {
		w.Evict = plainUp[0]
	}
	if len(plainUp) >= 3 && rng.Intn(100) < 35 {
		w.Grant = plainUp[1]
	}
	cl, err := newCluster(w)
	if err != nil {
		return fmt.Errorf("cannot build cluster: %v (%+v)", err, w)
	}
	defer cl.close()
	switch rng.Intn(3) {
	case 0:
		cl.SetTolerantSizeRatio(1)
	case 1:
		cl.SetTolerantSizeRatio(2.5)
	}
	if rng.Intn(2) == 0 {
		cl.SetLeaderSchedulePolicy("size")
	}
	pBad := []int{0, 10, 25}[rng.Intn(3)]
	regions := randomRegions(rng, cl, nRegions, 1, pBad, 5)
	if len(regions) == 0 {
		s.count("sched_worlds_without_regions", 1)
		return nil
	}
	hot := feedHot(rng, cl, regions, []int{0, 15, 35}[rng.Intn(3)])
	cl.refreshStores()
	stream := hbstream.NewTestHeartbeatStreams(cl.ctx, cl.ID, cl, false)
	oc := schedule.NewOperatorController(cl.ctx, cl, stream)
	insts, err := createSchedulers(cl, oc, nRegions, rng)
	if err != nil {
		return err
	}
	cl.insts = insts
	s.count("sched_worlds", 1)
	countProps(s, w)
	s.count("sched_worlds_rules_"+w.Rules, 1)
	s.count("sched_hot_regions_fed", int64(hot))
	if w.Evict != 0 {
		s.count("sched_worlds_with_evict_leader", 1)
	}
	if w.Grant != 0 {
		s.count("sched_worlds_with_grant_leader", 1)
	}
	var calllog []string
	var running []*operator.Operator
	dynamic := rng.Intn(100) < 60
	if dynamic {
		s.count("sched_worlds_dynamic", 1)
	}
	if scale > 0 {
		s.count("sched_worlds_at_scale", 1)
		s.count("sched_stores_in_worlds_at_scale", int64(len(w.Stores)))
	}
	if rng.Intn(100) < 15 {
		cl.allocFailPct = 10
		s.count("sched_worlds_with_id_allocation_faults", 1)
	}
	defer func() { s.count("id_allocation_faults_injected", int64(cl.allocFaults)) }()
	for k := 0; k < calls; k++ {
		if dynamic && rng.Intn(100) < 5 {
			if rng.Intn(3) == 0 {
				evictHandlerChange(rng, s, cl, insts)
			} else {
				cl.mutate(rng, s, true)
			}
		}
		cl.disarm()
		if dynamic && rng.Intn(100) < 2 {
			// the coordinator-like owner stops and starts again: every scheduler is cleaned up and created anew from
			// the configuration it persisted (what coordinator.run does with storage.LoadAllScheduleConfig)
			reloaded, err := reloadSchedulers(cl, oc)
			if err != nil {
				s.report(&finding{Key: "scheduler-config-reload-fails", What: fmt.Sprintf("recreating the schedulers from their persisted configuration failed: %v", err), Size: len(w.Stores) * 1000,
					Witness: map[string]interface{}{"world": w.clone(), "error": err.Error()}})
				return nil
			}
			insts = reloaded
			w.note("schedulers stopped and recreated from their persisted configuration")
			s.count("lifecycle_scheduler_reloads", 1)
		}
		if dynamic && rng.Intn(100) < 4 {
			if rng.Intn(3) == 0 {
				cl.armMidCallRegionChange(rng, s, regions)
			} else {
				cl.armMidCallChange(rng, s)
			}
		}
		in := insts[rng.Intn(len(insts))]
		if !in.s.IsScheduleAllowed(cl) {
			s.count("sched_not_allowed_"+in.typ, 1)
			// limits are reached because of the operators this harness left running: finish them
			for _, op := range running {
				oc.RemoveOperator(op)
			}
			running = running[:0]
			continue
		}
		s.count("sched_calls_"+in.typ, 1)
		ops, panicked := callSchedule(in.s, cl)
		if panicked != nil {
			s.report(&finding{Key: "panic-in-schedule:" + in.typ, What: fmt.Sprintf("%s.Schedule panicked: %v", in.typ, panicked), Size: len(w.Stores) * 1000,
				Witness: map[string]interface{}{"world": w.clone(), "calls": append([]string(nil), calllog...), "panic": fmt.Sprint(panicked)}})
			continue
		}
		if len(ops) == 0 {
			s.count("sched_no_operator_"+in.typ, 1)
			continue
		}
		for _, op := range ops {
			origin := cl.GetRegion(op.RegionID())
			if origin == nil {
				s.report(&finding{Key: "operator-for-unknown-region:" + in.typ, What: fmt.Sprintf("%s returned an operator for region %d which the cluster does not know", in.typ, op.RegionID()), Size: 1,
					Witness: map[string]interface{}{"world": w.clone(), "operator": op.String()}})
				continue
			}
			s.count("sched_operators_"+in.typ, 1)
			n := len(calllog)
			from := 0
			if n > 25 {
				from = n - 25
			}
			c := &opCase{Src: in.typ, W: cl.judgeWorld(), Origin: origin, Op: op,
				Extra: map[string]interface{}{"earlier_calls_in_this_world": append([]string(nil), calllog[from:]...), "operators_running_in_controller": len(running)}}
			var v verdict
			if old := cl.regionBefore[op.RegionID()]; old != nil && cl.injected {
				// the region changed in the middle of this call: the operator may have been built for either version
				s.count("operators_for_a_region_changed_in_the_middle_of_the_call", 1)
				tmp := newStats()
				cOld := *c
				cOld.Origin = old
				if v = judgeOp(tmp, &cOld); v.Failed {
					v = judgeOp(s, c)
				} else {
					s.absorb(tmp)
				}
			} else {
				v = judgeOp(s, c)
			}
			if len(calllog) > 200 {
				calllog = append(calllog[:0], calllog[100:]...)
			}
			calllog = append(calllog, fmt.Sprintf("%s: %s -> %s", in.typ, sim.Layout(origin), op.Desc()))
			if !v.Judged || v.Failed || !v.Complete {
				continue
			}
			if len(s.samples) < 4 && op.Len() >= 3 && rng.Intn(8) == 0 {
				var ss []string
				for _, st := range sim.Steps(op) {
					ss = append(ss, st.String())
				}
				s.samples = append(s.samples, map[string]interface{}{"producer": in.typ, "world": w.class(), "region": sim.Layout(origin), "steps": ss, "final": v.Final.String()})
			}
			switch x := rng.Intn(100); {
			case x < 45:
				// the stores execute the operator; flow statistics stay with the region
				fin := v.Final.Info().Clone(core.SetWrittenBytes(origin.GetBytesWritten()), core.SetWrittenKeys(origin.GetKeysWritten()),
					core.SetReadBytes(origin.GetBytesRead()), core.SetReadKeys(origin.GetKeysRead()), core.SetApproximateKeys(origin.GetApproximateKeys()))
				if iv := origin.GetInterval(); iv != nil {
					fin = fin.Clone(core.WithInterval(iv))
				}
				cl.PutRegion(fin)
				for _, p := range origin.GetPeers() {
					cl.refreshStore(p.GetStoreId())
				}
				for _, p := range fin.GetPeers() {
					cl.refreshStore(p.GetStoreId())
				}
				s.count("sched_operators_applied_to_world", 1)
			case x < 70:
				if oc.AddOperator(op) {
					running = append(running, op)
					s.count("sched_operators_left_running_in_controller", 1)
				}
				drain(stream)
			}
		}
		if len(running) > 6 {
			for _, op := range running[:3] {
				oc.RemoveOperator(op)
			}
			running = append(running[:0], running[3:]...)
			drain(stream)
		}
	}
	for _, in := range insts {
		in.s.Cleanup(cl)
	}
	return nil
}

// evictHandlerChange adds a store to / removes a store from the running evict-leader scheduler through the
// scheduler's own HTTP handler (what `pd-ctl scheduler config evict-leader-scheduler add-store` does).
func evictHandlerChange(rng *rand.Rand, s *stats, cl *cluster, insts []*schedInst) {
	w := cl.w
	var ev schedule.Scheduler
	for _, in := range insts {
		if in.typ == schedulers.EvictLeaderType {
			ev = in.s
		}
	}
	if ev == nil {
		return
	}
	if len(w.EvictMore) > 0 && rng.Intn(2) == 0 {
		id := w.EvictMore[0]
		req := httptest.NewRequest("DELETE", fmt.Sprintf("/delete/%d", id), nil)
		rec := httptest.NewRecorder()
		ev.ServeHTTP(rec, req)
		if rec.Code != 200 {
			s.count("evict_handler_delete_refused", 1)
			return
		}
		w.EvictMore = w.EvictMore[1:]
		w.note("evict-leader: store %d removed through the handler", id)
		s.count("dynamic_evict_leader_stores_removed", 1)
		return
	}
	var cand []uint64
	for i := range w.Stores {
		sd := &w.Stores[i]
		if w.plainUp(sd) && !w.usedByAdminScheduler(sd.ID) {
			cand = append(cand, sd.ID)
		}
	}
	if len(cand) < 3 {
		return
	}
	id := cand[rng.Intn(len(cand))]
	req := httptest.NewRequest("POST", "/config", strings.NewReader(fmt.Sprintf(`{"store_id": %d}`, id)))
	rec := httptest.NewRecorder()
	ev.ServeHTTP(rec, req)
	if rec.Code != 200 {
		s.count("evict_handler_add_refused", 1)
		return
	}
	w.EvictMore = append(w.EvictMore, id)
	w.note("evict-leader: store %d added through the handler", id)
	s.count("dynamic_evict_leader_stores_added", 1)
}

// armMidCallRegionChange: at some cluster query inside the next Schedule call a region heartbeat arrives that
// moved the leader or a follower of one region (what a store does on its own or for another operator).
func (c *cluster) armMidCallRegionChange(rng *rand.Rand, s *stats, regions []*core.RegionInfo) {
	c.before = c.w.clone()
	c.regionBefore = map[uint64]*core.RegionInfo{}
	c.armInjection(1+rng.Intn(40), func() {
		for try := 0; try < 5; try++ {
			old := c.Cluster.GetRegion(regions[rng.Intn(len(regions))].GetID())
			if old == nil || old.GetLeader() == nil {
				continue
			}
			r := sim.FromInfo(old)
			if r.InJoint() {
				continue
			}
			changed := false
			if rng.Intn(2) == 0 {
				for _, p := range r.Peers {
					if sd := c.w.store(p.StoreId); p.StoreId != r.LeaderStore && p.Role == metapb.PeerRole_Voter && sd != nil && sd.isUp() {
						changed = r.ForceLeader(p.StoreId)
						break
					}
				}
			} else {
				var free []uint64
				for _, sd := range c.w.Stores {
					if sd.isUp() && sd.Engine == "" && r.Peer(sd.ID) == nil {
						free = append(free, sd.ID)
					}
				}
				for _, p := range r.Peers {
					if p.StoreId != r.LeaderStore && p.Role == metapb.PeerRole_Voter && len(free) > 0 {
						to := free[rng.Intn(len(free))]
						if r.AddVoter(to, c.allocPeerID()) == nil && r.Remove(p.StoreId, 0) == nil {
							changed = true
						}
						break
					}
				}
			}
			if !changed {
				continue
			}
			c.regionBefore[old.GetID()] = old
			c.PutRegion(r.Info().Clone(core.SetWrittenBytes(old.GetBytesWritten()), core.SetWrittenKeys(old.GetKeysWritten()),
				core.SetReadBytes(old.GetBytesRead()), core.SetReadKeys(old.GetKeysRead()), core.SetApproximateKeys(old.GetApproximateKeys())))
			c.refreshStores()
			s.count("dynamic_region_changes_in_the_middle_of_a_call", 1)
			return
		}
	})
}

// reloadSchedulers: Cleanup of every running scheduler, then one new scheduler per persisted configuration.
func reloadSchedulers(cl *cluster, oc *schedule.OperatorController) ([]*schedInst, error) {
	names, configs, err := cl.schedStorage.LoadAllScheduleConfig()
	if err != nil {
		return nil, err
	}
	for _, in := range cl.insts {
		in.s.Cleanup(cl)
	}
	var out []*schedInst
	for i, name := range names {
		typ := schedule.FindSchedulerTypeByName(name)
		if typ == "" {
			return nil, fmt.Errorf("no scheduler type for persisted name %q", name)
		}
		clusterMu.Lock()
		sch, err := schedule.CreateScheduler(typ, oc, cl.schedStorage, schedule.ConfigJSONDecoder([]byte(configs[i])))
		clusterMu.Unlock()
		if err != nil {
			return nil, fmt.Errorf("CreateScheduler(%s) from %q: %v", typ, configs[i], err)
		}
		if err := sch.Prepare(cl); err != nil {
			return nil, fmt.Errorf("%s.Prepare after reload: %v", typ, err)
		}
		out = append(out, &schedInst{typ: typ, s: sch})
	}
	if len(out) != len(cl.insts) {
		return nil, fmt.Errorf("%d schedulers were running, %d configurations were persisted (%v)", len(cl.insts), len(out), names)
	}
	cl.insts = out
	return out, nil
}
