package main

// Phase (b): a running, bootstrapped single-member server. Updates arrive through the HTTP API
// (api.NewHandler) and through the exported setters; every few updates the leader resigns,
// re-campaigns, reloads the configuration from storage, and the served configuration is compared
// with the one served before the resignation.

import (
	"bytes"
	"context"
	"encoding/json"
	"fmt"
	"net/http"
	"net/http/httptest"
	"os"
	"strings"
	"time"

	"github.com/pingcap/kvproto/pkg/metapb"
	"github.com/pingcap/kvproto/pkg/pdpb"
	"github.com/tikv/pd/server"
	"github.com/tikv/pd/server/api"
	"github.com/tikv/pd/server/config"
	"github.com/tikv/pd/server/core"
	"github.com/tikv/pd/server/kv"
	"verif/harness/lib/ev"
	"verif/harness/lib/kvx"
	"verif/harness/lib/srv"
)

type post struct {
	Path  string      `json:"path"`
	Body  interface{} `json:"body"`
	Class string      `json:"class"`
	site  string
	shape string
	out   bool
}

type running struct {
	*env
	h           http.Handler
	origStorage *core.Storage
	cancel      context.CancelFunc
	cfg         *config.Config
}

func startRunning(r *ev.Run) (*running, error) {
	cfgs := srv.NewConfigs(1, func(i int, c *config.Config) {
		c.PDServerCfg.UseRegionStorage = false // everything lives in the etcd-backed kv the harness wraps
		c.LeaderLease = 15                     // a starved process must not lose its leadership by itself
	})
	ctx, cancel := context.WithCancel(context.Background())
	s, err := server.CreateServer(ctx, cfgs[0], api.NewHandler)
	if err != nil {
		cancel()
		return nil, err
	}
	if err = s.Run(); err != nil {
		cancel()
		return nil, err
	}
	ru := &running{cancel: cancel, cfg: cfgs[0]}
	ru.env = &env{r: r, s: s, phase: "running", running: true, seen: map[string]bool{}, midWait: 2500 * time.Millisecond, blockedWait: 700 * time.Millisecond}
	if !ru.waitLeader(false) {
		ru.close()
		return nil, fmt.Errorf("no leader")
	}
	resp, err := s.Bootstrap(context.Background(), &pdpb.BootstrapRequest{
		Header: &pdpb.RequestHeader{ClusterId: s.ClusterID()},
		Store:  &metapb.Store{Id: 1, Address: "mock://tikv-1", Version: "4.0.0"},
		Region: &metapb.Region{Id: 2, RegionEpoch: &metapb.RegionEpoch{ConfVer: 1, Version: 1}, Peers: []*metapb.Peer{{Id: 3, StoreId: 1}}},
	})
	if err != nil || resp.GetHeader().GetError() != nil {
		ru.close()
		return nil, fmt.Errorf("bootstrap: %v %v", err, resp.GetHeader().GetError())
	}
	// same etcd prefix as the server's own storage, seen through the instrumented wrapper
	ru.kv = kvx.New(kv.NewEtcdKVBase(s.GetClient(), s.GetServerRootPath()))
	ru.store = core.NewStorage(ru.kv)
	ru.origStorage = s.GetStorage()
	s.SetStorage(ru.store)
	h, _, err := api.NewHandler(ctx, s)
	if err != nil {
		ru.close()
		return nil, err
	}
	ru.h = h
	return ru, nil
}

func (ru *running) close() {
	ru.cancel()
	ru.s.Close()
	os.RemoveAll(ru.cfg.DataDir)
}

// waitLeader waits (bounded) until the member is leader again (and the raft cluster runs, when
// the cluster is bootstrapped). Timing never enters a verdict: a timeout is inconclusive.
func (ru *running) waitLeader(needCluster bool) bool {
	deadline := time.Now().Add(60 * time.Second)
	for time.Now().Before(deadline) {
		if !ru.s.IsClosed() && ru.s.GetMember().IsLeader() && (!needCluster || ru.s.GetRaftCluster() != nil) {
			return true
		}
		time.Sleep(10 * time.Millisecond)
	}
	return false
}

func (ru *running) ready() bool {
	return !ru.s.IsClosed() && ru.s.GetMember().IsLeader() && ru.s.GetRaftCluster() != nil
}

// execUndisturbed executes st while this member is leader. A leader change that the harness did
// not ask for (lease lost by a starved process) replaces the served configuration by the stored
// one behind the request's back: such an execution is not judged (res == nil). ok=false: the
// member did not become leader again.
func (ru *running) execUndisturbed(st *step, mode kvx.FaultMode) (*result, bool) {
	if !ru.ready() {
		ru.r.Count("unplanned_leader_changes", 1)
		if !ru.waitLeader(true) {
			return nil, false
		}
	}
	res := ru.exec(st, mode)
	disturbed := !ru.ready()
	for _, x := range res.log {
		if x.Kind == "Load" && x.Key == configKey {
			disturbed = true // reloadConfigFromKV ran during the request
		}
	}
	if disturbed {
		ru.r.Count("skipped_leader_change_during_request", 1)
		ru.tainted = true
		if !ru.waitLeader(true) {
			return nil, false
		}
		return nil, true
	}
	return res, true
}

func (ru *running) httpStep(p *post) *step {
	return &step{Site: p.site, Shape: p.shape, Desc: p, Class: p.Path + " " + p.Class, Out: p.out,
		do: func() (bool, string) {
			b, _ := json.Marshal(p.Body)
			req := httptest.NewRequest("POST", "/pd/api/v1"+p.Path, bytes.NewReader(b))
			req.Header.Set("Content-Type", "application/json")
			rec := httptest.NewRecorder()
			ru.h.ServeHTTP(rec, req)
			ru.r.Count(fmt.Sprintf("http_status_%d", rec.Code), 1)
			return rec.Code == http.StatusOK, fmt.Sprintf("%d %s", rec.Code, clip(strings.TrimSpace(rec.Body.String())))
		}}
}

// syncDefaultRule keeps the default placement rule in line with the served replication section
// (pd refuses max-replicas/location-labels updates otherwise). A refused update may leave the
// rule behind; that is counted, repaired by the harness and not judged (rules belong to C13).
func (ru *running) syncDefaultRule() {
	rc := ru.s.GetRaftCluster()
	if rc == nil || !ru.s.GetPersistOptions().IsPlacementRulesEnabled() {
		return
	}
	rule := rc.GetRuleManager().GetRule("pd", "default")
	repl := ru.s.GetReplicationConfig()
	if rule == nil || repl.MaxReplicas == 0 || repl.MaxReplicas > 1000 {
		return
	}
	same := rule.Count == int(repl.MaxReplicas) && len(rule.LocationLabels) == len(repl.LocationLabels) &&
		(rule.LocationLabels == nil) == (repl.LocationLabels == nil)
	if same {
		for i := range rule.LocationLabels {
			same = same && rule.LocationLabels[i] == repl.LocationLabels[i]
		}
	}
	if same {
		return
	}
	ru.r.Count("default_rule_out_of_sync_repaired", 1)
	nr := *rule
	nr.Count = int(repl.MaxReplicas)
	nr.LocationLabels = []string(repl.LocationLabels)
	if err := rc.GetRuleManager().SetRule(&nr); err != nil {
		ru.r.Count("default_rule_repair_failed", 1)
	}
}

// resign makes the leader step down and waits for the re-campaign; it returns false when the
// server did not come back (inconclusive).
func (ru *running) resign() bool {
	ru.kv.ResetLog()
	ru.kv.ResetFaults()
	ru.s.GetMember().ResetLeader()
	// the old term must be over before the new one is awaited
	time.Sleep(150 * time.Millisecond)
	if !ru.waitLeader(true) {
		return false
	}
	loads := 0
	for _, x := range ru.kv.Log() {
		if x.Kind == "Load" && x.Key == configKey {
			loads++
		}
	}
	ru.r.Count("leader_changes", 1)
	ru.r.Count("config_reloads_seen_at_campaign", int64(loads))
	return loads > 0
}

func (ru *running) runPhase(g *gen, rounds, steps int) {
	r := ru.r
	g.running = true
	g.clientURL = ru.cfg.AdvertiseClientUrls
	// make sure a configuration is stored before anything is judged
	if err := ru.s.SetClusterVersion("4.0.0"); err != nil {
		r.Inconclusive("running phase: initial persist failed: %v", err)
		return
	}
	faults := []kvx.FaultMode{kvx.NoFault, kvx.NoFault, kvx.NoFault, kvx.NoFault, kvx.NoFault, kvx.NoFault, kvx.FailBefore, kvx.FailBefore, kvx.LostAck, kvx.LostAck}
	for round := 0; round < rounds; round++ {
		for i := 0; i < steps; i++ {
			ru.caseNo++
			var st *step
			if g.rng.Intn(100) < 65 {
				p := g.post(ru.s)
				st = ru.httpStep(p)
				r.Count("http_posts", 1)
				r.Count("http_"+p.Path, 1)
			} else {
				st = ru.directStep(g.next(ru.s))
				r.Count("setter_calls", 1)
			}
			if st.Out {
				r.Count("out_of_domain_inputs_offered", 1)
			}
			mode := faults[g.rng.Intn(len(faults))]
			if i == steps-1 {
				mode = kvx.NoFault
			}
			res, ok := ru.execUndisturbed(st, mode)
			if !ok {
				r.Inconclusive("running phase: leader did not come back after an unplanned leader change (case %d)", ru.caseNo)
				return
			}
			if res == nil {
				continue
			}
			ru.judge(st, res)
			if ru.caseNo%97 == 5 {
				r.Sample(map[string]interface{}{"phase": ru.env.phase, "case": ru.caseNo, "request": st.Desc, "site": st.Site, "result": res})
			}
			ru.syncDefaultRule()
			if rc := ru.s.GetRaftCluster(); rc != nil && len(rc.GetSchedulers()) > 0 {
				r.Inconclusive("running phase: coordinator started and rewrites the schedule section on its own (harness assumption broken)")
				return
			}
		}
		// leader resign -> re-campaign -> reloadConfigFromKV
		pre := servedSecs(ru.s)
		tainted := ru.tainted
		if !ru.resign() {
			r.Inconclusive("running phase: leader did not come back / no reload seen after resign (round %d)", round)
			return
		}
		post := servedSecs(ru.s)
		r.Eval(1)
		if tainted {
			r.Count("leader_change_comparisons_skipped_stored_ahead", 1)
		} else {
			r.Count("leader_change_comparisons", 1)
			if names, d := diff(normalised(pre), normalised(post)); len(names) > 0 {
				ru.violate(keyOf("served-config-changes-across-leader-change", strings.Join(names, "+")),
					"the configuration served after resign + re-campaign differs from the one served before, although every update since was either accepted or refused without a lost acknowledgement (before -> after): "+d,
					map[string]interface{}{"phase": ru.env.phase, "round": round, "seed": r.Seed, "shard": r.Shard, "served_before": pre, "served_after": post})
			}
		}
		ru.tainted = false
		ru.syncDefaultRule()
	}
	// directed requests (boundary values through the API; canonical witnesses of what the random
	// requests find on the replication-mode endpoint), after the random ones
	ru.env.phase = "running-directed"
	type dreq struct {
		p    *post
		mode kvx.FaultMode
	}
	rm := "POST /config/replication-mode"
	// a served scheduler entry with arguments, then refused lists that spell other arguments for it
	withArgs := func(arg string, bad bool) interface{} {
		var list config.SchedulerConfigs
		for _, sc := range ru.s.GetScheduleConfig().Schedulers {
			if sc.Type != "evict-leader" && isRegisteredType(sc.Type) {
				sc.Args = nil
				list = append(list, sc)
			}
		}
		list = append(config.SchedulerConfigs{{Type: "evict-leader", Args: []string{arg}}}, list...)
		if bad {
			list = append(list, config.SchedulerConfig{Type: "no-such-scheduler"})
		}
		return jsonOf(list)
	}
	for _, d := range []dreq{
		{&post{Path: "/config/schedule", Body: map[string]interface{}{"schedulers-v2": withArgs("1", false)}, Class: "schedulers-v2=in:entry-with-args", site: "POST /config/schedule"}, kvx.NoFault},
		{&post{Path: "/config/schedule", Body: map[string]interface{}{"schedulers-v2": withArgs("2", true)}, Class: "schedulers-v2=out:changed-args+unregistered-type", site: "POST /config/schedule", out: true}, kvx.NoFault},
		{&post{Path: "/config", Body: map[string]interface{}{"schedulers-v2": withArgs("3", true)}, Class: "schedulers-v2=out:changed-args+unregistered-type", site: "POST /config", out: true}, kvx.NoFault},
		{&post{Path: "/config/schedule", Body: map[string]interface{}{"schedulers-v2": withArgs("4", false)}, Class: "schedulers-v2=in:changed-args", site: "POST /config/schedule"}, kvx.FailBefore},
		{&post{Path: "/config/replication-mode", Body: map[string]interface{}{"replication-mode": "bogus"}, Class: "replication-mode=out:invalid", site: rm, out: true}, kvx.NoFault},
		{&post{Path: "/config/replication-mode", Body: map[string]interface{}{"dr-auto-sync": map[string]interface{}{"label-key": "dc"}}, Class: "dr-auto-sync.labels=in", site: rm}, kvx.FailBefore},
		{&post{Path: "/config/replication-mode", Body: map[string]interface{}{"dr-auto-sync": map[string]interface{}{"label-key": "host"}}, Class: "dr-auto-sync.labels=in", site: rm}, kvx.LostAck},
		{&post{Path: "/config/replication-mode", Body: map[string]interface{}{"dr-auto-sync": map[string]interface{}{"label-key": "zone"}}, Class: "dr-auto-sync.labels=in", site: rm}, kvx.NoFault},
		{&post{Path: "/config", Body: map[string]interface{}{"replication-mode.replication-mode": "bogus"}, Class: "replication-mode.replication-mode=out:invalid", site: "POST /config", out: true}, kvx.NoFault},
		{&post{Path: "/config", Body: map[string]interface{}{"low-space-ratio": ru.s.GetScheduleConfig().HighSpaceRatio}, Class: "low-space-ratio=out:equal-to-current-high", site: "POST /config", out: true}, kvx.NoFault},
		{&post{Path: "/config", Body: map[string]interface{}{"schedule.tolerant-size-ratio": -1e-9}, Class: "tolerant-size-ratio=out:-eps", site: "POST /config", out: true}, kvx.NoFault},
		{&post{Path: "/config", Body: map[string]interface{}{"flow-round-by-digit": -1}, Class: "flow-round-by-digit=out:-1", site: "POST /config", out: true}, kvx.NoFault},
		{&post{Path: "/config", Body: map[string]interface{}{"isolation-level": "not-a-label"}, Class: "isolation-level=out:not-a-location-label", site: "POST /config", out: true}, kvx.NoFault},
		{&post{Path: "/config", Body: map[string]interface{}{"cluster-version": "abc"}, Class: "cluster-version=out:unparsable", site: "POST /config", out: true}, kvx.NoFault},
		{&post{Path: "/config", Body: map[string]interface{}{"max-replicas": 5}, Class: "max-replicas=in", site: "POST /config"}, kvx.FailBefore},
		{&post{Path: "/config", Body: map[string]interface{}{"max-replicas": 5}, Class: "max-replicas=in", site: "POST /config"}, kvx.NoFault},
		// an accepted "store-limit": null and then the raft cluster's own store-limit update
		{&post{Path: "/config/schedule", Body: map[string]interface{}{"store-limit": nil}, Class: "store-limit=in:null", site: "POST /config/schedule"}, kvx.NoFault},
		{&post{Path: "/store/1/limit", Body: map[string]interface{}{"type": "add-peer", "rate": 15}, Class: "add-peer after store-limit=null", site: "POST /store/{id}/limit", shape: "served-store-limit-is-null"}, kvx.NoFault},
		{&post{Path: "/config/schedule", Body: map[string]interface{}{"store-limit": map[string]interface{}{}}, Class: "store-limit=in:empty", site: "POST /config/schedule"}, kvx.NoFault},
	} {
		ru.caseNo++
		st := ru.httpStep(d.p)
		res, ok := ru.execUndisturbed(st, d.mode)
		if !ok {
			r.Inconclusive("running phase: leader did not come back after an unplanned leader change (case %d)", ru.caseNo)
			return
		}
		if res == nil {
			r.Count("directed_http_requests_skipped", 1)
			continue
		}
		ru.judge(st, res)
		ru.syncDefaultRule()
		r.Count("directed_http_requests", 1)
	}
}

// ---- HTTP request generator ----

func (g *gen) post(s *server.Server) *post {
	switch x := g.rng.Intn(100); {
	case x < 45:
		return g.postConfig(s)
	case x < 57:
		k, v, cl, out := g.scheduleKV(s)
		body := map[string]interface{}{k: v}
		if g.rng.Intn(4) == 0 {
			k2, v2, cl2, out2 := g.scheduleKV(s)
			body[k2] = v2
			cl, out = cl+"+"+k2+"="+cl2, out || out2
		}
		return &post{Path: "/config/schedule", Body: body, Class: k + "=" + cl, site: "POST /config/schedule", out: out}
	case x < 67:
		k, v, cl, out := g.replicationKV(s)
		return &post{Path: "/config/replicate", Body: map[string]interface{}{k: v}, Class: k + "=" + cl, site: "POST /config/replicate", out: out}
	case x < 77:
		return g.postReplicationMode(s)
	case x < 90:
		return g.postLabel(s)
	default:
		p := &post{Path: "/config/cluster-version", site: "POST /config/cluster-version"}
		switch g.rng.Intn(6) {
		case 0, 1:
			p.Body, p.Class, p.out = map[string]interface{}{"cluster-version": g.pick(badVersions)}, "cluster-version=out:unparsable", true
		case 2:
			p.Body, p.Class = map[string]interface{}{}, "cluster-version=edge:missing"
		default:
			p.Body, p.Class = map[string]interface{}{"cluster-version": g.pick(goodVersions)}, "cluster-version=in"
		}
		return p
	}
}

func (g *gen) postConfig(s *server.Server) *post {
	p := &post{Path: "/config", site: "POST /config"}
	var k, cl, prefix string
	var v interface{}
	switch x := g.rng.Intn(100); {
	case x < 38:
		k, v, cl, p.out = g.scheduleKV(s)
		prefix = "schedule."
	case x < 58:
		k, v, cl, p.out = g.replicationKV(s)
		prefix = "replication."
	case x < 72:
		k, v, cl, p.out = g.pdServerKV(s)
		prefix = "pd-server."
	case x < 86:
		k, v, cl, p.out = g.replicationModeKV()
		prefix = "replication-mode."
		p.Body = map[string]interface{}{prefix + k: v}
		p.Class = prefix + k + "=" + cl
		return p
	case x < 94:
		switch g.rng.Intn(5) {
		case 0, 1:
			k, v, cl, p.out = "cluster-version", g.pick(badVersions), "out:unparsable", true
		case 2:
			k, v, cl = "cluster-version", 5, "edge:not-a-string"
		default:
			k, v, cl = "cluster-version", g.pick(goodVersions), "in"
		}
	default:
		k = g.pick([]string{"no-such-item", "schedule.no-such-item", "label-property", "replication-mode", "replication.", "pd-server.use-region"})
		v, cl = 1, "edge:unknown-item"
	}
	if prefix != "" && g.rng.Intn(2) == 0 {
		k = prefix + k
	}
	p.Body = map[string]interface{}{k: v}
	p.Class = k + "=" + cl
	return p
}

func jsonOf(v interface{}) interface{} { return decode(v) }

func (g *gen) scheduleKV(s *server.Server) (string, interface{}, string, bool) {
	cur := s.GetScheduleConfig()
	switch g.rng.Intn(13) {
	case 0, 1:
		switch g.rng.Intn(7) {
		case 0:
			if cur.HighSpaceRatio+0.05 <= 1 {
				return "low-space-ratio", cur.HighSpaceRatio + 0.05, "in", false
			}
			return "low-space-ratio", 1, "out:not-above-current-high", true
		case 1:
			if cur.HighSpaceRatio < 1 {
				return "low-space-ratio", 1, "in:1", false
			}
			return "low-space-ratio", 1, "out:equal-to-current-high", true
		case 2, 3:
			return "low-space-ratio", cur.HighSpaceRatio, "out:equal-to-current-high", true
		case 4:
			return "low-space-ratio", -1e-9, "out:-eps", true
		case 5:
			return "low-space-ratio", 1.000000001, "out:1+eps", true
		default:
			return "low-space-ratio", cur.HighSpaceRatio / 2, "out:below-current-high", true
		}
	case 2, 3:
		switch g.rng.Intn(6) {
		case 0:
			if cur.LowSpaceRatio > 0 {
				return "high-space-ratio", 0, "in:0", false
			}
			return "high-space-ratio", 0, "out:equal-to-current-low", true
		case 1:
			if cur.LowSpaceRatio-0.05 >= 0 {
				return "high-space-ratio", cur.LowSpaceRatio - 0.05, "in", false
			}
			return "high-space-ratio", -0.05, "out:-", true
		case 2, 3:
			return "high-space-ratio", cur.LowSpaceRatio, "out:equal-to-current-low", true
		case 4:
			return "high-space-ratio", 1.000000001, "out:1+eps", true
		default:
			return "high-space-ratio", -1e-9, "out:-eps", true
		}
	case 4:
		switch g.rng.Intn(4) {
		case 0:
			return "tolerant-size-ratio", 0, "in:0", false
		case 1:
			return "tolerant-size-ratio", 2.5, "in", false
		case 2:
			return "tolerant-size-ratio", -1e-9, "out:-eps", true
		default:
			return "tolerant-size-ratio", -3, "out:-3", true
		}
	case 5:
		k := g.pick([]string{"max-snapshot-count", "leader-schedule-limit", "max-merge-region-keys", "hot-region-cache-hits-threshold", "scheduler-max-waiting-operator"})
		switch g.rng.Intn(5) {
		case 0:
			return k, 0, "in:0", false
		case 1:
			return k, -1, "edge:negative-for-unsigned", false
		case 2:
			return k, "abc", "edge:not-a-number", false
		default:
			return k, g.rng.Intn(100000), "in", false
		}
	case 6:
		k := g.pick([]string{"enable-one-way-merge", "enable-cross-table-merge", "enable-make-up-replica", "enable-debug-metrics", "enable-joint-consensus", "enable-location-replacement"})
		switch g.rng.Intn(4) {
		case 0:
			return k, true, "edge:unquoted-bool", false
		default:
			return k, g.pick([]string{"true", "false"}), "in", false
		}
	case 7:
		k := g.pick([]string{"max-store-down-time", "split-merge-interval", "patrol-region-interval"})
		switch g.rng.Intn(4) {
		case 0:
			return k, "bogus", "edge:unparsable-duration", false
		default:
			return k, g.pick([]string{"1h", "10m0s", "0s", "250ms"}), "in", false
		}
	case 8, 9, 10:
		list := append(config.SchedulerConfigs(nil), cur.Schedulers...)
		switch g.rng.Intn(6) {
		case 0, 1:
			sc := config.SchedulerConfig{Type: g.pick(registeredSchedulerTypes)}
			if g.rng.Intn(2) == 0 {
				sc.Args = []string{fmt.Sprint(1 + g.rng.Intn(3))}
			}
			return "schedulers-v2", jsonOf(append(list, sc)), "in:append-registered", false
		case 2:
			return "schedulers-v2", jsonOf(append(list, config.SchedulerConfig{Type: g.pick(badSchedulerTypes)})), "out:unregistered-type", true
		case 3:
			// every entry gets other args and the list ends with an unregistered type
			for i := range list {
				list[i].Args = []string{fmt.Sprint(7 + g.rng.Intn(3))}
			}
			return "schedulers-v2", jsonOf(append(list, config.SchedulerConfig{Type: g.pick(badSchedulerTypes)})), "out:changed-args+unregistered-type", true
		case 4:
			if len(list) > 0 {
				i := g.rng.Intn(len(list))
				list[i].Disable = !list[i].Disable
			}
			return "schedulers-v2", jsonOf(list), "in:toggle-disable", false
		default:
			if len(list) > 0 {
				i := g.rng.Intn(len(list))
				list = append(list[:i:i], list[i+1:]...)
			}
			return "schedulers-v2", jsonOf(list), "in:remove-one", false
		}
	case 11:
		if g.rng.Intn(2) == 0 {
			return "store-limit-mode", g.pick([]string{"auto", "manual"}), "in", false
		}
		return "leader-schedule-policy", g.pick([]string{"count", "size"}), "in", false
	default:
		if g.rng.Intn(2) == 0 {
			return g.pick([]string{"disable-raft-learner", "disable-make-up-replica", "disable-location-replacement"}), "true", "out:deprecated", true
		}
		return "store-balance-rate", 10, "out:deprecated", true
	}
}

func (g *gen) replicationKV(s *server.Server) (string, interface{}, string, bool) {
	cur := s.GetReplicationConfig()
	switch g.rng.Intn(8) {
	case 0, 1:
		return "max-replicas", []int{1, 3, 5, 2}[g.rng.Intn(4)], "in", false
	case 2:
		return "max-replicas", 0, "in:0", false
	case 3, 4:
		k := g.rng.Intn(4)
		perm := g.rng.Perm(len(goodLabels))
		var l []string
		for i := 0; i < k; i++ {
			l = append(l, goodLabels[perm[i]])
		}
		if cur.IsolationLevel == "" || inList(l, cur.IsolationLevel) {
			return "location-labels", strings.Join(l, ","), fmt.Sprintf("in:%d", k), false
		}
		return "location-labels", strings.Join(l, ","), "out:drops-isolation-level", true
	case 5:
		if len(cur.LocationLabels) > 0 && g.rng.Intn(3) != 0 {
			return "isolation-level", cur.LocationLabels[g.rng.Intn(len(cur.LocationLabels))], "in", false
		}
		if g.rng.Intn(2) == 0 {
			return "isolation-level", "", "in:empty", false
		}
		return "isolation-level", "not-a-label", "out:not-a-location-label", true
	case 6:
		return "strictly-match-label", g.pick([]string{"true", "false"}), "in", false
	default:
		return "enable-placement-rules", g.pick([]string{"true", "false"}), "in", false
	}
}

func (g *gen) pdServerKV(s *server.Server) (string, interface{}, string, bool) {
	switch g.rng.Intn(7) {
	case 0:
		return "flow-round-by-digit", []int{0, 1, 5, 127}[g.rng.Intn(4)], "in", false
	case 1, 2:
		return "flow-round-by-digit", -1, "out:-1", true
	case 3:
		return "key-type", g.pick([]string{"table", "raw", "txn"}), "in", false
	case 4:
		return "metric-storage", g.pick([]string{"", "http://127.0.0.1:9090"}), "in", false
	case 5:
		switch g.rng.Intn(4) {
		case 0:
			return "dashboard-address", g.clientURL, "in:member-url", false
		case 1:
			return "dashboard-address", "http://127.0.0.1:9", "edge:not-a-member", false
		default:
			return "dashboard-address", g.pick([]string{"auto", "none"}), "in", false
		}
	default:
		return "max-gap-reset-ts", g.pick([]string{"24h", "1h30m", "0s"}), "in", false
	}
}

func (g *gen) replicationModeKV() (string, interface{}, string, bool) {
	switch g.rng.Intn(8) {
	case 0, 1:
		return "replication-mode", g.pick(validModes), "in", false
	case 2, 3:
		return "replication-mode", g.pick(invalidModes), "out:invalid", true
	case 4:
		return "replication-mode", g.pick(ambiguousModes), "edge:variant-spelling", false
	case 5:
		return "dr-auto-sync.label-key", g.pick([]string{"zone", "dc", ""}), "in", false
	case 6:
		return "dr-auto-sync.primary-replicas", g.rng.Intn(4), "in", false
	default:
		return "dr-auto-sync.wait-store-timeout", g.pick([]string{"30s", "2m", "bogus"}), "in-or-unparsable", false
	}
}

func (g *gen) postReplicationMode(s *server.Server) *post {
	p := &post{Path: "/config/replication-mode", site: "POST /config/replication-mode"}
	switch g.rng.Intn(8) {
	case 0, 1:
		p.Body, p.Class = map[string]interface{}{"replication-mode": g.pick(validModes)}, "replication-mode=in"
	case 2, 3:
		p.Body, p.Class, p.out = map[string]interface{}{"replication-mode": g.pick(invalidModes)}, "replication-mode=out:invalid", true
	case 4:
		p.Body, p.Class = map[string]interface{}{"replication-mode": g.pick(ambiguousModes)}, "replication-mode=edge:variant-spelling"
	case 5:
		p.Body, p.Class = map[string]interface{}{"dr-auto-sync": map[string]interface{}{"label-key": g.pick([]string{"zone", "dc"}), "primary": "z1", "dr": "z2"}}, "dr-auto-sync.labels=in"
	case 6:
		p.Body, p.Class = map[string]interface{}{"dr-auto-sync": map[string]interface{}{"primary-replicas": g.rng.Intn(4), "dr-replicas": g.rng.Intn(3)}}, "dr-auto-sync.replicas=in"
	default:
		p.Body, p.Class, p.out = map[string]interface{}{"replication-mode": g.pick(invalidModes), "dr-auto-sync": map[string]interface{}{"label-key": "rack"}}, "replication-mode=out:invalid+labels", true
	}
	return p
}

func (g *gen) postLabel(s *server.Server) *post {
	t, k, v := g.label()
	cur := s.GetLabelProperty()
	p := &post{Path: "/config/label-property"}
	action := "set"
	switch g.rng.Intn(10) {
	case 0:
		action = "bogus"
	case 1, 2, 3, 4:
		action = "delete"
	}
	p.Body = map[string]interface{}{"type": t, "action": action, "label-key": k, "label-value": v}
	present := hasLabel(cur, t, k, v)
	// the handler hands its three strings straight to the setter: the call site is the setter
	switch action {
	case "set":
		p.site, p.shape = "SetLabelProperty", "new-label"
		if present {
			p.shape = "duplicate-label"
		}
	case "delete":
		p.site, p.shape = "DeleteLabelProperty", "absent-label"
		if present {
			p.shape = "present-label"
		}
	default:
		p.site = "POST /config/label-property"
	}
	p.Class = "action=" + action + ":" + p.shape
	return p
}
